import GaleneVerif.Lemmas.Loss16
import GaleneVerif.Lemmas.LossBits
import GaleneVerif.Lemmas.LossBitmap
import GaleneVerif.Lemmas.LossCounters
/-
C06 — loss accounting: the server never NACKs a packet it has received nor one at or
beyond the newest it tracks, each missing packet is named at most once per epoch, and
the reception statistics reported upstream are self-consistent.

Model: `GaleneVerif/Model/LossStats.lean` (packetcache bitmap/counters, the NACK decision
of `readLoop`, the report arithmetic of `sendUpRTCP`).  uint16/uint32 are `Nat` with
explicit wrap; all theorems are for every input and every history (induction over op
lists with explicit ghost state).  Concurrency: every `Cache` method holds `cache.mu`
for its whole body, so concurrent histories are sequential ones.

Sections:  §1 read-loop decision (`C06_readloop_bounds`, `C06_readloop_next_range`), §2 report
arithmetic (`C06_report_bounds`, `C06_report_fraction`), §3 counters (`C06_stats_inv`,
`C06_eseqno_mono`), §4 `ToBitmap` (`C06_toBitmap`), §5 `bitmap.get` at function level
(`C06_get_state`, `C06_nack_sound`, `C06_nack_complete`), §6 the bitmap invariant over all
histories with a ghost epoch (`C06_set_first_mono`, `C06_bitmap_inv`, `BInv.nack_fresh`,
`C06_named_once`), §7 steady stream with one loss (`C06_steady_loss_nacked_partial`), §7b
end-to-end corollaries (`C06_nack_never_received`, `C06_nack_before_newest`), §8 proved
counterexamples for the hypotheses that cannot be dropped (`C06_converse_needs_bound`,
`C06_named_once_needs_bound`) and non-vacuity examples.

Assumptions made explicit in the statements: seqnos are uint16 (`BOp.valid`, `SOp.valid`); for
§3 the uint32 counters and the uint16 `cycle` do not wrap (`expSum < 2^32`, `wrapSum < 2^16`, both
computed in unbounded arithmetic from the history alone); for the *seqno-level* readings of §6 the
epoch has advanced less than one 16-bit circle (the position-level statements need no bound).
-/
set_option linter.unusedVariables false
namespace Galene.Props.C06
open Galene.Loss Galene.Lemmas.Loss16 Galene.Lemmas.LossBits Galene.Lemmas.LossBitmap
  Galene.Lemmas.LossCounters

/-! ## §1 The read loop's NACK decision -/

/-- the read loop's lateness threshold: `rate/50` clamped to `[2,24]` -/
def nackPackets (rate : Nat) : Nat := max 2 (min 24 (rate / 50))
/-- how many of the newest packets the read loop never asks about: `min 4 packets` -/
def nackUnnacked (rate : Nat) : Nat := min 4 (nackPackets rate)
/-- `seqno - first` with the sign bit clamped to 0 -/
def nackDelta (seqno first : Nat) : Nat := if sub16 seqno first ≥ 32768 then 0 else sub16 seqno first

theorem readLoopNackArg_eq (seqno first rate : Nat) :
    readLoopNackArg seqno first rate =
      if nackDelta seqno first > nackPackets rate then some (sub16 seqno (nackUnnacked rate)) else none := by
  have hp : (if (if rate / 50 > 24 then 24 else rate / 50) < 2 then 2 else if rate / 50 > 24 then 24 else rate / 50)
      = nackPackets rate := by
    unfold nackPackets; split <;> split <;> omega
  have hu : (if 4 > nackPackets rate then nackPackets rate else 4) = nackUnnacked rate := by
    unfold nackUnnacked; split <;> omega
  unfold readLoopNackArg
  simp only [hp, hu, nackDelta]
  split <;> rfl

theorem nackPackets_bounds (rate : Nat) :
    2 ≤ nackUnnacked rate ∧ nackUnnacked rate ≤ 4 ∧ 2 ≤ nackPackets rate ∧ nackPackets rate ≤ 24 ∧
    nackUnnacked rate ≤ nackPackets rate := by
  unfold nackUnnacked nackPackets; omega

/-- **Read-loop bounds.**  When the read loop decides to call `BitmapGet(next)` after storing
`seqno` (with `first` the bitmap's first seqno returned by `Store`), then `next = seqno - u`
with `2 ≤ u ≤ 4` (`u = min 4 packets`, `packets = clamp(rate/50, 2, 24)`), and the decision fires
only because the clamped distance `seqno - first` exceeds `packets`. -/
theorem C06_readloop_bounds (seqno first rate next : Nat)
    (h : readLoopNackArg seqno first rate = some next) :
    2 ≤ nackUnnacked rate ∧ nackUnnacked rate ≤ 4 ∧
    2 ≤ nackPackets rate ∧ nackPackets rate ≤ 24 ∧ nackUnnacked rate ≤ nackPackets rate ∧
    next = sub16 seqno (nackUnnacked rate) ∧
    sub16 seqno first < 32768 ∧ nackPackets rate < sub16 seqno first := by
  obtain ⟨b1, b2, b3, b4, b5⟩ := nackPackets_bounds rate
  rw [readLoopNackArg_eq] at h
  split at h
  · rename_i hd
    injection h with h
    unfold nackDelta at hd
    refine ⟨b1, b2, b3, b4, b5, h.symm, ?_, ?_⟩ <;> split at hd <;> omega
  · cases h

/-- Consequence in modular terms: `next` is 2..4 packets strictly before the packet just stored
(never at or beyond the newest), and still strictly after the bitmap's `first`, at distance
`(seqno - first) - u ≥ 1`. -/
theorem C06_readloop_next_range (seqno first rate next : Nat) (hs : seqno < 65536) (hf : first < 65536)
    (h : readLoopNackArg seqno first rate = some next) :
    next < 65536 ∧ 2 ≤ sub16 seqno next ∧ sub16 seqno next ≤ 4 ∧
    sub16 next first = sub16 seqno first - nackUnnacked rate ∧
    1 ≤ sub16 next first ∧ sub16 next first < sub16 seqno first ∧ Loss.compare first next < 0 := by
  obtain ⟨h1, h2, h3, h4, h5, h6, h7, h8⟩ := C06_readloop_bounds seqno first rate next h
  have hn : next < 65536 := by rw [h6]; exact sub16_lt _ _
  have e : sub16 next first = sub16 seqno first - nackUnnacked rate := by
    rw [h6]; unfold sub16 at *; omega
  refine ⟨hn, ?_, ?_, e, by omega, by omega, ?_⟩
  · rw [h6]; unfold sub16; omega
  · rw [h6]; unfold sub16; omega
  · rw [compare_lt_iff' _ _ hf hn]; omega

/-! ## §2 Receiver-report arithmetic -/

/-- **Report bounds.**  The loss fraction put in a receiver report is always in `0..255`, and the
cumulative loss is `totalExpected - totalReceived`; when the statistics are self-consistent
(`totalReceived ≤ totalExpected`, which `C06_stats_inv` guarantees) this means
`totalLost + totalReceived = totalExpected` with no truncation. -/
theorem C06_report_bounds (s : StatsOut) :
    (reportLoss s).2 ≤ 255 ∧
    (s.received ≤ s.expected → s.totalReceived ≤ s.totalExpected →
      (reportLoss s).1 = s.totalExpected - s.totalReceived ∧
      (reportLoss s).1 + s.totalReceived = s.totalExpected) := by
  unfold reportLoss
  simp only
  constructor
  · split
    · split <;> omega
    · omega
  · intro _ h2
    split <;> omega

/-- When the statistics are self-consistent and fewer than 2^24 packets were lost in the interval
(so that the uint32 product `lost * 256` does not wrap), the reported fraction is exactly
`min 255 (lost * 256 / expected)`; in particular it is 0 when nothing was lost.  (With 2^24 or more
losses in one interval the product wraps and the fraction is wrong though still `≤ 255`; see the
example in §8.) -/
theorem C06_report_fraction (s : StatsOut) (h : s.received ≤ s.expected)
    (hl : s.expected - s.received < 16777216) :
    (reportLoss s).2 = min 255 ((s.expected - s.received) * 256 / s.expected) := by
  unfold reportLoss
  simp only
  split
  · have e : (s.expected - s.received) * 256 % 4294967296 = (s.expected - s.received) * 256 := by omega
    rw [e]; split <;> omega
  · have e : s.expected - s.received = 0 := by omega
    rw [e]; simp

/-! ## §3 Counters: `Store` / `Expect` / `GetStats` -/

inductive SOp where
  | store (seqno : Nat) (kf : Bool)
  | expect (n : Int)
  | getStats (reset : Bool)

/-- the ops quantified over: any `Expect(n)`, any `GetStats`, `Store` of a uint16 seqno -/
def SOp.valid : SOp → Prop
  | .store s _ => s < 65536
  | _ => True

def sstep (c : Stats) : SOp → Stats × Option StatsOut
  | .store s kf => ((c.store s kf).1, none)
  | .expect n => (c.expect n, none)
  | .getStats r => ((c.getStats r).1, some (c.getStats r).2)

/-- run a history; returns the final state and the `GetStats` results in order -/
def srun : Stats → List SOp → Stats × List StatsOut
  | c, [] => (c, [])
  | c, op :: ops => ((srun (sstep c op).1 ops).1, (sstep c op).2.toList ++ (srun (sstep c op).1 ops).2)

/-- number of packets the op adds to `expected`, in unbounded arithmetic: 1 for the first packet
or after a backward jump, the forward seqno gap for a packet ahead of `last`, 0 for late/duplicate
packets, `max n 0` for `Expect(n)`.  Depends only on `last`/`lastValid`, never on the counters. -/
def expInc (c : Stats) : SOp → Nat
  | .store s _ => storeExpInc c s
  | .expect n => n.toNat
  | .getStats _ => 0

/-- total number of packets ever expected along a history, in unbounded arithmetic -/
def expSum : Stats → List SOp → Nat
  | _, [] => 0
  | c, op :: ops => expInc c op + expSum (sstep c op).1 ops

/-- 1 if the op makes the 16-bit seqno roll over (increments `cycle`) -/
def wrapInc (c : Stats) : SOp → Nat
  | .store s _ => storeWrapInc c s
  | _ => 0

/-- number of seqno roll-overs along a history -/
def wrapSum : Stats → List SOp → Nat
  | _, [] => 0
  | c, op :: ops => wrapInc c op + wrapSum (sstep c op).1 ops

/-- the op is a `store` that takes the `seqnoInvalid` branch on a valid `last`
(the stream jumped backwards by more than 256 packets) -/
def isJump (c : Stats) : SOp → Bool
  | .store s _ => storeJump c s
  | _ => false

/-- no op of the history is a backward jump -/
def noJump : Stats → List SOp → Prop
  | _, [] => True
  | c, op :: ops => isJump c op = false ∧ noJump (sstep c op).1 ops

/-- a `store` is a jump exactly when `last` is valid and the seqno is more than 256 (and at most
32768) behind it -/
theorem isJump_iff (c : Stats) (s : Nat) (kf : Bool) (hs : s < 65536) (hl : c.last < 65536) :
    isJump c (.store s kf) = true ↔
      c.lastValid = true ∧ 256 < sub16 c.last s ∧ sub16 c.last s ≤ 32768 := by
  simp only [isJump, storeJump, Bool.and_eq_true, seqnoInvalid_iff s c.last hs hl]

/-- invariant of the counters -/
structure SInv (c : Stats) : Prop where
  recv_le : c.received ≤ c.expected
  total_le : c.totalReceived ≤ c.totalExpected
  last_lt : c.last < 65536
  nowrap : c.totalExpected + c.expected < 4294967296
  last_zero : c.lastValid = false → c.last = 0

theorem sstep_inv (c : Stats) (op : SOp) (hv : op.valid) (h : SInv c)
    (hE : c.totalExpected + c.expected + expInc c op < 4294967296) :
    SInv (sstep c op).1 ∧
    (sstep c op).1.totalExpected + (sstep c op).1.expected = c.totalExpected + c.expected + expInc c op ∧
    (∀ o, (sstep c op).2 = some o →
      o.received ≤ o.expected ∧ o.totalReceived ≤ o.totalExpected ∧ o.eseqno = eseq c) := by
  obtain ⟨h1, h2, h3, h4, h5⟩ := h
  cases op with
  | store s kf =>
    have hs : s < 65536 := hv
    obtain ⟨e1, e2, e3, e4, e5, e6, e7⟩ := store_fields c s kf
    obtain ⟨f1, f2, f3, f4, f6, f7⟩ := store1_counters c s hv h3
    simp only [sstep, expInc] at hE ⊢
    generalize storeExpInc c s = inc at *
    simp only [add32] at f3 f4
    have hexp : (store1 c s).expected = c.expected + inc := by
      rw [f3]; split <;> omega
    refine ⟨⟨?_, ?_, ?_, ?_, ?_⟩, ?_, ?_⟩
    · rw [e3, e4]; rcases f4 with f4 | ⟨f4, f4'⟩ <;> omega
    · rw [e1, e2]; omega
    · rw [e6]; rcases f6 with f6 | f6 <;> omega
    · rw [e1, e3]; omega
    · intro hq; rw [e7, f7] at hq; cases hq
    · rw [e1, e3]; omega
    · intro o ho; cases ho
  | expect n =>
    simp only [sstep, Stats.expect, expInc] at *
    split
    · rename_i hn
      have : n.toNat = 0 := by omega
      exact ⟨⟨h1, h2, h3, h4, h5⟩, by omega, by intro o ho; cases ho⟩
    · simp only [add32]
      refine ⟨⟨?_, h2, h3, ?_, h5⟩, ?_, by intro o ho; cases ho⟩ <;> (try dsimp only) <;> omega
  | getStats r =>
    simp only [sstep, expInc, getStats_out, getStats_state, add32] at *
    refine ⟨?_, ?_, ?_⟩
    · cases r
      · exact ⟨h1, h2, h3, h4, h5⟩
      · refine ⟨?_, ?_, h3, ?_, h5⟩ <;> simp only [if_true] <;> omega
    · cases r
      · rfl
      · simp only [if_true]; omega
    · intro o ho
      injection ho with ho
      subst ho
      simp only [eseq]
      refine ⟨h1, ?_, trivial⟩
      omega

/-- the initial (zero) state satisfies the invariant -/
theorem SInv_init : SInv {} := ⟨by decide, by decide, by decide, by decide, fun _ => rfl⟩

/-- the only ops that touch the loss bitmap are `Store` (through `bitmap.set`) — and, outside this
op set, `BitmapGet`; so the bitmap histories of §6 cover everything the cache does to its bitmap -/
theorem sstep_bitmap (c : Stats) (op : SOp) :
    (sstep c op).1.bitmap = match op with
      | .store s _ => c.bitmap.set s
      | _ => c.bitmap := by
  cases op with
  | store s kf => exact (store_bitmap c s kf).1
  | expect n => simp only [sstep, Stats.expect]; split <;> rfl
  | getStats r => simp only [sstep, getStats_state]; cases r <;> rfl

theorem srun_append (c : Stats) (ops ops' : List SOp) :
    srun c (ops ++ ops') = ((srun (srun c ops).1 ops').1, (srun c ops).2 ++ (srun (srun c ops).1 ops').2) := by
  induction ops generalizing c with
  | nil => simp [srun]
  | cons op ops ih => simp only [List.cons_append, srun, ih, List.append_assoc]

theorem expSum_append (c : Stats) (ops ops' : List SOp) :
    expSum c (ops ++ ops') = expSum c ops + expSum (srun c ops).1 ops' := by
  induction ops generalizing c with
  | nil => simp [expSum, srun]
  | cons op ops ih => simp only [List.cons_append, expSum, srun, ih]; omega

theorem wrapSum_append (c : Stats) (ops ops' : List SOp) :
    wrapSum c (ops ++ ops') = wrapSum c ops + wrapSum (srun c ops).1 ops' := by
  induction ops generalizing c with
  | nil => simp [wrapSum, srun]
  | cons op ops ih => simp only [List.cons_append, wrapSum, srun, ih]; omega

theorem srun_inv (c : Stats) (ops : List SOp) (hv : ∀ op ∈ ops, op.valid) (h : SInv c)
    (hE : c.totalExpected + c.expected + expSum c ops < 4294967296) :
    SInv (srun c ops).1 ∧
    (srun c ops).1.totalExpected + (srun c ops).1.expected = c.totalExpected + c.expected + expSum c ops ∧
    ∀ o ∈ (srun c ops).2, o.received ≤ o.expected ∧ o.totalReceived ≤ o.totalExpected := by
  induction ops generalizing c with
  | nil => exact ⟨h, by simp [srun, expSum], by simp [srun]⟩
  | cons op ops ih =>
    simp only [expSum] at hE
    obtain ⟨s1, s2, s3⟩ := sstep_inv c op (hv op List.mem_cons_self) h (by omega)
    obtain ⟨i1, i2, i3⟩ := ih (sstep c op).1 (fun o ho => hv o (List.mem_cons_of_mem _ ho)) s1 (by omega)
    simp only [srun, expSum]
    refine ⟨i1, by omega, ?_⟩
    intro o ho
    rcases List.mem_append.mp ho with ho | ho
    · cases hq : (sstep c op).2 with
      | none => rw [hq] at ho; cases ho
      | some o' =>
        rw [hq] at ho
        simp only [Option.toList, List.mem_singleton] at ho
        subst ho
        exact ⟨(s3 _ hq).1, (s3 _ hq).2.1⟩
    · exact i3 o ho

/-- **Statistics invariant.**  Assumption (exactly): the total number of packets ever expected
along the history, counted in unbounded arithmetic (`expSum`: 1 for the first packet and after each
backward jump, the forward gap for each packet ahead of `last`, `n` for each `Expect(n)`), is below
2^32, i.e. the uint32 counters do not wrap.  Then for every history of `Store`/`Expect`/`GetStats`
from the zero state, at every point of the history (every prefix `pre`): `received ≤ expected`,
`totalReceived ≤ totalExpected`, the counters equal the unbounded count, and every `GetStats`
result has `received ≤ expected` and `totalReceived ≤ totalExpected`. -/
theorem C06_stats_inv (ops : List SOp) (hv : ∀ op ∈ ops, op.valid)
    (hE : expSum {} ops < 4294967296) :
    (∀ pre post, ops = pre ++ post →
      (srun {} pre).1.received ≤ (srun {} pre).1.expected ∧
      (srun {} pre).1.totalReceived ≤ (srun {} pre).1.totalExpected ∧
      (srun {} pre).1.totalExpected + (srun {} pre).1.expected = expSum {} pre) ∧
    ∀ o ∈ (srun {} ops).2, o.received ≤ o.expected ∧ o.totalReceived ≤ o.totalExpected := by
  constructor
  · intro pre post hpp
    subst hpp
    rw [expSum_append] at hE
    obtain ⟨i1, i2, -⟩ := srun_inv {} pre (fun o ho => hv o (List.mem_append_left _ ho)) SInv_init
      (by show 0 + 0 + _ < _; omega)
    refine ⟨i1.recv_le, i1.total_le, ?_⟩
    rw [i2]; show 0 + 0 + _ = _; omega
  · exact (srun_inv {} ops hv SInv_init (by show 0 + 0 + _ < _; omega)).2.2

theorem sstep_eseq (c : Stats) (op : SOp) (hv : op.valid) (h : SInv c)
    (hW : c.cycle + wrapInc c op < 65536) (hj : isJump c op = false) :
    eseq c ≤ eseq (sstep c op).1 ∧ (sstep c op).1.cycle = c.cycle + wrapInc c op := by
  cases op with
  | store s kf =>
    obtain ⟨e1, e2, e3, e4, e5, e6, e7⟩ := store_fields c s kf
    have := store1_eseq c s hv h.last_lt h.last_zero hW hj
    simp only [sstep, eseq, wrapInc] at *
    rw [e5, e6]; exact this
  | expect n =>
    simp only [sstep, Stats.expect, wrapInc, eseq]
    split <;> simp
  | getStats r =>
    simp only [sstep, getStats_state, wrapInc, eseq]
    cases r <;> simp

theorem srun_eseq (c : Stats) (ops : List SOp) (hv : ∀ op ∈ ops, op.valid) (h : SInv c)
    (hE : c.totalExpected + c.expected + expSum c ops < 4294967296)
    (hW : c.cycle + wrapSum c ops < 65536) (hj : noJump c ops) :
    eseq c ≤ eseq (srun c ops).1 ∧
    (∀ o ∈ (srun c ops).2, eseq c ≤ o.eseqno ∧ o.eseqno ≤ eseq (srun c ops).1) ∧
    (srun c ops).2.Pairwise (fun a b => a.eseqno ≤ b.eseqno) := by
  induction ops generalizing c with
  | nil => simp [srun]
  | cons op ops ih =>
    simp only [expSum, wrapSum, noJump] at hE hW hj
    have hvop := hv op List.mem_cons_self
    obtain ⟨s1, s2, s3⟩ := sstep_inv c op hvop h (by omega)
    obtain ⟨t1, t2⟩ := sstep_eseq c op hvop h (by omega) hj.1
    obtain ⟨i1, i2, i3⟩ := ih (sstep c op).1 (fun o ho => hv o (List.mem_cons_of_mem _ ho)) s1
      (by omega) (by omega) hj.2
    simp only [srun]
    refine ⟨by omega, ?_, ?_⟩
    · intro o ho
      rcases List.mem_append.mp ho with ho | ho
      · cases hq : (sstep c op).2 with
        | none => rw [hq] at ho; cases ho
        | some o' =>
          rw [hq] at ho
          simp only [Option.toList, List.mem_singleton] at ho
          subst ho
          have := (s3 _ hq).2.2
          omega
      · have := i2 o ho; omega
    · rw [List.pairwise_append]
      refine ⟨?_, i3, ?_⟩
      · cases (sstep c op).2 <;> simp [Option.toList]
      · intro a ha b hb
        cases hq : (sstep c op).2 with
        | none => rw [hq] at ha; cases ha
        | some o' =>
          rw [hq] at ha
          simp only [Option.toList, List.mem_singleton] at ha
          subst ha
          have := (s3 _ hq).2.2
          have := i2 b hb
          omega

/-- **Extended highest seqno is monotone.**  Assumptions (exactly): the whole history `pre ++ mid`
from the zero state expects fewer than 2^32 packets (`expSum`, as in `C06_stats_inv`) and rolls the
16-bit seqno over fewer than 2^16 times (`wrapSum`: `cycle` does not wrap).  If no `Store` of the
segment `mid` takes the `seqnoInvalid` branch on a valid `last` (`noJump`: no backward jump by more
than 256 packets), then the `eseqno` of the `GetStats` results inside `mid` never decreases
(pairwise, in order).  `pre` is arbitrary, so this covers any two successive `GetStats` calls
with no jump between them. -/
theorem C06_eseqno_mono (pre mid : List SOp) (hv : ∀ op ∈ pre ++ mid, op.valid)
    (hE : expSum {} (pre ++ mid) < 4294967296) (hW : wrapSum {} (pre ++ mid) < 65536)
    (hj : noJump (srun {} pre).1 mid) :
    (srun (srun {} pre).1 mid).2.Pairwise (fun a b => a.eseqno ≤ b.eseqno) := by
  rw [expSum_append] at hE
  obtain ⟨i1, i2, -⟩ := srun_inv {} pre (fun o ho => hv o (List.mem_append_left _ ho)) SInv_init
    (by show 0 + 0 + _ < _; omega)
  have i2' : (srun {} pre).1.totalExpected + (srun {} pre).1.expected = expSum {} pre := by
    rw [i2]; show 0 + 0 + _ = _; omega
  -- `cycle` after `pre` is bounded by the number of roll-overs so far
  have hcyc : ∀ (c : Stats) (ops : List SOp), (∀ op ∈ ops, op.valid) → SInv c →
      c.totalExpected + c.expected + expSum c ops < 4294967296 →
      (srun c ops).1.cycle ≤ c.cycle + wrapSum c ops := by
    intro c ops
    induction ops generalizing c with
    | nil => intro _ _ _; simp [srun, wrapSum]
    | cons op ops ih =>
      intro hv h hE
      simp only [expSum] at hE
      obtain ⟨s1, s2, -⟩ := sstep_inv c op (hv op List.mem_cons_self) h (by omega)
      have := ih (sstep c op).1 (fun o ho => hv o (List.mem_cons_of_mem _ ho)) s1 (by omega)
      have hstep : (sstep c op).1.cycle ≤ c.cycle + wrapInc c op := by
        cases op with
        | store s kf =>
          have e5 := (store_fields c s kf).2.2.2.2.1
          simp only [sstep, wrapInc, e5]
          unfold store1 storeWrapInc
          split
          · simp
          · simp only
            split
            · rename_i hlt
              simp only [hlt, true_and]
              split <;> simp [add16] <;> omega
            · split
              · split <;> simp
              · simp
        | expect n => simp only [sstep, Stats.expect, wrapInc]; split <;> simp
        | getStats r => simp only [sstep, getStats_state, wrapInc]; cases r <;> simp
      simp only [srun, wrapSum]; omega
  have hc := hcyc {} pre (fun o ho => hv o (List.mem_append_left _ ho)) SInv_init
    (by show 0 + 0 + _ < _; omega)
  rw [wrapSum_append] at hW
  have hc0 : (({} : Stats).cycle) = 0 := rfl
  exact (srun_eseq (srun {} pre).1 mid (fun o ho => hv o (List.mem_append_right _ ho)) i1
    (by omega) (by omega) hj).2.2

/-! ## §4 `ToBitmap` -/

theorem toBitmapLoop_spec (f : Nat) (rest : List Nat) (bm : Nat) :
    ∃ pre, rest = pre ++ (toBitmapLoop f bm rest).2 ∧
      (∀ r ∈ pre, sub16 (sub16 r f) 1 < 16) ∧
      (∀ i, (toBitmapLoop f bm rest).1.testBit i = true ↔
          (bm.testBit i = true ∨ ∃ r ∈ pre, sub16 (sub16 r f) 1 = i)) ∧
      ((toBitmapLoop f bm rest).2 = [] ∨
        ∃ r rs, (toBitmapLoop f bm rest).2 = r :: rs ∧ 16 ≤ sub16 (sub16 r f) 1) := by
  induction rest generalizing bm with
  | nil => exact ⟨[], by simp [toBitmapLoop]⟩
  | cons r rs ih =>
    simp only [toBitmapLoop]
    split
    · rename_i h
      exact ⟨[], by simp, by simp, by simp, Or.inr ⟨r, rs, rfl, h⟩⟩
    · rename_i h
      obtain ⟨pre, h1, h2, h3, h4⟩ := ih (bm ||| 2 ^ sub16 (sub16 r f) 1)
      refine ⟨r :: pre, ?_, ?_, ?_, h4⟩
      · rw [List.cons_append, ← h1]
      · intro x hx
        rcases List.mem_cons.mp hx with hx | hx
        · subst hx; omega
        · exact h2 x hx
      · intro i
        rw [h3 i, Nat.testBit_or, Nat.testBit_two_pow]
        simp only [Bool.or_eq_true, decide_eq_true_eq, List.mem_cons, exists_eq_or_imp]
        constructor
        · rintro ((h | h) | h)
          · exact Or.inl h
          · exact Or.inr (Or.inl h)
          · exact Or.inr (Or.inr h)
        · rintro (h | h | h)
          · exact Or.inl (Or.inl h)
          · exact Or.inl (Or.inr h)
          · exact Or.inr h

/-- **`ToBitmap`.**  On a non-empty list `x :: xs` of uint16 seqnos, `ToBitmap` does not panic and
returns `(x, bm, rem)` where `rem` is a proper suffix (`x :: xs = pre ++ rem`, `pre ≠ []`),
`bm < 2^16`, and the seqnos *named* by `(x, bm)` — `x` itself and `x + i + 1` for every set bit
`i < 16` — are exactly the elements of the consumed prefix `pre` (both inclusions).  Moreover the
prefix is maximal: `rem` is empty or starts with a seqno outside `x+1 … x+16`. -/
theorem C06_toBitmap (x : Nat) (xs : List Nat) (hx : ∀ y ∈ x :: xs, y < 65536) :
    ∃ bm rem pre, toBitmap (x :: xs) = some (x, bm, rem) ∧ x :: xs = pre ++ rem ∧ pre ≠ [] ∧
      bm < 65536 ∧ (∀ s, Named x bm s ↔ s ∈ pre) ∧
      (rem = [] ∨ ∃ r rs, rem = r :: rs ∧ (r = x ∨ 16 < sub16 r x)) := by
  obtain ⟨pre, h1, h2, h3, h4⟩ := toBitmapLoop_spec x xs 0
  refine ⟨(toBitmapLoop x 0 xs).1, (toBitmapLoop x 0 xs).2, x :: pre, rfl, ?_, by simp, ?_, ?_, ?_⟩
  · rw [List.cons_append, ← h1]
  · apply Nat.lt_pow_two_of_testBit (n := 16)
    intro i hi
    cases hb : (toBitmapLoop x 0 xs).1.testBit i
    · rfl
    · rcases (h3 i).mp hb with h | ⟨r, hr, he⟩
      · simp at h
      · have := h2 r hr; omega
  · have hxl : x < 65536 := hx x List.mem_cons_self
    have hpre : ∀ r ∈ pre, r < 65536 := fun r hr =>
      hx r (List.mem_cons_of_mem _ (by rw [h1]; exact List.mem_append_left _ hr))
    intro s
    simp only [Named, List.mem_cons]
    constructor
    · rintro (h | ⟨i, hi, hb, hs⟩)
      · exact Or.inl h
      · rcases (h3 i).mp hb with h | ⟨r, hr, he⟩
        · simp at h
        · refine Or.inr ?_
          have hr' := hpre r hr
          have : s = r := by rw [hs, ← he]; unfold add16 sub16; unfold sub16 at he; omega
          rw [this]; exact hr
    · rintro (h | h)
      · exact Or.inl h
      · refine Or.inr ⟨sub16 (sub16 s x) 1, h2 s h, (h3 _).mpr (Or.inr ⟨s, h, rfl⟩), ?_⟩
        have hr' := hpre s h
        have := h2 s h
        unfold add16 sub16; unfold sub16 at this; omega
  · rcases h4 with h | ⟨r, rs, h, hd⟩
    · exact Or.inl h
    · refine Or.inr ⟨r, rs, h, ?_⟩
      have hr : r < 65536 := hx r (List.mem_cons_of_mem _ (by rw [h1, h]; simp))
      have hxl : x < 65536 := hx x List.mem_cons_self
      unfold sub16 at *; omega

/-- the only way `ToBitmap` fails (Go: index-out-of-range panic) is the empty list -/
theorem C06_toBitmap_none (xs : List Nat) : toBitmap xs = none ↔ xs = [] := by
  cases xs with
  | nil => simp [toBitmap]
  | cons x xs => simp [toBitmap]

/-! ## §5 `bitmap.get` at function level -/

/-- how far `get next` advances `first`: `min (next - first) 17` if `next` is after `first`, else 0 -/
def getCount (b : Bitmap) (next : Nat) : Nat :=
  if Loss.compare b.first next ≥ 0 then 0 else min (sub16 next b.first) 17

/-- `get` shifts the window forward by `getCount ≤ 17` and changes nothing else; in particular
`first` never moves backwards in a `get` (monotonicity of `first` for `get`). -/
theorem C06_get_state (b : Bitmap) (next : Nat) (hf : b.first < 65536) (hn : next < 65536) :
    (b.get next).1 = shiftBy b (getCount b next) ∧ getCount b next ≤ 17 ∧
    sub16 (b.get next).1.first b.first = getCount b next ∧
    (Loss.compare b.first next < 0 → getCount b next ≤ sub16 next b.first ∧ 1 ≤ getCount b next) := by
  unfold getCount
  by_cases hc : Loss.compare b.first next ≥ 0
  · rw [if_pos hc, get_nop b next hc, shiftBy_zero b hf, sub16_self _ hf]
    exact ⟨rfl, by omega, rfl, by omega⟩
  · rw [if_neg hc, (get_spec b next hf hc).1]
    refine ⟨rfl, Nat.min_le_right _ _, ?_, ?_⟩
    · simp only [shiftBy]
      exact sub16_add16 _ _ hf (by have := Nat.min_le_right (sub16 next b.first) 17; omega)
    · intro hlt
      rw [compare_lt_iff' _ _ hf hn] at hlt
      omega

/-- **NACK soundness** (function level).  If `get next` reports a loss `(f, bm)`, then `next` is
strictly after the old `first` (less than half the circle ahead), `bm` is a uint16, and every seqno
`s` *named* by `(f, bm)` (`f`, and `f + i + 1` for each set bit `i < 16`):
* lies in the half-open modular range from the old `first` up to `next`
  (`sub16 s first < sub16 next first`), hence strictly before `next`;
* had its bit clear in the bitmap (so by `C06_bitmap_inv` it was not stored in the current epoch);
* is strictly before the new `first` (`sub16 s first < sub16 b'.first first`, the latter `≤ 17`),
  so by monotonicity of `first` no later `get` of the epoch can name it again. -/
theorem C06_nack_sound (b : Bitmap) (next : Nat) (hf : b.first < 65536) (hn : next < 65536)
    (b' : Bitmap) (f bm : Nat) (hget : b.get next = (b', (true, f, bm))) :
    bm < 65536 ∧ 1 ≤ sub16 next b.first ∧ sub16 next b.first < 32768 ∧
    sub16 b'.first b.first = min (sub16 next b.first) 17 ∧
    ∀ s, Named f bm s →
      s < 65536 ∧ sub16 s b.first < sub16 next b.first ∧
      b.bits.testBit (sub16 s b.first) = false ∧
      sub16 s b.first < sub16 b'.first b.first := by
  by_cases hc : Loss.compare b.first next ≥ 0
  · rw [get_nop b next hc] at hget; cases hget
  · obtain ⟨g1, g2, g3, g4⟩ := get_spec b next hf hc
    have hlt : Loss.compare b.first next < 0 := by omega
    rw [compare_lt_iff' _ _ hf hn] at hlt
    rw [hget] at g1 g4
    obtain ⟨g5, g6⟩ := g4 rfl
    simp only at g1 g5 g6
    have hcnt : sub16 b'.first b.first = min (sub16 next b.first) 17 := by
      rw [g1]; simp only [shiftBy]
      exact sub16_add16 _ _ hf (by have := Nat.min_le_right (sub16 next b.first) 17; omega)
    refine ⟨g5, hlt.1, hlt.2, hcnt, ?_⟩
    intro s hs
    obtain ⟨j, hj, hb, hsj⟩ := (g6 s).mp hs
    have hj17 : j < 17 := Nat.lt_of_lt_of_le hj (Nat.min_le_right _ _)
    have hjn : j < sub16 next b.first := Nat.lt_of_lt_of_le hj (Nat.min_le_left _ _)
    have e : sub16 s b.first = j := by rw [hsj]; exact sub16_add16 _ _ hf (by omega)
    rw [e, hcnt]
    exact ⟨by rw [hsj]; exact add16_lt _ _, hjn, hb, hj⟩

/-- **NACK completeness** (function level).  `get next` scans the `count = min (next - first) 17`
seqnos from `first`; it reports a loss iff one of them has its bit clear, and then *every* one of
them with a clear bit is named.  When nothing is missing (or `next` is not after `first`) it
returns `(false, first, 0)`. -/
theorem C06_nack_complete (b : Bitmap) (next : Nat) (hf : b.first < 65536) :
    (Loss.compare b.first next ≥ 0 → b.get next = (b, (false, b.first, 0))) ∧
    (¬ Loss.compare b.first next ≥ 0 →
      ((b.get next).2.1 = true ↔ ∃ j, j < min (sub16 next b.first) 17 ∧ b.bits.testBit j = false) ∧
      ((b.get next).2.1 = false → (b.get next).2.2 = (b.first, 0)) ∧
      ((b.get next).2.1 = true → ∀ j, j < min (sub16 next b.first) 17 → b.bits.testBit j = false →
        Named (b.get next).2.2.1 (b.get next).2.2.2 (add16 b.first j))) := by
  refine ⟨get_nop b next, ?_⟩
  intro hc
  obtain ⟨g1, g2, g3, g4⟩ := get_spec b next hf hc
  refine ⟨g2, g3, ?_⟩
  intro hfound j hj hb
  exact ((g4 hfound).2 _).mpr ⟨j, hj, hb, rfl⟩

/-! ## §6 The bitmap over all histories of `set` / `get` -/

/-- **`first` never moves backwards in a `set` without reset**: it advances by `shift + ones`
where `shift` makes room for `seqno` (0 if `seqno - first < 32`, else `seqno - first - 31`) and
`ones ≤ 32` is the leading run of received packets; a seqno behind `first` changes nothing. -/
theorem C06_set_first_mono (b : Bitmap) (s : Nat) (hf : b.first < 65536) (hs : s < 65536)
    (hr : isReset b s = false) :
    (Loss.compare b.first s > 0 → b.set s = b) ∧
    (¬ Loss.compare b.first s > 0 →
      sub16 s b.first < 32768 ∧
      sub16 (b.set s).first b.first = setShift b s + setOnes (shiftBy b (setShift b s)) ∧
      setShift b s + setOnes (shiftBy b (setShift b s)) ≤ max 32 (sub16 s b.first + 1)) := by
  refine ⟨set_behind b s hr, ?_⟩
  intro hc
  have hd : sub16 s b.first < 32768 := by
    rw [compare_gt_iff] at hc
    by_cases he : b.first = s
    · rw [he, sub16_self _ hs]; omega
    · omega
  have hsh : setShift b s ≤ sub16 s b.first + 1 - 32 := by unfold setShift; split <;> omega
  have hon := setOnes_le (shiftBy b (setShift b s))
  rw [set_ahead b s hf hr hc]
  refine ⟨hd, ?_, by omega⟩
  rw [markBit_first, shiftBy_first, shiftBy_first, add16_add16]
  exact sub16_add16 _ _ hf (by omega)

inductive BOp where
  | set (seqno : Nat)
  | get (next : Nat)

/-- seqnos are uint16 -/
def BOp.valid : BOp → Prop
  | .set s => s < 65536
  | .get n => n < 65536

/-- Ghost state.  An *epoch* starts at every `set` that takes the reset branch
(`!valid || seqnoInvalid`).  Positions are *absolute* (unwrapped, i.e. extended sequence numbers
with an arbitrary origin ≥ 65536): `base` is the position of `first`. -/
structure BGhost where
  /-- absolute position of `bitmap.first` -/
  base : Nat := 65536
  /-- absolute position of the seqno that started the epoch -/
  start : Nat := 65536
  /-- the seqnos passed to `set` since (and including) the last reset -/
  epoch : List Nat := []
  /-- their absolute positions -/
  hist : List Nat := []
  /-- the seqnos named by `get` calls since the last reset, in order -/
  named : List Nat := []
  /-- their absolute positions -/
  nacked : List Nat := []
  deriving Repr

/-- the list of seqnos named by a NACK `(f, bm)` -/
def namedSeqs (f bm : Nat) : List Nat :=
  f :: ((List.range 16).filter (fun i => bm.testBit i)).map (fun i => add16 f (i + 1))

theorem mem_namedSeqs (f bm s : Nat) : s ∈ namedSeqs f bm ↔ Named f bm s := by
  unfold namedSeqs Named
  simp only [List.mem_cons, List.mem_map, List.mem_filter, List.mem_range]
  constructor
  · rintro (h | ⟨i, ⟨hi, hb⟩, hs⟩)
    · exact Or.inl h
    · exact Or.inr ⟨i, hi, hb, hs.symm⟩
  · rintro (h | ⟨i, hi, hb, hs⟩)
    · exact Or.inl h
    · exact Or.inr ⟨i, ⟨hi, hb⟩, hs.symm⟩

/-- absolute position of a seqno passed to `set` (no reset): up to 256 behind `first`, or ahead -/
def setPos (b : Bitmap) (base s : Nat) : Nat :=
  if Loss.compare b.first s > 0 then base - sub16 b.first s else base + sub16 s b.first

/-- the seqnos named by the result of a `get` -/
def getNamed (r : Bool × Nat × Nat) : List Nat := if r.1 then namedSeqs r.2.1 r.2.2 else []

def bstep (b : Bitmap) (g : BGhost) : BOp → Bitmap × BGhost
  | .set s =>
    if isReset b s then
      (b.set s, { base := 65536 + s, start := 65536 + s, epoch := [s], hist := [65536 + s],
                  named := [], nacked := [] })
    else
      (b.set s, { g with base := g.base + sub16 (b.set s).first b.first,
                         epoch := g.epoch ++ [s], hist := g.hist ++ [setPos b g.base s] })
  | .get n =>
    ((b.get n).1, { g with base := g.base + sub16 (b.get n).1.first b.first,
                           named := g.named ++ getNamed (b.get n).2,
                           nacked := g.nacked ++ (getNamed (b.get n).2).map (fun s => g.base + sub16 s b.first) })

def brun : Bitmap × BGhost → List BOp → Bitmap × BGhost
  | s, [] => s
  | (b, g), op :: ops => brun (bstep b g op) ops

/-- The invariant tying the bitmap to its ghost. -/
structure BInv (b : Bitmap) (g : BGhost) : Prop where
  /-- `bits < 2^32`, `first = base mod 2^16`, bit `i` set ⇔ position `base + i` was stored in the
  epoch, every stored position is `< base + 32` -/
  core : Core b g.base g.hist
  start_ge : 65536 ≤ g.start
  start_le : g.start ≤ g.base
  /-- nothing stored in the epoch is more than 256 before the epoch's first seqno -/
  hist_ge : ∀ p ∈ g.hist, g.start ≤ p + 256
  /-- the ghost positions really are positions of the seqnos passed to `set` -/
  epoch_eq : g.epoch = g.hist.map (· % 65536)
  named_eq : g.named = g.nacked.map (· % 65536)
  /-- everything named so far is behind `first` -/
  nacked_lt : ∀ p ∈ g.nacked, g.start ≤ p ∧ p < g.base
  /-- NACKs go strictly forward: no position is named twice in an epoch -/
  nacked_sorted : g.nacked.Pairwise (· < ·)

theorem BInv_init : BInv {} {} := by
  refine ⟨⟨?_, ?_, ?_, by simp⟩, Nat.le_refl _, Nat.le_refl _, by simp, rfl, rfl, by simp, by simp⟩
  · show 0 < 4294967296; omega
  · show 0 = 65536 % 65536; omega
  · intro i hi
    show (0 : Nat).testBit i = true ↔ _
    simp

/-- positions of the seqnos named by one NACK are strictly increasing -/
theorem namedSeqs_sorted (f bm first base : Nat) (hfirst : first < 65536) (hf : f < 65536)
    (hjf : sub16 f first < 17) :
    ((namedSeqs f bm).map (fun s => base + sub16 s first)).Pairwise (· < ·) := by
  have hpos : ∀ i, i < 16 → sub16 (add16 f (i + 1)) first = sub16 f first + (i + 1) := by
    intro i hi
    exact sub16_add16_left _ _ _ hfirst hf (by omega)
  unfold namedSeqs
  rw [List.map_cons, List.pairwise_cons]
  constructor
  · intro p hp
    rw [List.mem_map] at hp
    obtain ⟨s, hs, hp⟩ := hp
    rw [List.mem_map] at hs
    obtain ⟨i, hi, hs⟩ := hs
    rw [List.mem_filter, List.mem_range] at hi
    rw [← hp, ← hs, hpos i hi.1]; omega
  · rw [List.pairwise_map, List.pairwise_map]
    have hr : ((List.range 16).filter (fun i => bm.testBit i)).Pairwise (· < ·) :=
      List.Pairwise.filter _ List.pairwise_lt_range
    refine List.Pairwise.imp_of_mem ?_ hr
    intro a c ha hc hac
    rw [List.mem_filter, List.mem_range] at ha hc
    rw [hpos a ha.1, hpos c hc.1]; omega

/-- what `get` names, in ghost terms: seqnos `first + j` with `j < getCount` whose bit is clear -/
theorem getNamed_spec (b : Bitmap) (next : Nat) (hf : b.first < 65536) (s : Nat)
    (hs : s ∈ getNamed (b.get next).2) :
    ∃ j, j < getCount b next ∧ b.bits.testBit j = false ∧ s = add16 b.first j ∧ sub16 s b.first = j := by
  unfold getNamed at hs
  by_cases hc : Loss.compare b.first next ≥ 0
  · rw [get_nop b next hc] at hs; simp at hs
  · obtain ⟨g1, g2, g3, g4⟩ := get_spec b next hf hc
    split at hs
    · rename_i hfound
      rw [mem_namedSeqs] at hs
      obtain ⟨j, hj, hb, hsj⟩ := ((g4 hfound).2 s).mp hs
      have hj17 : j < 17 := Nat.lt_of_lt_of_le hj (Nat.min_le_right _ _)
      refine ⟨j, ?_, hb, hsj, ?_⟩
      · unfold getCount; rw [if_neg hc]; exact hj
      · rw [hsj]; exact sub16_add16 _ _ hf (by omega)
    · cases hs

theorem getNamed_sorted (b : Bitmap) (next base : Nat) (hf : b.first < 65536) :
    ((getNamed (b.get next).2).map (fun s => base + sub16 s b.first)).Pairwise (· < ·) := by
  by_cases hfound : (b.get next).2.1 = true
  · have hmem : (b.get next).2.2.1 ∈ getNamed (b.get next).2 := by
      unfold getNamed; rw [if_pos hfound, mem_namedSeqs]; exact Or.inl rfl
    obtain ⟨j, hj, -, hsj, he⟩ := getNamed_spec b next hf _ hmem
    have hc17 : getCount b next ≤ 17 := by
      unfold getCount; split
      · omega
      · exact Nat.min_le_right _ _
    unfold getNamed; rw [if_pos hfound]
    exact namedSeqs_sorted _ _ _ _ hf (by rw [hsj]; exact add16_lt _ _) (by omega)
  · unfold getNamed; rw [if_neg hfound]; simp


theorem map_map_eq_self {α β : Type} (l : List α) (f : α → β) (g : β → α)
    (h : ∀ x ∈ l, g (f x) = x) : (l.map f).map g = l := by
  induction l with
  | nil => rfl
  | cons x xs ih =>
    rw [List.map_cons, List.map_cons, h x List.mem_cons_self,
      ih (fun y hy => h y (List.mem_cons_of_mem _ hy))]

theorem getCount_le (b : Bitmap) (next : Nat) : getCount b next ≤ 17 := by
  unfold getCount; split
  · omega
  · exact Nat.min_le_right _ _

theorem get_first (b : Bitmap) (next : Nat) (hf : b.first < 65536) :
    (b.get next).1 = shiftBy b (getCount b next) ∧
    sub16 (b.get next).1.first b.first = getCount b next := by
  have hle := getCount_le b next
  have h1 : (b.get next).1 = shiftBy b (getCount b next) := by
    unfold getCount
    by_cases hc : Loss.compare b.first next ≥ 0
    · rw [if_pos hc, get_nop b next hc, shiftBy_zero b hf]
    · rw [if_neg hc, (get_spec b next hf hc).1]
  refine ⟨h1, ?_⟩
  rw [h1, shiftBy_first]
  exact sub16_add16 _ _ hf (by omega)

theorem bstep_inv (b : Bitmap) (g : BGhost) (op : BOp) (hv : op.valid) (h : BInv b g) :
    BInv (bstep b g op).1 (bstep b g op).2 := by
  obtain ⟨hcore, hsg, hsl, hhg, hep, hnm, hnl, hns⟩ := h
  have hf := hcore.first_lt
  cases op with
  | set s =>
    have hs : s < 65536 := hv
    by_cases hr : isReset b s = true
    · simp only [bstep, hr, if_true]
      rw [set_reset b s hr]
      refine ⟨core_reset s hs, by simp only; omega, Nat.le_refl _, ?_, ?_, rfl, by simp, by simp⟩
      · intro p hp; simp only [List.mem_singleton] at hp; simp only; omega
      · simp only [List.map_cons, List.map_nil]
        congr 1; omega
    · have hr' : isReset b s = false := by cases hq : isReset b s <;> simp_all
      simp only [bstep, hr', Bool.false_eq_true, if_false]
      by_cases hc : Loss.compare b.first s > 0
      · obtain ⟨e1, k1, k2, hcore'⟩ := core_set_behind b g.base g.hist s hcore hs hr' hc
        have hpos : setPos b g.base s = g.base - sub16 b.first s := by unfold setPos; rw [if_pos hc]
        rw [e1, sub16_self _ hf, hpos]
        refine ⟨hcore' (by omega), hsg, hsl, ?_, ?_, hnm, hnl, hns⟩
        · intro p hp
          rcases List.mem_append.mp hp with hm | hm
          · exact hhg p hm
          · simp only [List.mem_singleton] at hm; simp only at hsl ⊢; omega
        · simp only [List.map_append, List.map_cons, List.map_nil, hep]
          congr 2
          have := hcore.first_eq
          unfold sub16 at *; omega
      · obtain ⟨c1, c2, c3, c4, c5⟩ := core_set_ahead b g.base g.hist s hcore hs hr' hc
        have hpos : setPos b g.base s = g.base + sub16 s b.first := by unfold setPos; rw [if_neg hc]
        have hon := setOnes_le (shiftBy b (setShift b s))
        have hadv : sub16 (b.set s).first b.first = setShift b s + setOnes (shiftBy b (setShift b s)) := by
          rw [c2]; exact sub16_add16 _ _ hf (by omega)
        rw [hadv, hpos]
        refine ⟨c1, hsg, by simp only; omega, ?_, ?_, hnm, ?_, hns⟩
        · intro p hp
          rcases List.mem_append.mp hp with hm | hm
          · exact hhg p hm
          · simp only [List.mem_singleton] at hm; simp only at hsl ⊢; omega
        · simp only [List.map_append, List.map_cons, List.map_nil, hep]
          congr 2
          have := hcore.first_eq
          unfold sub16 at *; omega
        · intro p hp; have := hnl p hp; simp only at this ⊢; omega
  | get n =>
    obtain ⟨g1, g2⟩ := get_first b n hf
    have hle := getCount_le b n
    simp only [bstep]
    rw [g2]
    refine ⟨?_, hsg, by simp only; omega, hhg, hep, ?_, ?_, ?_⟩
    · rw [g1]; exact core_shift _ _ _ _ hcore
    · simp only [List.map_append, hnm]
      congr 1
      symm
      apply map_map_eq_self
      intro s hs
      obtain ⟨j, hj, -, hsj, he⟩ := getNamed_spec b n hf s hs
      have := hcore.first_eq
      rw [he, hsj]; unfold add16; omega
    · intro p hp
      rcases List.mem_append.mp hp with hm | hm
      · have := hnl p hm; simp only at this ⊢; omega
      · rw [List.mem_map] at hm
        obtain ⟨s, hs, rfl⟩ := hm
        obtain ⟨j, hj, -, hsj, he⟩ := getNamed_spec b n hf s hs
        simp only at hsl ⊢; omega
    · rw [List.pairwise_append]
      refine ⟨hns, getNamed_sorted b n g.base hf, ?_⟩
      intro a ha c hc
      have := hnl a ha
      rw [List.mem_map] at hc
      obtain ⟨s, hs, rfl⟩ := hc
      omega


theorem brun_inv (s : Bitmap × BGhost) (ops : List BOp) (hv : ∀ op ∈ ops, op.valid)
    (h : BInv s.1 s.2) : BInv (brun s ops).1 (brun s ops).2 := by
  induction ops generalizing s with
  | nil => exact h
  | cons op ops ih =>
    obtain ⟨b, g⟩ := s
    simp only [brun]
    exact ih _ (fun o ho => hv o (List.mem_cons_of_mem _ ho))
      (bstep_inv b g op (hv op List.mem_cons_self) h)

/-- seqno-level reading of the invariant: a set bit is a stored seqno; within an epoch that has not
advanced a full circle, a stored seqno inside the window has its bit set -/
theorem BInv.bits_epoch {b : Bitmap} {g : BGhost} (h : BInv b g) :
    (∀ i, i < 32 → b.bits.testBit i = true → add16 b.first i ∈ g.epoch) ∧
    (g.base + 288 ≤ g.start + 65536 →
      ∀ s ∈ g.epoch, sub16 s b.first < 32 → b.bits.testBit (sub16 s b.first) = true) := by
  obtain ⟨hcore, hsg, hsl, hhg, hep, hnm, hnl, hns⟩ := h
  obtain ⟨c1, c2, c3, c4⟩ := hcore
  constructor
  · intro i hi hb
    rw [hep, List.mem_map]
    exact ⟨g.base + i, (c3 i hi).mp hb, by rw [c2]; unfold add16; omega⟩
  · intro hnw s hs hj
    rw [hep, List.mem_map] at hs
    obtain ⟨p, hp, hps⟩ := hs
    have h1 := hhg p hp
    have h2 := c4 p hp
    rw [c3 _ hj]
    have : g.base + sub16 s b.first = p := by
      rw [c2, ← hps] at hj ⊢; unfold sub16 at *; omega
    rw [this]; exact hp

/-- **Bitmap invariant** over every history of `set`/`get` (uint16 arguments) from the zero bitmap,
with the ghost epoch `g.epoch` = the seqnos passed to `set` since (and including) the last `set`
that took the reset branch:
* `bits < 2^32`, `first < 2^16`, and the full ghost invariant `BInv` (bit `i` set ⇔ the absolute
  position `base + i` was stored in the epoch; every stored position is `< base + 32`);
* for every `i < 32`: bit `i` set ⇒ the seqno `first + i` was stored in the current epoch;
* conversely, as long as the epoch has advanced less than a full circle
  (`base + 288 ≤ start + 2^16`: `first` has moved less than `2^16 - 288` since the reset), every
  seqno stored in the epoch that lies in the window (`sub16 s first < 32`) has its bit set.
(Without the circle bound the converse is false for seqnos, `C06_converse_needs_bound`; in
absolute positions it holds unconditionally, field `BInv.core`.) -/
theorem C06_bitmap_inv (ops : List BOp) (hv : ∀ op ∈ ops, op.valid) :
    BInv (brun ({}, {}) ops).1 (brun ({}, {}) ops).2 ∧
    (brun ({}, {}) ops).1.bits < 4294967296 ∧ (brun ({}, {}) ops).1.first < 65536 ∧
    (∀ i, i < 32 → (brun ({}, {}) ops).1.bits.testBit i = true →
      add16 (brun ({}, {}) ops).1.first i ∈ (brun ({}, {}) ops).2.epoch) ∧
    ((brun ({}, {}) ops).2.base + 288 ≤ (brun ({}, {}) ops).2.start + 65536 →
      ∀ s ∈ (brun ({}, {}) ops).2.epoch, sub16 s (brun ({}, {}) ops).1.first < 32 →
        (brun ({}, {}) ops).1.bits.testBit (sub16 s (brun ({}, {}) ops).1.first) = true) := by
  have h := brun_inv ({}, {}) ops hv BInv_init
  exact ⟨h, h.core.bits_lt, h.core.first_lt, h.bits_epoch.1, h.bits_epoch.2⟩

/-- **The server never NACKs a packet it has received** (state level).  In any state satisfying the
invariant (so in every reachable state), every seqno `s` named by `get next` has an absolute position
`p = base + (s - first)` inside the scanned range `[base, base + count)` that was *not* stored in the
current epoch and was *not* named before in the epoch.  In seqno terms, while the epoch has advanced
less than a full circle, `s` was never passed to `set` since the last reset and never named since
the last reset. -/
theorem BInv.nack_fresh {b : Bitmap} {g : BGhost} (h : BInv b g) (next s : Nat)
    (hs : s ∈ getNamed (b.get next).2) :
    let p := g.base + sub16 s b.first
    g.base ≤ p ∧ p < g.base + getCount b next ∧ p % 65536 = s ∧ p ∉ g.hist ∧ p ∉ g.nacked ∧
    (g.base + 288 ≤ g.start + 65536 → s ∉ g.epoch) ∧
    (g.base + 17 ≤ g.start + 65536 → s ∉ g.named) := by
  intro p
  obtain ⟨hcore, hsg, hsl, hhg, hep, hnm, hnl, hns⟩ := h
  have hf := hcore.first_lt
  obtain ⟨c1, c2, c3, c4⟩ := hcore
  obtain ⟨j, hj, hb, hsj, he⟩ := getNamed_spec b next hf s hs
  have hle := getCount_le b next
  have hp : p = g.base + j := by show g.base + sub16 s b.first = _; rw [he]
  have hmod : p % 65536 = s := by rw [hp, hsj, c2]; unfold add16; omega
  have hnh : p ∉ g.hist := by
    rw [hp]; intro hm
    have := (c3 j (by omega)).mpr hm
    rw [hb] at this; cases this
  refine ⟨by omega, by omega, hmod, hnh, ?_, ?_, ?_⟩
  · intro hm; have := hnl p hm; omega
  · intro hnw hm
    rw [hep, List.mem_map] at hm
    obtain ⟨p', hp', hps⟩ := hm
    have h1 := hhg p' hp'
    have h2 := c4 p' hp'
    have : p' = p := by omega
    rw [this] at hp'; exact hnh hp'
  · intro hnw hm
    rw [hnm, List.mem_map] at hm
    obtain ⟨p', hp', hps⟩ := hm
    have h1 := hnl p' hp'
    omega

/-- **Each missing packet is named at most once per epoch.**  In every reachable state the absolute
positions named by `get` since the last reset are strictly increasing (so no position is named
twice), and as long as the epoch has advanced at most a full circle (`base ≤ start + 2^16`) the
list of named *seqnos* has no duplicates. -/
theorem C06_named_once (ops : List BOp) (hv : ∀ op ∈ ops, op.valid) :
    (brun ({}, {}) ops).2.nacked.Pairwise (· < ·) ∧
    (brun ({}, {}) ops).2.named = (brun ({}, {}) ops).2.nacked.map (· % 65536) ∧
    ((brun ({}, {}) ops).2.base ≤ (brun ({}, {}) ops).2.start + 65536 →
      (brun ({}, {}) ops).2.named.Nodup) := by
  have h := brun_inv ({}, {}) ops hv BInv_init
  generalize (brun ({}, {}) ops).2 = g at *
  generalize (brun ({}, {}) ops).1 = b at *
  refine ⟨h.nacked_sorted, h.named_eq, ?_⟩
  intro hnw
  rw [h.named_eq]
  unfold List.Nodup
  rw [List.pairwise_map]
  refine List.Pairwise.imp_of_mem ?_ h.nacked_sorted
  intro a c ha hc hac
  have h1 := h.nacked_lt a ha
  have h2 := h.nacked_lt c hc
  omega

/-! ## §7 A steady stream with one isolated loss -/

/-- what the read loop does after `Store`, given its NACK decision: nothing, or `BitmapGet(next)`
followed by a NACK `(first, bitmap)` if something was found missing -/
def nackStep : Option Nat → Bitmap → Bitmap × Option (Nat × Nat)
  | none, b1 => (b1, none)
  | some next, b1 => ((b1.get next).1, if (b1.get next).2.1 then some (b1.get next).2.2 else none)

theorem nackStep_none (b1 : Bitmap) : nackStep none b1 = (b1, none) := rfl
theorem nackStep_some (next : Nat) (b1 : Bitmap) : nackStep (some next) b1 =
    ((b1.get next).1, if (b1.get next).2.1 then some (b1.get next).2.2 else none) := rfl

/-- one iteration of the read loop, projected on the bitmap: `Store` (its `bitmap.set` half, which
returns the new `first`), the NACK decision, and `BitmapGet`; returns the NACK sent, if any -/
def bloopStep (rate : Nat) (b : Bitmap) (seqno : Nat) : Bitmap × Option (Nat × Nat) :=
  nackStep (readLoopNackArg seqno (b.set seqno).first rate) (b.set seqno)

def bloopRun (rate : Nat) : Bitmap → List Nat → Bitmap × List (Nat × Nat)
  | b, [] => (b, [])
  | b, s :: ss =>
    ((bloopRun rate (bloopStep rate b s).1 ss).1,
     (bloopStep rate b s).2.toList ++ (bloopRun rate (bloopStep rate b s).1 ss).2)

theorem bloopRun_nil (rate : Nat) (b : Bitmap) : bloopRun rate b [] = (b, []) := rfl
theorem bloopRun_cons (rate : Nat) (b : Bitmap) (s : Nat) (ss : List Nat) :
    bloopRun rate b (s :: ss) =
    ((bloopRun rate (bloopStep rate b s).1 ss).1,
     (bloopStep rate b s).2.toList ++ (bloopRun rate (bloopStep rate b s).1 ss).2) := rfl

theorem bloopRun_append (rate : Nat) (b : Bitmap) (l1 l2 : List Nat) :
    bloopRun rate b (l1 ++ l2) =
      ((bloopRun rate (bloopRun rate b l1).1 l2).1,
       (bloopRun rate b l1).2 ++ (bloopRun rate (bloopRun rate b l1).1 l2).2) := by
  induction l1 generalizing b with
  | nil => rw [List.nil_append, bloopRun_nil, List.nil_append]
  | cons s ss ih => rw [List.cons_append, bloopRun_cons, bloopRun_cons, ih, List.append_assoc]

/-- `k` consecutive seqnos starting at `s` -/
def seqFrom (s : Nat) : Nat → List Nat
  | 0 => []
  | k + 1 => s :: seqFrom (add16 s 1) k

theorem seqFrom_add (s a b : Nat) (hs : s < 65536) :
    seqFrom s (a + b) = seqFrom s a ++ seqFrom (add16 s a) b := by
  induction a generalizing s with
  | zero => simp [seqFrom, add16_zero s hs]
  | succ a ih =>
    rw [show a + 1 + b = (a + b) + 1 by omega]
    simp only [seqFrom, List.cons_append]
    rw [ih (add16 s 1) (add16_lt _ _), add16_add16, Nat.add_comm 1 a]

theorem bits_gap_even : ∀ k, k < 26 → (2 ^ (k + 1) - 2) % 2 = 0 := by decide
theorem bits_gap_or : ∀ k, k < 26 → (2 ^ (k + 1) - 2) ||| bit32 (k + 1) = 2 ^ (k + 2) - 2 := by decide
theorem bits_gap_shr : ∀ P, P < 25 → ∀ c, c < 26 → 1 ≤ c → c ≤ P + 1 →
    shr32 (2 ^ (P + 2) - 2) c = 2 ^ (P + 2 - c) - 1 := by decide
theorem bits_ones : ∀ m, m < 28 → 1 ≤ m →
    (2 ^ m - 1) % 2 = 1 ∧ tz32 (not32 (2 ^ m - 1)) = m ∧ shr32 (2 ^ m - 1) m = 0 := by decide
theorem bits_gap_testBit : ∀ P, P < 25 → ∀ j, j < 26 →
    (2 ^ (P + 2) - 2).testBit j = (decide (1 ≤ j) && decide (j ≤ P + 1)) := by decide

/-- `set` of a seqno inside the 32-bit window of a valid bitmap: no reset, no first-phase shift -/
theorem set_in_window (b : Bitmap) (s : Nat) (hf : b.first < 65536) (hs : s < 65536)
    (hv : b.valid = true) (hd : sub16 s b.first < 32) :
    b.set s = markBit (shiftBy b (setOnes b)) s := by
  have hinv : seqnoInvalid s b.first = false := by
    cases hq : seqnoInvalid s b.first
    · rfl
    · have := (seqnoInvalid_iff s b.first hs hf).mp hq
      unfold sub16 at *; omega
  have hr : isReset b s = false := by unfold isReset; rw [hv, hinv]; rfl
  have hc : ¬ Loss.compare b.first s > 0 := by rw [compare_gt_iff]; omega
  have hsh : setShift b s = 0 := by unfold setShift; rw [if_neg (by omega)]
  rw [set_ahead b s hf hr hc, hsh, shiftBy_zero b hf]

theorem readLoop_none (s first rate : Nat) (h : sub16 s first ≤ nackPackets rate) :
    readLoopNackArg s first rate = none := by
  rw [readLoopNackArg_eq, if_neg]
  unfold nackDelta; split <;> omega

/-- state "just received in order": `first` is the newest seqno, only its bit is set;
more generally `m` leading ones -/
def onesState (y m : Nat) : Bitmap := { valid := true, first := y, bits := 2 ^ m - 1 }
/-- state "one packet `x` missing, `k` packets received after it" -/
def gapState (x k : Nat) : Bitmap := { valid := true, first := x, bits := 2 ^ (k + 1) - 2 }

theorem onesState_first (y m : Nat) : (onesState y m).first = y := rfl
theorem onesState_bits (y m : Nat) : (onesState y m).bits = 2 ^ m - 1 := rfl
theorem onesState_valid (y m : Nat) : (onesState y m).valid = true := rfl
theorem gapState_first (x k : Nat) : (gapState x k).first = x := rfl
theorem gapState_bits (x k : Nat) : (gapState x k).bits = 2 ^ (k + 1) - 2 := rfl
theorem gapState_valid (x k : Nat) : (gapState x k).valid = true := rfl

theorem bitmap_ext (a b : Bitmap) (h1 : a.valid = b.valid) (h2 : a.first = b.first)
    (h3 : a.bits = b.bits) : a = b := by
  cases a; cases b; simp only at h1 h2 h3; rw [h1, h2, h3]

theorem bloopStep_none (rate : Nat) (b : Bitmap) (s : Nat)
    (h : readLoopNackArg s (b.set s).first rate = none) : bloopStep rate b s = (b.set s, none) := by
  unfold bloopStep; rw [h, nackStep_none]

theorem bloopStep_some (rate : Nat) (b : Bitmap) (s next : Nat)
    (h : readLoopNackArg s (b.set s).first rate = some next) :
    bloopStep rate b s = nackStep (some next) (b.set s) := by
  unfold bloopStep; rw [h]

/-- (C) in the state with `m` leading ones, storing the next expected packet collapses the bitmap
to `first = that packet, bits = 1` and sends nothing -/
theorem step_ones (rate y m : Nat) (hy : y < 65536) (hm1 : 1 ≤ m) (hm : m < 28) :
    bloopStep rate (onesState y m) (add16 y m) = (onesState (add16 y m) 1, none) := by
  obtain ⟨o1, o2, o3⟩ := bits_ones m hm hm1
  have hs := add16_lt y m
  have hset : (onesState y m).set (add16 y m) = onesState (add16 y m) 1 := by
    have hd : sub16 (add16 y m) (onesState y m).first < 32 := by
      rw [onesState_first, sub16_add16 _ _ hy (by omega)]; omega
    rw [set_in_window _ _ (by rw [onesState_first]; exact hy) hs (onesState_valid _ _) hd]
    have hon : setOnes (onesState y m) = m := by
      unfold setOnes; rw [onesState_bits]; simp only [o1, o2, if_true]
    rw [hon]
    apply bitmap_ext
    · rw [markBit_valid, shiftBy_valid]; rfl
    · rw [markBit_first, shiftBy_first]; rfl
    · rw [markBit_bits, shiftBy_bits, shiftBy_first, onesState_bits, onesState_first, o3,
        sub16_self _ hs, onesState_bits]; rfl
  rw [bloopStep_none, hset]
  rw [hset, onesState_first]
  apply readLoop_none
  rw [sub16_self _ hs]; omega


/-- (B1) the packet after the missing one arrives: `first` moves onto the missing seqno -/
theorem step_gap_first (rate l : Nat) (hl : l < 65536) :
    bloopStep rate (onesState l 1) (add16 l 2) = (gapState (add16 l 1) 1, none) := by
  obtain ⟨o1, o2, o3⟩ := bits_ones 1 (by omega) (by omega)
  have hs := add16_lt l 2
  have hx := add16_lt l 1
  have hset : (onesState l 1).set (add16 l 2) = gapState (add16 l 1) 1 := by
    have hd : sub16 (add16 l 2) (onesState l 1).first < 32 := by
      rw [onesState_first, sub16_add16 _ _ hl (by omega)]; omega
    rw [set_in_window _ _ (by rw [onesState_first]; exact hl) hs (onesState_valid _ _) hd]
    have hon : setOnes (onesState l 1) = 1 := by
      unfold setOnes; rw [onesState_bits]; simp only [o1, o2, if_true]
    have hsub : sub16 (add16 l 2) (add16 l 1) = 1 := by unfold sub16 add16; omega
    rw [hon]
    apply bitmap_ext
    · rw [markBit_valid, shiftBy_valid]; rfl
    · rw [markBit_first, shiftBy_first]; rfl
    · rw [markBit_bits, shiftBy_bits, shiftBy_first, onesState_bits, onesState_first, o3, hsub,
        gapState_bits]; rfl
  rw [bloopStep_none, hset]
  rw [hset, gapState_first]
  apply readLoop_none
  have hsub : sub16 (add16 l 2) (add16 l 1) = 1 := by unfold sub16 add16; omega
  have := nackPackets_bounds rate
  rw [hsub]; omega

/-- the `set` half of (B2)/(B3): one more packet after the gap -/
theorem set_gap (x k : Nat) (hx : x < 65536) (hk : k < 25) :
    (gapState x k).set (add16 x (k + 1)) = gapState x (k + 1) := by
  have hs := add16_lt x (k + 1)
  have hsub : sub16 (add16 x (k + 1)) x = k + 1 := sub16_add16 _ _ hx (by omega)
  have hd : sub16 (add16 x (k + 1)) (gapState x k).first < 32 := by
    rw [gapState_first, hsub]; omega
  rw [set_in_window _ _ (by rw [gapState_first]; exact hx) hs (gapState_valid _ _) hd]
  have hon : setOnes (gapState x k) = 0 := by
    unfold setOnes; rw [gapState_bits, if_neg (by rw [bits_gap_even k (by omega)]; omega)]
  rw [hon, shiftBy_zero _ (by rw [gapState_first]; exact hx)]
  apply bitmap_ext
  · rw [markBit_valid]; rfl
  · rw [markBit_first]; rfl
  · rw [markBit_bits, gapState_bits, gapState_first, hsub, bits_gap_or k (by omega), gapState_bits]

/-- (B2) further packets after the gap, while the lateness threshold is not exceeded: nothing sent -/
theorem step_gap (rate x k : Nat) (hx : x < 65536) (hk : k + 1 ≤ nackPackets rate) :
    bloopStep rate (gapState x k) (add16 x (k + 1)) = (gapState x (k + 1), none) := by
  have hP := nackPackets_bounds rate
  have hset := set_gap x k hx (by omega)
  rw [bloopStep_none, hset]
  rw [hset, gapState_first]
  apply readLoop_none
  rw [sub16_add16 _ _ hx (by omega)]; exact hk

theorem named_singleton (f bm x : Nat) (hx : x < 65536) (hbm : bm < 65536)
    (h : ∀ s, Named f bm s ↔ s = x) : f = x ∧ bm = 0 := by
  have hf : f = x := (h f).mp (Or.inl rfl)
  refine ⟨hf, ?_⟩
  apply Nat.eq_of_testBit_eq
  intro i
  rw [Nat.zero_testBit]
  by_cases hi : i < 16
  · cases hb : bm.testBit i
    · rfl
    · have := (h (add16 f (i + 1))).mp (Or.inr ⟨i, hi, hb, rfl⟩)
      rw [hf] at this; unfold add16 at this; omega
  · apply Nat.testBit_lt_two_pow
    calc bm < 2 ^ 16 := hbm
      _ ≤ 2 ^ i := Nat.pow_le_pow_right (by decide) (by omega)

/-- (B3) the packet that makes the gap exceed the threshold: the loop calls `BitmapGet`, which
names exactly the missing seqno (NACK `(x, 0)`), and the bitmap is left with only leading ones -/
theorem step_gap_fire (rate x : Nat) (hx : x < 65536) :
    ∃ c, 1 ≤ c ∧ c + nackUnnacked rate ≤ nackPackets rate + 1 ∧
    bloopStep rate (gapState x (nackPackets rate)) (add16 x (nackPackets rate + 1)) =
      (onesState (add16 x c) (nackPackets rate + 2 - c), some (x, 0)) := by
  obtain ⟨hP1, hP2, hP3, hP4, hP5⟩ := nackPackets_bounds rate
  generalize hPd : nackPackets rate = P at *
  generalize hud : nackUnnacked rate = u at *
  have hset := set_gap x P hx (by omega)
  have hsub : sub16 (add16 x (P + 1)) x = P + 1 := sub16_add16 _ _ hx (by omega)
  have hnext : sub16 (add16 x (P + 1)) u = add16 x (P + 1 - u) := by unfold sub16 add16; omega
  have harg : readLoopNackArg (add16 x (P + 1)) ((gapState x P).set (add16 x (P + 1))).first rate =
      some (add16 x (P + 1 - u)) := by
    rw [hset, gapState_first, readLoopNackArg_eq, hPd, hud, if_pos, hnext]
    unfold nackDelta; rw [hsub, if_neg (by omega)]; omega
  rw [bloopStep_some _ _ _ _ harg, hset, nackStep_some]
  -- the `get`
  have hn : sub16 (add16 x (P + 1 - u)) x = P + 1 - u := sub16_add16 _ _ hx (by omega)
  have hf : (gapState x (P + 1)).first < 65536 := by rw [gapState_first]; exact hx
  have hc : ¬ Loss.compare (gapState x (P + 1)).first (add16 x (P + 1 - u)) ≥ 0 := by
    rw [gapState_first, compare_ge_iff, hn]
    intro hh
    rcases hh with hh | hh
    · rw [← hh, sub16_self _ hx] at hn; omega
    · omega
  obtain ⟨g1, g2, g3, g4⟩ := get_spec (gapState x (P + 1)) (add16 x (P + 1 - u)) hf hc
  rw [gapState_first, hn] at g1 g2 g4
  generalize hcd : min (P + 1 - u) 17 = c at *
  have hc1 : 1 ≤ c := by omega
  have hcP : c + u ≤ P + 1 := by omega
  have hbit : ∀ j, j < c → ((gapState x (P + 1)).bits.testBit j = false ↔ j = 0) := by
    intro j hj
    rw [gapState_bits, bits_gap_testBit P (by omega) j (by omega)]
    by_cases h0 : j = 0
    · simp [h0]
    · have h1 : 1 ≤ j := by omega
      have h2 : j ≤ P + 1 := by omega
      simp [h0, h1, h2]
  have hfound : ((gapState x (P + 1)).get (add16 x (P + 1 - u))).2.1 = true :=
    g2.mpr ⟨0, by omega, (hbit 0 (by omega)).mpr rfl⟩
  obtain ⟨g5, g6⟩ := g4 hfound
  have hnamed : ∀ s, Named ((gapState x (P + 1)).get (add16 x (P + 1 - u))).2.2.1
      ((gapState x (P + 1)).get (add16 x (P + 1 - u))).2.2.2 s ↔ s = x := by
    intro s
    rw [g6 s]
    constructor
    · rintro ⟨j, hj, hb, hs⟩
      rw [(hbit j hj).mp hb, add16_zero _ hx] at hs; exact hs
    · intro hs
      exact ⟨0, by omega, (hbit 0 (by omega)).mpr rfl, by rw [add16_zero _ hx]; exact hs⟩
  obtain ⟨n1, n2⟩ := named_singleton _ _ x hx g5 hnamed
  refine ⟨c, hc1, hcP, ?_⟩
  rw [if_pos hfound, g1]
  have hstate : shiftBy (gapState x (P + 1)) c = onesState (add16 x c) (P + 2 - c) := by
    apply bitmap_ext
    · rw [shiftBy_valid]; rfl
    · rw [shiftBy_first, gapState_first]; rfl
    · rw [shiftBy_bits, gapState_bits, bits_gap_shr P (by omega) c (by omega) hc1 (by omega),
        onesState_bits]
  rw [hstate]
  congr 2
  exact Prod.ext n1 n2


theorem seqFrom_succ (s k : Nat) : seqFrom s (k + 1) = s :: seqFrom (add16 s 1) k := rfl
theorem seqFrom_zero (s : Nat) : seqFrom s 0 = [] := rfl

theorem bloopRun_cons_of (rate : Nat) (b b1 : Bitmap) (o : Option (Nat × Nat)) (s : Nat)
    (ss : List Nat) (h : bloopStep rate b s = (b1, o)) :
    bloopRun rate b (s :: ss) = ((bloopRun rate b1 ss).1, o.toList ++ (bloopRun rate b1 ss).2) := by
  rw [bloopRun_cons, h]

theorem bloopRun_append_of (rate : Nat) (b b1 : Bitmap) (n1 : List (Nat × Nat)) (l1 l2 : List Nat)
    (h : bloopRun rate b l1 = (b1, n1)) :
    bloopRun rate b (l1 ++ l2) = ((bloopRun rate b1 l2).1, n1 ++ (bloopRun rate b1 l2).2) := by
  rw [bloopRun_append, h]

theorem none_toList_append {α : Type} (l : List α) : (none : Option α).toList ++ l = l := rfl
theorem pair_eta {α β : Type} (p : α × β) : (p.1, p.2) = p := rfl

/-- (RA) in-order packets keep the bitmap in the state `first = newest, bits = 1`; nothing is sent -/
theorem run_inorder (rate k l : Nat) (hl : l < 65536) :
    bloopRun rate (onesState l 1) (seqFrom (add16 l 1) k) = (onesState (add16 l k) 1, []) := by
  induction k generalizing l with
  | zero => rw [add16_zero _ hl, seqFrom_zero, bloopRun_nil]
  | succ k ih =>
    rw [seqFrom_succ, bloopRun_cons_of _ _ _ _ _ _ (step_ones rate l 1 hl (by omega) (by omega)),
      ih (add16 l 1) (add16_lt _ _), add16_add16, Nat.add_comm 1 k, none_toList_append]

/-- (RA') from a bitmap with `m` leading ones, the expected packets follow: nothing is sent -/
theorem run_after_ones (rate y m k : Nat) (hy : y < 65536) (hm1 : 1 ≤ m) (hm : m < 28) :
    ∃ b', bloopRun rate (onesState y m) (seqFrom (add16 y m) k) = (b', []) := by
  cases k with
  | zero => exact ⟨_, by rw [seqFrom_zero, bloopRun_nil]⟩
  | succ k =>
    exact ⟨_, by rw [seqFrom_succ, bloopRun_cons_of _ _ _ _ _ _ (step_ones rate y m hy hm1 hm),
      run_inorder rate k (add16 y m) (add16_lt _ _), none_toList_append]⟩

/-- (RB) packets after the gap, up to the lateness threshold: nothing is sent -/
theorem run_gap (rate x j k : Nat) (hx : x < 65536) (hk : k + j ≤ nackPackets rate) :
    bloopRun rate (gapState x k) (seqFrom (add16 x (k + 1)) j) = (gapState x (k + j), []) := by
  induction j generalizing k with
  | zero => rw [seqFrom_zero, bloopRun_nil]; rfl
  | succ j ih =>
    rw [seqFrom_succ, bloopRun_cons_of _ _ _ _ _ _ (step_gap rate x k hx (by omega)),
      add16_add16, ih (k + 1) (by omega), show k + 1 + j = k + (j + 1) by omega, none_toList_append]

theorem step_first (rate s0 : Nat) (hs0 : s0 < 65536) :
    bloopStep rate {} s0 = (onesState s0 1, none) := by
  have hset : ({} : Bitmap).set s0 = onesState s0 1 := by
    rw [set_reset _ _ (by rfl)]; rfl
  rw [bloopStep_none, hset]
  rw [hset, onesState_first]
  apply readLoop_none
  rw [sub16_self _ hs0]; omega

/-- the steady stream with one loss, at bitmap level -/
theorem bloop_steady (rate s0 n m : Nat) (hs0 : s0 < 65536) (hn : 1 ≤ n) :
    (bloopRun rate {} (seqFrom s0 n ++ seqFrom (add16 s0 (n + 1)) m)).2 =
      if nackPackets rate + 1 ≤ m then [(add16 s0 n, 0)] else [] := by
  obtain ⟨hP1, hP2, hP3, hP4, hP5⟩ := nackPackets_bounds rate
  obtain ⟨n', rfl⟩ : ∃ n', n = n' + 1 := ⟨n - 1, by omega⟩
  -- phase A: the in-order prefix
  have hA : bloopRun rate {} (seqFrom s0 (n' + 1)) = (onesState (add16 s0 n') 1, []) := by
    rw [seqFrom_succ, bloopRun_cons_of _ _ _ _ _ _ (step_first rate s0 hs0),
      run_inorder rate n' s0 hs0, none_toList_append]
  rw [bloopRun_append_of _ _ _ _ _ _ hA, List.nil_append]
  generalize hl : add16 s0 n' = l
  have hlt : l < 65536 := by rw [← hl]; exact add16_lt _ _
  have hx : add16 s0 (n' + 1) = add16 l 1 := by rw [← hl, add16_add16]
  have hx2 : add16 s0 (n' + 1 + 1) = add16 l 2 := by rw [← hl, add16_add16]
  rw [hx, hx2]
  generalize hxd : add16 l 1 = x
  have hxlt : x < 65536 := by rw [← hxd]; exact add16_lt _ _
  cases m with
  | zero => rw [if_neg (by omega), seqFrom_zero, bloopRun_nil]
  | succ m' =>
    have hx3 : add16 (add16 l 2) 1 = add16 x (1 + 1) := by rw [← hxd, add16_add16, add16_add16]
    rw [seqFrom_succ, bloopRun_cons_of _ _ _ _ _ _ (step_gap_first rate l hlt), hxd,
      none_toList_append, hx3]
    by_cases hm : m' + 1 ≤ nackPackets rate
    · rw [if_neg (by omega), run_gap rate x m' 1 hxlt (by omega)]
    · rw [if_pos (by omega)]
      -- split the packets after the gap at the one that fires
      obtain ⟨r, hr⟩ : ∃ r, m' = (nackPackets rate - 1) + (r + 1) := ⟨m' - nackPackets rate, by omega⟩
      obtain ⟨c, hc1, hc2, hfire⟩ := step_gap_fire rate x hxlt
      have hnext : add16 (add16 x (nackPackets rate + 1)) 1 =
          add16 (add16 x c) (nackPackets rate + 2 - c) := by
        rw [add16_add16, add16_add16]; congr 1; omega
      obtain ⟨b', hrest⟩ := run_after_ones rate (add16 x c) (nackPackets rate + 2 - c) r (add16_lt _ _)
        (by omega) (by omega)
      rw [hr, seqFrom_add _ _ _ (add16_lt _ _),
        bloopRun_append_of _ _ _ _ _ _ (run_gap rate x (nackPackets rate - 1) 1 hxlt (by omega)),
        List.nil_append, add16_add16,
        show 1 + (nackPackets rate - 1) = nackPackets rate by omega,
        show 1 + 1 + (nackPackets rate - 1) = nackPackets rate + 1 by omega,
        seqFrom_succ, bloopRun_cons_of _ _ _ _ _ _ hfire, hnext, hrest]
      rfl


/-- install the outcome of the NACK step in the cache state -/
def withNack (c1 : Stats) (d : Bitmap × Option (Nat × Nat)) : Stats × Option (Nat × Nat) :=
  ({ c1 with bitmap := d.1 }, d.2)

theorem withNack_bitmap (c1 : Stats) (d : Bitmap × Option (Nat × Nat)) :
    (withNack c1 d).1.bitmap = d.1 := rfl
theorem withNack_snd (c1 : Stats) (d : Bitmap × Option (Nat × Nat)) : (withNack c1 d).2 = d.2 := rfl

/-- one iteration of the read loop on the full loss-accounting state: `Cache.Store` (which returns
`bitmap.first`), the NACK decision `readLoopNackArg`, then `BitmapGet` and the NACK if found.
`kf seqno` says whether the packet is a keyframe (irrelevant for NACKs). -/
def loopStep (rate : Nat) (kf : Nat → Bool) (c : Stats) (seqno : Nat) : Stats × Option (Nat × Nat) :=
  withNack (c.store seqno (kf seqno)).1
    (nackStep (readLoopNackArg seqno (c.store seqno (kf seqno)).2 rate)
      (c.store seqno (kf seqno)).1.bitmap)

/-- run the read loop over a stream of seqnos; returns the NACKs `(first, bitmap)` sent, in order -/
def loopRun (rate : Nat) (kf : Nat → Bool) : Stats → List Nat → Stats × List (Nat × Nat)
  | c, [] => (c, [])
  | c, s :: ss =>
    ((loopRun rate kf (loopStep rate kf c s).1 ss).1,
     (loopStep rate kf c s).2.toList ++ (loopRun rate kf (loopStep rate kf c s).1 ss).2)

theorem loopRun_nil (rate : Nat) (kf : Nat → Bool) (c : Stats) : loopRun rate kf c [] = (c, []) := rfl
theorem loopRun_cons (rate : Nat) (kf : Nat → Bool) (c : Stats) (s : Nat) (ss : List Nat) :
    loopRun rate kf c (s :: ss) =
    ((loopRun rate kf (loopStep rate kf c s).1 ss).1,
     (loopStep rate kf c s).2.toList ++ (loopRun rate kf (loopStep rate kf c s).1 ss).2) := rfl

/-- the read loop's NACK behaviour depends only on the bitmap half of the state -/
theorem loopStep_bitmap (rate : Nat) (kf : Nat → Bool) (c : Stats) (s : Nat) :
    (loopStep rate kf c s).1.bitmap = (bloopStep rate c.bitmap s).1 ∧
    (loopStep rate kf c s).2 = (bloopStep rate c.bitmap s).2 := by
  obtain ⟨e1, e2⟩ := store_bitmap c s (kf s)
  unfold loopStep bloopStep
  rw [withNack_bitmap, withNack_snd, e1, e2]
  exact ⟨rfl, rfl⟩

theorem loopRun_bitmap (rate : Nat) (kf : Nat → Bool) (c : Stats) (l : List Nat) :
    (loopRun rate kf c l).1.bitmap = (bloopRun rate c.bitmap l).1 ∧
    (loopRun rate kf c l).2 = (bloopRun rate c.bitmap l).2 := by
  induction l generalizing c with
  | nil => rw [loopRun_nil, bloopRun_nil]; exact ⟨rfl, rfl⟩
  | cons s ss ih =>
    obtain ⟨e1, e2⟩ := loopStep_bitmap rate kf c s
    obtain ⟨i1, i2⟩ := ih (loopStep rate kf c s).1
    rw [e1] at i1 i2
    rw [bloopRun_cons, loopRun_cons]
    exact ⟨i1, by rw [i2, e2]⟩

theorem named_zero (f s : Nat) : Named f 0 s ↔ s = f := by
  unfold Named
  constructor
  · rintro (h | ⟨i, _, hb, _⟩)
    · exact h
    · rw [Nat.zero_testBit] at hb; cases hb
  · exact Or.inl

/-- **A lost packet in a steady stream is requested, exactly once** (bounded shape).
Full statement aimed at: in any steadily arriving stream with an isolated loss, the missing seqno
is named by exactly one `get`.  Proved shape (hence `_partial`): the read loop (`Store`, NACK
decision with a fixed `rate`, `BitmapGet`) starts from the zero state and receives, in order and
without duplicates, `n ≥ 1` consecutive seqnos `s0, s0+1, …` (mod 2^16, any `s0`, wrap allowed),
then the seqno `x = s0 + n` is skipped, then `m` further consecutive seqnos `x+1, x+2, …` arrive.
Then the complete list of NACKs sent by the loop is: nothing while fewer than `packets + 1` packets
have arrived after the gap (`packets = clamp(rate/50, 2, 24)`), and exactly the single NACK
`(first := x, bitmap := 0)` — naming `x` and nothing else (`named_zero`) — once `m ≥ packets + 1`,
however long the stream continues afterwards. -/
theorem C06_steady_loss_nacked_partial (rate : Nat) (kf : Nat → Bool) (s0 n m : Nat)
    (hs0 : s0 < 65536) (hn : 1 ≤ n) :
    (loopRun rate kf {} (seqFrom s0 n ++ seqFrom (add16 s0 (n + 1)) m)).2 =
      if nackPackets rate + 1 ≤ m then [(add16 s0 n, 0)] else [] := by
  rw [(loopRun_bitmap rate kf {} _).2]
  exact bloop_steady rate s0 n m hs0 hn

/-! ## §7b End-to-end corollaries (histories; bitmap + read-loop decision) -/

/-- **Never a NACK for a received packet, over all histories.**  After any history of `set`/`get`
(uint16 arguments) from the zero bitmap, every seqno `s` named by a further `get next`:
its absolute position `p` lies in `[base, base + 17)`, was not stored in the current epoch, and was
not named before in the epoch; while the epoch has advanced less than a full circle
(`base + 288 ≤ start + 2^16`), the seqno `s` itself was never passed to `set` since the last
reset, and (`base + 17 ≤ start + 2^16`) never named since the last reset. -/
theorem C06_nack_never_received (ops : List BOp) (hv : ∀ op ∈ ops, op.valid) (next s : Nat)
    (b : Bitmap) (g : BGhost) (hrun : brun ({}, {}) ops = (b, g))
    (hs : s ∈ getNamed (b.get next).2) :
    g.base ≤ g.base + sub16 s b.first ∧ g.base + sub16 s b.first < g.base + 17 ∧
    (g.base + sub16 s b.first) % 65536 = s ∧
    g.base + sub16 s b.first ∉ g.hist ∧ g.base + sub16 s b.first ∉ g.nacked ∧
    (g.base + 288 ≤ g.start + 65536 → s ∉ g.epoch) ∧
    (g.base + 17 ≤ g.start + 65536 → s ∉ g.named) := by
  have h := brun_inv ({}, {}) ops hv BInv_init
  rw [hrun] at h
  have hfresh := h.nack_fresh next s hs
  simp only at hfresh
  obtain ⟨h1, h2, h3, h4, h5, h6, h7⟩ := hfresh
  have hle := getCount_le b next
  exact ⟨h1, by omega, h3, h4, h5, h6, h7⟩

/-- the named seqnos of a `get` result are exactly those satisfying `Named` -/
theorem mem_getNamed (r : Bool × Nat × Nat) (s : Nat) :
    s ∈ getNamed r ↔ r.1 = true ∧ Named r.2.1 r.2.2 s := by
  unfold getNamed
  split
  · rename_i h; rw [mem_namedSeqs]; simp [h]
  · rename_i h; simp [h]

theorem nack_before_newest_arith (seqno first s u next : Nat)
    (r1 : 2 ≤ u) (r7 : sub16 seqno first < 32768)
    (n4 : sub16 next first = sub16 seqno first - u)
    (k2 : sub16 s first < sub16 next first)
    (hdist : sub16 seqno s = sub16 seqno first - sub16 s first) :
    3 ≤ sub16 seqno s ∧ sub16 seqno s ≤ sub16 seqno first ∧ sub16 seqno first < 32768 := by
  omega

/-- **Never a NACK at or beyond the newest packet.**  If, after storing `seqno` (bitmap now `b`,
whose `first` is what `Store` returned), the read loop calls `BitmapGet(next)` and it reports
`(f, bm)`, then every named seqno `s` lies between `first` and `seqno - 3` (modularly): it is at
least 3 packets older than the packet just stored and not older than `first`. -/
theorem C06_nack_before_newest (b : Bitmap) (seqno rate next : Nat) (hf : b.first < 65536)
    (hs : seqno < 65536) (harg : readLoopNackArg seqno b.first rate = some next)
    (b' : Bitmap) (f bm : Nat) (hget : b.get next = (b', (true, f, bm))) (s : Nat)
    (hnamed : Named f bm s) :
    3 ≤ sub16 seqno s ∧ sub16 seqno s ≤ sub16 seqno b.first ∧ sub16 seqno b.first < 32768 := by
  obtain ⟨r1, r2, r3, r4, r5, r6, r7, r8⟩ := C06_readloop_bounds seqno b.first rate next harg
  obtain ⟨n1, n2, n3, n4, n5, n6, n7⟩ := C06_readloop_next_range seqno b.first rate next hs hf harg
  obtain ⟨m1, m2, m3, m4, m5⟩ := C06_nack_sound b next hf n1 b' f bm hget
  obtain ⟨k1, k2, k3, k4⟩ := m5 s hnamed
  have hsj : add16 b.first (sub16 s b.first) = s := add16_sub16 s b.first k1 hf
  have hdist : sub16 seqno s = sub16 seqno b.first - sub16 s b.first :=
    (congrArg (sub16 seqno) hsj).symm.trans (sub16_add16_right _ _ _ hs hf (by omega))
  exact nack_before_newest_arith seqno b.first s (nackUnnacked rate) next r1 r7 n4 k2 hdist

/-! ## §8 Counterexamples for the dropped generality, and non-vacuity -/

/-- a history that goes once around the 16-bit circle without any reset -/
def cxWrap : List BOp := [.set 0, .set 30000, .set 60000, .set 20]

/-- **The seqno-level converse of the bitmap invariant needs the circle bound.**  After `cxWrap`
(all valid ops, no reset after the first `set`), seqno 0 is in the current epoch and lies inside the
window (`sub16 0 first = 11 < 32`), yet its bit is clear: the window has come round to a *later
cycle's* seqno 0.  The hypothesis `base + 288 ≤ start + 2^16` of `C06_bitmap_inv` fails here. -/
theorem C06_converse_needs_bound :
    (∀ op ∈ cxWrap, op.valid) ∧
    (0 ∈ (brun ({}, {}) cxWrap).2.epoch) ∧ sub16 0 (brun ({}, {}) cxWrap).1.first = 11 ∧
    (brun ({}, {}) cxWrap).1.bits.testBit 11 = false ∧
    ¬ ((brun ({}, {}) cxWrap).2.base + 288 ≤ (brun ({}, {}) cxWrap).2.start + 65536) := by
  refine ⟨?_, by decide, by decide, by decide, by decide⟩
  intro op hop
  simp only [cxWrap, List.mem_cons, List.mem_nil_iff, or_false] at hop
  rcases hop with rfl | rfl | rfl | rfl <;> simp [BOp.valid]

/-- a history in which, one cycle later and with no reset in between, seqnos 2 and 3 are named again -/
def cxTwice : List BOp := [.set 0, .set 5, .get 4, .set 30000, .set 60000, .set 33, .get 5]

/-- **Seqno-level "named once" needs the circle bound**: without `base ≤ start + 2^16` the same
16-bit seqno can be named twice in one epoch (it then denotes a packet of a later cycle; the
absolute positions are still strictly increasing, as `C06_named_once` says). -/
theorem C06_named_once_needs_bound :
    (brun ({}, {}) cxTwice).2.named = [1, 2, 3, 2, 3, 4] ∧
    (brun ({}, {}) cxTwice).2.nacked = [65537, 65538, 65539, 131074, 131075, 131076] ∧
    ¬ ((brun ({}, {}) cxTwice).2.base ≤ (brun ({}, {}) cxTwice).2.start + 65536) := by
  refine ⟨by decide, by decide, by decide⟩

/-- Non-vacuity for §6: a history with a loss burst (65532, 65533 skipped), a duplicate (65534
twice), a reordered packet (65533 arrives late), and a wrap 65535 → 0, followed by two `get`s. -/
def exB : List BOp :=
  [.set 65530, .set 65531, .set 65534, .set 65534, .set 65533, .set 65535, .set 0, .set 1, .set 2,
   .get 0, .set 3, .set 4, .get 2]

example : ∀ op ∈ exB, op.valid := by
  intro op hop
  simp only [exB, List.mem_cons, List.mem_nil_iff, or_false] at hop
  rcases hop with rfl | rfl | rfl | rfl | rfl | rfl | rfl | rfl | rfl | rfl | rfl | rfl | rfl <;>
    simp [BOp.valid]
/-- before the first `get`: window starts at the first missing seqno, 65533..2 received -/
example : (brun ({}, {}) (exB.take 9)).1 = { valid := true, first := 65532, bits := 126 } := by decide
/-- the first `get` names exactly the still-missing 65532 (65533 arrived late and is not named) -/
example : ((brun ({}, {}) (exB.take 9)).1.get 0).2 = (true, 65532, 0) := by decide
example : (brun ({}, {}) exB).2.named = [65532] := by decide
example : (brun ({}, {}) exB).2.epoch = [65530, 65531, 65534, 65534, 65533, 65535, 0, 1, 2, 3, 4] := by
  decide
/-- the hypotheses of the seqno-level clauses hold in this state -/
example : (brun ({}, {}) exB).2.base + 288 ≤ (brun ({}, {}) exB).2.start + 65536 := by decide
/-- a `get` with nothing missing returns `(false, first, 0)` -/
example : ((brun ({}, {}) exB).1.get 4).2 = (false, 4, 0) := by decide

/-- Non-vacuity for §1: the read loop fires with `next = seqno - 4`, and stays quiet otherwise -/
example : readLoopNackArg 10 3 200 = some 6 := by decide
example : readLoopNackArg 2 65530 100 = some 0 := by decide
example : readLoopNackArg 10 8 200 = none := by decide
example : nackPackets 200 = 4 ∧ nackUnnacked 200 = 4 ∧ nackPackets 0 = 2 ∧ nackUnnacked 0 = 2 ∧
    nackPackets 5000 = 24 := by decide

/-- Non-vacuity for §2 -/
example : reportLoss ⟨7, 7, 10, 10, 65536⟩ = (3, 76) := by decide
example : reportLoss ⟨0, 0, 1000, 1000, 0⟩ = (1000, 255) := by decide

/-- Observation: the uint32 product `lost * 256` wraps when 2^24 or more packets are lost in one
report interval; with exactly 2^24 expected and none received the reported fraction is 0, not 255.
This is why `C06_report_fraction` needs `lost < 2^24` (the bound `≤ 255` holds regardless). -/
example : reportLoss ⟨0, 0, 16777216, 16777216, 0⟩ = (16777216, 0) := by decide

/-- Observation: `bitmap.get` does not look at `valid`; on the zero bitmap (before any `Store`)
`BitmapGet(5)` would report seqnos 0..4 as missing.  Unreachable from `readLoop`, which only calls
`BitmapGet` right after a `Store`; the theorems of §6 hold for such histories too (nothing named
was stored). -/
example : ({} : Bitmap).get 5 = ({ valid := false, first := 5, bits := 0 }, (true, 0, 15)) := by decide

/-- Non-vacuity for §3: loss burst, duplicate, reordered packet, wrap 65535 → 0, `Expect`, resets,
and finally a backward jump (2 → 60000 is 5538 behind). -/
def exS : List SOp :=
  [.store 65530 false, .store 65531 false, .store 65534 true, .store 65534 false, .store 65533 false,
   .getStats false, .store 65535 false, .store 0 false, .expect 3, .getStats true, .store 2 false,
   .getStats true, .store 60000 false, .getStats true]

example : ∀ op ∈ exS, op.valid := by
  intro op hop
  simp only [exS, List.mem_cons, List.mem_nil_iff, or_false] at hop
  rcases hop with rfl | rfl | rfl | rfl | rfl | rfl | rfl | rfl | rfl | rfl | rfl | rfl | rfl | rfl <;>
    simp [SOp.valid]
example : expSum {} exS = 13 ∧ wrapSum {} exS = 1 := by decide
example : (srun {} exS).2 =
    [{ received := 4, totalReceived := 4, expected := 5, totalExpected := 5, eseqno := 65534 },
     { received := 6, totalReceived := 6, expected := 10, totalExpected := 10, eseqno := 65536 },
     { received := 1, totalReceived := 7, expected := 2, totalExpected := 12, eseqno := 65538 },
     { received := 1, totalReceived := 8, expected := 1, totalExpected := 13, eseqno := 125536 }] := by
  decide
instance noJumpDec : (c : Stats) → (ops : List SOp) → Decidable (noJump c ops)
  | _, [] => isTrue trivial
  | c, op :: ops => by unfold noJump; exact @instDecidableAnd _ _ _ (noJumpDec _ ops)

/-- the first 12 ops contain no jump, the 13th is one -/
example : noJump {} (exS.take 12) := by decide
example : isJump (srun {} (exS.take 12)).1 (.store 60000 false) = true := by decide
/-- after a backward jump `eseqno` can indeed decrease (300 → 10 is 290 behind): the `noJump`
hypothesis of `C06_eseqno_mono` cannot be dropped -/
example : ((srun {} [.store 300 false, .getStats false, .store 10 false, .getStats false]).2.map
    (·.eseqno)) = [300, 10] := by decide

/-- Non-vacuity for §4 (with a wrap 65535 → 0 inside the bitmap range) -/
example : toBitmap [65534, 65535, 0, 3, 13, 14, 15, 40] = some (65534, 49171, [15, 40]) := by decide

/-- Non-vacuity for §7: rate 200 (`packets = 4`), stream 65530..65533, 65534 lost, then 65535, 0, 1, …
(wrapping): nothing is sent after 4 packets past the gap, the single NACK `(65534, 0)` after 5 or more -/
example : (loopRun 200 (fun _ => false) {} (seqFrom 65530 4 ++ seqFrom (add16 65530 5) 4)).2 = [] := by
  decide
example : (loopRun 200 (fun _ => false) {} (seqFrom 65530 4 ++ seqFrom (add16 65530 5) 9)).2 =
    [(65534, 0)] := by decide

end Galene.Props.C06
