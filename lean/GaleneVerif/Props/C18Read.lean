import GaleneVerif.Model.ReadVersion
import GaleneVerif.Generated.SyscallsDescRead
/-
C18, the READ side of "a group file is replaced atomically: a reader, the running server, or a
restart … sees either the complete old or the complete new definition" and of "an API write
carrying If-Match succeeds only if the definition is unchanged since that tag was served": the
entity tag that `readDescription` attaches to a definition (size and modification time; also the
validator of the running server's cached copy) identifies the version whose CONTENT it returns.

Model/ReadVersion.lean: the environment re-binds the path to other versions at arbitrary points
(rename); a descriptor stays bound to the version it was opened on.

* `C18_read_consistent` — for EVERY interleaving of replacements with the reader's calls: if the
  calls have the shape `readShapeOK` (one open of the file; after it no path-based stat of the
  file; an fstat on that descriptor), then there is ONE version `v` such that every size/mtime the
  reader obtained once the file was open and every byte it read belong to `v`, the reader did
  obtain a size/mtime from `v`, and `v` is the version the path was bound to when it was opened.
* `C18_read_inconsistent_pathstat` — the shape is needed: with a path-based stat after the open
  (what `os.Stat(fileName)` after the decode does) one replacement between the read and the stat
  gives the content of version 1 under the metadata of version 2.
* `C18_read_pathstat_breaks` — more generally: whenever a call list opens the target, reads from
  that descriptor and later stats the path, there is an interleaving that tears tag and content
  apart.
* `C18_read_shape` — side condition, regenerated on every run from strace captures of
  `group.GetDescription` on the checked tree (group not live / subgroup served from its parent's
  file / live group with a stale cache): every captured list has the shape.

Assumption (stated, not derivable from a system-call list): the tag of what is read is built from
a metadata call made once the file is open — in `readDescription` the only `fi` in scope is
assigned after `getDescriptionFile(…, os.Open)` has returned the open file.  The path-stat that
`descriptionUnchanged` makes BEFORE the open decides whether to read at all (`St.pre`).
-/
namespace Galene.Props.C18Read
open Galene.ReadVersion

/-- the phase reached by the reader's calls of an interleaving, computed along the interleaving -/
def phaseAlong (target : String) (ph : Phase) (evs : List Ev) : Phase :=
  evs.foldl (fun p ev => match ev with | .replace _ => p | .call c => phaseStep target p c) ph

theorem phaseAlong_calls (target : String) (ph : Phase) (evs : List Ev) :
    phaseAlong target ph evs = (calls evs).foldl (phaseStep target) ph := by
  induction evs generalizing ph with
  | nil => rfl
  | cons ev rest ih =>
    cases ev with
    | replace v => simpa [phaseAlong, calls] using ih ph
    | call c => simpa [phaseAlong, calls] using ih (phaseStep target ph c)

/-- what holds of the reader's state in each phase; `v` is the version bound by the open -/
def Inv : Phase → St → Prop
  | .p0, s => s.opened = false ∧ s.fds = [] ∧ s.tagSrc = [] ∧ s.contentSrc = []
  | .p1 fd b, s => ∃ v, s.fds = [(fd, v)] ∧ s.opened = true ∧ (∀ t ∈ s.tagSrc, t = v) ∧ (∀ c ∈ s.contentSrc, c = v) ∧
      (b = true → s.tagSrc ≠ [])
  | .p2 b, s => ∃ v, s.fds = [] ∧ s.opened = true ∧ (∀ t ∈ s.tagSrc, t = v) ∧ (∀ c ∈ s.contentSrc, c = v) ∧
      (b = true → s.tagSrc ≠ [])
  | .bad, _ => True

theorem bad_absorbing (target : String) (evs : List Ev) : phaseAlong target .bad evs = .bad := by
  induction evs with
  | nil => rfl
  | cons ev rest ih =>
    cases ev with
    | replace v => simpa [phaseAlong] using ih
    | call c => simpa [phaseAlong, phaseStep] using ih

theorem inv_replace (ph : Phase) (s : St) (v : Nat) (h : Inv ph s) : Inv ph { s with cur := v } := by
  cases ph
  · exact h
  · exact h
  · exact h
  · trivial

theorem inv_call (target : String) (ph : Phase) (s : St) (c : Call) (h : Inv ph s) :
    Inv (phaseStep target ph c) (step target s (.call c)) := by
  cases ph with
  | bad => simp [phaseStep, Inv]
  | p0 =>
    obtain ⟨ho, hf, ht, hc⟩ := h
    cases c with
    | pathStat p =>
      simp only [phaseStep, step]
      split
      · simp [ho, Inv, hf, ht, hc]
      · exact ⟨ho, hf, ht, hc⟩
    | openAt p fd =>
      simp only [phaseStep, step]
      split
      · exact ⟨s.cur, by simp [hf], rfl, by simp [ht], by simp [hc], by simp⟩
      · exact ⟨ho, hf, ht, hc⟩
    | fstat fd => simp [phaseStep, step, hf, bound, Inv, ho, ht, hc]
    | read fd => simp [phaseStep, step, hf, bound, Inv, ho, ht, hc]
    | close fd => simp [phaseStep, step, hf, Inv, ho, ht, hc]
  | p1 fd b =>
    obtain ⟨v, hf, ho, ht, hc, hb⟩ := h
    cases c with
    | pathStat p =>
      simp only [phaseStep]
      split
      · trivial
      · next hp => simp only [step, if_neg hp]; exact ⟨v, hf, ho, ht, hc, hb⟩
    | openAt p fd' =>
      simp only [phaseStep]
      split
      · trivial
      · next hp =>
        have hp' : ¬ p = target := fun h => hp (Or.inl h)
        simp only [step, if_neg hp']; exact ⟨v, hf, ho, ht, hc, hb⟩
    | fstat fd' =>
      by_cases hfd : fd' = fd
      · subst hfd
        have hbd : bound fd' s.fds = some v := by simp [hf, bound]
        simp only [phaseStep, step, hbd, if_true]
        exact ⟨v, hf, ho, by simpa using ht, hc, by simp⟩
      · have hbd : bound fd' s.fds = none := by
          have : ¬ fd = fd' := fun h => hfd h.symm
          simp [hf, bound, this]
        simp only [phaseStep, step, hbd, if_neg hfd]
        exact ⟨v, hf, ho, ht, hc, hb⟩
    | read fd' =>
      by_cases hfd : fd' = fd
      · subst hfd
        have hbd : bound fd' s.fds = some v := by simp [hf, bound]
        simp only [phaseStep, step, hbd]
        exact ⟨v, hf, ho, ht, by simpa using hc, hb⟩
      · have hbd : bound fd' s.fds = none := by
          have : ¬ fd = fd' := fun h => hfd h.symm
          simp [hf, bound, this]
        simp only [phaseStep, step, hbd]
        exact ⟨v, hf, ho, ht, hc, hb⟩
    | close fd' =>
      simp only [phaseStep, step]
      split
      · next hfd =>
        subst hfd
        exact ⟨v, by simp [hf], ho, ht, hc, hb⟩
      · next hfd =>
        have : ¬ fd = fd' := fun h => hfd h.symm
        exact ⟨v, by simp [hf, this], ho, ht, hc, hb⟩
  | p2 b =>
    obtain ⟨v, hf, ho, ht, hc, hb⟩ := h
    cases c with
    | pathStat p =>
      simp only [phaseStep]
      split
      · trivial
      · next hp => simp only [step, if_neg hp]; exact ⟨v, hf, ho, ht, hc, hb⟩
    | openAt p fd' =>
      simp only [phaseStep]
      split
      · trivial
      · next hp => simp only [step, if_neg hp]; exact ⟨v, hf, ho, ht, hc, hb⟩
    | fstat fd' => simp only [phaseStep, step, hf, bound]; exact ⟨v, hf, ho, ht, hc, hb⟩
    | read fd' => simp only [phaseStep, step, hf, bound]; exact ⟨v, hf, ho, ht, hc, hb⟩
    | close fd' => simp only [phaseStep, step]; exact ⟨v, by simp [hf], ho, ht, hc, hb⟩

theorem inv_run (target : String) (ph : Phase) (s : St) (evs : List Ev) (h : Inv ph s) :
    Inv (phaseAlong target ph evs) (run target s evs) := by
  induction evs generalizing ph s with
  | nil => exact h
  | cons ev rest ih =>
    cases ev with
    | replace v => exact ih ph _ (inv_replace ph s v h)
    | call c => exact ih _ _ (inv_call target ph s c h)

/-- **C18, a served tag identifies the served content.**  Whatever replacements of the file happen
between the reader's calls: if the calls have the captured shape (`readShapeOK`: one open, no
path-based stat of the file after it, an fstat on that descriptor), then all the metadata the
reader obtained once the file was open and all the content it read belong to one and the same
version, and it did obtain metadata of that version. -/
theorem C18_read_consistent (target : String) (v0 : Nat) (evs : List Ev)
    (hshape : readShapeOK target (calls evs) = true) :
    ∃ v, (run target { cur := v0 } evs).tagSrc ≠ [] ∧
      (∀ t ∈ (run target { cur := v0 } evs).tagSrc, t = v) ∧
      (∀ c ∈ (run target { cur := v0 } evs).contentSrc, c = v) := by
  have hinv := inv_run target .p0 { cur := v0 } evs ⟨rfl, rfl, rfl, rfl⟩
  rw [phaseAlong_calls] at hinv
  unfold readShapeOK phaseOf at hshape
  split at hshape
  · next fd h1 =>
    rw [h1] at hinv
    obtain ⟨v, _, _, ht, hc, hb⟩ := hinv
    exact ⟨v, hb rfl, ht, hc⟩
  · next h2 =>
    rw [h2] at hinv
    obtain ⟨v, _, _, ht, hc, hb⟩ := hinv
    exact ⟨v, hb rfl, ht, hc⟩
  · simp at hshape

/-- the content source is never empty-handed either: in the shape, the version is the one the path
was bound to at the moment of the open (so it is a version that was complete and in place) -/
theorem C18_read_version_of_open (target : String) (v0 : Nat) (pre post : List Ev) (fd : Nat)
    (hpre : phaseAlong target .p0 pre = .p0)
    (hshape : readShapeOK target (calls (pre ++ .call (.openAt target fd) :: post)) = true) :
    ∀ c ∈ (run target { cur := v0 } (pre ++ .call (.openAt target fd) :: post)).contentSrc,
      c = (run target { cur := v0 } pre).cur := by
  -- after `pre` and the open the invariant of p1 holds with v = cur
  have h0 := inv_run target .p0 { cur := v0 } pre ⟨rfl, rfl, rfl, rfl⟩
  rw [hpre] at h0
  obtain ⟨ho, hf, ht, hc⟩ := h0
  let s1 := run target { cur := v0 } pre
  have hrun : run target { cur := v0 } (pre ++ .call (.openAt target fd) :: post) =
      run target (step target s1 (.call (.openAt target fd))) post := by
    simp [run, List.foldl_append, s1]
  have hph : phaseAlong target .p0 (pre ++ .call (.openAt target fd) :: post) =
      phaseAlong target (.p1 fd false) post := by
    simp only [phaseAlong, List.foldl_append, List.foldl_cons]
    have : List.foldl (fun p ev => match ev with | .replace _ => p | .call c => phaseStep target p c) Phase.p0 pre = .p0 := hpre
    rw [this]
    simp [phaseStep]
  -- strengthened invariant: the bound version is fixed to s1.cur
  have key : ∀ (post : List Ev) (ph : Phase) (s : St), ph ≠ .p0 →
      (match ph with
       | .p1 fd' _ => s.fds = [(fd', s1.cur)] ∧ ∀ c ∈ s.contentSrc, c = s1.cur
       | .p2 _ => s.fds = [] ∧ ∀ c ∈ s.contentSrc, c = s1.cur
       | _ => True) →
      phaseAlong target ph post ≠ .bad →
      ∀ c ∈ (run target s post).contentSrc, c = s1.cur := by
    intro post
    induction post with
    | nil =>
      intro ph s hne hI _
      cases ph with
      | p0 => exact absurd rfl hne
      | bad => simp [phaseAlong] at *
      | p1 fd' b => exact hI.2
      | p2 b => exact hI.2
    | cons ev rest ih =>
      intro ph s hne hI hnb
      cases ev with
      | replace v =>
        apply ih ph { s with cur := v } hne
        · cases ph
          · trivial
          · exact hI
          · exact hI
          · trivial
        · simpa [phaseAlong] using hnb
      | call c =>
        have hnb' : phaseAlong target (phaseStep target ph c) rest ≠ .bad := by simpa [phaseAlong] using hnb
        have hstep_nb : phaseStep target ph c ≠ .bad := by
          intro hb; rw [hb, bad_absorbing] at hnb'; exact hnb' rfl
        cases ph with
        | p0 => exact absurd rfl hne
        | bad => simp [phaseStep] at hstep_nb
        | p1 fd' b =>
          obtain ⟨hfds, hcs⟩ := hI
          cases c with
          | pathStat p =>
            simp only [phaseStep] at hstep_nb hnb'
            split at hstep_nb
            · exact absurd rfl hstep_nb
            · next hp =>
              rw [if_neg hp] at hnb'
              refine ih (.p1 fd' b) _ (by simp) ?_ hnb'
              simp only [step, if_neg hp]; exact ⟨hfds, hcs⟩
          | openAt p fd'' =>
            simp only [phaseStep] at hstep_nb hnb'
            split at hstep_nb
            · exact absurd rfl hstep_nb
            · next hp =>
              rw [if_neg hp] at hnb'
              have hp' : ¬ p = target := fun h => hp (Or.inl h)
              refine ih (.p1 fd' b) _ (by simp) ?_ hnb'
              simp only [step, if_neg hp']; exact ⟨hfds, hcs⟩
          | fstat fd'' =>
            simp only [phaseStep] at hnb'
            by_cases hfd : fd'' = fd'
            · rw [if_pos hfd] at hnb'
              refine ih (.p1 fd' true) _ (by simp) ?_ hnb'
              subst hfd
              simp [step, hfds, bound]
              exact hcs
            · rw [if_neg hfd] at hnb'
              refine ih (.p1 fd' b) _ (by simp) ?_ hnb'
              have : ¬ fd' = fd'' := fun h => hfd h.symm
              simp [step, hfds, bound, this]
              exact hcs
          | read fd'' =>
            simp only [phaseStep] at hnb'
            refine ih (.p1 fd' b) _ (by simp) ?_ hnb'
            by_cases hfd : fd' = fd''
            · simp [step, hfds, bound, hfd]
              exact hcs
            · simp [step, hfds, bound, hfd]
              exact hcs
          | close fd'' =>
            simp only [phaseStep] at hnb'
            by_cases hfd : fd'' = fd'
            · rw [if_pos hfd] at hnb'
              refine ih (.p2 b) _ (by simp) ?_ hnb'
              subst hfd
              simp [step, hfds]
              exact hcs
            · rw [if_neg hfd] at hnb'
              refine ih (.p1 fd' b) _ (by simp) ?_ hnb'
              have : ¬ fd' = fd'' := fun h => hfd h.symm
              simp [step, hfds, this]
              exact hcs
        | p2 b =>
          obtain ⟨hfds, hcs⟩ := hI
          cases c with
          | pathStat p =>
            simp only [phaseStep] at hstep_nb hnb'
            split at hstep_nb
            · exact absurd rfl hstep_nb
            · next hp =>
              rw [if_neg hp] at hnb'
              refine ih (.p2 b) _ (by simp) ?_ hnb'
              simp only [step, if_neg hp]; exact ⟨hfds, hcs⟩
          | openAt p fd'' =>
            simp only [phaseStep] at hstep_nb hnb'
            split at hstep_nb
            · exact absurd rfl hstep_nb
            · next hp =>
              rw [if_neg hp] at hnb'
              refine ih (.p2 b) _ (by simp) ?_ hnb'
              simp only [step, if_neg hp]; exact ⟨hfds, hcs⟩
          | fstat fd'' =>
            simp only [phaseStep] at hnb'
            refine ih (.p2 b) _ (by simp) ?_ hnb'
            simp [step, hfds, bound]; exact hcs
          | read fd'' =>
            simp only [phaseStep] at hnb'
            refine ih (.p2 b) _ (by simp) ?_ hnb'
            simp [step, hfds, bound]; exact hcs
          | close fd'' =>
            simp only [phaseStep] at hnb'
            refine ih (.p2 b) _ (by simp) ?_ hnb'
            simp [step, hfds]; exact hcs
  have hnotbad : phaseAlong target (.p1 fd false) post ≠ .bad := by
    intro hb
    unfold readShapeOK phaseOf at hshape
    rw [← phaseAlong_calls, hph, hb] at hshape
    simp at hshape
  rw [hrun]
  apply key post (.p1 fd false) _ (by simp) _ hnotbad
  simp only [step, if_true]
  refine ⟨by simp [hf, s1], ?_⟩
  intro c hcm
  simp only [s1] at hcm ⊢
  rw [hc] at hcm
  simp at hcm

/-- **The shape is needed.**  The calls that `os.Stat(fileName)` after the decode produces — open,
read, path-stat, close — with one replacement between the read and the stat: the content is that
of version 1, the size/mtime (the tag) that of version 2. -/
theorem C18_read_inconsistent_pathstat :
    ∃ evs : List Ev,
      calls evs = [.openAt "groups/g.json" 0, .read 0, .pathStat "groups/g.json", .close 0] ∧
      (run "groups/g.json" { cur := 1 } evs).contentSrc = [1] ∧
      (run "groups/g.json" { cur := 1 } evs).tagSrc = [2] :=
  ⟨[.call (.openAt "groups/g.json" 0), .call (.read 0), .replace 2, .call (.pathStat "groups/g.json"), .call (.close 0)],
   by decide, by decide, by decide⟩

/-- the reader's state after calls without any replacement in between keeps `cur` -/
theorem run_calls_cur (target : String) (s : St) (cs : List Call) :
    (run target s (cs.map .call)).cur = s.cur := by
  induction cs generalizing s with
  | nil => rfl
  | cons c rest ih =>
    simp only [List.map_cons, run, List.foldl_cons]
    have : (step target s (.call c)).cur = s.cur := by
      cases c <;> simp only [step] <;> (try split) <;> (try split) <;> rfl
    exact (ih _).trans this

theorem calls_map (cs : List Call) : calls (cs.map .call) = cs := by
  induction cs with
  | nil => rfl
  | cons c rest ih => simp [calls, ih]

theorem calls_append (a b : List Ev) : calls (a ++ b) = calls a ++ calls b := by
  induction a with
  | nil => rfl
  | cons ev rest ih => cases ev <;> simp [calls, ih]

theorem tagSrc_mono (target : String) (s : St) (evs : List Ev) (x : Nat) (h : x ∈ s.tagSrc) :
    x ∈ (run target s evs).tagSrc := by
  induction evs generalizing s with
  | nil => exact h
  | cons ev rest ih =>
    apply ih
    cases ev with
    | replace v => exact h
    | call c =>
      cases c <;> simp only [step] <;> (try split) <;> (try split) <;> simp_all

theorem contentSrc_mono (target : String) (s : St) (evs : List Ev) (x : Nat) (h : x ∈ s.contentSrc) :
    x ∈ (run target s evs).contentSrc := by
  induction evs generalizing s with
  | nil => exact h
  | cons ev rest ih =>
    apply ih
    cases ev with
    | replace v => exact h
    | call c =>
      cases c <;> simp only [step] <;> (try split) <;> (try split) <;> simp_all

/-- **Any path-stat after an open-and-read can be torn.**  If the calls are `pre`, then
a read from a descriptor bound to the target, later (`mid`) a path-based stat of the target, then
anything: the interleaving with one replacement just before that stat gives content of the old
version `v` and metadata of the new one, for every new version `w` (take `w ≠ v`). -/
theorem C18_read_pathstat_breaks (target : String) (s : St) (fd v w : Nat) (mid post : List Call)
    (hbound : bound fd s.fds = some v) (hopen : s.opened = true) :
    ∃ evs : List Ev,
      calls evs = .read fd :: mid ++ .pathStat target :: post ∧
      v ∈ (run target s evs).contentSrc ∧ w ∈ (run target s evs).tagSrc := by
  refine ⟨.call (.read fd) :: mid.map .call ++ .replace w :: .call (.pathStat target) :: post.map .call, ?_, ?_, ?_⟩
  · simp [calls, calls_append, calls_map]
  · simp only [run, List.cons_append, List.foldl_cons]
    apply contentSrc_mono
    simp [step, hbound]
  · -- after read and mid (calls only) `opened` is still true; replace w; pathStat records w
    have hopened : ∀ (cs : List Call) (s : St), s.opened = true → (run target s (cs.map .call)).opened = true := by
      intro cs
      induction cs with
      | nil => intro s h; exact h
      | cons c rest ih =>
        intro s h
        simp only [List.map_cons, run, List.foldl_cons]
        apply ih
        cases c <;> simp only [step] <;> (try split) <;> (try split) <;> simp_all
    have h1 : (step target s (.call (.read fd))).opened = true := by simp [step, hbound, hopen]
    have h2 := hopened mid _ h1
    simp only [run, List.cons_append, List.foldl_cons, List.foldl_append] at h2 ⊢
    apply tagSrc_mono
    generalize List.foldl (step target) (step target s (.call (.read fd))) (mid.map .call) = S at h2 ⊢
    simp [step, h2]

/-! ### The regenerated fact -/

open Galene.Generated in
/-- Side condition, regenerated from the checked tree on every run: in every captured scenario of
`group.GetDescription` the calls touching the definition file have the shape of
`C18_read_consistent`; three scenarios, each of which opens and reads the file. -/
theorem C18_read_shape :
    syscallsDescRead.all (fun sc => readShapeOK syscallsDescReadTarget sc.2) = true ∧
    syscallsDescRead.map (·.1) = ["plain", "sub", "stale"] := by decide

open Galene.Generated in
/-- the theorem instantiated with the captured calls: under every interleaving of replacements
with the calls of any captured scenario, tag source and content source agree -/
theorem C18_read_consistent_captured (sc : String × List Call) (hsc : sc ∈ syscallsDescRead) (v0 : Nat) (evs : List Ev)
    (hcalls : calls evs = sc.2) :
    ∃ v, (run syscallsDescReadTarget { cur := v0 } evs).tagSrc ≠ [] ∧
      (∀ t ∈ (run syscallsDescReadTarget { cur := v0 } evs).tagSrc, t = v) ∧
      (∀ c ∈ (run syscallsDescReadTarget { cur := v0 } evs).contentSrc, c = v) := by
  apply C18_read_consistent
  rw [hcalls]
  have h := C18_read_shape.1
  rw [List.all_eq_true] at h
  exact h sc hsc

/-! ### Non-vacuity -/

def exGood : List Call := [.pathStat "groups/g.json", .openAt "groups/g.json" 0, .fstat 0, .read 0, .close 0]

example : readShapeOK "groups/g.json" exGood = true := by decide
-- replacements everywhere: before the stat, between stat and open, between fstat and read, after the close
example :
    let s := run "groups/g.json" { cur := 1 }
      [.call (.pathStat "groups/g.json"), .replace 2, .call (.openAt "groups/g.json" 0), .replace 3, .call (.fstat 0),
       .replace 4, .call (.read 0), .replace 5, .call (.close 0)]
    s.pre = [1] ∧ s.tagSrc = [2] ∧ s.contentSrc = [2] ∧ s.cur = 5 := by decide
-- fstat after the decode instead of before it is still fine (a harmless reordering)
example : readShapeOK "groups/g.json" [.openAt "groups/g.json" 0, .read 0, .fstat 0, .close 0] = true := by decide
-- the seeded shape, no fstat at all, two opens, a path-stat after the close: refused
example : readShapeOK "groups/g.json" [.openAt "groups/g.json" 0, .read 0, .pathStat "groups/g.json", .close 0] = false := by decide
example : readShapeOK "groups/g.json" [.openAt "groups/g.json" 0, .read 0, .close 0] = false := by decide
example : readShapeOK "groups/g.json"
    [.openAt "groups/g.json" 0, .fstat 0, .close 0, .openAt "groups/g.json" 1, .read 1, .close 1] = false := by decide
example : readShapeOK "groups/g.json" [.openAt "groups/g.json" 0, .fstat 0, .read 0, .close 0, .pathStat "groups/g.json"] = false := by decide
-- calls on other files do not matter
example : readShapeOK "groups/g.json"
    [.pathStat "data/config.json", .openAt "data/config.json" 0, .read 0, .close 0, .openAt "groups/g.json" 1, .fstat 1, .read 1, .close 1] = true := by
  decide

end Galene.Props.C18Read
