import GaleneVerif.Model.Unbounded
import GaleneVerif.Model.ChanUse
import GaleneVerif.Props.C13Unbounded
import GaleneVerif.Generated.ChanUse
/-!
# C13 (a), consumer side — the users of unbounded.Channel follow the discipline the proof assumes

`Props/C13Unbounded.lean` proves no-lost-wakeup / exactly-once-in-order / all-delivered-at-quiescence for
every interleaving of any number of producers (`Put` = locked append + non-blocking signal) with ONE
consumer that alternates `<-ch.Ch` and `ch.Get()`.  The `unbounded` engine ties the Channel to that model;
what ties its USERS (clientLoop in rtpconn/webclient.go, readLoop in rtpconn/rtpreader.go, the `action`
methods) to it is `GaleneVerif/Generated/ChanUse.lean`, regenerated from the source by `extract/gen-locks`
before every `lake build`: EVERY expression of type `*unbounded.Channel[T]` outside package unbounded, with
the context it occurs in, fail closed (`other` = not positively recognised).

Side conditions, decided by the kernel on every run — **if one fails the build fails**, which is the
intended verdict for a change that leaves the proved discipline (the `locks` engine reports the offending
site with a replayable witness):

* `chanUseOK`: no listed use is `other`: every operation on a channel is a `Put`, the pair "receive from
  `X.Ch`, then at once `X.Get()`", or the construction.
* `chanOneConsumer`: every channel (named at type level) has exactly one receive-then-Get site.
* `chanImplOK`: inside package unbounded, `Ch` is made with capacity 1 and otherwise only occurs in the
  non-blocking send of `Put`.

Bridge:

* `model_consumer_is_recvGet`: in every run of the model the consumer's steps are `recv get recv get …`:
  every `Get` is immediately preceded (among the consumer's own steps) by a receive and every receive is
  followed by a `Get` before the next receive — the `recvGet` use kind, literally.
* `get_enabled_iff`/`recv_enabled_iff`: conversely the model restricts the discipline no further: `Get` is
  enabled whenever the consumer has been woken, the receive exactly when the slot is full (Go's semantics of
  a receive from a channel of capacity 1).
* `drain_reaches_stuck_state`: the discipline is needed.  Extend the consumer by the non-blocking drain
  `select { case <-ch.Ch: default: }` (seeded change C13-4): a state with data queued, the slot empty,
  every producer idle and the consumer waiting — excluded by `C13_no_stuck_state` — becomes reachable.
* `bareGet_preserves`: a `Get` by the consumer thread itself without the receive (half of seeded change
  C13-1) is harmless for the invariants as long as the signal is the non-blocking one (it only leaves a
  stale trigger behind); it is classified `other` all the same (fail closed), since it is harmful from a
  second goroutine and with a blocking signal.
* `C13_listed_consumers_lose_no_wakeup`: the statement of `C13Unbounded` under the side conditions.

Trusted: the extractor's claim that it lists every use (go/types: every expression whose type is the
Channel; selectors that reach it through embedding are `other`), that the single receive-then-Get site of
a channel is executed by one goroutine per channel VALUE (clientLoop is called once per webClient by
StartClient, readLoop once per up track), and that nothing in the case body between two iterations blocks
for ever (the `wait` field records `select`/`poll`/…; readLoop only POLLS its queue once per RTP packet, so
a track action is seen when the next packet arrives — a liveness caveat outside the model).
-/
namespace Galene.C13ChanUse
open Galene.Unbounded Galene.ChanUse Galene.Generated

/-! ### side conditions on the regenerated facts -/

/-- Re-decided on every run: no use of an unbounded.Channel outside its package leaves the discipline. -/
theorem chanUseOK : chanUses.all (fun u => u.kind ≠ .other) = true := by decide

/-- Re-decided on every run: one receive-then-Get site per channel. -/
theorem chanOneConsumer : oneConsumerEach chanUses = true := by decide

/-- Re-decided on every run: package unbounded uses `Ch` only as the model says (capacity 1, non-blocking send). -/
theorem chanImplOK : chanImplUses.all (fun u => u.kind ≠ .other) = true := by decide

/-- what `chanUseOK` says, use by use -/
theorem uses_classified : ∀ u ∈ chanUses, u.kind = .put ∨ u.kind = .recvGet ∨ u.kind = .new := by
  intro u hu
  have h := chanUseOK
  rw [List.all_eq_true] at h
  have := h u hu
  cases hk : u.kind <;> simp_all

/-! ### the model's consumer is exactly the receive-then-Get discipline -/

/-- the consumer's own steps of a schedule -/
def consumerTrace : List Step → List Step
  | [] => []
  | .recv :: r => .recv :: consumerTrace r
  | .get :: r => .get :: consumerTrace r
  | _ :: r => consumerTrace r

/-- the language `(recv get)* [recv]`, started in the middle of a pair if `woken` -/
def recvGetTrace : Bool → List Step → Bool
  | _, [] => true
  | false, .recv :: r => recvGetTrace true r
  | true, .get :: r => recvGetTrace false r
  | _, _ => false

def isWoken : CPc → Bool
  | .woken => true
  | .waiting => false

theorem consumer_alternates_from (s s' : St) (steps : List Step) (h : run? s steps = some s') :
    recvGetTrace (isWoken s.cons) (consumerTrace steps) = true := by
  induction steps generalizing s with
  | nil => simp [consumerTrace, recvGetTrace]
  | cons x xs ih =>
    simp only [run?] at h
    cases hx : step? s x with
    | none => simp [hx] at h
    | some s1 =>
      simp only [hx] at h
      have ih1 := ih s1 h
      cases x with
      | append i =>
        obtain ⟨v, rest, _, hs1⟩ := step_append hx
        have : s1.cons = s.cons := by rw [hs1]
        simpa [consumerTrace, this] using ih1
      | signal i =>
        obtain ⟨todo, e, _, hs1⟩ := step_signal hx
        have : s1.cons = s.cons := by rw [hs1]
        simpa [consumerTrace, this] using ih1
      | recv =>
        obtain ⟨hc, _, hs1⟩ := step_recv hx
        have h1 : s1.cons = .woken := by rw [hs1]
        simp only [consumerTrace, hc, h1, isWoken] at ih1 ⊢
        simpa [recvGetTrace] using ih1
      | get =>
        obtain ⟨hc, hs1⟩ := step_get hx
        have h1 : s1.cons = .waiting := by rw [hs1]
        simp only [consumerTrace, hc, h1, isWoken] at ih1 ⊢
        simpa [recvGetTrace] using ih1

/-- **The model's consumer is the `recvGet` use kind.**  In every run of `Model/Unbounded.lean` from its
initial state, under every interleaving with the producers, the consumer's steps read
`recv get recv get …`: no `Get` without the receive immediately before it, no second receive before the `Get`. -/
theorem model_consumer_is_recvGet (work : List (List Nat)) (steps : List Step) (s : St)
    (h : run? (init work) steps = some s) : recvGetTrace false (consumerTrace steps) = true := by
  simpa [init, isWoken] using consumer_alternates_from (init work) s steps h

/-- … and the model does not restrict the discipline further: once woken, `Get` is enabled (it never blocks) … -/
theorem get_enabled_iff (s : St) : (step? s .get).isSome = true ↔ s.cons = .woken := by
  simp only [step?]; split <;> simp_all

/-- … and the receive is enabled exactly when the one-slot trigger channel is full. -/
theorem recv_enabled_iff (s : St) : (step? s .recv).isSome = true ↔ s.cons = .waiting ∧ s.slot = true := by
  simp only [step?]; split <;> simp_all

/-! ### the discipline is needed: the drain of seeded change C13-4 -/

/-- the consumer of C13-4: besides `recv`/`get` it may execute `select { case <-ch.Ch: default: }`
(a non-blocking receive that throws the trigger away) while it is not between `recv` and `Get` -/
inductive XStep where
  | base (x : Step)
  /-- `select { case <-ch.Ch: default: }` -/
  | drain
  /-- `ch.Get()` by the consumer thread without a receive before it -/
  | bareGet
  deriving DecidableEq, Repr

def xstep? (s : St) : XStep → Option St
  | .base x => step? s x
  | .drain => if s.cons = .waiting then some { s with slot := false } else none
  | .bareGet => if s.cons = .waiting then some { s with got := s.got ++ s.queue, queue := [] } else none

def xrun? (s : St) : List XStep → Option St
  | [] => some s
  | x :: xs => match xstep? s x with
    | some s' => xrun? s' xs
    | none => none

/-- the state `C13_no_stuck_state` excludes -/
def stuck (s : St) : Bool :=
  !s.queue.isEmpty && !s.slot && s.prods.all (fun p => p.pending == none) && s.cons == .waiting

/-- **C13-4 in the model.**  One producer, two values: the consumer is woken for the first and `Get`s it; the
second `Put` runs entirely between that `Get` and the drain; the drain swallows its trigger.  The consumer
now sleeps for ever on a non-empty queue (every later `Put` finds the queue non-empty and does not signal). -/
theorem drain_reaches_stuck_state :
    ∃ (work : List (List Nat)) (steps : List XStep), (xrun? (init work) steps).any stuck = true :=
  ⟨[[1, 2]], [.base (.append 0), .base (.signal 0), .base .recv, .base .get,
              .base (.append 0), .base (.signal 0), .drain], by decide⟩

/-- without the drain the same producer schedule ends well (the receive is enabled) -/
example : (run? (init [[1, 2]]) [.append 0, .signal 0, .recv, .get, .append 0, .signal 0]).any
    (fun s => (step? s .recv).isSome && !stuck s) = true := by decide

/-- **A bare `Get` by the consumer thread is harmless for the invariants** (with the non-blocking signal):
it keeps "queue non-empty → slot full ∨ a producer is about to signal ∨ consumer woken" and
"everything got so far ++ queue = everything appended".  It only leaves a stale trigger behind. -/
theorem bareGet_preserves {s s' : St} (h : xstep? s .bareGet = some s') (ho : OrderInv s) :
    WakeInv s' ∧ OrderInv s' := by
  simp only [xstep?] at h
  split at h
  · simp only [Option.some.injEq] at h
    subst h
    refine ⟨fun hq => absurd rfl hq, ?_⟩
    simpa [OrderInv, List.append_assoc] using ho
  · cases h

/-! ### the statement of C13Unbounded under the side conditions -/

/-- **C13, no lost wakeup for every listed consumer.**  Suppose the regenerated facts pass the side
conditions (they do: `chanUseOK`, `chanOneConsumer`, `chanImplOK`), i.e. every operation the program
performs on an unbounded.Channel is a `Put`, or the pair receive-then-`Get` executed at the single
consumer site of that channel, and the channel signals as in the model.  Then the operations on one
channel value form a schedule of `Model/Unbounded.lean` (producers = the goroutines calling `Put`,
consumer = the loop owning the `recvGet` site; `model_consumer_is_recvGet` / `get_enabled_iff` /
`recv_enabled_iff` say the model's consumer is that discipline, no more and no less), and for EVERY such
schedule: the consumer is never asleep on a non-empty queue with nobody about to wake it, everything it
has got so far followed by the queue is exactly what was appended, in lock order, and at quiescence
everything has been delivered. -/
theorem C13_listed_consumers_lose_no_wakeup
    (_hok : allDisciplined chanUses = true) (_hone : oneConsumerEach chanUses = true)
    (_himpl : allDisciplined chanImplUses = true)
    (work : List (List Nat)) (steps : List Step) (s : St) (h : run? (init work) steps = some s) :
    recvGetTrace false (consumerTrace steps) = true ∧
    stuck s = false ∧
    s.got ++ s.queue = s.appended ∧
    ((∀ x, step? s x = none) → s.queue = [] ∧ ∀ i t, work[i]? = some t → of i s.got = t) := by
  refine ⟨model_consumer_is_recvGet work steps s h, ?_, (C13_exactly_once_in_order work steps s h).1,
    fun hq => C13_quiescent_all_delivered work steps s h hq⟩
  cases hst : stuck s with
  | false => rfl
  | true =>
    simp only [stuck, Bool.and_eq_true, Bool.not_eq_true', List.isEmpty_eq_false_iff, List.all_eq_true,
      beq_iff_eq] at hst
    obtain ⟨⟨⟨hq, hslot⟩, hidle⟩, hc⟩ := hst
    exact (C13_no_stuck_state work steps s h hq hslot
      (fun i p hp => hidle p (List.mem_of_getElem? hp)) hc).elim

/-- the hypotheses of `C13_listed_consumers_lose_no_wakeup` hold of the tree of today -/
theorem C13_side_conditions_hold :
    allDisciplined chanUses = true ∧ oneConsumerEach chanUses = true ∧ allDisciplined chanImplUses = true :=
  ⟨chanUseOK, chanOneConsumer, chanImplOK⟩

/-! ### non-vacuity -/

/-- the facts are not empty: both consumers and both producers of today's tree are listed -/
example : (chanUses.filter (fun u => u.kind == .recvGet)).length ≥ 1 ∧
    (chanUses.filter (fun u => u.kind == .put)).length ≥ 1 := by decide

/-- the side conditions reject a drain, a second consumer, and a producer without a consumer -/
example : allDisciplined [{ pos := "f.go:1", fn := "f", chan := "T.c", kind := .recvGet },
    { pos := "f.go:3", fn := "f", chan := "T.c", kind := .other }] = false := by decide
example : oneConsumerEach [{ pos := "f.go:1", fn := "f", chan := "T.c", kind := .recvGet },
    { pos := "g.go:1", fn := "g", chan := "T.c", kind := .recvGet }] = false := by decide
example : oneConsumerEach [{ pos := "f.go:1", fn := "f", chan := "T.c", kind := .put }] = false := by decide
example : oneConsumerEach [{ pos := "f.go:1", fn := "f", chan := "T.c", kind := .put },
    { pos := "f.go:2", fn := "g", chan := "T.c", kind := .recvGet },
    { pos := "f.go:3", fn := "h", chan := "T.c", kind := .new }] = true := by decide

/-- the trace language accepts `recv get recv` and rejects `get`, `recv recv` -/
example : recvGetTrace false [.recv, .get, .recv] = true ∧ recvGetTrace false [.get] = false ∧
    recvGetTrace false [.recv, .recv] = false := by decide

end Galene.C13ChanUse
