import GaleneVerif.Model.Whip
/-
C11, last clause — "WHIP ingest is accepted only with credentials granting 'present', later
requests on that session having to present the same bearer token" — over `Model/Whip.lean`, the
transcription of webserver/whip.go, rtpconn/whipclient.go and the dispatch of groupHandler that the
`whip` engine ties to the real code on every run.

Specification vocabulary (independent of the code path):
* `GrantsPresent w d g tok`   the credentials of a WHIP request — bearer token `tok`, or the anonymous
                              login if `tok = ""` — grant 'present' in group `g` (description `d`) in
                              state `w`: a stored token whose scope covers `g` (`Stateful.match`, C09),
                              not expired, not before its time, listing 'present'; or the `whip` /
                              wildcard entry of `d` matching the empty password and granting it;
* `Effect`                    what a response says the request did (created / closed / candidates /
                              restarted / restartFailed a session, or nothing);
* `OnlyTouches id w w'`       `w'` differs from `w` by an action on session `id` at most;
* `WF w`                      session ids are pairwise distinct and below the id counter.

Proved for ALL states, requests (any method, path, headers, body abstraction) and entry points:
* `C11_whip_ingest_needs_present`      created ⇒ POST ∧ description parses ∧ `GrantsPresent` ∧ exactly one
                                       new object, member of that group, remembering that token, holding 'present';
* `C11_whip_created_iff_201`           created ⇔ status 201;
* `C11_whip_same_token`                an effect on session j ⇒ j is a member session and, if it was created
                                       with a bearer token, the request's header parses to exactly that token;
* `C11_whip_refused_leaves_no_member`  not created ⇒ no group gains a member, same set of session ids;
* `C11_whip_no_effect_changes_nothing` effect none ⇒ client tables, session objects, tokens unchanged;
* `C11_whip_other_sessions_untouched`  (WF) a session the effect does not name is unchanged, same memberships;
* `C11_whip_change_needs_token`        (WF) whatever changes/removes a token-created session carries its token;
* `parseBearerToken_infix`             the parsed token occurs literally in the Authorization header.
By induction over arbitrary histories (requests interleaved with description/token/lock/member/kick/ICE events):
* `C11_whip_history`                   every session object that exists was created by one request of the
                                       history whose credentials granted 'present' at that moment, and still
                                       carries that request's bearer token;
* `C11_whip_members_hold_present`, `C11_whip_reachable_wf`.
The `c.Token() == ""` special case is stated, not hidden: `Ex.anonymous_session_is_unprotected`.
The WHIP part of C12 (`C12_whip_no_crash`) is in Props/C12Whip.lean.
-/
namespace Galene.Whip
open Galene

/-! ## association lists -/

theorem lookup_setKey {α : Type} (k : Str) (v : α) (l : List (Str × α)) (n : Str) :
    (setKey k v l).lookup n = if n = k then some v else l.lookup n := by
  induction l with
  | nil =>
    by_cases h : n = k
    · simp [setKey, h]
    · have : (n == k) = false := by simpa using h
      simp [setKey, List.lookup, h, this]
  | cons p rest ih =>
    obtain ⟨m, u⟩ := p
    by_cases hk : m = k
    · subst hk
      by_cases h : n = m
      · simp [setKey, h]
      · have : (n == m) = false := by simpa using h
        simp [setKey, List.lookup, h, this]
    · by_cases h : n = m
      · subst h
        simp [setKey, List.lookup, hk]
      · have hb : (n == m) = false := by simpa using h
        simp [setKey, List.lookup, hk, hb, ih]

theorem lookup_delKey {α : Type} (k : Str) (l : List (Str × α)) (n : Str) :
    (delKey k l).lookup n = if n = k then none else l.lookup n := by
  induction l with
  | nil => simp [delKey]
  | cons p rest ih =>
    obtain ⟨m, u⟩ := p
    by_cases hk : m = k
    · subst hk
      by_cases h : n = m
      · subst h
        simpa [delKey] using ih
      · have hb : (n == m) = false := by simpa using h
        simp [delKey, ih, h, List.lookup, hb]
    · by_cases h : n = m
      · subst h
        simp [delKey, hk, List.lookup]
      · have hb : (n == m) = false := by simpa using h
        simp [delKey, hk, List.lookup, hb, ih]

/-! ## frame facts: what each primitive leaves alone -/

@[simp] theorem setGroup_sessions (w : World) (n : Str) (g : Grp) : (w.setGroup n g).sessions = w.sessions := rfl
@[simp] theorem setGroup_tokens (w : World) (n : Str) (g : Grp) : (w.setGroup n g).tokens = w.tokens := rfl
@[simp] theorem setGroup_files (w : World) (n : Str) (g : Grp) : (w.setGroup n g).files = w.files := rfl
@[simp] theorem setGroup_nextId (w : World) (n : Str) (g : Grp) : (w.setGroup n g).nextId = w.nextId := rfl
@[simp] theorem setGroup_nextEtag (w : World) (n : Str) (g : Grp) : (w.setGroup n g).nextEtag = w.nextEtag := rfl
@[simp] theorem setGroup_now (w : World) (n : Str) (g : Grp) : (w.setGroup n g).now = w.now := rfl

@[simp] theorem group?_setGroup (w : World) (name : Str) (g : Grp) (n : Str) :
    (w.setGroup name g).group? n = if n = name then some g else w.group? n := by
  unfold World.group? World.setGroup
  simp only [lookup_setKey]

@[simp] theorem clientsOf_setGroup (w : World) (name : Str) (g : Grp) (n : Str) :
    (w.setGroup name g).clientsOf n = if n = name then g.clients else w.clientsOf n := by
  unfold World.clientsOf
  rw [group?_setGroup]
  by_cases h : n = name <;> simp [h]

/-- everything but the table of groups is the same -/
structure SameRest (w w' : World) : Prop where
  sessions : w'.sessions = w.sessions
  tokens : w'.tokens = w.tokens
  files : w'.files = w.files
  nextId : w'.nextId = w.nextId
  nextEtag : w'.nextEtag = w.nextEtag
  now : w'.now = w.now

theorem SameRest.refl (w : World) : SameRest w w := ⟨rfl, rfl, rfl, rfl, rfl, rfl⟩

theorem SameRest.trans {a b c : World} (h1 : SameRest a b) (h2 : SameRest b c) : SameRest a c :=
  ⟨h2.sessions.trans h1.sessions, h2.tokens.trans h1.tokens, h2.files.trans h1.files,
   h2.nextId.trans h1.nextId, h2.nextEtag.trans h1.nextEtag, h2.now.trans h1.now⟩

theorem sameRest_setGroup (w : World) (n : Str) (g : Grp) : SameRest w (w.setGroup n g) :=
  ⟨rfl, rfl, rfl, rfl, rfl, rfl⟩

theorem sameRest_dropIfEmpty (w : World) (name : Str) : SameRest w (w.dropIfEmpty name) := by
  unfold World.dropIfEmpty
  split
  · split
    · exact ⟨rfl, rfl, rfl, rfl, rfl, rfl⟩
    · exact SameRest.refl w
  · exact SameRest.refl w

theorem clientsOf_dropIfEmpty (w : World) (name n : Str) :
    (w.dropIfEmpty name).clientsOf n = w.clientsOf n := by
  unfold World.dropIfEmpty
  split
  · rename_i g hg
    split
    · rename_i he
      unfold World.clientsOf World.group?
      simp only [lookup_delKey]
      by_cases h : n = name
      · subst h
        unfold World.group? at hg
        simp [hg, List.isEmpty_iff.mp he]
      · simp [h]
    · rfl
  · rfl

/-! ## group.Add -/

theorem sameRest_add (w : World) (name : Str) : SameRest w (add w name).1 := by
  unfold add
  split
  · exact SameRest.refl w
  · split
    · split
      · exact SameRest.refl w
      · exact sameRest_setGroup _ _ _
    · exact sameRest_dropIfEmpty _ _
    · exact sameRest_dropIfEmpty _ _

theorem clientsOf_add (w : World) (name n : Str) : (add w name).1.clientsOf n = w.clientsOf n := by
  unfold add
  split
  · rfl
  · split
    · split
      · rfl
      · rename_i hnone
        simp only [clientsOf_setGroup]
        by_cases h : n = name
        · subst h
          simp [World.clientsOf, hnone]
        · simp [h]
    · exact clientsOf_dropIfEmpty _ _ _
    · exact clientsOf_dropIfEmpty _ _ _

/-- `Add` succeeds exactly on a description file that parses; the group is then in memory -/
theorem add_ok {w : World} {name : Str} {d : Desc} (h : (add w name).2 = .ok d) :
    w.files.lookup name = some (.desc d) ∧ ((add w name).1.group? name).isSome := by
  unfold add at h ⊢
  split at h
  · simp at h
  · split at h
    · rename_i d' hf
      split at h
      · rename_i g hg
        simp at h
        subst h
        rw [if_neg (by assumption), hf, hg]
        simp [hg, hf]
      · rename_i hg
        simp at h
        subst h
        rw [if_neg (by assumption), hf]
        simp
    · simp at h
    · simp at h

/-! ## what "credentials granting 'present'" means -/

def present : Str := lit "present"

/-- the stored token `t` may be used for group `g` at time `now`: its scope covers `g`
(`Token.Stateful.match`, the scope rule of C09), it has an expiry that has not passed, and its
not-before instant, if any, has been reached -/
def TokenValid (t : Token.Stateful) (now : Int) (g : Str) : Prop :=
  t.match g = true ∧ (∃ e, t.expires = some e ∧ ¬ now > e) ∧ (∀ nb, t.notBefore = some nb → ¬ now < nb)

/-- **Credentials granting 'present'** in group `g` (description `d`) in the state `w`, for a WHIP
request whose bearer token is `tok` ("" = none was presented): either `tok` is a stored token that
is valid for `g` now and lists 'present'; or no token was presented and the anonymous WHIP login
(user "whip", empty password) matches an entry of the description — the entry of user "whip", or
the wildcard entry when there is no such user — whose permissions include 'present'. -/
inductive GrantsPresent (w : World) (d : Desc) (g : Str) : Str → Prop
  | byToken {tok : Str} {t : Token.Stateful} :
      tok ≠ [] → w.tokens.lookup tok = some t → TokenValid t w.now g → present ∈ t.permissions →
      GrantsPresent w d g tok
  | byUser {u : User} :
      d.users.lookup whipName = some u → u.pw.matches [] = true → present ∈ u.perms.list →
      GrantsPresent w d g []
  | byWildcard {u : User} :
      d.users.lookup whipName = none → d.wildcard = some u → u.pw.matches [] = true →
      present ∈ u.perms.list → GrantsPresent w d g []

theorem stateful_check_ok {t : Token.Stateful} {now : Int} {g u : Str} {perms : List Str}
    (h : t.check now g = .ok (u, perms)) : perms = t.permissions ∧ TokenValid t now g := by
  unfold Token.Stateful.check at h
  by_cases hm : t.match g = true
  · cases hx : t.expires with
    | none => simp [hm, hx] at h
    | some e =>
      by_cases he : now > e
      · simp [hm, hx, he] at h
      · cases hnb : t.notBefore with
        | none =>
          simp [hm, hx, he, hnb] at h
          exact ⟨h.2.symm, hm, ⟨e, hx, he⟩, by intro nb h'; rw [hnb] at h'; cases h'⟩
        | some nb =>
          by_cases hn : now < nb
          · simp [hm, hx, he, hnb, hn] at h
          · simp [hm, hx, he, hnb, hn] at h
            refine ⟨h.2.symm, hm, ⟨e, hx, he⟩, ?_⟩
            intro nb' h'
            rw [hnb] at h'
            cases h'
            exact hn
  · simp [hm] at h

theorem token_perm_ok {users : List Str} {now : Int} {g u : Str} {perms : List Str}
    {stored : Option Token.Stateful}
    (h : Token.getPermissionToken noJwt [] users [] now g (some whipName) .malformed stored = .ok (u, perms)) :
    ∃ t, stored = some t ∧ perms = t.permissions ∧ TokenValid t now g := by
  cases stored with
  | none => simp [Token.getPermissionToken, Token.parse, Token.parseJWT] at h
  | some t =>
    refine ⟨t, rfl, ?_⟩
    simp only [Token.getPermissionToken, Token.parse, Token.parseJWT, Token.Tok.check, Option.isNone_some,
      Bool.false_and] at h
    cases hc : t.check now g with
    | error e => simp [hc, Except.mapError] at h
    | ok r =>
      obtain ⟨u', p'⟩ := r
      have := stateful_check_ok hc
      simp only [hc, Except.mapError, Bool.false_eq_true, if_false] at h
      split at h
      · cases h
      · split at h
        · cases h
        · simp only [Except.ok.injEq, Prod.mk.injEq] at h
          rw [← h.2]
          exact this

theorem getPermission_grants {w : World} {d : Desc} {g tok u : Str} {perms : List Str}
    (h : getPermission w d g tok = .ok (u, perms)) (hp : canPresent perms = true) :
    GrantsPresent w d g tok := by
  have hp' : present ∈ perms := by simpa [canPresent, present] using hp
  unfold getPermission at h
  split at h
  · rename_i htok
    split at h
    · rename_i r hr
      simp only [Except.ok.injEq] at h
      subst h
      obtain ⟨t, hs, hperm, hv⟩ := token_perm_ok hr
      exact .byToken htok hs hv (hperm ▸ hp')
    · cases h
    · cases h
  · rename_i htok
    have htok' : tok = [] := by simpa using htok
    subst htok'
    split at h
    · cases h
    · rename_i ps hps
      split at h
      · simp only [Except.ok.injEq, Prod.mk.injEq] at h
        have hl : present ∈ ps.list := h.2 ▸ hp'
        unfold getPasswordPermission at hps
        split at hps
        · rename_i usr hu
          split at hps
          · rename_i hm
            simp only [Except.ok.injEq] at hps
            exact .byUser hu hm (hps ▸ hl)
          · cases hps
        · rename_i hu
          split at hps
          · rename_i usr hw
            split at hps
            · rename_i hm
              simp only [Except.ok.injEq] at hps
              exact .byWildcard hu hw hm (hps ▸ hl)
            · cases hps
          · cases hps
      · cases h

theorem getPermission_congr {w w' : World} (ht : w'.tokens = w.tokens) (hn : w'.now = w.now)
    (d : Desc) (g tok : Str) : getPermission w' d g tok = getPermission w d g tok := by
  unfold getPermission
  rw [ht, hn]

/-! ## group.AddClient / DelClient / Close -/

/-- what `AddClient` does, in one statement: everything but the group table is untouched; on an
error no group's client table changes; on success the id was not a member, is appended to the
client table of `name` only, and the client object carries the id, the token and the username and
permissions that `GetPermission` computed from the description file in force -/
theorem addClient_spec (w : World) (name : Str) (id : Id) (tok : Str) :
    SameRest w (addClient w name id tok).1 ∧
    (∀ e, (addClient w name id tok).2 = .error e → ∀ n, (addClient w name id tok).1.clientsOf n = w.clientsOf n) ∧
    (∀ c, (addClient w name id tok).2 = .ok c →
      c.id = id ∧ c.token = tok ∧ c.group = some name ∧ c.conn = false ∧ id ∉ w.clientsOf name ∧
      (∀ n, (addClient w name id tok).1.clientsOf n = if n = name then w.clientsOf name ++ [id] else w.clientsOf n) ∧
      ∃ d, w.files.lookup name = some (.desc d) ∧ getPermission w d name tok = .ok (c.username, c.perms)) := by
  have sr := sameRest_add w name
  have co := clientsOf_add w name
  have aok := @add_ok w name
  unfold addClient
  cases hadd : add w name with
  | mk w1 res =>
    rw [hadd] at sr co aok
    simp only at sr co aok
    cases res with
    | error e => exact ⟨sr, fun _ _ => co, fun c h => by cases h⟩
    | ok d =>
      have hf := (aok rfl).1
      simp only
      cases hg : w1.group? name with
      | none => exact ⟨sr, fun _ _ => co, fun c h => by cases h⟩
      | some g =>
        have hcl : g.clients = w.clientsOf name := by
          rw [← co name]; simp [World.clientsOf, hg]
        simp only
        rw [getPermission_congr sr.tokens sr.now]
        cases hp : getPermission w d name tok with
        | error e => exact ⟨sr, fun _ _ => co, fun c h => by cases h⟩
        | ok r =>
          obtain ⟨u, perms⟩ := r
          simp only
          split
          · exact ⟨sr, fun _ _ => co, fun c h => by cases h⟩
          · split
            · exact ⟨sr, fun _ _ => co, fun c h => by cases h⟩
            · split
              · exact ⟨sr, fun _ _ => co, fun c h => by cases h⟩
              · split
                · exact ⟨sr, fun _ _ => co, fun c h => by cases h⟩
                · split
                  · exact ⟨sr, fun _ _ => co, fun c h => by cases h⟩
                  · rename_i hdup
                    refine ⟨SameRest.trans sr (sameRest_setGroup _ _ _), ?_, ?_⟩
                    · intro e h; cases h
                    intro c hc
                    simp only [Except.ok.injEq] at hc
                    subst hc
                    refine ⟨rfl, rfl, rfl, rfl, ?_, ?_, d, hf, hp⟩
                    · rw [← hcl]; simpa using hdup
                    · intro n
                      simp only [clientsOf_setGroup, hcl, co]

theorem sameRest_delMember (w : World) (g : Str) (id : Id) : SameRest w (w.delMember g id) := by
  unfold World.delMember
  split
  · split
    · exact sameRest_setGroup _ _ _
    · exact SameRest.refl w
  · exact SameRest.refl w

theorem clientsOf_delMember (w : World) (g : Str) (id : Id) (n : Str) :
    (w.delMember g id).clientsOf n = if n = g then (w.clientsOf g).erase id else w.clientsOf n := by
  unfold World.delMember
  cases hg : w.group? g with
  | none =>
    by_cases h : n = g
    · subst h; simp [World.clientsOf, hg]
    · simp [h]
  | some grp =>
    have hc : w.clientsOf g = grp.clients := by simp [World.clientsOf, hg]
    simp only
    split
    · simp only [clientsOf_setGroup, hc]
    · rename_i hn
      by_cases h : n = g
      · subst h
        have : id ∉ grp.clients := by simpa using hn
        simp [hc, List.erase_of_not_mem this]
      · simp [h]

/-! ### the table of session objects -/

theorem mem_updFirst_of_ne {id : Id} {f : Session → Session} {l : List Session} {s : Session}
    (hs : s ∈ l) (hne : s.id ≠ id) : s ∈ updFirst id f l := by
  induction l with
  | nil => cases hs
  | cons a rest ih =>
    unfold updFirst
    split
    · rename_i ha
      rcases List.mem_cons.mp hs with h | h
      · subst h; exact absurd ha hne
      · exact List.mem_cons_of_mem _ h
    · rcases List.mem_cons.mp hs with h | h
      · subst h; exact List.mem_cons_self
      · exact List.mem_cons_of_mem _ (ih h)

theorem mem_updFirst {id : Id} {f : Session → Session} {l : List Session} {s' : Session}
    (hs : s' ∈ updFirst id f l) : s' ∈ l ∨ ∃ s ∈ l, s.id = id ∧ s' = f s := by
  induction l with
  | nil => cases hs
  | cons a rest ih =>
    unfold updFirst at hs
    split at hs
    · rename_i ha
      rcases List.mem_cons.mp hs with h | h
      · exact .inr ⟨a, List.mem_cons_self, ha, h⟩
      · exact .inl (List.mem_cons_of_mem _ h)
    · rcases List.mem_cons.mp hs with h | h
      · exact .inl (h ▸ List.mem_cons_self)
      · rcases ih h with h' | ⟨s, hs', hid, he⟩
        · exact .inl (List.mem_cons_of_mem _ h')
        · exact .inr ⟨s, List.mem_cons_of_mem _ hs', hid, he⟩

theorem updFirst_ids {id : Id} {f : Session → Session} (hf : ∀ s, (f s).id = s.id) (l : List Session) :
    (updFirst id f l).map (·.id) = l.map (·.id) := by
  induction l with
  | nil => rfl
  | cons a rest ih =>
    unfold updFirst
    split
    · simp [hf]
    · simp [ih]

/-- the identity of a session object: what a request has to match and what it was admitted with -/
def SameIdentity (s s' : Session) : Prop := s.id = s'.id ∧ s.token = s'.token ∧ s.perms = s'.perms

/-- `w'` arises from `w` by an action on the session `id` at most: every other session object is
still there, unchanged, and is a member of exactly the groups it was a member of; nobody becomes a
member of anything; no session object appears or changes its identity (id, creating token,
permissions); tokens and description files are untouched. -/
structure OnlyTouches (id : Id) (w w' : World) : Prop where
  others : ∀ s ∈ w.sessions, s.id ≠ id → s ∈ w'.sessions
  identity : ∀ s' ∈ w'.sessions, ∃ s ∈ w.sessions, SameIdentity s s'
  ids : w'.sessions.map (·.id) = w.sessions.map (·.id)
  noNewMember : ∀ n x, x ∈ w'.clientsOf n → x ∈ w.clientsOf n
  othersStay : ∀ n x, x ≠ id → x ∈ w.clientsOf n → x ∈ w'.clientsOf n
  tokens : w'.tokens = w.tokens
  files : w'.files = w.files
  nextId : w'.nextId = w.nextId
  now : w'.now = w.now

theorem OnlyTouches.refl (id : Id) (w : World) : OnlyTouches id w w :=
  ⟨fun _ h _ => h, fun s h => ⟨s, h, rfl, rfl, rfl⟩, rfl, fun _ _ h => h, fun _ _ _ h => h, rfl, rfl, rfl, rfl⟩

theorem onlyTouches_updSession (id : Id) (w : World) (f : Session → Session)
    (hf : ∀ s, SameIdentity s (f s)) : OnlyTouches id w (w.updSession id f) where
  others := fun _ h hne => mem_updFirst_of_ne h hne
  identity := by
    intro s' hs'
    rcases mem_updFirst hs' with h | ⟨s, hs, _, he⟩
    · exact ⟨s', h, rfl, rfl, rfl⟩
    · exact ⟨s, hs, he ▸ hf s⟩
  ids := updFirst_ids (fun s => (hf s).1.symm) _
  noNewMember := fun _ _ h => h
  othersStay := fun _ _ _ h => h
  tokens := rfl
  files := rfl
  nextId := rfl
  now := rfl

theorem onlyTouches_delMember (id : Id) (w : World) (g : Str) : OnlyTouches id w (w.delMember g id) := by
  have sr := sameRest_delMember w g id
  refine ⟨fun s h _ => sr.sessions ▸ h, fun s h => ⟨s, sr.sessions ▸ h, rfl, rfl, rfl⟩, by rw [sr.sessions], ?_, ?_,
    sr.tokens, sr.files, sr.nextId, sr.now⟩
  · intro n x hx
    rw [clientsOf_delMember] at hx
    split at hx
    · rename_i h; subst h; exact List.mem_of_mem_erase hx
    · exact hx
  · intro n x hne hx
    rw [clientsOf_delMember]
    split
    · rename_i h; subst h; exact (List.mem_erase_of_ne hne).mpr hx
    · exact hx

theorem OnlyTouches.trans {id : Id} {a b c : World} (h1 : OnlyTouches id a b) (h2 : OnlyTouches id b c) :
    OnlyTouches id a c where
  others := fun s h hne => h2.others s (h1.others s h hne) hne
  identity := by
    intro s'' hs''
    obtain ⟨s', hs', i2⟩ := h2.identity s'' hs''
    obtain ⟨s, hs, i1⟩ := h1.identity s' hs'
    exact ⟨s, hs, i1.1.trans i2.1, i1.2.1.trans i2.2.1, i1.2.2.trans i2.2.2⟩
  ids := h2.ids.trans h1.ids
  noNewMember := fun n x h => h1.noNewMember n x (h2.noNewMember n x h)
  othersStay := fun n x hne h => h2.othersStay n x hne (h1.othersStay n x hne h)
  tokens := h2.tokens.trans h1.tokens
  files := h2.files.trans h1.files
  nextId := h2.nextId.trans h1.nextId
  now := h2.now.trans h1.now

/-- `Close()` acts on its own session only -/
theorem onlyTouches_close (id : Id) (w : World) : OnlyTouches id w (w.close id) := by
  unfold World.close
  split
  · exact OnlyTouches.refl id w
  · split
    · exact onlyTouches_updSession id w _ (fun s => ⟨rfl, rfl, rfl⟩)
    · exact (onlyTouches_delMember id w _).trans (onlyTouches_updSession id _ _ (fun s => ⟨rfl, rfl, rfl⟩))

/-! ## the resource handler -/

def Outcome.effect : Outcome → Effect
  | .resp r => r.effect
  | _ => .none

/-- the session a (non-creating) effect acts on -/
def Effect.acts : Effect → Option Id
  | .closed id => some id
  | .candidates id => some id
  | .restarted id => some id
  | .restartFailed id => some id
  | .none => Option.none
  | .created _ => Option.none

/-- the request carries the bearer token the session was created with (nothing to carry if it was
created without one: `c.Token() == ""` switches the check off) -/
def CarriesTokenOf (r : Req) (c : Session) : Prop := c.token ≠ [] → parseBearerToken r.auth = c.token

theorem findSession_ok {w : World} {r : Req} {id : Id} {c : Session} (h : findSession w r = .ok (id, c)) :
    w.session? id = some c ∧ (∃ n, id ∈ w.clientsOf n) ∧ CarriesTokenOf r c := by
  unfold findSession at h
  generalize Paths.splitPath r.path = sp at h
  obtain ⟨pth, kind, rest⟩ := sp
  simp only at h
  split at h
  · cases h
  · split at h
    · cases h
    · split at h
      · cases h
      · rename_i id' hd
        split at h
        · cases h
        · split at h
          · cases h
          · rename_i g hg
            split at h
            · cases h
            · rename_i hmem
              split at h
              · cases h
              · split at h
                · cases h
                · rename_i c' hc
                  split at h
                  · cases h
                  · rename_i htok
                    simp only [Except.ok.injEq, Prod.mk.injEq] at h
                    obtain ⟨h1, h2⟩ := h
                    subst h1 h2
                    refine ⟨hc, ⟨Paths.parseGroupName (lit "/group/") pth, ?_⟩, ?_⟩
                    · simp only [World.clientsOf, hg]
                      simpa using hmem
                    · intro hne
                      by_cases hb : parseBearerToken r.auth = c'.token
                      · exact hb
                      · exact absurd ⟨hne, hb⟩ htok

theorem findSession_error {w : World} {r : Req} {o : Outcome} (h : findSession w r = .error o) :
    o = status 500 ∨ o = status 404 ∨ o = status 403 := by
  unfold findSession at h
  generalize Paths.splitPath r.path = sp at h
  obtain ⟨pth, kind, rest⟩ := sp
  simp only at h
  split at h
  · simp only [Except.error.injEq] at h; exact .inl h.symm
  · rename_i hguard
    split at h
    · simp at hguard
    · split at h
      · simp only [Except.error.injEq] at h; exact .inl h.symm
      · split at h
        · simp only [Except.error.injEq] at h; exact .inr (.inl h.symm)
        · split at h
          · simp only [Except.error.injEq] at h; exact .inr (.inl h.symm)
          · split at h
            · simp only [Except.error.injEq] at h; exact .inr (.inl h.symm)
            · split at h
              · simp only [Except.error.injEq] at h; exact .inr (.inl h.symm)
              · split at h
                · simp only [Except.error.injEq] at h; exact .inr (.inl h.symm)
                · split at h
                  · simp only [Except.error.injEq] at h; exact .inr (.inr h.symm)
                  · cases h

theorem onlyTouches_nextEtag (id : Id) (w : World) (k : Nat) : OnlyTouches id w { w with nextEtag := k } :=
  ⟨fun _ h _ => h, fun s h => ⟨s, h, rfl, rfl, rfl⟩, rfl, fun _ _ h => h, fun _ _ _ h => h, rfl, rfl, rfl, rfl⟩

theorem onlyTouches_updSession_etag (id : Id) (w : World) (f : Session → Session) (k : Nat)
    (hf : ∀ s, SameIdentity s (f s)) : OnlyTouches id w { (w.updSession id f) with nextEtag := k } :=
  (onlyTouches_updSession id w f hf).trans (onlyTouches_nextEtag id _ k)

/-- what a request on an addressed session `id` may do: it never creates anything; if it reports
an effect, the effect is on `id`; nothing but that session is touched; if it reports no effect the
state is unchanged; it answers (no crash) -/
structure ActSpec (id : Id) (w : World) (res : World × Outcome) : Prop where
  touches : OnlyTouches id w res.1
  notCreated : ∀ j, res.2.effect ≠ .created j
  unchanged : res.2.effect = .none → res.1 = w
  acts : ∀ j, res.2.effect.acts = some j → j = id
  noCrash : res.2 ≠ .crash
  isWhip : res.2 ≠ .notWhip
  not201 : ∀ resp, res.2 = .resp resp → resp.status ≠ 201

theorem ActSpec.same (id : Id) (w : World) (o : Outcome) (he : o.effect = .none) (hc : o ≠ .crash)
    (hw : o ≠ .notWhip) (h201 : ∀ resp, o = .resp resp → resp.status ≠ 201) : ActSpec id w (w, o) :=
  ⟨OnlyTouches.refl id w, by simp [he], fun _ => rfl, by simp [he, Effect.acts], hc, hw, h201⟩

theorem precond_status {r : Req} {etag : Str} {st : Nat} (h : precond r etag = some st) : st = 304 ∨ st = 412 := by
  unfold precond at h
  split at h <;> simp at h <;> omega

theorem actOn_spec (w : World) (r : Req) (id : Id) (c : Session) : ActSpec id w (actOn w r id c) := by
  unfold actOn
  split
  · exact ActSpec.same _ _ _ rfl (by simp) (by simp) (by simp)
  · split
    · split
      · rename_i hpre
        exact ActSpec.same _ _ _ rfl (by simp [status]) (by simp [status])
          (by rcases precond_status hpre with h | h <;> simp [status, h])
      · exact ⟨onlyTouches_close id w, by simp [Outcome.effect], by simp [Outcome.effect],
          by simp [Outcome.effect, Effect.acts], by simp, by simp, by simp⟩
    · split
      · exact ActSpec.same _ _ _ rfl (by simp [methodNotAllowed]) (by simp [methodNotAllowed]) (by simp [methodNotAllowed])
      · split
        · rename_i hpre
          exact ActSpec.same _ _ _ rfl (by simp [status]) (by simp [status])
            (by rcases precond_status hpre with h | h <;> simp [status, h])
        · split
          · exact ActSpec.same _ _ _ rfl (by simp) (by simp) (by simp)
          · split
            · exact ActSpec.same _ _ _ rfl (by simp [status]) (by simp [status]) (by simp [status])
            · split
              · exact ActSpec.same _ _ _ rfl (by simp [status]) (by simp [status]) (by simp [status])
              · split
                · exact ActSpec.same _ _ _ rfl (by simp [status]) (by simp [status]) (by simp [status])
                · split
                  · split
                    · split
                      · exact ⟨OnlyTouches.refl id w, by simp [Outcome.effect], by simp [Outcome.effect],
                          by simp [Outcome.effect, Effect.acts], by simp, by simp, by simp⟩
                      · exact ⟨onlyTouches_updSession_etag id w _ _ (fun s => ⟨rfl, rfl, rfl⟩),
                          by simp [Outcome.effect], by simp [Outcome.effect],
                          by simp [Outcome.effect, Effect.acts], by simp, by simp, by simp⟩
                    · exact ⟨onlyTouches_updSession id w _ (fun s => ⟨rfl, rfl, rfl⟩),
                        by simp [Outcome.effect], by simp [Outcome.effect],
                        by simp [Outcome.effect, Effect.acts], by simp, by simp, by simp⟩
                  · exact ⟨OnlyTouches.refl id w, by simp [Outcome.effect], by simp [Outcome.effect],
                      by simp [Outcome.effect, Effect.acts], by simp, by simp, by simp⟩

theorem resource_spec (w : World) (r : Req) :
    (∃ o, whipResourceHandler w r = (w, o) ∧ (o = status 500 ∨ o = status 404 ∨ o = status 403)) ∨
    ∃ id c, w.session? id = some c ∧ (∃ n, id ∈ w.clientsOf n) ∧ CarriesTokenOf r c ∧
      ActSpec id w (whipResourceHandler w r) := by
  unfold whipResourceHandler
  cases h : findSession w r with
  | error o => exact .inl ⟨o, rfl, findSession_error h⟩
  | ok p =>
    obtain ⟨id, c⟩ := p
    obtain ⟨h1, h2, h3⟩ := findSession_ok h
    exact .inr ⟨id, c, h1, h2, h3, actOn_spec w r id c⟩

/-! ## the endpoint handler -/

theorem erase_append_singleton {l : List Id} {a : Id} (h : a ∉ l) : (l ++ [a]).erase a = l := by
  rw [List.erase_append_right _ h]; simp

/-- what `whipEndpointHandler` may do: refuse, leaving every client table and everything but the
table of groups as it was (the group may have been loaded into or dropped from memory), or create
exactly one session, for credentials granting 'present' -/
inductive EndpointSpec (w : World) (r : Req) : World × Outcome → Prop
  | refused (w' : World) (o : Outcome) :
      SameRest w w' → (∀ n, w'.clientsOf n = w.clientsOf n) → o.effect = .none →
      (∀ resp, o = .resp resp → resp.status ≠ 201) → o ≠ .crash → o ≠ .notWhip → EndpointSpec w r (w', o)
  | created (w' : World) (name : Str) (d : Desc) (c : Session) (resp : Resp) :
      r.method = lit "POST" →
      name = Paths.parseGroupName (lit "/group/") (Paths.splitPath r.path).1 →
      w.files.lookup name = some (.desc d) →
      GrantsPresent w d name (parseBearerToken r.auth) →
      c.id = .s w.nextId → c.token = parseBearerToken r.auth → present ∈ c.perms → c.group = some name →
      c.conn = true → c.id ∉ w.clientsOf name →
      w'.sessions = w.sessions ++ [c] →
      (∀ n, w'.clientsOf n = if n = name then w.clientsOf name ++ [c.id] else w.clientsOf n) →
      w'.tokens = w.tokens → w'.files = w.files → w'.nextId = w.nextId + 1 → w'.now = w.now →
      resp.status = 201 → resp.effect = .created c.id → resp.location = some c.id →
      EndpointSpec w r (w', .resp resp)

theorem endpoint_spec (w : World) (r : Req) : EndpointSpec w r (whipEndpointHandler w r) := by
  unfold whipEndpointHandler
  generalize hsp : Paths.splitPath r.path = sp
  obtain ⟨pth, kind, pthid⟩ := sp
  simp only
  split
  · exact .refused _ _ (SameRest.refl w) (fun _ => rfl) rfl (by simp [status]) (by simp [status]) (by simp [status])
  · split
    · exact .refused _ _ (SameRest.refl w) (fun _ => rfl) rfl (by simp [status]) (by simp [status]) (by simp [status])
    · generalize hname : Paths.parseGroupName (lit "/group/") pth = name
      have sr := sameRest_add w name
      have co := clientsOf_add w name
      have aok := @add_ok w name
      cases hadd : add w name with
      | mk w1 res =>
        rw [hadd] at sr co aok
        simp only at sr co aok
        cases res with
        | error e =>
          exact .refused _ _ sr co rfl (by cases e <;> simp [status, httpError]) (by simp [status]) (by simp [status])
        | ok d =>
          have hf := (aok rfl).1
          simp only
          split
          · exact .refused _ _ sr co rfl (by simp) (by simp) (by simp)
          · split
            · exact .refused _ _ sr co rfl (by simp [methodNotAllowed]) (by simp [methodNotAllowed]) (by simp [methodNotAllowed])
            · rename_i hpost
              split
              · exact .refused _ _ sr co rfl (by simp) (by simp) (by simp)
              · split
                · exact .refused _ _ sr co rfl (by simp [status, httpError]) (by simp [status]) (by simp [status])
                · have ac := addClient_spec w1 name (Id.s w1.nextId) (parseBearerToken r.auth)
                  cases hac : addClient w1 name (Id.s w1.nextId) (parseBearerToken r.auth) with
                  | mk w2 res2 =>
                    rw [hac] at ac
                    simp only at ac
                    obtain ⟨sr2, herr, hok⟩ := ac
                    cases res2 with
                    | error e =>
                      exact .refused _ _ (sr.trans sr2) (fun n => (herr e rfl n).trans (co n)) rfl
                        (by cases e <;> simp [status, httpError]) (by simp [status]) (by simp [status])
                    | ok c =>
                      obtain ⟨hid, htok, hgrp, hconn, hnot, hcl, d', hf', hperm⟩ := hok c rfl
                      have hdd : d' = d := by
                        rw [sr.files, hf] at hf'
                        simpa using hf'.symm
                      subst hdd
                      have hcl1 : ∀ n, (w2.delMember name (Id.s w1.nextId)).clientsOf n = w.clientsOf n := by
                        intro n
                        rw [clientsOf_delMember, hcl name, hcl n]
                        by_cases h : n = name
                        · subst h
                          simp only [if_true]
                          rw [erase_append_singleton hnot, co]
                        · simp only [if_neg h, co]
                      simp only
                      split
                      · exact .refused _ _ ((sr.trans sr2).trans (sameRest_delMember _ _ _)) hcl1 rfl
                          (by simp [status]) (by simp [status]) (by simp [status])
                      · rename_i hcan
                        split
                        · exact .refused _ _ ((sr.trans sr2).trans (sameRest_delMember _ _ _)) hcl1 rfl
                            (by simp [status, httpError]) (by simp [status]) (by simp [status])
                        · have hcan' : canPresent c.perms = true := by simpa using hcan
                          have hgp : getPermission w d' name (parseBearerToken r.auth) = .ok (c.username, c.perms) := by
                            rw [← getPermission_congr sr.tokens sr.now]; exact hperm
                          refine .created _ name d' { c with etag := etagOf w2.nextEtag, conn := true } _
                            (by simpa using hpost) (by rw [hsp]; exact hname.symm) hf
                            (getPermission_grants hgp hcan') ?_ htok (by simpa [canPresent, present] using hcan') hgrp rfl ?_
                            ?_ ?_ ?_ ?_ ?_ ?_ rfl ?_ ?_
                          · simp [hid, sr.nextId]
                          · rw [← co]; simpa [hid] using hnot
                          · simp [sr2.sessions, sr.sessions]
                          · intro n
                            show w2.clientsOf n = _
                            rw [hcl n, co, co]
                            simp [hid]
                          · exact sr2.tokens.trans sr.tokens
                          · exact sr2.files.trans sr.files
                          · simp [sr2.nextId, sr.nextId]
                          · exact sr2.now.trans sr.now
                          · simp [hid]
                          · simp [hid]

/-! ## any request, however it reaches the code -/

inductive HandleSpec (w : World) (r : Req) : World × Outcome → Prop
  | endpoint {res : World × Outcome} : EndpointSpec w r res → HandleSpec w r res
  | noSession (o : Outcome) :
      (o = status 500 ∨ o = status 404 ∨ o = status 403 ∨ o = .notWhip) → HandleSpec w r (w, o)
  | session (id : Id) (c : Session) {res : World × Outcome} :
      w.session? id = some c → (∃ n, id ∈ w.clientsOf n) → CarriesTokenOf r c → ActSpec id w res →
      HandleSpec w r res

theorem handle_spec (w : World) (via : Via) (r : Req) : HandleSpec w r (handle w via r) := by
  have hres : HandleSpec w r (whipResourceHandler w r) := by
    rcases resource_spec w r with ⟨o, h, ho⟩ | ⟨id, c, h1, h2, h3, h4⟩
    · rw [h]
      exact .noSession o (by rcases ho with h | h | h <;> simp [h])
    · exact .session id c h1 h2 h3 h4
  cases via with
  | e => exact .endpoint (endpoint_spec w r)
  | r => exact hres
  | g =>
    show HandleSpec w r (groupHandler w r)
    unfold groupHandler
    generalize Paths.splitPath r.path = sp
    obtain ⟨pth, kind, rest⟩ := sp
    simp only
    split
    · exact .noSession _ (by simp)
    · split
      · exact .noSession _ (by simp)
      · split
        · split
          · exact .endpoint (endpoint_spec w r)
          · exact hres
        · split
          · exact .noSession _ (by simp)
          · exact .noSession _ (by simp)

/-! ## C11: the WHIP clause -/

/-- **C11: WHIP ingest is accepted only with credentials granting 'present'.**  For every server
state and every request (through the dispatcher or a handler called directly): if the request
created a session, then it was a POST, the group `name` of its path has a description file `d` that
parses, and the request's credentials — its bearer token, or the anonymous WHIP login if it carried
none — grant 'present' in that group at that moment (`GrantsPresent`, stated on the token store and
the description, not on the code path); the session is the only new object, it is the new member of
that group, remembers exactly that bearer token, and holds 'present'. -/
theorem C11_whip_ingest_needs_present (w : World) (via : Via) (r : Req) (id : Id)
    (h : (handle w via r).2.effect = .created id) :
    r.method = lit "POST" ∧
    ∃ name d c,
      name = Paths.parseGroupName (lit "/group/") (Paths.splitPath r.path).1 ∧
      w.files.lookup name = some (.desc d) ∧
      GrantsPresent w d name (parseBearerToken r.auth) ∧
      (handle w via r).1.sessions = w.sessions ++ [c] ∧
      c.id = id ∧ c.token = parseBearerToken r.auth ∧ present ∈ c.perms ∧
      (handle w via r).1.clientsOf name = w.clientsOf name ++ [id] ∧ id ∉ w.clientsOf name := by
  generalize hres : handle w via r = res at h
  have hs := handle_spec w via r
  rw [hres] at hs
  cases hs with
  | endpoint he =>
    cases he with
    | refused _ o _ _ heff => simp [heff] at h
    | created w' name d c resp hm hn hf hg hid htok hp _ _ hnot hsess hcl _ _ _ _ _ heff _ =>
      have : c.id = id := by simpa [Outcome.effect, heff] using h
      exact ⟨hm, name, d, c, hn, hf, hg, hsess, this, htok, hp, by simpa [this] using hcl name, this ▸ hnot⟩
  | noSession o ho => rcases ho with h' | h' | h' | h' <;> simp [h', status, Outcome.effect] at h
  | session j c _ _ _ ha => exact absurd h (ha.notCreated id)

/-- a session is created exactly when the answer is 201 -/
theorem C11_whip_created_iff_201 (w : World) (via : Via) (r : Req) :
    (∃ id, (handle w via r).2.effect = .created id) ↔ ∃ resp, (handle w via r).2 = .resp resp ∧ resp.status = 201 := by
  have hs := handle_spec w via r
  generalize handle w via r = res at hs
  cases hs with
  | endpoint he =>
    cases he with
    | refused _ o _ _ heff h201 =>
      constructor
      · rintro ⟨id, h⟩; simp [heff] at h
      · rintro ⟨resp, h1, h2⟩; exact absurd h2 (h201 resp h1)
    | created w' name d c resp _ _ _ _ _ _ _ _ _ _ _ _ _ _ _ _ hst heff _ =>
      exact ⟨fun _ => ⟨resp, rfl, hst⟩, fun _ => ⟨c.id, by simp [Outcome.effect, heff]⟩⟩
  | noSession o ho =>
    constructor
    · rintro ⟨id, h⟩; rcases ho with h' | h' | h' | h' <;> simp [h', status, Outcome.effect] at h
    · rintro ⟨resp, h1, h2⟩
      rcases ho with h' | h' | h' | h' <;> simp [h', status] at h1 <;> simp [← h1] at h2
  | session j c _ _ _ ha =>
    constructor
    · rintro ⟨id, h⟩; exact absurd h (ha.notCreated id)
    · rintro ⟨resp, h1, h2⟩; exact absurd h2 (ha.not201 resp h1)

/-- **C11: later requests on a session have to present the same bearer token.**  For every server
state and every request: if the request acted on a session `j` — closed it (DELETE), applied ICE
candidates, restarted ICE or attempted to (PATCH) — then `j` is a current member of a group, and if
`j` was created with a bearer token (`c.token ≠ ""`), the request's `Authorization` header parses
(`parseBearerToken`) to exactly that token.

What the `c.Token() != ""` special case of the Go code means is visible in the hypothesis
`c.token ≠ []`: a session created without a bearer token (anonymous WHIP login through a `whip` or
wildcard entry with an empty/wildcard password) is protected by the secrecy of its URL only; every
request that names it is accepted (`anonymous_session_is_unprotected` below). -/
theorem C11_whip_same_token (w : World) (via : Via) (r : Req) (j : Id)
    (h : (handle w via r).2.effect.acts = some j) :
    ∃ c, w.session? j = some c ∧ (∃ n, j ∈ w.clientsOf n) ∧ (c.token ≠ [] → parseBearerToken r.auth = c.token) := by
  have hs := handle_spec w via r
  generalize handle w via r = res at hs h
  cases hs with
  | endpoint he =>
    cases he with
    | refused _ o _ _ heff => simp [heff, Effect.acts] at h
    | created w' name d c resp _ _ _ _ _ _ _ _ _ _ _ _ _ _ _ _ _ heff _ =>
      simp [Outcome.effect, heff, Effect.acts] at h
  | noSession o ho => rcases ho with h' | h' | h' | h' <;> simp [h', status, Outcome.effect, Effect.acts] at h
  | session i c h1 h2 h3 ha =>
    have := ha.acts j h
    subst this
    exact ⟨c, h1, h2, h3⟩

/-- **C11: a refused request leaves no member behind.**  For every server state and request that
does not create a session (any status but 201): no group gains a member, and the table of
session objects has exactly the ids it had. -/
theorem C11_whip_refused_leaves_no_member (w : World) (via : Via) (r : Req)
    (h : ∀ id, (handle w via r).2.effect ≠ .created id) :
    (∀ n x, x ∈ (handle w via r).1.clientsOf n → x ∈ w.clientsOf n) ∧
    (handle w via r).1.sessions.map (·.id) = w.sessions.map (·.id) := by
  have hs := handle_spec w via r
  generalize handle w via r = res at hs h
  cases hs with
  | endpoint he =>
    cases he with
    | refused w' o sr hcl => exact ⟨fun n x hx => hcl n ▸ hx, by rw [sr.sessions]⟩
    | created w' name d c resp _ _ _ _ _ _ _ _ _ _ _ _ _ _ _ _ _ heff _ =>
      exact absurd (by simp [Outcome.effect, heff]) (h c.id)
  | noSession o ho => exact ⟨fun _ _ hx => hx, rfl⟩
  | session i c _ _ _ ha => exact ⟨ha.touches.noNewMember, ha.touches.ids⟩

/-- … and a request that reports no effect at all (every refusal: 4xx, 5xx other than a failed
restart, OPTIONS) changes no client table, no session object and no token -/
theorem C11_whip_no_effect_changes_nothing (w : World) (via : Via) (r : Req)
    (h : (handle w via r).2.effect = .none) :
    (∀ n, (handle w via r).1.clientsOf n = w.clientsOf n) ∧ (handle w via r).1.sessions = w.sessions ∧
    (handle w via r).1.tokens = w.tokens := by
  have hs := handle_spec w via r
  generalize handle w via r = res at hs h
  cases hs with
  | endpoint he =>
    cases he with
    | refused w' o sr hcl => exact ⟨hcl, sr.sessions, sr.tokens⟩
    | created w' name d c resp _ _ _ _ _ _ _ _ _ _ _ _ _ _ _ _ _ heff _ => simp [Outcome.effect, heff] at h
  | noSession o ho => exact ⟨fun _ => rfl, rfl, rfl⟩
  | session i c _ _ _ ha =>
    have := ha.unchanged h
    rw [this]
    exact ⟨fun _ => rfl, rfl, rfl⟩

/-! ### well-formed states -/

/-- ids of session objects are pairwise distinct and below the id counter (what `newId()`'s 128
random bits stand for) -/
structure WF (w : World) : Prop where
  nodup : (w.sessions.map (·.id)).Nodup
  fresh : ∀ s ∈ w.sessions, ∃ n, s.id = .s n ∧ n < w.nextId

theorem find?_of_nodup {l : List Session} (hn : (l.map (·.id)).Nodup) {s : Session} (hs : s ∈ l) :
    l.find? (fun x => x.id = s.id) = some s := by
  induction l with
  | nil => cases hs
  | cons a rest ih =>
    simp only [List.map_cons, List.nodup_cons] at hn
    by_cases ha : a.id = s.id
    · have : s = a := by
        rcases List.mem_cons.mp hs with h | h
        · exact h
        · exact absurd (List.mem_map.mpr ⟨s, h, ha.symm⟩) hn.1
      subst this
      simp
    · have hs' : s ∈ rest := by
        rcases List.mem_cons.mp hs with h | h
        · exact absurd (h ▸ rfl) ha
        · exact h
      simp [List.find?, ha, ih hn.2 hs']

theorem WF.session? {w : World} (hw : WF w) {s : Session} (hs : s ∈ w.sessions) : w.session? s.id = some s :=
  find?_of_nodup hw.nodup hs

/-- **C11: no request changes another session.**  In a well-formed state, a session object that
the request did not act on (the response's effect does not name it) is still there, unchanged in
every field, and is a member of exactly the groups it was a member of. -/
theorem C11_whip_other_sessions_untouched (w : World) (hw : WF w) (via : Via) (r : Req) (s : Session)
    (hs : s ∈ w.sessions) (hne : (handle w via r).2.effect.acts ≠ some s.id) :
    s ∈ (handle w via r).1.sessions ∧
    ∀ n, (s.id ∈ (handle w via r).1.clientsOf n ↔ s.id ∈ w.clientsOf n) := by
  have hsp := handle_spec w via r
  generalize handle w via r = res at hsp hne
  cases hsp with
  | endpoint he =>
    cases he with
    | refused w' o sr hcl => exact ⟨sr.sessions ▸ hs, fun n => by rw [hcl n]⟩
    | created w' name d c resp _ _ _ _ hid _ _ _ _ _ hsess hcl =>
      refine ⟨by rw [hsess]; exact List.mem_append_left _ hs, fun n => ?_⟩
      obtain ⟨k, hk, hlt⟩ := hw.fresh s hs
      have hneq : s.id ≠ c.id := by rw [hk, hid]; intro h; cases h; omega
      rw [hcl n]
      split
      · rename_i h; subst h; simp [hneq]
      · rfl
  | noSession o ho => exact ⟨hs, fun _ => Iff.rfl⟩
  | session i c _ _ _ ha =>
    by_cases hi : s.id = i
    · subst hi
      -- the request named nobody (no effect): the state is unchanged
      have hnone : res.2.effect = .none := by
        cases he : res.2.effect with
        | none => rfl
        | created j => exact absurd he (ha.notCreated j)
        | closed j => exact absurd (by rw [he] at hne ⊢; simp only [Effect.acts] at hne ⊢; rw [ha.acts j (by simp [he, Effect.acts])]) hne
        | candidates j => exact absurd (by rw [he] at hne ⊢; simp only [Effect.acts] at hne ⊢; rw [ha.acts j (by simp [he, Effect.acts])]) hne
        | restarted j => exact absurd (by rw [he] at hne ⊢; simp only [Effect.acts] at hne ⊢; rw [ha.acts j (by simp [he, Effect.acts])]) hne
        | restartFailed j => exact absurd (by rw [he] at hne ⊢; simp only [Effect.acts] at hne ⊢; rw [ha.acts j (by simp [he, Effect.acts])]) hne
      rw [ha.unchanged hnone]
      exact ⟨hs, fun _ => Iff.rfl⟩
    · exact ⟨ha.touches.others s hs hi,
        fun n => ⟨ha.touches.noNewMember n _, ha.touches.othersStay n _ hi⟩⟩

/-- the two together: in a well-formed state, whatever request changes a session object that was
created with a bearer token, removes it from the table, or changes its memberships, carries exactly
that token -/
theorem C11_whip_change_needs_token (w : World) (hw : WF w) (via : Via) (r : Req) (s : Session)
    (hs : s ∈ w.sessions) (htok : s.token ≠ [])
    (hch : s ∉ (handle w via r).1.sessions ∨
      ∃ n, ¬ (s.id ∈ (handle w via r).1.clientsOf n ↔ s.id ∈ w.clientsOf n)) :
    parseBearerToken r.auth = s.token := by
  by_cases hne : (handle w via r).2.effect.acts = some s.id
  · obtain ⟨c, hc, _, h3⟩ := C11_whip_same_token w via r s.id hne
    rw [hw.session? hs] at hc
    cases hc
    exact h3 htok
  · obtain ⟨h1, h2⟩ := C11_whip_other_sessions_untouched w hw via r s hs hne
    rcases hch with h | ⟨n, h⟩
    · exact absurd h1 h
    · exact absurd (h2 n) h

/-! ## histories: invariants by induction over arbitrary sequences of requests and events -/

/-- how a session object came to be: a request `r` answered by the creation of this id, in a state
`w0` in which the credentials of `r` granted 'present' in the group of its path; the object still
carries the bearer token of that request and the permissions it was admitted with -/
structure CreatedBy (w0 : World) (via : Via) (r : Req) (c : Session) : Prop where
  effect : (handle w0 via r).2.effect = .created c.id
  token : c.token = parseBearerToken r.auth
  present : present ∈ c.perms
  grants : ∃ d, w0.files.lookup (Paths.parseGroupName (lit "/group/") (Paths.splitPath r.path).1) = some (.desc d) ∧
    GrantsPresent w0 d (Paths.parseGroupName (lit "/group/") (Paths.splitPath r.path).1) c.token

theorem CreatedBy.of_same {w0 : World} {via : Via} {r : Req} {c c' : Session} (h : CreatedBy w0 via r c)
    (hi : SameIdentity c c') : CreatedBy w0 via r c' := by
  obtain ⟨h1, h2, h3⟩ := hi
  exact ⟨h1 ▸ h.effect, h2 ▸ h.token, h3 ▸ h.present, h2 ▸ h.grants⟩

/-- one step of a history -/
inductive StepSpec (w : World) (op : Op) (w' : World) : Prop
  | quiet : w'.sessions = w.sessions → w'.nextId = w.nextId → StepSpec w op w'
  | touches (id : Id) : OnlyTouches id w w' → StepSpec w op w'
  | created (via : Via) (r : Req) (c : Session) :
      op = .req via r → CreatedBy w via r c → c.id = .s w.nextId → w'.sessions = w.sessions ++ [c] →
      w'.nextId = w.nextId + 1 → StepSpec w op w'

theorem step_spec (w : World) (op : Op) : StepSpec w op (step w op).1 := by
  cases op with
  | req via r =>
    show StepSpec w _ (handle w via r).1
    have hs := handle_spec w via r
    generalize hres : handle w via r = res at hs
    cases hs with
    | endpoint he =>
      cases he with
      | refused w' o sr => exact .quiet sr.sessions sr.nextId
      | created w' name d c resp _ hn hf hg hid htok hp _ _ _ hsess _ _ _ hnext _ _ heff _ =>
        refine .created via r c rfl ⟨?_, htok, hp, d, hn ▸ hf, htok ▸ hn ▸ hg⟩ hid hsess hnext
        rw [hres]
        simp [Outcome.effect, heff]
    | noSession o ho => exact .quiet rfl rfl
    | session i c _ _ _ ha => exact .touches i ha.touches
  | setFile name f => exact .quiet rfl rfl
  | rmFile name => exact .quiet rfl rfl
  | addToken name t =>
    simp only [step]
    split <;> exact .quiet rfl rfl
  | expireToken name =>
    simp only [step]
    split <;> exact .quiet rfl rfl
  | delToken name => exact .quiet rfl rfl
  | lock name locked =>
    simp only [step]
    have sr := sameRest_add w name
    split
    · rename_i w1 _ h; rw [h] at sr; exact .quiet sr.sessions sr.nextId
    · rename_i w1 _ h; rw [h] at sr
      split
      · exact .quiet sr.sessions sr.nextId
      · exact .quiet sr.sessions sr.nextId
  | mockJoin n name =>
    simp only [step]
    have sr := sameRest_add w name
    split
    · rename_i w1 _ h; rw [h] at sr; exact .quiet sr.sessions sr.nextId
    · rename_i w1 _ h; rw [h] at sr
      split
      · split
        · exact .quiet sr.sessions sr.nextId
        · exact .quiet sr.sessions sr.nextId
      · exact .quiet sr.sessions sr.nextId
  | mockLeave id name =>
    simp only [step]
    split
    · split <;> exact .quiet rfl rfl
    · exact .quiet rfl rfl
  | kick id => exact .touches id (onlyTouches_close id w)
  | iceClose id => exact .touches id (onlyTouches_close id w)

theorem WF.step {w : World} (hw : WF w) (op : Op) : WF (step w op).1 := by
  cases step_spec w op with
  | quiet hs hn => exact ⟨hs ▸ hw.nodup, fun s h => by rw [hn]; exact hw.fresh s (hs ▸ h)⟩
  | touches id ht =>
    refine ⟨ht.ids ▸ hw.nodup, fun s' h => ?_⟩
    obtain ⟨s, hs, hi, _⟩ := ht.identity s' h
    rw [ht.nextId, ← hi]
    exact hw.fresh s hs
  | created via r c _ _ hid hsess hnext =>
    refine ⟨?_, fun s h => ?_⟩
    · rw [hsess, List.map_append, List.nodup_append]
      refine ⟨hw.nodup, by simp, ?_⟩
      intro a ha b hb
      simp only [List.map_cons, List.map_nil, List.mem_singleton] at hb
      obtain ⟨s, hs, rfl⟩ := List.mem_map.mp ha
      obtain ⟨n, hn, hlt⟩ := hw.fresh s hs
      rw [hb, hn, hid]
      intro h; cases h; omega
    · rw [hsess] at h
      rw [hnext]
      rcases List.mem_append.mp h with h | h
      · obtain ⟨n, hn, hlt⟩ := hw.fresh s h
        exact ⟨n, hn, by omega⟩
      · simp only [List.mem_singleton] at h
        exact ⟨w.nextId, h ▸ hid, by omega⟩

theorem run_append (w : World) (a b : List Op) : run w (a ++ b) = run (run w a) b := by
  simp [run, List.foldl_append]

theorem run_cons (w : World) (op : Op) (rest : List Op) : run w (op :: rest) = run (step w op).1 rest := rfl

theorem WF.run {w : World} (hw : WF w) (ops : List Op) : WF (run w ops) := by
  induction ops generalizing w with
  | nil => exact hw
  | cons op rest ih => exact ih (hw.step op)

theorem WF.init : WF {} := ⟨by simp, fun s h => by cases h⟩

/-- every session object of the state reached by `pre` has an origin in `pre` -/
def Origins (pre : List Op) (w : World) : Prop :=
  ∀ c ∈ w.sessions, ∃ p1 via r p2, pre = p1 ++ .req via r :: p2 ∧ CreatedBy (run {} p1) via r c

theorem Origins.step {pre : List Op} {w : World} (hw : w = run {} pre) (ho : Origins pre w) (op : Op) :
    Origins (pre ++ [op]) (step w op).1 := by
  have carry : ∀ c c', c ∈ w.sessions → SameIdentity c c' →
      ∃ p1 via r p2, pre ++ [op] = p1 ++ .req via r :: p2 ∧ CreatedBy (run {} p1) via r c' := by
    intro c c' hc hi
    obtain ⟨p1, via, r, p2, hp, hcb⟩ := ho c hc
    exact ⟨p1, via, r, p2 ++ [op], by rw [hp]; simp, hcb.of_same hi⟩
  intro c' hc'
  cases step_spec w op with
  | quiet hs _ => exact carry c' c' (hs ▸ hc') ⟨rfl, rfl, rfl⟩
  | touches id ht =>
    obtain ⟨c, hc, hi⟩ := ht.identity c' hc'
    exact carry c c' hc hi
  | created via r c hop hcb _ hsess _ =>
    rw [hsess] at hc'
    rcases List.mem_append.mp hc' with h | h
    · exact carry c' c' h ⟨rfl, rfl, rfl⟩
    · simp only [List.mem_singleton] at h
      subst h
      exact ⟨pre, via, r, [], by rw [hop], hw ▸ hcb⟩

theorem origins_run (pre ops : List Op) (w : World) (hw : w = run {} pre) (ho : Origins pre w) :
    Origins (pre ++ ops) (run w ops) := by
  induction ops generalizing pre w with
  | nil => simpa [run] using ho
  | cons op rest ih =>
    have := ih (pre ++ [op]) (step w op).1 (by rw [hw, run_append]; rfl) (ho.step hw op)
    simpa [run_cons] using this

/-- **C11 over histories.**  Start the server empty and let anything happen in any order: requests
of every kind through the dispatcher or the handlers, description files written, broken or removed,
tokens added, expired or deleted, groups locked, other clients joining and leaving, kicks, ICE
failures.  Every WHIP session object that exists afterwards was created by one request of the
history, whose credentials granted 'present' in the group of its path in the state at that moment;
it still carries the bearer token of that request, and it holds 'present'. -/
theorem C11_whip_history (ops : List Op) (c : Session) (hc : c ∈ (run {} ops).sessions) :
    ∃ pre via r post, ops = pre ++ .req via r :: post ∧ CreatedBy (run {} pre) via r c := by
  have := origins_run [] ops {} rfl (fun c h => by cases h)
  simpa using this c hc

/-- … so every WHIP member of every group, at every point of every history, holds 'present' -/
theorem C11_whip_members_hold_present (ops : List Op) (n : Str) (id : Id) (c : Session)
    (_hm : id ∈ (run {} ops).clientsOf n) (hc : (run {} ops).session? id = some c) : present ∈ c.perms := by
  obtain ⟨_, _, _, _, _, hcb⟩ := C11_whip_history ops c (List.mem_of_find?_eq_some hc)
  exact hcb.present

/-- … and every reachable state is well-formed, so the two step theorems that assume it apply at
every point of every history -/
theorem C11_whip_reachable_wf (ops : List Op) : WF (run {} ops) := WF.init.run ops

/-! ## what "carries the token" means on the wire -/

theorem splitOn_ne_nil (sep : Char) (s : Str) : splitOn sep s ≠ [] := by
  cases s with
  | nil => simp [splitOn]
  | cons c cs =>
    unfold splitOn
    split
    · simp
    · split <;> simp

theorem splitOn_head_prefix (sep : Char) (s : Str) : ∀ w ws, splitOn sep s = w :: ws → w <+: s := by
  induction s with
  | nil => intro w ws h; simp [splitOn] at h; rw [h.1]; exact List.prefix_refl _
  | cons c cs ih =>
    intro w ws h
    unfold splitOn at h
    split at h
    · simp at h; rw [h.1]; exact List.nil_prefix
    · split at h
      · rename_i hnil; exact absurd hnil (splitOn_ne_nil sep cs)
      · rename_i w' ws' hw
        simp at h
        rw [← h.1]
        exact List.cons_prefix_cons.mpr ⟨rfl, ih w' ws' hw⟩

theorem mem_splitOn_infix (sep : Char) (s : Str) : ∀ x ∈ splitOn sep s, x <:+: s := by
  induction s with
  | nil => intro x hx; simp [splitOn] at hx; subst hx; exact List.infix_refl _
  | cons c cs ih =>
    intro x hx
    unfold splitOn at hx
    split at hx
    · rcases List.mem_cons.mp hx with h | h
      · subst h; exact List.nil_infix
      · exact (ih x h).trans (List.suffix_cons c cs).isInfix
    · split at hx
      · rename_i hnil; exact absurd hnil (splitOn_ne_nil sep cs)
      · rename_i w' ws' hw
        rcases List.mem_cons.mp hx with h | h
        · subst h
          exact (List.cons_prefix_cons.mpr ⟨rfl, splitOn_head_prefix sep cs w' ws' hw⟩).isInfix
        · exact (ih x (hw ▸ List.mem_cons_of_mem _ h)).trans (List.suffix_cons c cs).isInfix

theorem trimSpTab_infix (s : Str) : trimSpTab s <:+: s := by
  unfold trimSpTab
  have h1 : (s.dropWhile isSpTab) <:+ s := List.dropWhile_suffix _
  have h2 : ((s.dropWhile isSpTab).reverse.dropWhile isSpTab).reverse <+: (s.dropWhile isSpTab) := by
    have := List.dropWhile_suffix isSpTab (l := (s.dropWhile isSpTab).reverse)
    simpa using List.reverse_prefix.mpr this
  exact h2.isInfix.trans h1.isInfix

/-- the token `parseBearerToken` extracts occurs literally in the header -/
theorem parseBearerToken_infix (auth : Str) : parseBearerToken auth <:+: auth := by
  unfold parseBearerToken
  cases h : (splitOn ',' auth).findSome? bearerOf with
  | none => exact List.nil_infix
  | some v =>
    obtain ⟨a, ha, hb⟩ := List.exists_of_findSome?_eq_some h
    simp only [Option.getD_some]
    unfold bearerOf at hb
    split at hb
    · rename_i k v' hsp
      split at hb
      · simp at hb
        subst hb
        have : v' ∈ splitOn ' ' (trimSpTab a) := by rw [hsp]; simp
        exact ((mem_splitOn_infix ' ' _ v' this).trans (trimSpTab_infix a)).trans (mem_splitOn_infix ',' auth a ha)
      · cases hb
    · cases hb

/-! ## non-vacuity: a concrete server, the accept and the reject paths -/

namespace Ex

def desc : Desc := { users := [(lit "bob", { pw := .plain (lit "x"), perms := .role (lit "op") })] }
def anonDesc : Desc := { users := [(lit "whip", { pw := .plain [], perms := .role (lit "present") })] }
def tokP : Token.Stateful := { group := lit "g1", permissions := [lit "present", lit "message"], expires := some 1000 }
def tokQ : Token.Stateful := { group := lit "g1", permissions := [lit "present"], expires := some 1000 }
def tokM : Token.Stateful := { group := lit "g1", permissions := [lit "message"], expires := some 1000 }
def tokE : Token.Stateful := { group := lit "g1", permissions := [lit "present"], expires := some (-1000) }
def tokO : Token.Stateful := { group := lit "g2", permissions := [lit "present"], expires := some 1000 }

def w0 : World :=
  { files := [(lit "g1", .desc desc), (lit "g2", .desc anonDesc)],
    tokens := [(lit "tokP", tokP), (lit "tokQ", tokQ), (lit "tokM", tokM), (lit "tokE", tokE), (lit "tokO", tokO)] }

def post (g auth : String) : Req :=
  { method := lit "POST", path := lit ("/group/" ++ g ++ "/.whip"), auth := lit auth, ctype := lit "application/sdp",
    body := { offerOk := true, fragCred := some 0 } }

def on (method g id auth : String) : Req :=
  { method := lit method, path := lit ("/group/" ++ g ++ "/.whip/" ++ id), auth := lit auth,
    ctype := lit "application/trickle-ice-sdpfrag", body := { fragCred := some 0 } }

/-- the state after `POST /group/g1/.whip` with `Bearer tokP`, and then an anonymous POST to g2 -/
def w1 : World := (handle w0 .g (post "g1" "Bearer tokP")).1
def w2 : World := (handle w1 .g (post "g2" "")).1

-- ingest: accepted with a token granting 'present', refused with every other kind of credential
example : (handle w0 .g (post "g1" "Bearer tokP")).2.effect = .created (.s 1) := by decide
example : (handle w0 .g (post "g1" "bearer tokQ")).2.effect = .created (.s 1) := by decide
example : (handle w0 .g (post "g1" "Bearer tokM")).2 = status 403 := by decide
example : (handle w0 .g (post "g1" "Bearer tokE")).2 = status 401 := by decide
example : (handle w0 .g (post "g1" "Bearer tokO")).2 = status 401 := by decide
example : (handle w0 .g (post "g1" "Bearer nosuch")).2 = status 404 := by decide
example : (handle w0 .g (post "g1" "")).2 = status 401 := by decide
example : (handle w0 .g (post "g2" "")).2.effect = .created (.s 1) := by decide
example : (handle w0 .g (post "g3" "Bearer tokP")).2 = status 404 := by decide
-- a refusal leaves nobody behind
example : (handle w0 .g (post "g1" "Bearer tokM")).1.clientsOf (lit "g1") = [] := by decide
example : w1.clientsOf (lit "g1") = [.s 1] := by decide
-- later requests: the same token, nothing else
example : (handle w1 .g (on "DELETE" "g1" "@S1" "Bearer tokQ")).2 = status 403 := by decide
example : (handle w1 .g (on "DELETE" "g1" "@S1" "")).2 = status 403 := by decide
example : (handle w1 .g (on "PATCH" "g1" "@S1" "Bearer tokPx")).2 = status 403 := by decide
example : (handle w1 .g (on "PATCH" "g1" "@S1" "Bearer TOKP")).2 = status 403 := by decide
example : (handle w1 .g (on "PATCH" "g1" "@S1" "Bearer tokP")).2.effect = .candidates (.s 1) := by decide
example : (handle w1 .g (on "DELETE" "g1" "@S1" "Bearer tokP")).2.effect = .closed (.s 1) := by decide
example : (handle w1 .g (on "DELETE" "g1" "@S1" "Bearer tokP")).1.clientsOf (lit "g1") = [] := by decide
example : (handle w1 .g (on "DELETE" "g2" "@S1" "Bearer tokP")).2 = status 404 := by decide
example : (handle w1 .g (on "DELETE" "g1" "@X1" "Bearer tokP")).2 = status 404 := by decide
example : (handle w1 .g (on "DELETE" "g1" "abc" "Bearer tokP")).2 = status 500 := by decide
-- the token is deleted after the session was created: the session stays bound to the same string
example : (handle (step w1 (.delToken (lit "tokP"))).1 .g (on "DELETE" "g1" "@S1" "Bearer tokP")).2.effect = .closed (.s 1) := by
  decide
-- a stale session URL whose id now names a non-WHIP member (clients choose their own ids) is 404
def w3 : World := (step (step w1 (.kick (.s 1))).1 (.mockJoin (.s 1) (lit "g1"))).1
example : w3.clientsOf (lit "g1") = [.s 1] ∧ (w3.session? (.s 1)).isSome ∧
    (handle w3 .g (on "DELETE" "g1" "@S1" "Bearer tokP")).2 = status 404 ∧
    (handle w3 .r (on "PATCH" "g1" "@S1" "Bearer tokP")).2 = status 404 := by decide
-- the hypotheses of the step theorems are satisfiable by a reachable state with two sessions
example : WF w2 ∧ w2.sessions.length = 2 := by
  refine ⟨⟨by decide, ?_⟩, by decide⟩
  intro s hs
  have h : w2.sessions.all (fun s => match s.id with | .s n => decide (n < w2.nextId) | _ => false) = true := by decide
  have := List.all_eq_true.mp h s hs
  cases hid : s.id <;> simp [hid] at this
  exact ⟨_, rfl, this⟩

/-- What `c.Token() == ""` means: the anonymous session S2 of `w2` (created without a bearer
token) is closed by a DELETE that carries no credentials at all, and equally by one that carries
somebody else's token.  `C11_whip_same_token` does not cover it (its hypothesis `c.token ≠ []`
fails); only the secrecy of the session URL protects it. -/
theorem anonymous_session_is_unprotected :
    (w2.session? (.s 2)).map (·.token) = some [] ∧
    (handle w2 .g (on "DELETE" "g2" "@S2" "")).2.effect = .closed (.s 2) ∧
    (handle w2 .g (on "DELETE" "g2" "@S2" "Bearer tokM")).2.effect = .closed (.s 2) := by decide

end Ex

end Galene.Whip
