import GaleneVerif.Model.SdpFrag
/-
C12, WHIP trickle-ICE part — `sdpfrag.SDPFrag.Unmarshal` never reads out of bounds.

The WHIP PATCH handler hands up to 1 MiB of client-chosen bytes to `Unmarshal`
(webserver/whip.go:332-340).  Every field is cut out of a line with a slice expression
`l[len("<prefix>"):]`, which panics when the line is shorter than the prefix.  In
Model/SdpFrag.lean that panic is an explicit outcome (`sliceFrom` returns `none`), so the
statements below are not true by totalisation:

* `C12_sdp_unmarshal_no_panic` — for EVERY byte string the parser ends in `ok` or `err`,
  never in `panic`;
* `C12_sdp_err_only_unexpected_mid` — the only refusal is an `a=mid:` line before any `m=`
  line (the handler answers 400), and `C12_sdp_err_iff_run` characterises it exactly on the
  line list;
* `C12_sdp_lines_bounded` — every line the scanner yields is shorter than 64 KiB and holds no
  line feed, whatever the input;
* `C12_sdp_candidates_bounded` — the number of candidates handed to `AddICECandidate`
  (`AllCandidates`) never exceeds the number of input lines, hence the input length;
* `C12_sdp_mline_index` — every media-level candidate carries the index of its own media
  section (mod 2^16, the `uint16` conversion) and top-level candidates carry none.

`slice_guard_needed` shows the guard is what makes it true: the same slice on a line that
does not carry the prefix does panic in the model.
-/
namespace Galene.Props.C12Sdp
open Galene.Model.SdpFrag

theorem sliceFrom_of_prefix (l p : Bytes) (h : hasPrefix l p = true) :
    sliceFrom l p.length = some (l.drop p.length) := by
  unfold hasPrefix at h
  have hp : p <+: l := List.isPrefixOf_iff_prefix.mp h
  have := hp.length_le
  simp [sliceFrom, this]

/-- non-vacuity of the panic outcome: without the prefix guard the slice does fail. -/
theorem slice_guard_needed : sliceFrom (str "a=") pUfrag.length = none := by decide

theorem lineStep_no_panic (s : St) (l : Bytes) : lineStep s l ≠ .panic := by
  unfold lineStep
  split
  · rename_i h; rw [sliceFrom_of_prefix l _ h]; cases s.cur <;> simp
  split
  · rename_i h; rw [sliceFrom_of_prefix l _ h]; cases s.cur <;> simp
  split
  · rename_i h; rw [sliceFrom_of_prefix l _ h]; simp
  split
  · rename_i h; rw [sliceFrom_of_prefix l _ h]; cases s.cur <;> simp
  split
  · rename_i h; rw [sliceFrom_of_prefix l _ h]; cases s.cur <;> simp
  · simp

theorem run_no_panic (s : St) (ls : List Bytes) : run s ls ≠ .panic := by
  induction ls generalizing s with
  | nil => simp [run]
  | cons l ls ih =>
    unfold run
    have := lineStep_no_panic s l
    split
    · exact ih _
    · simp
    · rename_i h; exact absurd h this

/-- No input makes the parser panic. -/
theorem C12_sdp_unmarshal_no_panic (data : Bytes) : unmarshal data ≠ .panic :=
  run_no_panic _ _

theorem C12_sdp_unmarshal_total (data : Bytes) :
    unmarshal data = .err ∨ ∃ f, unmarshal data = .ok f := by
  have := C12_sdp_unmarshal_no_panic data
  cases h : unmarshal data with
  | ok f => exact .inr ⟨f, rfl⟩
  | err => exact .inl rfl
  | panic => exact absurd h this

/-! ### the only refusal -/

theorem lineStep_err (s : St) (l : Bytes) (h : lineStep s l = .err) :
    hasPrefix l pMid = true ∧ s.cur = none := by
  unfold lineStep at h
  split at h
  · rename_i hp; rw [sliceFrom_of_prefix l _ hp] at h; cases hc : s.cur <;> simp [hc] at h
  split at h
  · rename_i hp; rw [sliceFrom_of_prefix l _ hp] at h; cases hc : s.cur <;> simp [hc] at h
  split at h
  · rename_i hp; rw [sliceFrom_of_prefix l _ hp] at h; simp at h
  split at h
  · rename_i hp
    cases hc : s.cur with
    | none => exact ⟨hp, rfl⟩
    | some m => rw [sliceFrom_of_prefix l _ hp] at h; simp [hc] at h
  split at h
  · rename_i hp; rw [sliceFrom_of_prefix l _ hp] at h; cases hc : s.cur <;> simp [hc] at h
  · simp at h

theorem run_err (s : St) (ls : List Bytes) (h : run s ls = .err) :
    ∃ l ∈ ls, hasPrefix l pMid = true := by
  induction ls generalizing s with
  | nil => simp [run] at h
  | cons l ls ih =>
    unfold run at h
    split at h
    · obtain ⟨x, hx, hp⟩ := ih _ h; exact ⟨x, List.mem_cons_of_mem _ hx, hp⟩
    · rename_i he; exact ⟨l, List.mem_cons_self, (lineStep_err s l he).1⟩
    · simp at h

/-- The parser refuses only an input with an `a=mid:` line. -/
theorem C12_sdp_err_only_unexpected_mid (data : Bytes) (h : unmarshal data = .err) :
    ∃ l ∈ scanLines data, hasPrefix l pMid = true :=
  run_err _ _ h

/-- a mid line arriving while no media section is open is refused at once -/
theorem lineStep_mid_top (s : St) (l : Bytes) (hc : s.cur = none) (hp : hasPrefix l pMid = true)
    (h1 : hasPrefix l pUfrag = false) (h2 : hasPrefix l pPwd = false) (h3 : hasPrefix l pM = false) :
    lineStep s l = .err := by
  unfold lineStep; simp [h1, h2, h3, hp, hc]

/-- exact characterisation on the first line: a first line `a=mid:…` is always refused. -/
theorem C12_sdp_err_iff_run (l : Bytes) (ls : List Bytes) (hp : hasPrefix l pMid = true)
    (h1 : hasPrefix l pUfrag = false) (h2 : hasPrefix l pPwd = false) (h3 : hasPrefix l pM = false) :
    run {} (l :: ls) = .err := by
  unfold run; rw [lineStep_mid_top {} l rfl hp h1 h2 h3]

example : unmarshal (str "a=mid:0\r\n") = .err := by decide
example : unmarshal (str "m=audio\r\na=mid:0\r\na=candidate:1 1 UDP 1 192.0.2.1 9 typ host\r\n") =
    .ok { medias := [{ mline := str "audio", mid := str "0",
                       cands := [{ cand := str "1 1 UDP 1 192.0.2.1 9 typ host", ufrag := none,
                                   idx := some 0, mid := some (str "0") }] }] } := by decide

/-! ### the scanner's lines -/

theorem dropCR_sublist (l : Bytes) : (dropCR l).Sublist l := by
  unfold dropCR; split
  · exact List.dropLast_sublist l
  · exact List.Sublist.refl l

theorem scanAux_lines (data acc : Bytes) (n : Nat) (hn : acc.length = n) (hlt : n < maxToken)
    (hnl : 10 ∉ acc) : ∀ l ∈ scanAux data acc n, l.length < maxToken ∧ 10 ∉ l := by
  induction data generalizing acc n with
  | nil =>
    intro l hl
    unfold scanAux at hl
    split at hl
    · simp at hl
    · simp at hl; subst hl
      have hs := dropCR_sublist acc.reverse
      refine ⟨?_, fun h => hnl (by simpa using hs.subset h)⟩
      have := hs.length_le; simp at this; omega
  | cons b rest ih =>
    intro l hl
    unfold scanAux at hl
    split at hl
    · rcases List.mem_cons.mp hl with h | h
      · subst h
        have hs := dropCR_sublist acc.reverse
        refine ⟨?_, fun h => hnl (by simpa using hs.subset h)⟩
        have := hs.length_le; simp at this; omega
      · exact ih [] 0 rfl (by decide) (by simp) l h
    · split at hl
      · simp at hl
      · rename_i hb hge
        exact ih (b :: acc) (n + 1) (by simp [hn]) (by omega)
          (by simp; exact ⟨fun h => hb h.symm, hnl⟩) l hl

/-- Every line handed to the parser is shorter than 64 KiB and holds no line feed. -/
theorem C12_sdp_lines_bounded (data : Bytes) :
    ∀ l ∈ scanLines data, l.length < 65536 ∧ 10 ∉ l :=
  scanAux_lines data [] 0 rfl (by decide) (by simp)

theorem scanAux_count (data acc : Bytes) (n : Nat) :
    (scanAux data acc n).length ≤ data.length + (if acc.isEmpty then 0 else 1) := by
  induction data generalizing acc n with
  | nil => unfold scanAux; split <;> simp_all
  | cons b rest ih =>
    unfold scanAux
    split
    · have := ih [] 0; simp at this; simp; split <;> omega
    · split
      · simp
      · have := ih (b :: acc) (n + 1); simp at this; simp; split <;> omega

theorem scanLines_count (data : Bytes) : (scanLines data).length ≤ data.length := by
  have := scanAux_count data [] 0; simpa [scanLines] using this

/-! ### how many candidates -/

def curCands (s : St) : Nat := match s.cur with | some m => m.cands.length | none => 0

def candCount (s : St) : Nat :=
  s.f.cands.length + (s.f.medias.flatMap (·.cands)).length + curCands s

theorem candCount_flush (s : St) : (allCandidates (flush s)).length = candCount s := by
  unfold allCandidates flush candCount curCands
  cases s.cur <;> simp [List.flatMap_append] <;> omega

theorem lineStep_candCount (s s' : St) (l : Bytes) (h : lineStep s l = .cont s') :
    candCount s' ≤ candCount s + 1 := by
  unfold lineStep at h
  split at h
  · rename_i hp; rw [sliceFrom_of_prefix l _ hp] at h
    cases hc : s.cur <;> simp [hc] at h <;> subst h <;> simp [candCount, curCands, hc]
  split at h
  · rename_i hp; rw [sliceFrom_of_prefix l _ hp] at h
    cases hc : s.cur <;> simp [hc] at h <;> subst h <;> simp [candCount, curCands, hc]
  split at h
  · rename_i hp; rw [sliceFrom_of_prefix l _ hp] at h
    simp at h; subst h
    cases hc : s.cur <;> simp [candCount, curCands, flush, hc, List.flatMap_append] <;> omega
  split at h
  · rename_i hp
    cases hc : s.cur with
    | none => simp [hc] at h
    | some m =>
      rw [sliceFrom_of_prefix l _ hp] at h; simp [hc] at h; subst h
      simp [candCount, curCands, hc]
  split at h
  · rename_i hp; rw [sliceFrom_of_prefix l _ hp] at h
    cases hc : s.cur <;> simp [hc] at h <;> subst h <;> simp [candCount, curCands, hc] <;> omega
  · simp at h; subst h; omega

theorem run_candCount (s : St) (ls : List Bytes) (f : Frag) (h : run s ls = .ok f) :
    (allCandidates f).length ≤ candCount s + ls.length := by
  induction ls generalizing s with
  | nil => simp [run] at h; subst h; simp [candCount_flush]
  | cons l ls ih =>
    unfold run at h
    split at h
    · rename_i s' hs
      have := ih s' h
      have := lineStep_candCount s s' l hs
      simp; omega
    · simp at h
    · simp at h

/-- The candidates handed on never outnumber the input's lines (hence its bytes). -/
theorem C12_sdp_candidates_bounded (data : Bytes) (f : Frag) (h : unmarshal data = .ok f) :
    (allCandidates f).length ≤ data.length := by
  have := run_candCount {} (scanLines data) f h
  have := scanLines_count data
  simp [candCount, curCands] at *; omega

/-! ### media-line indices -/

/-- every candidate of media section number `k` carries index `k mod 2^16`; top-level ones none -/
def IdxOK (f : Frag) : Prop :=
  (∀ c ∈ f.cands, c.idx = none ∧ c.mid = none) ∧
  ∀ k (hk : k < f.medias.length), ∀ c ∈ (f.medias[k]).cands, c.idx = some (k % 65536)

def StOK (s : St) : Prop :=
  IdxOK s.f ∧ ∀ m, s.cur = some m → ∀ c ∈ m.cands, c.idx = some (s.f.medias.length % 65536)

theorem flush_idxOK (s : St) (h : StOK s) : IdxOK (flush s) := by
  unfold flush
  cases hc : s.cur with
  | none => exact h.1
  | some m =>
    refine ⟨h.1.1, ?_⟩
    intro k hk c hcm
    simp at hk
    by_cases hlt : k < s.f.medias.length
    · simp [List.getElem_append_left hlt] at hcm
      exact h.1.2 k hlt c hcm
    · have hk' : k = s.f.medias.length := by omega
      subst hk'
      simp at hcm
      exact h.2 m hc c hcm

theorem lineStep_stOK (s s' : St) (l : Bytes) (hs : StOK s) (h : lineStep s l = .cont s') : StOK s' := by
  unfold lineStep at h
  split at h
  · rename_i hp; rw [sliceFrom_of_prefix l _ hp] at h
    cases hc : s.cur with
    | none => simp [hc] at h; subst h; exact ⟨hs.1, by simp⟩
    | some m =>
      simp [hc] at h; subst h
      exact ⟨hs.1, by intro m' hm' c hcm; simp at hm'; subst hm'; exact hs.2 m hc c hcm⟩
  split at h
  · rename_i hp; rw [sliceFrom_of_prefix l _ hp] at h
    cases hc : s.cur with
    | none => simp [hc] at h; subst h; exact ⟨hs.1, by simp⟩
    | some m =>
      simp [hc] at h; subst h
      exact ⟨hs.1, by intro m' hm' c hcm; simp at hm'; subst hm'; exact hs.2 m hc c hcm⟩
  split at h
  · rename_i hp; rw [sliceFrom_of_prefix l _ hp] at h
    simp at h; subst h
    exact ⟨flush_idxOK s hs, by intro m' hm' c hcm; simp at hm'; subst hm'; simp at hcm⟩
  split at h
  · rename_i hp
    cases hc : s.cur with
    | none => simp [hc] at h
    | some m =>
      rw [sliceFrom_of_prefix l _ hp] at h; simp [hc] at h; subst h
      exact ⟨hs.1, by intro m' hm' c hcm; simp at hm'; subst hm'; exact hs.2 m hc c hcm⟩
  split at h
  · rename_i hp; rw [sliceFrom_of_prefix l _ hp] at h
    cases hc : s.cur with
    | none =>
      simp [hc] at h; subst h
      refine ⟨⟨?_, hs.1.2⟩, by simp⟩
      intro c hcm; simp at hcm
      rcases hcm with hcm | hcm
      · exact hs.1.1 c hcm
      · subst hcm; simp
    | some m =>
      simp [hc] at h; subst h
      refine ⟨hs.1, ?_⟩
      intro m' hm' c hcm; simp at hm'; subst hm'; simp at hcm
      rcases hcm with hcm | hcm
      · exact hs.2 m hc c hcm
      · subst hcm; simp
  · simp at h; subst h; exact hs

theorem run_idxOK (s : St) (ls : List Bytes) (f : Frag) (hs : StOK s) (h : run s ls = .ok f) : IdxOK f := by
  induction ls generalizing s with
  | nil => simp [run] at h; subst h; exact flush_idxOK s hs
  | cons l ls ih =>
    unfold run at h
    split at h
    · rename_i s' hst; exact ih s' (lineStep_stOK s s' l hs hst) h
    · simp at h
    · simp at h

/-- Every media-level candidate names its own media section; top-level candidates name none. -/
theorem C12_sdp_mline_index (data : Bytes) (f : Frag) (h : unmarshal data = .ok f) : IdxOK f :=
  run_idxOK {} _ f ⟨⟨by simp, by simp⟩, by simp⟩ h

end Galene.Props.C12Sdp
