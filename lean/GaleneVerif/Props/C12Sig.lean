import GaleneVerif.Props.C11
import GaleneVerif.Lemmas.SigFrame
/-
C12, signalling part — no sequence of client messages crashes a handler.

In the model a Go nil dereference is the flag `World.crashed`; it is set in
exactly two places: the `publish` effect for a connection whose group is nil
(newUpConn evaluates c.Group().API()) and the `pushClient` action for a
connection whose group is nil (c.group.Name()).  Client goroutines are not
panic-protected, so either kills the server process.

* `C12_applyEffect_crash` / `C12_handleAction_crash`: where a crash can come from
  (for every world, client, effect, action);
* `C12_handle_no_crash`: with the repairs `offerNil` and `p12` no message and no
  queued action can crash, from **any** world state (no invariant needed: the
  two nil tests guard the two dereferences directly);
* `C12_stepAction_no_crash`: the same for one iteration of the action loop;
* `C12_run_no_crash`: hence for every finite schedule of messages and action steps;
* `C12_handle_no_crash_partial`: on the code as pinned, a message cannot crash a
  connection whose state satisfies "in no group ⇒ no `present`" — which is what
  P10/P18 break; and the crashes themselves as proved counterexamples
  (`C12_crash_offer_after_refused_join` P10, `C12_crash_user_event_after_leave` P12,
  `C12_crash_after_redirect` P18).
-/
namespace Galene.Sig

/-- every effect but `publish` leaves the crash flag (and the repair flags) alone -/
theorem applyEffect_cf (w : World) (i : Nat) (e : Effect) (h : e.isPub = false) : (applyEffect w i e).cf = w.cf := by
  cases e
  all_goals (try (simp [Effect.isPub] at h; done))
  all_goals (unfold applyEffect; simp only [])
  all_goals first
    | rfl
    | (simp; done)
    | skip
  all_goals (repeat' (first
    | rfl
    | (simp; done)
    | (exact addGroup_cf w _)
    | (rw [delClient_cf])
    | (rw [foldl_cf])
    | (intro w r; cases r <;> simp only [])
    | split_ifs
    | split))

/-- `publish` leaves the repair flags alone, and sets the crash flag only for a
connection whose group is nil (and only for a parseable offer on a new stream id) -/
theorem applyEffect_publish (w : World) (i : Nat) (id : String) (ok : Bool) (rep : String) :
    (applyEffect w i (.publish id ok rep)).fix = w.fix ∧
    ((applyEffect w i (.publish id ok rep)).crashed = true →
      w.crashed = true ∨ ((w.client? i).getD {}).group = none) := by
  unfold applyEffect
  simp only []
  split
  · split_ifs
    · constructor
      · have := delUpConn_cf w i rep true
        simp only [World.cf, Prod.mk.injEq] at this
        exact this.2
      · intro h
        left
        have := delUpConn_cf w i rep true
        simp only [World.cf, Prod.mk.injEq] at this
        have h' : (delUpConn w i rep true).1.crashed = true := h
        rw [this.1] at h'
        exact h'
    · constructor
      · have := delUpConn_cf (w.modClient i fun c =>
          { c with up := c.up.map fun u => if u.1 = id then (u.1, rep) else u }) i rep false
        simp only [World.cf, Prod.mk.injEq] at this
        exact this.2
      · intro h
        left
        have := delUpConn_cf (w.modClient i fun c =>
          { c with up := c.up.map fun u => if u.1 = id then (u.1, rep) else u }) i rep false
        simp only [World.cf, Prod.mk.injEq] at this
        have h' : (delUpConn (w.modClient i fun c =>
          { c with up := c.up.map fun u => if u.1 = id then (u.1, rep) else u }) i rep false).1.crashed = true := h
        rw [this.1] at h'
        exact h'
    · exact ⟨rfl, fun h => Or.inl h⟩
  · split_ifs
    · exact ⟨rfl, fun h => Or.inl h⟩
    · rename_i hnone
      refine ⟨rfl, fun _ => Or.inr ?_⟩
      simpa using hnone
    · exact ⟨rfl, fun h => Or.inl h⟩

/-- **C12_applyEffect_crash.**  Applying an effect crashes only if it is
`publish` for a connection whose group is nil; no effect changes the repair flags. -/
theorem C12_applyEffect_crash (w : World) (i : Nat) (e : Effect) :
    (applyEffect w i e).fix = w.fix ∧
    ((applyEffect w i e).crashed = true →
      w.crashed = true ∨ (e.isPub = true ∧ ((w.client? i).getD {}).group = none)) := by
  by_cases hp : e.isPub = true
  · cases e <;> simp [Effect.isPub] at hp
    rename_i sid ok rep
    obtain ⟨h1, h2⟩ := applyEffect_publish w i sid ok rep
    exact ⟨h1, fun h => (h2 h).imp (fun x => x) (fun x => ⟨rfl, x⟩)⟩
  · have := applyEffect_cf w i e (by simpa using hp)
    simp only [World.cf, Prod.mk.injEq] at this
    exact ⟨this.2, fun h => Or.inl (by rw [← this.1]; exact h)⟩

def Action.isUser : Action → Bool
  | .pushClient .. => true
  | _ => false

/-- every action but a `user` event leaves the crash flag alone; so does a
`user` event if P12 is repaired or the connection is in a group -/
theorem handleAction_cf (w : World) (i : Nat) (a : Action)
    (h : a.isUser = false ∨ w.fix.p12 = true ∨ ((w.client? i).bind (·.group)).isSome = true) :
    (handleAction w i a).1.cf = w.cf := by
  unfold handleAction
  split
  · rfl
  · rename_i c hc
    cases a with
    | pushClient g k id u p d =>
      simp only []
      split
      · rename_i hg
        split_ifs with h12
        · rfl
        · simp [Action.isUser, h12, hc, hg] at h
      · split_ifs <;> simp
    | pushConn g id up rep =>
      simp only []
      split_ifs <;> simp
    | requestConns g t id =>
      simp only []
      split_ifs
      · rfl
      · show World.cf (List.foldl _ _ _) = w.cf
        rw [foldl_cf]
        intro w u
        split_ifs
        · rfl
        · cases t <;> simp only []
          all_goals first
            | rfl
            | (simp; done)
            | (split
               · split_ifs <;> simp
               · rfl)
    | joined g k =>
      simp only []
      split
      · simp
      · split_ifs
        · show World.cf (List.foldl _ _ _) = w.cf
          rw [foldl_cf]
          · simp
          · intro w e; simp
        · simp
    | changePerm k =>
      simp only []
      split_ifs
      all_goals first
        | rfl
        | (split <;> first | rfl | simp)
    | permChanged =>
      simp only []
      split
      · split_ifs <;> rfl
      · show World.cf (broadcastChange _ _ _) = w.cf
        rw [broadcastChange_cf]
        split_ifs
        · simp
        · rw [foldl_cf]
          · simp
          · intro w u
            split <;> simp
    | kick id u m => rfl

/-- **C12_handleAction_crash.**  Handling a queued action crashes only if it is
a `user` event for a connection whose group is nil and P12 is not repaired. -/
theorem C12_handleAction_crash (w : World) (i : Nat) (a : Action)
    (hc : (handleAction w i a).1.crashed = true) :
    w.crashed = true ∨ (w.fix.p12 = false ∧ a.isUser = true ∧ ((w.client? i).bind (·.group)) = none) := by
  by_cases h : a.isUser = false ∨ w.fix.p12 = true ∨ ((w.client? i).bind (·.group)).isSome = true
  · have := handleAction_cf w i a h
    simp only [World.cf, Prod.mk.injEq] at this
    exact Or.inl (by rw [← this.1]; exact hc)
  · right
    simp only [not_or] at h
    refine ⟨by simpa using h.2.1, by simpa using h.1, ?_⟩
    cases hg : (w.client? i).bind (·.group) with
    | none => rfl
    | some g => simp [hg] at h

/-! ### a whole message, a whole action step, a whole run -/

theorem no_pub_join (c : Conn) (m : Msg) : ∀ e ∈ handleJoin c m, e.isPub = false := by
  intro e he; unfold handleJoin at he; nopub he
theorem no_pub_request (c : Conn) (m : Msg) : ∀ e ∈ handleRequest c m, e.isPub = false := by
  intro e he; unfold handleRequest at he; nopub he
theorem no_pub_media (m : Msg) : ∀ e ∈ handleMedia m, e.isPub = false := by
  intro e he; unfold handleMedia at he; nopub he
theorem no_pub_chat (c : Conn) (env : Env) (m : Msg) : ∀ e ∈ handleChat c env m, e.isPub = false := by
  intro e he
  unfold handleChat at he
  split at he
  · nopub he
  · simp only at he; nopub he
theorem no_pub_useraction (c : Conn) (env : Env) (m : Msg) : ∀ e ∈ handleUserAction c env m, e.isPub = false := by
  intro e he; unfold handleUserAction at he; split at he <;> nopub he

/-- `publish` is never accompanied by another effect -/
theorem handle_publish_singleton (c : Conn) (env : Env) (m : Msg) :
    ∀ e ∈ handle c env m, e.isPub = true → handle c env m = [e] := by
  refine handle_cases (fun e => e.isPub = true → handle c env m = [e]) c env m
    (by simp [Effect.isPub]) (by simp [Effect.isPub])
    (fun e he h => by simp [no_pub_join c m e he] at h)
    (fun e he h => by simp [no_pub_request c m e he] at h)
    ?_
    (fun e he h => by simp [no_pub_media m e he] at h)
    (fun _ _ _ e he h => by simp [no_pub_chat c env m e he] at h)
    (fun _ e he h => by simp [no_pub_groupaction c env m e he] at h)
    (fun e he h => by simp [no_pub_useraction c env m e he] at h)
  intro h1 h2 ht e he hp
  have hh : handle c env m = handleOffer c env m := by
    unfold handle
    simp [h1, h2, ht]
  rw [hh]
  unfold handleOffer at he ⊢
  split_ifs at he ⊢
  all_goals mem_cases he
  all_goals simp_all [Effect.isPub, errReply, emptyId]

theorem env_fix (w : World) (i : Nat) : (w.env i).fix = w.fix := by
  unfold World.env
  split
  · rfl
  · split <;> rfl

theorem conn_group (w : World) (i : Nat) : (w.conn i).group = ((w.client? i).getD {}).group := by
  unfold World.conn
  cases h : w.client? i <;> rfl

/-- effects without `publish` leave the crash flag alone -/
theorem fold_nopub (i : Nat) (es : List Effect) (h : ∀ e ∈ es, e.isPub = false) (w : World) :
    (es.foldl (fun w e => if w.crashed then w else applyEffect w i e) w).cf = w.cf := by
  induction es generalizing w with
  | nil => rfl
  | cons e r ih =>
    simp only [List.foldl_cons]
    rw [ih (fun e' he' => h e' (List.mem_cons_of_mem _ he'))]
    split_ifs
    · rfl
    · exact applyEffect_cf w i e (h e (List.mem_cons_self))

/-- **C12_handle_no_crash.**  With the `offer` repair, handling a client
message never crashes, whatever the message and whatever the state of the world
(no invariant is needed: the nil test guards the dereference directly). -/
theorem C12_handle_no_crash (w : World) (i : Nat) (m : Msg) (hfix : w.fix.offerNil = true)
    (h : w.crashed = false) : (handleMsg w i m).crashed = false ∧ (handleMsg w i m).fix = w.fix := by
  unfold handleMsg
  have hflush : ∀ w' : World, w'.flush.cf = w'.cf := flush_cf
  by_cases hp : ∃ e ∈ handle (w.conn i) (w.env i) m, e.isPub = true
  · obtain ⟨e, he, hpe⟩ := hp
    rw [handle_publish_singleton _ _ _ e he hpe]
    simp only [List.foldl_cons, List.foldl_nil, h, Bool.false_eq_true, if_false]
    cases e <;> simp [Effect.isPub] at hpe
    rename_i sid ok rep
    have hg := (C11_publish_guard (w.conn i) (w.env i) m sid ok rep he).2.2 (by rw [env_fix]; exact hfix)
    obtain ⟨f1, f2⟩ := applyEffect_publish w i sid ok rep
    have hfl := hflush (applyEffect w i (.publish sid ok rep))
    simp only [World.cf, Prod.mk.injEq] at hfl
    refine ⟨?_, by rw [hfl.2, f1]⟩
    rw [hfl.1]
    cases hc : (applyEffect w i (.publish sid ok rep)).crashed with
    | false => rfl
    | true =>
      rcases f2 hc with h' | h'
      · rw [h] at h'; cases h'
      · rw [conn_group, h'] at hg; cases hg
  · have hno : ∀ e ∈ handle (w.conn i) (w.env i) m, e.isPub = false := by
      intro e he
      cases hb : e.isPub with
      | false => rfl
      | true => exact absurd ⟨e, he, hb⟩ hp
    have := fold_nopub i _ hno w
    have hfl := hflush ((handle (w.conn i) (w.env i) m).foldl (fun w e => if w.crashed then w else applyEffect w i e) w)
    simp only [World.cf, Prod.mk.injEq] at this hfl
    exact ⟨by rw [hfl.1, this.1, h], by rw [hfl.2, this.2]⟩

/-- **C12_stepAction_no_crash.**  With the repair P12, one iteration of the
action loop never crashes. -/
theorem C12_stepAction_no_crash (w : World) (i : Nat) (hfix : w.fix.p12 = true) (h : w.crashed = false) :
    (stepAction w i).1.crashed = false ∧ (stepAction w i).1.fix = w.fix := by
  unfold stepAction
  split
  · exact ⟨h, rfl⟩
  · split
    · exact ⟨h, rfl⟩
    · rename_i c hc a rest hq
      simp only []
      have e := handleAction_cf (w.modClient i fun c => { c with queue := rest }) i a (Or.inr (Or.inl hfix))
      simp only [World.cf, Prod.mk.injEq, modClient_cf] at e
      have e1 : (handleAction (w.modClient i fun c => { c with queue := rest }) i a).1.crashed = false := by
        rw [e.1]; exact h
      have e2 : (handleAction (w.modClient i fun c => { c with queue := rest }) i a).1.fix = w.fix := e.2
      split_ifs with hcr
      · rw [e1] at hcr; cases hcr
      · split
        · rename_i err herr
          have := flush_cf (finish (handleAction (w.modClient i fun c => { c with queue := rest }) i a).1 i err)
          simp only [World.cf, Prod.mk.injEq, finish_cf] at this
          have f := finish_cf (handleAction (w.modClient i fun c => { c with queue := rest }) i a).1 i err
          simp only [World.cf, Prod.mk.injEq] at f
          exact ⟨by rw [this.1, f.1, e1], by rw [this.2, f.2, e2]⟩
        · have := flush_cf (handleAction (w.modClient i fun c => { c with queue := rest }) i a).1
          simp only [World.cf, Prod.mk.injEq] at this
          exact ⟨by rw [this.1, e1], by rw [this.2, e2]⟩

/-- one step of a schedule: a client message or an action-loop iteration -/
inductive Step where
  | msg (i : Nat) (m : Msg)
  | act (i : Nat)

def runStep (w : World) : Step → World
  | .msg i m => handleMsg w i m
  | .act i => (stepAction w i).1

/-- **C12_run_no_crash.**  With the two repairs, no finite schedule of client
messages (any type, kind, fields, in any membership state) and action-loop
iterations crashes, from any starting world. -/
theorem C12_run_no_crash (steps : List Step) (w : World) (h1 : w.fix.offerNil = true) (h2 : w.fix.p12 = true)
    (h : w.crashed = false) : (steps.foldl runStep w).crashed = false := by
  induction steps generalizing w with
  | nil => exact h
  | cons s r ih =>
    simp only [List.foldl_cons]
    cases s with
    | msg i m =>
      obtain ⟨a, b⟩ := C12_handle_no_crash w i m h1 h
      exact ih _ (by show (handleMsg w i m).fix.offerNil = true; rw [b]; exact h1)
        (by show (handleMsg w i m).fix.p12 = true; rw [b]; exact h2) a
    | act i =>
      obtain ⟨a, b⟩ := C12_stepAction_no_crash w i h2 h
      exact ih _ (by show (stepAction w i).1.fix.offerNil = true; rw [b]; exact h1)
        (by show (stepAction w i).1.fix.p12 = true; rw [b]; exact h2) a

/-! ### the code as pinned -/

theorem conn_perms (w : World) (i : Nat) : (w.conn i).perms = w.permsOf i := by
  unfold World.conn World.permsOf
  cases h : w.client? i <;> rfl

/-- **C12_handle_no_crash_partial** (no repair assumed; added hypothesis: the
connection's state satisfies "in no group ⇒ no `present`", which is what the
refused/redirected join breaks).  Then no message crashes its handler. -/
theorem C12_handle_no_crash_partial (w : World) (i : Nat) (m : Msg) (h : w.crashed = false)
    (hinv : ((w.client? i).getD {}).group = none → "present" ∉ w.permsOf i) :
    (handleMsg w i m).crashed = false := by
  unfold handleMsg
  by_cases hp : ∃ e ∈ handle (w.conn i) (w.env i) m, e.isPub = true
  · obtain ⟨e, he, hpe⟩ := hp
    rw [handle_publish_singleton _ _ _ e he hpe]
    simp only [List.foldl_cons, List.foldl_nil, h, Bool.false_eq_true, if_false]
    cases e <;> simp [Effect.isPub] at hpe
    rename_i sid ok rep
    have hpres := (C11_publish_guard (w.conn i) (w.env i) m sid ok rep he).1
    rw [conn_perms] at hpres
    obtain ⟨_, f2⟩ := applyEffect_publish w i sid ok rep
    have hfl := flush_cf (applyEffect w i (.publish sid ok rep))
    simp only [World.cf, Prod.mk.injEq] at hfl
    rw [hfl.1]
    cases hc : (applyEffect w i (.publish sid ok rep)).crashed with
    | false => rfl
    | true =>
      rcases f2 hc with h' | h'
      · rw [h] at h'; cases h'
      · exact absurd hpres (hinv h')
  · have hno : ∀ e ∈ handle (w.conn i) (w.env i) m, e.isPub = false := by
      intro e he
      cases hb : e.isPub with
      | false => rfl
      | true => exact absurd ⟨e, he, hb⟩ hp
    have := fold_nopub i _ hno w
    have hfl := flush_cf ((handle (w.conn i) (w.env i) m).foldl (fun w e => if w.crashed then w else applyEffect w i e) w)
    simp only [World.cf, Prod.mk.injEq] at this hfl
    rw [hfl.1, this.1, h]

def offerOk : Msg := { type := "offer", id := "s1", sdpOk := true }

/-- **P10**: join refused (locked group), then `offer`: nil dereference in newUpConn. -/
theorem C12_crash_offer_after_refused_join :
    (handleMsg (handleMsg (wLocked {}) 0 (joinAs "bob")) 0 offerOk).crashed = true := by decide

/-- the same schedule with the repairs -/
theorem C12_offer_after_refused_join_fixed :
    (handleMsg (handleMsg (wLocked allFixes) 0 (joinAs "bob")) 0 offerOk).crashed = false := by decide

/-- **P18**: join answered `redirect`; the connection's own queued `user` event
dereferences the nil group — no further client input is needed. -/
theorem C12_crash_after_redirect :
    let w := handleMsg (wRedirect {}) 0 (joinAs "alice")
    let w := (stepAction w 0).1       -- joinedAction
    (stepAction w 0).1.crashed = true := by decide

theorem C12_after_redirect_fixed :
    let w := handleMsg (wRedirect allFixes) 0 (joinAs "alice")
    let w := (stepAction w 0).1
    let w := (stepAction w 0).1
    let w := (stepAction w 0).1
    w.crashed = false ∧ ((w.client? 0).map (·.queue)) = some [] := by decide

/-- **P12** (before the repair, i.e. with the `p12` switch off): alice is a member; bob joins (an `add`
is queued for alice); alice leaves before her action loop runs; the queued event dereferences the nil group. -/
theorem C12_crash_user_event_after_leave :
    let w0 : World := { cfgs := [cfgG1], clients := [{ id := "c0" }, { id := "c1" }], fix := { p10 := true } }
    let w := handleMsg w0 0 (joinAs "alice")
    let w := (stepAction (stepAction w 0).1 0).1
    let w := handleMsg w 1 (joinAs "bob")
    let w := handleMsg w 0 { type := "join", kind := "leave", group := "g1" }
    (stepAction w 0).1.crashed = true := by decide

/-! ### non-vacuity -/

example : (handleMsg (wLocked allFixes) 0 (joinAs "alice")).crashed = false ∧
    ((handleMsg (wLocked allFixes) 0 (joinAs "alice")).client? 0).bind (·.group) = some "g1" := by decide

end Galene.Sig
