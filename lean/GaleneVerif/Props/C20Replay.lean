import GaleneVerif.Model.SendSeq
/-
C20 (and every receiver that joins in mid-stream): the keyframe replay hands over EVERY packet
from the keyframe to the newest one, inclusive, in order.

The recorder detects gaps only forwards from the last sequence number it saw
(`diskTrack.Write`).  The live packets that follow the replay start at `last+1`, so a replay that
stops short of `last` leaves a hole that the recorder fills from the cache only if the replay's
packets reach it before the first live packet does; when a live packet overtakes the replay the
hole is never looked at and the frame holding `last` is missing from the file although every
packet was in the server's cache.  Hence the statement below is what "no frame after the first
keyframe is missing" needs from `sendSequence`:

* `C20_replay_complete` — if every packet of `kf..last` (at most 32768 apart, mod 2^16) is cached
  and no write fails, the replay is exactly `kf, kf+1, …, last` (mod 2^16);
* `C20_replay_includes_last`, `C20_replay_length`;
* `C20_replay_prefix` — in every case (cache misses, a failing write) what is written is a prefix
  of that list: in order, nothing twice, nothing outside the range;
* `C20_replay_nothing_backwards` — when `kf` is "after" `last` nothing is written;
* `C20_replay_loop_test` — the model's loop test `dist < 32768` is the code's `((last - seqno) & 0x8000) == 0`.
-/
namespace Galene.Props.C20Replay
open Galene.Model.SendSeq

/-- `kf, kf+1, …` : `n` consecutive sequence numbers mod 2^16 -/
def span (kf : Nat) : Nat → List Nat
  | 0 => []
  | n + 1 => kf % 65536 :: span (kf + 1) n

theorem span_length (kf n : Nat) : (span kf n).length = n := by
  induction n generalizing kf with
  | zero => rfl
  | succ n ih => simp [span, ih]

theorem span_congr (a b n : Nat) (h : a % 65536 = b % 65536) : span a n = span b n := by
  induction n generalizing a b with
  | zero => rfl
  | succ n ih => simp only [span, h]; rw [ih (a + 1) (b + 1) (by omega)]

theorem span_mod (kf n : Nat) : span (kf % 65536) n = span kf n :=
  span_congr _ _ _ (by simp)

theorem span_mem (kf n x : Nat) : x ∈ span kf n ↔ ∃ i < n, x = (kf + i) % 65536 := by
  induction n generalizing kf with
  | zero => simp [span]
  | succ n ih =>
    simp only [span, List.mem_cons, ih]
    constructor
    · rintro (h | ⟨i, hi, h⟩)
      · exact ⟨0, by omega, by simpa using h⟩
      · exact ⟨i + 1, by omega, by rw [h]; congr 1; omega⟩
    · rintro ⟨i, hi, h⟩
      cases i with
      | zero => left; simpa using h
      | succ i => right; exact ⟨i, by omega, by rw [h]; congr 1; omega⟩

/-- the complete replay, by induction on the distance still to go -/
theorem loop_complete (d fuel seqno last : Nat) (cached : Nat → Bool) (w : Nat)
    (hs : seqno < 65536) (hd : dist last seqno = d) (hlt : d < 32768) (hf : d < fuel)
    (hc : ∀ i ≤ d, cached ((seqno + i) % 65536) = true) :
    loop fuel seqno last cached none w = span seqno (d + 1) := by
  induction d generalizing fuel seqno w with
  | zero =>
    cases fuel with
    | zero => omega
    | succ fuel =>
      have h0 := hc 0 (by omega)
      simp [Nat.mod_eq_of_lt hs] at h0
      unfold loop
      simp [hd, h0, span, Nat.mod_eq_of_lt hs]
      -- the next iteration sees distance 65535 and stops
      cases fuel with
      | zero => simp [loop]
      | succ fuel =>
        unfold loop
        have : ¬ dist last ((seqno + 1) % 65536) < 32768 := by unfold dist at *; omega
        simp [this]
  | succ d ih =>
    cases fuel with
    | zero => omega
    | succ fuel =>
      have h0 := hc 0 (by omega)
      simp [Nat.mod_eq_of_lt hs] at h0
      unfold loop
      have hd' : dist last seqno < 32768 := by omega
      simp only [hd', h0, if_true]
      simp only [Bool.not_true, Bool.false_eq_true, if_false]
      have hnext : dist last ((seqno + 1) % 65536) = d := by unfold dist at *; omega
      rw [ih fuel ((seqno + 1) % 65536) (w + 1) (Nat.mod_lt _ (by omega)) hnext (by omega) (by omega)
        (by intro i hi; have := hc (i + 1) (by omega); rw [← this]; congr 1; omega)]
      simp only [span, Nat.mod_eq_of_lt hs]
      rw [span_congr ((seqno + 1) % 65536 + 1) (seqno + 1 + 1) d (by omega)]
      simp

/-- Everything cached, no failing write: the replay is exactly `kf … last`. -/
theorem C20_replay_complete (kf last : Nat) (cached : Nat → Bool)
    (hd : dist last kf < 32768) (hc : ∀ i ≤ dist last kf, cached ((kf + i) % 65536) = true) :
    replay kf last cached none = span kf (dist last kf + 1) := by
  unfold replay
  have hdm : dist last (kf % 65536) = dist last kf := by unfold dist; simp
  rw [loop_complete (dist last kf) 65537 (kf % 65536) last cached 0 (Nat.mod_lt _ (by omega)) hdm hd
    (by unfold dist; omega) (by intro i hi; have := hc i hi; rw [← this]; congr 1; omega)]
  exact span_mod kf _

theorem C20_replay_length (kf last : Nat) (cached : Nat → Bool)
    (hd : dist last kf < 32768) (hc : ∀ i ≤ dist last kf, cached ((kf + i) % 65536) = true) :
    (replay kf last cached none).length = dist last kf + 1 := by
  rw [C20_replay_complete kf last cached hd hc, span_length]

/-- The newest packet is part of the replay. -/
theorem C20_replay_includes_last (kf last : Nat) (cached : Nat → Bool)
    (hd : dist last kf < 32768) (hc : ∀ i ≤ dist last kf, cached ((kf + i) % 65536) = true) :
    last % 65536 ∈ replay kf last cached none := by
  rw [C20_replay_complete kf last cached hd hc, span_mem]
  exact ⟨dist last kf, by omega, by unfold dist; omega⟩

/-- In every case what is written is a prefix of `kf, kf+1, …`: in order, nothing skipped. -/
theorem loop_prefix (fuel seqno last : Nat) (cached : Nat → Bool) (failAt : Option Nat) (w : Nat)
    (hs : seqno < 65536) :
    loop fuel seqno last cached failAt w = span seqno (loop fuel seqno last cached failAt w).length := by
  induction fuel generalizing seqno w with
  | zero => simp [loop, span]
  | succ fuel ih =>
    unfold loop
    split
    · split
      · simp [span]
      · split
        · simp [span]
        · have := ih ((seqno + 1) % 65536) (w + 1) (Nat.mod_lt _ (by omega))
          simp only [List.length_cons, span, Nat.mod_eq_of_lt hs]
          rw [← span_mod (seqno + 1)]
          exact congrArg _ this
    · simp [span]

theorem C20_replay_prefix (kf last : Nat) (cached : Nat → Bool) (failAt : Option Nat) :
    replay kf last cached failAt = span kf (replay kf last cached failAt).length := by
  unfold replay
  rw [← span_mod kf]
  exact loop_prefix _ _ _ _ _ _ (Nat.mod_lt _ (by omega))

/-- `kf` after `last` (distance ≥ 2^15): nothing is written. -/
theorem C20_replay_nothing_backwards (kf last : Nat) (cached : Nat → Bool) (failAt : Option Nat)
    (h : ¬ dist last kf < 32768) : replay kf last cached failAt = [] := by
  unfold replay loop
  have : dist last (kf % 65536) = dist last kf := by unfold dist; simp
  simp [this, h]

/-! ### the loop condition as the code writes it -/

/-- For a 16-bit value, the code's test `(x & 0x8000) == 0` is the model's `x < 32768`. -/
theorem C20_replay_mask_reading (x : Nat) (hx : x < 65536) : (x &&& 0x8000 = 0) ↔ x < 32768 := by
  have h2 : (0x8000 : Nat) = 2 ^ 15 := by decide
  have hb : x.testBit 15 = decide (x ≥ 32768) := by
    rw [Nat.testBit_eq_decide_div_mod_eq]
    have : x / 2 ^ 15 % 2 = 1 ↔ x ≥ 32768 := by omega
    simp [this]
  constructor
  · intro h
    have h15 : (x &&& 0x8000).testBit 15 = false := by rw [h]; simp
    rw [Nat.testBit_and, hb, h2, Nat.testBit_two_pow_self] at h15
    simp at h15; omega
  · intro h
    apply Nat.eq_of_testBit_eq
    intro i
    rw [Nat.testBit_and, h2, Nat.testBit_two_pow]
    by_cases hi : 15 = i
    · subst hi; simp [hb]; omega
    · simp [hi]

/-- `last - seqno` in uint16 arithmetic is a 16-bit value, so the reading above applies to the loop test. -/
theorem dist_lt (last seqno : Nat) : dist last seqno < 65536 := by unfold dist; omega

theorem C20_replay_loop_test (last seqno : Nat) :
    (dist last seqno &&& 0x8000 = 0) ↔ dist last seqno < 32768 :=
  C20_replay_mask_reading _ (dist_lt _ _)

-- non-vacuity: across the 16-bit wrap, everything cached
example : replay 65534 1 (fun _ => true) none = [65534, 65535, 0, 1] := by decide
-- a hole stops the replay; a failing write stops it
example : replay 10 13 (fun s => s != 12) none = [10, 11] := by decide
example : replay 10 13 (fun _ => true) (some 1) = [10] := by decide

end Galene.Props.C20Replay
