import GaleneVerif.Model.Api
import GaleneVerif.Model.WriteFault
import GaleneVerif.Generated.SyscallsDescFault
import GaleneVerif.Props.C17
/-
C18/C17 under WRITE FAULTS: when writing the temporary file of `rewriteDescriptionFile` fails or
is cut short (ENOSPC, EFBIG, EDQUOT, EIO) or its fsync fails, the definition file keeps its
complete old content ("never a partial one") and the update is not acknowledged ("effects only
when acknowledged").

File level (Lemmas/SafeReplaceDesc.lean's file system; Model/WriteFault.lean's calls):
* `quiet_keeps_target` — a run whose successful calls are all `quietOp` (read-only opens, creation
  of files other than the target, writes, fsync, close, unlinks of other files; no rename, no
  in-place open) leaves the target's content unchanged after every prefix.
* `C18_fault_shape` — side condition, regenerated on every run from strace captures of one
  `rewriteDescriptionFile` on the checked tree under RLIMIT_FSIZE 0, RLIMIT_FSIZE 100 (partial
  write), ENOSPC on write and EIO on fsync: in each capture a write/fsync did fail and the run is
  quiet; in particular there is no rename onto the definition file after the failure
  (`C18_fault_no_rename`).
* `C18_fault_file_untouched` — hence after every prefix of every captured faulted run the
  definition file holds exactly what it held before.

Request level (`handleFault` of Model/Api.lean, compared with the real handler under
RLIMIT_FSIZE by engine `api`, op `freq`):
* `C18_fault_request_writes_nothing` — under the fault no definition file is written or changed:
  every file present afterwards was there before with the same version and content (a DELETE may
  remove one).
* `C18_fault_unacknowledged_unchanged` — and a response other than 201/204 leaves the state as it was.
* `C18_fault_rewrite_refused` — a request that would have rewritten a definition file is answered 500.
-/
namespace Galene.Props.C18Fault
open Galene.SafeReplaceDesc Galene.WriteFault

/-! ### The file level -/

/-- what a quiet run preserves (`fs0`: the file system at the start) -/
structure Quiet (target : String) (fs0 fs : FS) : Prop where
  name : fs.names target = fs0.names target
  data : ∀ i, i < fs0.next → fs.data i = fs0.data i
  fds : ∀ d i, fs.fds d = some i → fs0.next ≤ i
  next : fs0.next ≤ fs.next

theorem quiet_step (target : String) (fs0 fs : FS) (op : Op) (h : Quiet target fs0 fs)
    (hq : quietOp target op = true) : Quiet target fs0 (step fs op) := by
  obtain ⟨hn, hd, hf, hx⟩ := h
  cases op with
  | mkdir p => exact ⟨hn, hd, hf, hx⟩
  | openRead p fd => exact ⟨hn, hd, hf, hx⟩
  | fsync fd => exact ⟨hn, hd, hf, hx⟩
  | other n => simp [quietOp] at hq
  | openWrite p fd => simp [quietOp] at hq
  | rename a b => simp [quietOp] at hq
  | createExcl p fd =>
    have hp : p ≠ target := by simpa [quietOp] using hq
    simp only [step]
    split
    · exact ⟨hn, hd, hf, hx⟩
    · refine ⟨?_, ?_, ?_, by simp; omega⟩
      · simp only []
        rw [if_neg (fun h => hp h.symm)]
        exact hn
      · intro i hi
        simp only []
        rw [if_neg (by omega)]
        exact hd i hi
      · intro d i hdi
        simp only [] at hdi
        split at hdi
        · simp at hdi; omega
        · exact hf d i hdi
  | write fd n =>
    simp only [step]
    split
    · next i hi =>
      refine ⟨hn, ?_, hf, hx⟩
      intro j hj
      simp only []
      have := hf fd i hi
      rw [if_neg (by omega)]
      exact hd j hj
    · exact ⟨hn, hd, hf, hx⟩
  | close fd =>
    simp only [step]
    split
    · refine ⟨hn, hd, ?_, hx⟩
      intro d i hdi
      simp only [] at hdi
      split at hdi
      · simp at hdi
      · exact hf d i hdi
    · exact ⟨hn, hd, hf, hx⟩
  | unlink p =>
    have hp : p ≠ target := by simpa [quietOp] using hq
    refine ⟨?_, hd, hf, hx⟩
    simp only [step]
    rw [if_neg (fun h => hp h.symm)]
    exact hn

theorem quiet_run (target : String) (fs0 fs : FS) (ops : List Op) (h : Quiet target fs0 fs)
    (hq : quiet target ops = true) : Quiet target fs0 (run ops fs) := by
  induction ops generalizing fs with
  | nil => exact h
  | cons o os ih =>
    simp only [quiet, List.all_cons, Bool.and_eq_true] at hq
    exact ih (step fs o) (quiet_step target fs0 fs o h hq.1) (by simpa [quiet] using hq.2)

theorem quiet_take (target : String) (ops : List Op) (n : Nat) (hq : quiet target ops = true) :
    quiet target (ops.take n) = true := by
  simp only [quiet, List.all_eq_true] at hq ⊢
  intro x hx
  exact hq x (List.mem_of_mem_take hx)

/-- **A faulted run never touches the definition.**  If every successful call of a run is quiet
for `target`, then — whatever the file system looked like before, provided no descriptor was open
for writing and inode numbers at or above `next` are unused — after EVERY prefix of the run the
target holds exactly the content it held before. -/
theorem quiet_keeps_target (target : String) (ops : List Op) (fs0 : FS)
    (hq : quiet target ops = true)
    (hfresh : ∀ q i, fs0.names q = some i → i < fs0.next)
    (hfds : ∀ d, fs0.fds d = none)
    (n : Nat) :
    (run (ops.take n) fs0).content target = fs0.content target := by
  have h0 : Quiet target fs0 fs0 := ⟨rfl, fun _ _ => rfl, fun d i h => by simp [hfds d] at h, Nat.le_refl _⟩
  obtain ⟨hn, hd, _, _⟩ := quiet_run target fs0 fs0 (ops.take n) h0 (quiet_take target ops n hq)
  simp only [FS.content, hn]
  cases hnm : fs0.names target with
  | none => rfl
  | some i => simp [hd i (hfresh target i hnm)]

/-- a quiet run contains no successful rename at all -/
theorem quiet_no_rename (target : String) (ops : List Op) (hq : quiet target ops = true) (a b : String) :
    Op.rename a b ∉ ops := by
  intro hm
  simp only [quiet, List.all_eq_true] at hq
  have := hq _ hm
  simp [quietOp] at this

theorem mem_successes (cs : List Call) (op : Op) : op ∈ successes cs ↔ Call.ok op ∈ cs := by
  induction cs with
  | nil => simp [successes]
  | cons c rest ih =>
    cases c with
    | ok o => simp [successes, ih]
    | failed o e => simp [successes, ih]

/-! ### The regenerated facts -/

open Galene.Generated in
/-- Side condition, regenerated from the checked tree on every run: in each of the four captured
faulted runs of `rewriteDescriptionFile` a write or fsync failed, and no successful call can change
the definition file. -/
theorem C18_fault_shape :
    syscallsDescFault.all (fun sc => faultShapeOK syscallsDescFaultTarget sc.2) = true ∧
    syscallsDescFault.map (·.1) = ["fsize0", "fsize100", "write-enospc", "fsync-eio"] := by decide

open Galene.Generated in
/-- in particular: no captured faulted run renames anything onto the definition file (after the
failed write/fsync or at any other point) -/
theorem C18_fault_no_rename (sc : String × List Call) (hsc : sc ∈ syscallsDescFault) (a : String) :
    Call.ok (.rename a syscallsDescFaultTarget) ∉ sc.2 := by
  have h := C18_fault_shape.1
  rw [List.all_eq_true] at h
  have hs := h sc hsc
  simp only [faultShapeOK, Bool.and_eq_true] at hs
  intro hm
  exact quiet_no_rename _ _ hs.2 a _ ((mem_successes _ _).2 hm)

open Galene.Generated in
/-- **C18, a failed write is never published.**  After every prefix of every captured run of
`rewriteDescriptionFile` whose write or fsync failed (file-size limit 0, limit 100 with a partial
write, ENOSPC, EIO on fsync) the definition file holds exactly what it held before. -/
theorem C18_fault_file_untouched (sc : String × List Call) (hsc : sc ∈ syscallsDescFault) (fs0 : FS)
    (hfresh : ∀ q i, fs0.names q = some i → i < fs0.next)
    (hfds : ∀ d, fs0.fds d = none)
    (n : Nat) :
    (run ((successes sc.2).take n) fs0).content syscallsDescFaultTarget = fs0.content syscallsDescFaultTarget := by
  have h := C18_fault_shape.1
  rw [List.all_eq_true] at h
  have hs := h sc hsc
  simp only [faultShapeOK, Bool.and_eq_true] at hs
  exact quiet_keeps_target _ _ fs0 hs.2 hfresh hfds n

/-! ### The request level -/

open Galene.Api

theorem mem_of_lookup {β} (k : String) (v : β) (l : List (String × β)) (h : lookup k l = some v) : (k, v) ∈ l := by
  induction l with
  | nil => simp [lookup] at h
  | cons p rest ih =>
    obtain ⟨k', v'⟩ := p
    simp only [lookup] at h
    split at h
    · next hk => simp only [Option.some.injEq] at h; subst hk; subst h; exact List.mem_cons_self
    · exact List.mem_cons_of_mem _ (ih h)

/-- **No definition file is written under the fault**: whatever definition a name has afterwards
it had before, same version, same content (a DELETE may remove one). -/
theorem C18_fault_request_writes_nothing (fx : Fixes) (st st' : State) (r : Request) (o : Outcome)
    (h : handleFault fx st r = (o, st')) (k : String) (f : GroupFile) (hk : lookup k st'.groups = some f) :
    lookup k st.groups = some f := by
  unfold handleFault at h
  cases hh : handle fx st r with
  | mk out st1 =>
    rw [hh] at h
    simp only [] at h
    split at h
    · simp only [Prod.mk.injEq] at h
      obtain ⟨_, hst⟩ := h
      subst hst
      exact hk
    · next hw =>
      simp only [Prod.mk.injEq] at h
      obtain ⟨_, hst⟩ := h
      subst hst
      simp only [wroteGroupFile, List.any_eq_true, not_exists, not_and] at hw
      have := hw (k, f) (mem_of_lookup k f _ hk)
      simpa using this

/-- **Not acknowledged, no effect** — also under the fault: the state (configuration, definition
files, tokens) changes only if the response is 201 or 204. -/
theorem C18_fault_unacknowledged_unchanged (fx : Fixes) (st st' : State) (r : Request) (o : Outcome)
    (h : handleFault fx st r = (o, st')) :
    st' = st ∨ ∃ resp, o = .resp resp ∧ (resp.status = 201 ∨ resp.status = 204) := by
  unfold handleFault at h
  cases hh : handle fx st r with
  | mk out st1 =>
    rw [hh] at h
    simp only [] at h
    split at h
    · simp only [Prod.mk.injEq] at h
      exact Or.inl h.2.symm
    · simp only [Prod.mk.injEq] at h
      obtain ⟨ho, hst⟩ := h
      subst ho; subst hst
      exact Galene.Props.C17.C17_effect_only_if_acknowledged fx st _ r _ hh

/-- a request that would have rewritten a definition file is answered 500 and changes nothing -/
theorem C18_fault_rewrite_refused (fx : Fixes) (st : State) (r : Request)
    (hw : wroteGroupFile st (handle fx st r).2 = true) :
    handleFault fx st r = (.resp { status := 500, body := .txt "Internal server error" }, st) := by
  unfold handleFault
  cases hh : handle fx st r with
  | mk out st1 =>
    rw [hh] at hw
    simp only [] at hw ⊢
    rw [if_pos hw]
    rfl

/-! ### Non-vacuity -/

def exFS : FS :=
  { names := fun q => if q = "groups/grpC.json" then some 0 else none, data := fun _ => [634], fds := fun _ => none, next := 1 }

open Galene.Generated in
example : (run (successes [.ok (.createExcl "groups/T1.temp" 1), .ok (.write 1 100), .failed (.write 1 534) "EFBIG",
    .ok (.close 1), .ok (.unlink "groups/T1.temp")]) exFS).content "groups/grpC.json" = some [634] := by decide
-- what the shape excludes: the rename after the failed write publishes the partial file
example : faultShapeOK "groups/grpC.json" [.ok (.createExcl "groups/T1.temp" 1), .ok (.write 1 100),
    .failed (.write 1 534) "EFBIG", .ok (.close 1), .ok (.rename "groups/T1.temp" "groups/grpC.json")] = false := by decide
example : renameAfterFailure "groups/grpC.json" [.ok (.createExcl "groups/T1.temp" 1), .ok (.write 1 100),
    .failed (.write 1 534) "EFBIG", .ok (.close 1), .ok (.rename "groups/T1.temp" "groups/grpC.json")] = true := by decide
example : (run (successes [.ok (.createExcl "groups/T1.temp" 1), .ok (.write 1 100), .failed (.write 1 534) "EFBIG",
    .ok (.close 1), .ok (.rename "groups/T1.temp" "groups/grpC.json")]) exFS).content "groups/grpC.json" = some [100] := by decide
-- a run without a failure is not a faulted run
example : faultShapeOK "groups/grpC.json" [.ok (.createExcl "groups/T1.temp" 1), .ok (.write 1 634), .ok (.close 1)] = false := by decide

def stF : State :=
  { conf := { writable := true, users := [("root", { password := .plain "r", perms := .named "admin" })] },
    groups := [("grpA", { ver := 2, desc := { content := 120, users := [("usrAna", { perms := .named "admin" })] } })],
    ctr := 2 }
def putDesc : Request :=
  { method := .PUT, path := "/galene-api/v0/.groups/grpA", cred := .basic "root" "r", ctype := .json, body := .desc { content := 130 } }

example : (handle currentFixes stF putDesc).1 = .resp { status := 204 } := by decide
example : wroteGroupFile stF (handle currentFixes stF putDesc).2 = true := by decide
example : handleFault currentFixes stF putDesc = (.resp { status := 500, body := .txt "Internal server error" }, stF) := by decide
example : faultBites 100 stF (handle currentFixes stF putDesc).2 = some true := by decide
-- a DELETE is not a write: it goes through
example : (handleFault currentFixes stF { putDesc with method := .DELETE, ctype := .none, body := .none }).2.groups = [] := by decide

end Galene.Props.C18Fault
