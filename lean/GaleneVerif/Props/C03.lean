import GaleneVerif.Model.PacketMap
import GaleneVerif.Lemmas.PMReverse
import GaleneVerif.Props.C01Deep
/-
C03 (the `Reverse` part) — `Reverse n` maps an outgoing sequence number back to the source packet
that is forwarded under `n`, never to a withheld packet.

Same setting as Props/C01Deep.lean (ghost state `U`, `D`; reachable states `Reach P R g` of
histories within the window and with drop runs of at most `R`).  The outgoing numbering is
`tgt D u = u − |{d ∈ D | d < u}|` (so `out D u = tgt D u % 65536`); the next outgoing position
is `nextOut g = U − |D|`.

Window actually proved: the queried number `n` is `t % 65536` for an unwrapped outgoing position
`t` with `nextOut − 32768 < t < nextOut`, i.e. anything sent during the last half lap.  Then a
hit `(true, s, pd)` means `s = u % 65536` for a source packet `u < U` with `u ∉ D` and
`tgt D u = t` (hence `out D u = n`): `u` is THE source packet forwarded at position `t`.  If
moreover `u` is less than half a lap behind `U`, `direct` maps `s` back to `(true, n, pd)` with
the same picture-id shift; and if `u` is within the window `W`, a late `Map` of `s` now returns
`(true, n, pd)` and leaves the state unchanged (`C03_reverse_sound`).  `u` is unique
(`tgt_injective_on_forwarded`).  Conversely, right after `Map u` has forwarded a packet as `n`,
`Reverse n` returns `u % 65536` with the same shift (`C03_reverse_inverts_map`).
-/
namespace Galene.Props.C03
open Galene.PacketMap Galene.Lemmas.Mod16 Galene.Lemmas.Ring Galene.Lemmas.Count Galene.Lemmas.Table
open Galene.Lemmas.PMInv Galene.Lemmas.PMStep Galene.Lemmas.PMReverse Galene.Props.C01Deep

/-- unwrapped position, in the outgoing numbering, of the next in-order packet -/
def nextOut (g : GState) : Nat := g.U - g.D.length

theorem nextOut_eq_tgt (P : Params) (R : Nat) (g : GState) (h : Inv P R g) : nextOut g = tgt g.D g.U := by
  unfold nextOut tgt
  rw [cnt_all g.D g.U h.below]

/-- The outgoing position determines the source packet: two different packets that are not
withheld never share an outgoing position (so the `u` of `C03_reverse_sound` is unique). -/
theorem tgt_injective_on_forwarded (D : List Nat) (hs : Desc D) (u u' : Nat) (hu : u ∉ D) (hu' : u' ∉ D)
    (h : tgt D u = tgt D u') : u = u' := by
  rcases Nat.lt_trichotomy u u' with hlt | heq | hgt
  · have := tgt_strict D hs u u' hu hlt; omega
  · exact heq
  · have := tgt_strict D hs u' u hu' hgt; omega

/-- **C03: `Reverse` is sound.**  In every reachable state, for every outgoing position `t` of the
last half lap (`nextOut − 32768 < t < nextOut`): if `Reverse (t % 65536)` answers `(true, s, pd)`,
then `s` is the 16-bit number of a source packet `u < U` that has not been withheld and whose
outgoing position is exactly `t` — so its outgoing number `out D u` is the queried number.
Furthermore the forward mapping agrees, with the same picture-id shift: `direct s = (true, n, pd)`
whenever `u` is less than half a lap behind `U` (table non-empty), and a late `Map s` now returns
`(true, n, pd)` whenever `u` is still inside the window `W`. -/
theorem C03_reverse_sound (P : Params) (R : Nat) (hS : Side P R) (g : GState) (h : Reach P R g)
    (t : Nat) (ht1 : t < nextOut g) (ht2 : nextOut g < t + 32768) (s pd : Nat)
    (hrev : reverse g.m (t % 65536) = some (true, s, pd)) :
    ∃ u, u < g.U ∧ s = u % 65536 ∧ u ∉ g.D ∧ tgt g.D u = t ∧ out g.D u = t % 65536 ∧
      (g.m.entries ≠ [] → g.U < u + 32768 → direct g.m s = some (true, t % 65536, pd)) ∧
      (g.U ≤ u + P.W → ∀ pid, mapOp P g.m s pid = some (g.m, (true, t % 65536, pd))) := by
  have hi := reach_inv P R hS g h
  have hB := hS.hB
  have hW := hS.hWC
  have hW0 := hS.hW0
  rw [nextOut_eq_tgt P R g hi] at ht1 ht2
  by_cases hnil : g.m.entries = []
  · -- identity state: nothing withheld, `Reverse` is the identity
    obtain ⟨hD, _⟩ := hi.ident hnil
    have hd : g.m.delta = 0 := by rw [hi.delta, hD]; rfl
    unfold reverse at hrev
    simp only [hnil, List.length_nil, if_true, hd, Option.some.injEq, Prod.mk.injEq, true_and] at hrev
    rw [hD] at ht1 ⊢
    have ht : tgt [] t = t := rfl
    have htU : tgt [] g.U = g.U := rfl
    rw [htU] at ht1
    refine ⟨t, ht1, hrev.1.symm, by simp, ht, rfl, fun hc => absurd hnil hc, ?_⟩
    intro hw pid
    rw [← hrev.1, ← hrev.2]
    have := map_ident P R hS g t pid hi hnil hw (by omega)
    rw [this]
    have hnot : ¬ g.U ≤ t := by omega
    simp only [hnot, if_false]
  · rw [reverse_eq P g.m (t % 65536) hi.swf hnil] at hrev
    simp only [Option.some.injEq] at hrev
    obtain ⟨u, hu1, hu2, hu3, hu4, hu5⟩ :=
      walkL_reverse_sound P hS.hC g.D hi.desc t (tbl g.m) g.U (hi.chainU hS hnil) ht1 ht2 s pd hrev
    refine ⟨u, hu1, hu2, hu3, hu4, by rw [out_eq_tgt, hu4], ?_, ?_⟩
    · intro _ hw
      rw [direct_eq P g.m s hi.swf hnil, hu2]
      exact congrArg some (hu5 hw)
    · intro hw pid
      rw [hu2, map_late P R hS g u pid hi hnil hu1 hw]
      rw [show walkL (dcls (u % 65536)) (tbl g.m) = (true, t % 65536, pd) from hu5 (by omega)]

/-- **`Reverse` never returns a withheld packet** (corollary): under the hypotheses of
`C03_reverse_sound`, no withheld packet `d ∈ D` less than a lap behind `U` has the returned
16-bit number. -/
theorem C03_reverse_never_withheld (P : Params) (R : Nat) (hS : Side P R) (g : GState) (h : Reach P R g)
    (t : Nat) (ht1 : t < nextOut g) (ht2 : nextOut g < t + 32768) (s pd : Nat)
    (hrev : reverse g.m (t % 65536) = some (true, s, pd)) :
    ∃ u, u < g.U ∧ s = u % 65536 ∧ ∀ d ∈ g.D, d % 65536 = s → d ≠ u := by
  obtain ⟨u, hu1, hu2, hu3, _⟩ := C03_reverse_sound P R hS g h t ht1 ht2 s pd hrev
  exact ⟨u, hu1, hu2, fun d hd _ hc => hu3 (hc ▸ hd)⟩

/-- **C03: `Reverse` inverts `Map`.**  In every reachable state, if an in-window `Map u` forwards
the packet as `(true, n, pd)`, then in the resulting state `Reverse n` answers
`(true, u % 65536, pd)`: the source number of exactly that packet, with the same picture-id shift.
(Together with `C03_reverse_sound`: at any later time `Reverse n` either still answers `u`, or
`false` once the interval has been evicted, or the newer packet that has taken the number `n`
a lap later — never a withheld packet.) -/
theorem C03_reverse_inverts_map (P : Params) (R : Nat) (hS : Side P R) (g : GState) (h : Reach P R g)
    (u pid : Nat) (hok : okOp P R g (.map u pid)) (m' : State) (n pd : Nat)
    (hmap : mapOp P g.m (u % 65536) pid = some (m', (true, n, pd))) :
    reverse m' n = some (true, u % 65536, pd) := by
  have hi := reach_inv P R hS g h
  obtain ⟨hw1, hw2⟩ := hok
  have hB := hS.hB
  have hW := hS.hWC
  have hW0 := hS.hW0
  by_cases hnil : g.m.entries = []
  · rw [map_ident P R hS g u pid hi hnil hw1 hw2] at hmap
    simp only [Option.some.injEq, Prod.mk.injEq, true_and] at hmap
    obtain ⟨hm, hn, hp⟩ := hmap
    have hd : g.m.delta = 0 := by rw [hi.delta, (hi.ident hnil).1]; rfl
    have hm1 : m'.entries = [] := by rw [← hm]; split <;> exact hnil
    have hm2 : m'.delta = 0 := by rw [← hm]; split <;> exact hd
    unfold reverse
    simp only [hm1, List.length_nil, if_true, hm2, hn, hp]
  · by_cases hu : g.U ≤ u
    · obtain ⟨m1, e, hinv, F', e', rest', htbl, hok', hF1, hF2, hpd⟩ := map_fwd P R hS g u pid hi hnil hu hw2
      rw [e] at hmap
      simp only [Option.some.injEq, Prod.mk.injEq, true_and] at hmap
      obtain ⟨hm, hn, hp⟩ := hmap
      subst hm
      have hne1 : m1.entries ≠ [] := by
        intro hc
        have := tbl_nil m1 hc
        rw [htbl] at this
        exact absurd this (by simp)
      rw [reverse_eq P m1 n hinv.swf hne1, htbl, ← hn, ← hp, ← hpd]
      exact congrArg some (walkL_head_hit P hS.hC g.D hi.desc F' u e' rest' hok' hF1 (by omega)).2
    · rw [map_late P R hS g u pid hi hnil (by omega) hw1] at hmap
      simp only [Option.some.injEq, Prod.mk.injEq] at hmap
      obtain ⟨hm, hr⟩ := hmap
      subst hm
      rw [reverse_eq P g.m n hi.swf hnil]
      exact congrArg some (walkL_direct_reverse P hS.hC g.D hi.desc u (tbl g.m) g.U (hi.chainU hS hnil)
        (by omega) (by omega) n pd hr)

/-- `C03_reverse_sound` for the shipped constants (`maxEntries = 128`, `W = 8192`,
`maxCount = 16384`; runs of at most 8193 consecutive drops) -/
theorem C03_reverse_sound_default (g : GState) (h : Reach {} 8193 g)
    (t : Nat) (ht1 : t < nextOut g) (ht2 : nextOut g < t + 32768) (s pd : Nat)
    (hrev : reverse g.m (t % 65536) = some (true, s, pd)) :
    ∃ u, u < g.U ∧ s = u % 65536 ∧ u ∉ g.D ∧ tgt g.D u = t ∧ out g.D u = t % 65536 ∧
      (g.m.entries ≠ [] → g.U < u + 32768 → direct g.m s = some (true, t % 65536, pd)) ∧
      (g.U ≤ u + 8192 → ∀ pid, mapOp {} g.m s pid = some (g.m, (true, t % 65536, pd))) :=
  C03_reverse_sound {} 8193 side_default g h t ht1 ht2 s pd hrev

/-! ### non-vacuity: the example history of C01Deep -/

/-- the final state of `C01Deep.exOps`: `U = 131078`, `D = {131071, 131072, 131075}`, so
`nextOut = 131075`; outgoing numbers 65534, 65535, 0, 1, 2 were used for the source packets
131070, 131073, 131074, 131076, 131077 -/
def exG : GState := grun {} exStart exOps

example : Reach {} 8193 exG := ⟨131069, 0, exOps, by decide, by decide, rfl⟩
example : nextOut exG = 131075 := by decide
-- outgoing position 131074 (number 2) is source packet 131077 (16-bit 5), pid shift 2
example : reverse exG.m (131074 % 65536) = some (true, 131077 % 65536, 2) := by decide
-- outgoing position 131071 (number 65535, before the wrap) is source packet 131073 (16-bit 1)
example : reverse exG.m (131071 % 65536) = some (true, 131073 % 65536, 1) := by decide
example : tgt exG.D 131073 = 131071 ∧ 131073 ∉ exG.D := by decide
-- and the forward mapping agrees
example : direct exG.m (131073 % 65536) = some (true, 131071 % 65536, 1) := by decide
-- positions not yet used are not mapped
example : reverse exG.m (131075 % 65536) = some (false, 0, 0) := by decide

end Galene.Props.C03
