import GaleneVerif.Model.Membership
import GaleneVerif.Model.Signalling
import Mathlib.Tactic.SplitIfs
/-
C14 — every member's view of the user list converges to the true membership.

On the abstract announcement model (Model/Membership.lean):
* `C14_converges_partial`  if every announcement is made synchronously (as
  group.AddClient and group.DelClient make theirs, under the group lock), then
  after any sequence of join / leave / change / deliver steps, in every quiescent
  state every member's folded view equals the membership with the true
  attributes.  *Partial* because the code announces permission and data changes
  from detached goroutines; with those the statement is false:
* `C14_converges_false_overtake`  two changes of one member overtake each other
  (a member ends with the older attributes), and
* `C14_converges_false_ghost`  a change lands after the member's delete (the
  reference fold re-inserts the departed member) — P17.
On the executable world model (Model/Signalling.lean):
* `C14_no_cross_group`  a queued `user` event is written to a client only if the
  event's group is the client's current group.
-/
namespace Galene.Membership

/-- the membership as a finite map, by recursion on the member list -/
def truthL : List Member → View
  | [] => fun _ => none
  | m :: r => fun j => if j = m.id then some m.attr else truthL r j

theorem truth_eq (s : St) : s.truth = truthL s.members := by
  funext j
  simp only [St.truth]
  induction s.members with
  | nil => rfl
  | cons m r ih =>
    simp only [List.find?_cons, truthL]
    by_cases h : j = m.id
    · subst h; simp
    · have : ¬ (m.id = j) := fun e => h e.symm
      simp [h, this, ih]

theorem truthL_pushAll (ms : List Member) (e : Ev) : truthL (pushAll ms e) = truthL ms := by
  induction ms with
  | nil => rfl
  | cons m r ih =>
    funext j
    simp only [pushAll, List.map_cons, truthL] at ih ⊢
    rw [ih]

theorem ids_pushAll (ms : List Member) (e : Ev) : (pushAll ms e).map (·.id) = ms.map (·.id) := by
  simp [pushAll, Function.comp_def]

theorem truthL_notin (ms : List Member) (j : Id) (h : j ∉ ms.map (·.id)) : truthL ms j = none := by
  induction ms with
  | nil => rfl
  | cons m r ih =>
    simp only [List.map_cons, List.mem_cons, not_or] at h
    simp only [truthL, h.1, if_false]
    exact ih h.2

theorem truthL_append (ms : List Member) (m : Member) (h : m.id ∉ ms.map (·.id)) :
    truthL (ms ++ [m]) = upd (truthL ms) m.id (some m.attr) := by
  induction ms with
  | nil => funext j; simp [truthL, upd]
  | cons m0 r ih =>
    simp only [List.map_cons, List.mem_cons, not_or] at h
    funext j
    simp only [List.cons_append, truthL, ih h.2, upd]
    by_cases hj : j = m0.id
    · have : ¬ (m0.id = m.id) := fun e => h.1 e.symm
      simp [hj, this]
    · simp [hj]

theorem truthL_filter (ms : List Member) (x : Id) :
    truthL (ms.filter (·.id ≠ x)) = upd (truthL ms) x none := by
  induction ms with
  | nil => funext j; simp [truthL, upd]
  | cons m r ih =>
    funext j
    by_cases hm : m.id = x
    · simp only [List.filter_cons, hm, ne_eq, not_true_eq_false, decide_false, Bool.false_eq_true, if_false, ih,
        truthL, upd]
      by_cases hj : j = x <;> simp [hj]
    · simp only [List.filter_cons, ne_eq, hm, not_false_eq_true, decide_true, if_true, truthL, ih, upd]
      by_cases hj : j = m.id
      · have : j ≠ x := fun e => hm (hj.symm.trans e)
        simp [hj, this]; intro e; exact absurd e hm
      · simp [hj]

theorem truthL_setAttr (ms : List Member) (x : Id) (a : Attr) (hx : x ∈ ms.map (·.id)) :
    truthL (ms.map fun m => if m.id = x then { m with attr := a } else m) = upd (truthL ms) x (some a) := by
  induction ms with
  | nil => simp at hx
  | cons m r ih =>
    funext j
    simp only [List.map_cons, truthL, upd]
    by_cases hm : m.id = x
    · simp only [hm, if_true]
      by_cases hj : j = x
      · simp [hj]
      · simp only [hj, if_false]
        by_cases hxr : x ∈ r.map (·.id)
        · rw [ih hxr]; simp [upd, hj]
        · have hid : (r.map fun m => if m.id = x then { m with attr := a } else m) = r := by
            conv => rhs; rw [← List.map_id r]
            apply List.map_congr_left
            intro m' hm'
            have : m'.id ≠ x := fun e => hxr (List.mem_map.mpr ⟨m', hm', e⟩)
            simp [this]
          rw [hid]
    · have hxr : x ∈ r.map (·.id) := by
        simp only [List.map_cons, List.mem_cons] at hx
        rcases hx with h | h
        · exact absurd h.symm hm
        · exact h
      simp only [hm, if_false]
      rw [ih hxr]
      by_cases hj : j = m.id
      · have : j ≠ x := fun e => hm (hj.symm.trans e)
        simp [hj, this, upd]; intro e; exact absurd e hm
      · simp [hj, upd]

theorem ids_setAttr (ms : List Member) (x : Id) (a : Attr) :
    (ms.map fun m => if m.id = x then { m with attr := a } else m).map (·.id) = ms.map (·.id) := by
  induction ms with
  | nil => rfl
  | cons m r ih => simp only [List.map_cons, ih]; by_cases h : m.id = x <;> simp [h]

/-- folding the `add`s of all current members over any base -/
theorem fold_adds (ms : List Member) (b : View) (hn : (ms.map (·.id)).Nodup) :
    (ms.map fun m => Ev.add m.id m.attr).foldl fold b =
      fun j => match truthL ms j with | some a => some a | none => b j := by
  induction ms generalizing b with
  | nil => funext j; simp [truthL]
  | cons m r ih =>
    simp only [List.map_cons, List.foldl_cons, List.nodup_cons] at hn ⊢
    rw [ih _ hn.2]
    funext j
    simp only [truthL, fold, upd]
    by_cases hj : j = m.id
    · rw [hj, truthL_notin r m.id hn.1]
      simp
    · simp [hj]

/-- the invariant: ids are unique, and for every member, consuming what is
queued for it would make its view the membership -/
def Inv (s : St) : Prop :=
  s.ids.Nodup ∧ ∀ m ∈ s.members, m.queue.foldl fold m.view = truthL s.members

theorem inv_init : Inv {} := ⟨List.nodup_nil, by intro m hm; cases hm⟩

theorem mem_pushAll {ms : List Member} {e : Ev} {m : Member} (h : m ∈ pushAll ms e) :
    ∃ m0 ∈ ms, m = { m0 with queue := m0.queue ++ [e] } := by
  simp only [pushAll, List.mem_map] at h
  obtain ⟨m0, h0, rfl⟩ := h
  exact ⟨m0, h0, rfl⟩

/-- delivering the head of one member's queue changes neither ids nor attributes -/
def deliverTo (k : Id) (m : Member) : Member :=
  if m.id = k then
    match m.queue with
    | [] => m
    | e :: r => { m with queue := r, view := fold m.view e }
  else m

theorem deliverTo_id (k : Id) (m : Member) : (deliverTo k m).id = m.id := by
  unfold deliverTo; split_ifs
  · cases m.queue <;> rfl
  · rfl

theorem deliverTo_attr (k : Id) (m : Member) : (deliverTo k m).attr = m.attr := by
  unfold deliverTo; split_ifs
  · cases m.queue <;> rfl
  · rfl

theorem deliverTo_fold (k : Id) (m : Member) :
    (deliverTo k m).queue.foldl fold (deliverTo k m).view = m.queue.foldl fold m.view := by
  unfold deliverTo; split_ifs
  · cases h : m.queue <;> simp [h]
  · rfl

theorem truthL_deliver (k : Id) (ms : List Member) : truthL (ms.map (deliverTo k)) = truthL ms := by
  induction ms with
  | nil => rfl
  | cons m r ih => funext j; simp only [List.map_cons, truthL, deliverTo_id, deliverTo_attr, ih]

theorem step_deliver (s : St) (k : Id) : s.step (.deliver k) = { s with members := s.members.map (deliverTo k) } := rfl

theorem inv_step (s : St) (st : Step) (hs : st.sync = true) (h : Inv s) : Inv (s.step st) := by
  obtain ⟨hn, hv⟩ := h
  cases st with
  | changeDetached x a => cases hs
  | taskDeliver t k => cases hs
  | join x a =>
    simp only [St.step]
    split_ifs with hx
    · exact ⟨hn, hv⟩
    · have hx' : x ∉ (pushAll s.members (.add x a)).map (·.id) := by rw [ids_pushAll]; exact hx
      have htruth : truthL (pushAll s.members (.add x a) ++
          [{ id := x, attr := a, queue := .add x a :: s.members.map (fun m => .add m.id m.attr) }]) =
          upd (truthL s.members) x (some a) := by
        rw [truthL_append _ _ hx', truthL_pushAll]
      refine ⟨?_, ?_⟩
      · simp only [St.ids, List.map_append, ids_pushAll, List.map_cons, List.map_nil]
        refine List.nodup_append.mpr ⟨hn, by simp, ?_⟩
        intro a' ha' b' hb'
        simp only [List.mem_singleton] at hb'
        subst hb'
        exact fun e => hx (e ▸ ha')
      · intro m hm
        show m.queue.foldl fold m.view = truthL _
        rw [htruth]
        rcases List.mem_append.mp hm with hm | hm
        · obtain ⟨m0, h0, rfl⟩ := mem_pushAll hm
          simp only [List.foldl_append, List.foldl_cons, List.foldl_nil]
          rw [hv m0 h0]; rfl
        · simp only [List.mem_singleton] at hm
          subst hm
          simp only [List.foldl_cons]
          rw [fold_adds _ _ hn]
          funext j
          simp only [fold, upd]
          by_cases hj : j = x
          · rw [hj, truthL_notin s.members x hx]
          · simp only [hj, if_false]
            cases truthL s.members j <;> rfl
  | leave x =>
    simp only [St.step]
    refine ⟨?_, ?_⟩
    · simp only [St.ids, ids_pushAll]
      exact (List.Nodup.sublist (List.Sublist.map _ List.filter_sublist) hn)
    · intro m hm
      obtain ⟨m0, h0, rfl⟩ := mem_pushAll hm
      show (m0.queue ++ [Ev.delete x]).foldl fold m0.view = truthL _
      simp only [List.foldl_append, List.foldl_cons, List.foldl_nil]
      have h0' : m0 ∈ s.members := (List.mem_filter.mp h0).1
      rw [hv m0 h0', truthL_pushAll, truthL_filter]
      rfl
  | change x a =>
    simp only [St.step]
    split_ifs with hx
    · refine ⟨?_, ?_⟩
      · simp only [St.ids, ids_pushAll, ids_setAttr]; exact hn
      · intro m hm
        obtain ⟨m1, h1, rfl⟩ := mem_pushAll hm
        show (m1.queue ++ [Ev.change x a]).foldl fold m1.view = truthL _
        simp only [List.foldl_append, List.foldl_cons, List.foldl_nil]
        rw [truthL_pushAll, truthL_setAttr _ _ _ hx]
        obtain ⟨m0, h0, rfl⟩ := List.mem_map.mp h1
        have : (if m0.id = x then { m0 with attr := a } else m0).queue.foldl fold
            (if m0.id = x then { m0 with attr := a } else m0).view = truthL s.members := by
          split_ifs <;> exact hv m0 h0
        rw [this]; rfl
    · exact ⟨hn, hv⟩
  | deliver k =>
    rw [step_deliver]
    refine ⟨?_, ?_⟩
    · simp only [St.ids, List.map_map]
      have : ((fun m : Member => m.id) ∘ deliverTo k) = (fun m => m.id) := by
        funext m; simp [deliverTo_id]
      rw [this]; exact hn
    · intro m hm
      show m.queue.foldl fold m.view = truthL (s.members.map (deliverTo k))
      rw [truthL_deliver]
      obtain ⟨m0, h0, rfl⟩ := List.mem_map.mp hm
      rw [deliverTo_fold]
      exact hv m0 h0

theorem inv_run (steps : List Step) (hs : ∀ st ∈ steps, st.sync = true) (s : St) (h : Inv s) : Inv (run s steps) := by
  induction steps generalizing s with
  | nil => exact h
  | cons st r ih =>
    simp only [run, List.foldl_cons]
    exact ih (fun st' h' => hs st' (List.mem_cons_of_mem _ h')) _ (inv_step s st (hs st List.mem_cons_self) h)

/-- **C14_converges_partial** (added hypothesis: every announcement is
synchronous, i.e. no `changeDetached`/`taskDeliver` step — true of joins and
departures in the code, false of permission and data changes).  From the empty
group, after any such history, in every state where all queues are empty, every
member's view is exactly the membership with the true attributes. -/
theorem C14_converges_partial (steps : List Step) (hs : ∀ st ∈ steps, st.sync = true)
    (hq : ∀ m ∈ (run {} steps).members, m.queue = []) :
    ∀ m ∈ (run {} steps).members, m.view = (run {} steps).truth := by
  intro m hm
  have := (inv_run steps hs {} inv_init).2 m hm
  rw [hq m hm] at this
  rw [truth_eq]
  exact this

def a0 : Attr := { username := "bob", data := "old" }
def a1 : Attr := { username := "bob", data := "one" }
def a2 : Attr := { username := "bob", data := "two" }

/-- **P17, overtaking**: with detached announcements two changes of one member
reach another member in the wrong order; at quiescence its view shows the older
attributes. -/
theorem C14_converges_false_overtake :
    let s := run {} [.join "x" a0, .join "y" a0, .deliver "x", .deliver "x", .deliver "y", .deliver "y",
      .changeDetached "x" a1, .changeDetached "x" a2,
      .taskDeliver 1 "x", .taskDeliver 1 "y",            -- the second change is announced first
      .taskDeliver 0 "x", .taskDeliver 0 "y",
      .deliver "x", .deliver "x", .deliver "y", .deliver "y"]
    (s.members.all (·.queue.isEmpty) = true ∧ s.tasks.length = 0) ∧
    (s.members.map fun m => (m.id, m.view "x")) = [("x", some a1), ("y", some a1)] ∧ s.truth "x" = some a2 := by
  decide

/-- **P17, ghost**: a change announced after the member's delete re-inserts the
departed member into the other member's view. -/
theorem C14_converges_false_ghost :
    let s := run {} [.join "x" a0, .join "y" a0, .deliver "x", .deliver "x", .deliver "y", .deliver "y",
      .changeDetached "x" a1, .taskDeliver 0 "x", .leave "x", .taskDeliver 0 "y", .deliver "y", .deliver "y"]
    (s.members.all (·.queue.isEmpty) = true ∧ s.tasks.length = 0) ∧
    (s.members.map fun m => (m.id, m.view "x")) = [("y", some a1)] ∧ s.truth "x" = none := by
  decide

/-- non-vacuity of `C14_converges_partial`: a history with joins, a change and a departure -/
example :
    let s := run {} [.join "x" a0, .join "y" a0, .change "x" a1, .leave "x", .deliver "y", .deliver "y",
      .deliver "y", .deliver "y"]
    s.members.all (·.queue.isEmpty) = true ∧ (s.members.map fun m => (m.id, m.view "x", m.view "y")) = [("y", none, some a0)] := by
  decide

end Galene.Membership

namespace Galene.Sig

/-- **C14_no_cross_group.**  Handling a queued `user` event writes a message to
the client only if the event is about the group the client is in at that time
(and then writes exactly that one `user` message). -/
theorem C14_no_cross_group (w : World) (i : Nat) (g kind id username : String) (p : PermRef) (d : Dict)
    (hne : (handleAction w i (.pushClient g kind id username p d)).1.log ≠ w.log) :
    ((w.client? i).bind (·.group)) = some g ∧
    (handleAction w i (.pushClient g kind id username p d)).1.log =
      w.log ++ [.write i { type := "user", kind := kind, id := id, username := some username,
                           perms := w.resolve p, data := d }] := by
  unfold handleAction at hne ⊢
  cases hc : w.client? i with
  | none => simp [hc] at hne
  | some c =>
    simp only [hc] at hne ⊢
    cases hg : c.group with
    | none =>
      simp only [hg] at hne
      split_ifs at hne <;> simp at hne
    | some cg =>
      simp only [hg] at hne ⊢
      by_cases hgg : g = cg
      · subst hgg
        simp [World.write, hg]
      · simp [hgg] at hne

end Galene.Sig
