import GaleneVerif.Model.DiskTrack
import GaleneVerif.Props.C20
/-!
# C20 — audio and video share one time origin: `adjustOrigin`

`initWriter` calls `adjustOrigin(ts)` when the first frame written to a new file (timestamp `ts`) is
not the one whose first packet set the track's origin provisionally (that keyframe lost a packet the
cache could not supply; a sender report moved the origin in between; reordering).  `adjustOrigin` moves
the origin of EVERY track of the connection, and the connection's local and remote origins, by one
and the same duration `offset`, converted to each track's own clock rate.

Theorems about `Model/DiskTrack.lean` (`adjustOrigin`, `blockTime`, rtptime's conversions):

* `adjustOrigin_origin` — what `adjustOrigin` does to the origin of track `j`: it adds
  `FromDuration(offset, rate j)` ticks, where `offset = ToDuration(ts - origin ti, rate ti)` is the same
  for every `j`;
* `fromDuration_within_tick` — that number of ticks IS the duration `offset` on track `j`'s clock, up to
  the integer division: `ticks · 10⁹ ≤ offset · rate < (ticks + 1) · 10⁹`;
* `adjustOrigin_hits_ts` — the track that triggers the adjustment lands on `ts` or one tick before it;
* `blockTime_shift_forward`, `blockTime_shift_backward` — moving the origin of a track with a clock rate
  of `1000·k` Hz by `FromDuration(d, 1000·k)` ticks changes the block time of every sample (not before
  the new origin / not wrapping) by `d / 10⁶` or `d / 10⁶ + 1` ms: a number that does NOT depend on `k`;
* **`C20_adjustOrigin_same_instant`** — the composition, on the model's `adjustOrigin`: after the call,
  the block time of every sample of every track is `D` or `D + 1` ms less than before, with ONE `D` for
  all tracks: the origins of all tracks still correspond to one instant (exact up to the integer
  divisions the code performs);
* `C20_adjustOrigin_sync_kept` — hence the difference between the block times of an audio and a video
  sample changes by at most 1 ms;
* `seeded_rate_breaks_sync` — the statement is not vacuous: with the triggering track's rate used for
  every track (seeded change C20-2) it is false (1.2 s offset: the audio sample moves 2250 ms instead of 1200).

`C20_adjustOrigin_same_instant` is proved for a forward adjustment (`ts` not before the provisional
origin: the history "first keyframe lost"); the backward direction (`ts` before the origin: a keyframe
that arrives after a later one) is `blockTime_shift_backward` + `adjustOrigin_origin`, composed in
`C20_adjustOrigin_same_instant_backward`.
-/
namespace Galene.Props.C20Sync
open Galene Galene.DiskTrack Galene.Props.C20

/-! ## what `adjustOrigin` does to each track -/

/-- the duration by which `adjustOrigin c ti ts` moves everything (ns; `none`: it does nothing) -/
def adjOffset (c : Conn) (ti ts : Nat) : Option Int :=
  match (c.track ti).origin with
  | none => none
  | some o => if o = ts % two32 then none else some (toDuration (i32 (sub32 ts o)) (c.track ti).rate)

theorem getD_map (l : List Track) (f : Track → Track) (j : Nat) (hj : j < l.length) :
    (l.map f).getD j default = f (l.getD j default) := by
  simp [List.getD_eq_getElem?_getD, hj]

/-- **adjustOrigin_origin.**  Every track that has an origin gets `FromDuration(offset, its own rate)`
ticks added to it (in `uint32`), for one and the same `offset`; a track without an origin keeps none. -/
theorem adjustOrigin_origin (c : Conn) (ti ts j : Nat) (d : Int) (hj : j < c.tracks.length)
    (hd : adjOffset c ti ts = some d) :
    ((adjustOrigin c ti ts).track j).origin =
      ((c.track j).origin).map fun oo => add32 oo (u32 (fromDuration d (c.track j).rate)) := by
  unfold adjOffset at hd
  unfold adjustOrigin
  cases ho : (c.track ti).origin with
  | none => simp [ho] at hd
  | some o =>
    simp only [ho] at hd ⊢
    by_cases he : o = ts % two32
    · simp [he] at hd
    · simp only [he, if_false, Option.some.injEq] at hd ⊢
      subst hd
      unfold Conn.track
      simp only []
      rw [getD_map _ _ _ hj]
      generalize c.tracks.getD j default = tj
      cases hoo : tj.origin <;> simp [hoo]

/-- `adjustOrigin` does nothing when the track has no origin or is already at `ts` -/
theorem adjustOrigin_noop (c : Conn) (ti ts : Nat) (hd : adjOffset c ti ts = none) :
    adjustOrigin c ti ts = c := by
  unfold adjOffset at hd
  unfold adjustOrigin
  cases ho : (c.track ti).origin with
  | none => simp only [ho]
  | some o =>
    simp only [ho] at hd ⊢
    by_cases he : o = ts % two32
    · simp [he]
    · simp [he] at hd

/-- **fromDuration_within_tick.**  `FromDuration(d, hz)` ticks of a `hz` clock last `d` ns up to less
than one tick: the per-track shifts of `adjustOrigin` all stand for the same duration. -/
theorem fromDuration_within_tick (d hz : Nat) :
    ∃ k : Nat, fromDuration (d : Int) hz = (k : Int) ∧ k * second ≤ d * hz ∧ d * hz < (k + 1) * second := by
  refine ⟨d * hz / second, fromDuration_nat d hz, Nat.div_mul_le_self _ _, ?_⟩
  exact Nat.lt_mul_of_div_lt (Nat.lt_succ_self _) (by decide)

/-! ## block times under a shift of the origin -/

theorem shift_decomp (d k : Nat) (hk : 0 < k) :
    d * (1000 * k) / second = d / 1000000 * k + d % 1000000 * k / 1000000 ∧
      d % 1000000 * k / 1000000 < k := by
  constructor
  · have e1 : d * (1000 * k) = 1000 * (d * k) := by rw [Nat.mul_left_comm]
    have e2 : second = 1000 * 1000000 := by decide
    rw [e1, e2, Nat.mul_div_mul_left _ _ (by decide : 0 < 1000)]
    have e3 : d * k = d % 1000000 * k + d / 1000000 * k * 1000000 := by
      have := Nat.div_add_mod d 1000000
      calc d * k = (1000000 * (d / 1000000) + d % 1000000) * k := by rw [this]
        _ = d % 1000000 * k + d / 1000000 * k * 1000000 := by
          rw [Nat.add_mul, Nat.add_comm, Nat.mul_comm 1000000 (d / 1000000), Nat.mul_assoc, Nat.mul_comm 1000000 k,
            ← Nat.mul_assoc]
    rw [e3, Nat.add_mul_div_right _ _ (by decide : 0 < 1000000), Nat.add_comm]
  · apply Nat.div_lt_of_lt_mul
    have : d % 1000000 < 1000000 := Nat.mod_lt _ (by decide)
    exact Nat.mul_lt_mul_of_pos_right this hk

theorem div_shift (B e k D : Nat) (hk : 0 < k) (he : e < k) :
    B / k + D ≤ (B + (D * k + e)) / k ∧ (B + (D * k + e)) / k ≤ B / k + D + 1 := by
  have e1 : B + (D * k + e) = B + e + D * k := by omega
  rw [e1, Nat.add_mul_div_right _ _ hk]
  have h1 : B / k ≤ (B + e) / k := Nat.div_le_div_right (by omega)
  have h2 : (B + e) / k ≤ (B + k) / k := Nat.div_le_div_right (by omega)
  rw [Nat.add_div_right _ hk] at h2
  omega

theorem rate_div (k : Nat) : 1000 * k / 1000 = k := Nat.mul_div_cancel_left _ (by decide)

/-- **blockTime_shift_forward.**  A track with a clock rate of `1000·k` Hz has origin `oo`; the origin
is advanced by `FromDuration(d, 1000·k) = d·1000·k / 10⁹` ticks.  A sample `t` that is not before the
new origin gets a block time that is `d / 10⁶` or `d / 10⁶ + 1` ms smaller — whatever `k` is. -/
theorem blockTime_shift_forward (oo t d k : Nat) (hk : 0 < k)
    (hfit : d * (1000 * k) / second ≤ sub32 t oo) :
    blockTime (add32 oo (d * (1000 * k) / second)) t (1000 * k) + d / 1000000 ≤ blockTime oo t (1000 * k) ∧
    blockTime oo t (1000 * k) ≤ blockTime (add32 oo (d * (1000 * k) / second)) t (1000 * k) + d / 1000000 + 1 := by
  obtain ⟨hs, he⟩ := shift_decomp d k hk
  have hb := sub32_lt t oo
  unfold blockTime
  rw [rate_div]
  generalize d * (1000 * k) / second = s at *
  have hsub : sub32 t (add32 oo s) = sub32 t oo - s := by
    unfold sub32 add32 two32 at *; omega
  rw [hsub]
  generalize sub32 t oo = A at *
  have hA : A = (A - s) + (d / 1000000 * k + d % 1000000 * k / 1000000) := by omega
  have := div_shift (A - s) (d % 1000000 * k / 1000000) k (d / 1000000) hk he
  rw [← hA] at this
  exact this

/-- **blockTime_shift_backward.**  The same for an origin moved back by `d·1000·k / 10⁹` ticks
(`uint32(-x)` added): block times grow by `d / 10⁶` or `d / 10⁶ + 1` ms, as long as the sample does not
come to lie 2³² ticks after the new origin. -/
theorem blockTime_shift_backward (oo t d k : Nat) (hk : 0 < k)
    (hfit : sub32 t oo + d * (1000 * k) / second < two32) :
    blockTime oo t (1000 * k) + d / 1000000 ≤
      blockTime (add32 oo (u32 (-((d * (1000 * k) / second : Nat) : Int)))) t (1000 * k) ∧
    blockTime (add32 oo (u32 (-((d * (1000 * k) / second : Nat) : Int)))) t (1000 * k) ≤
      blockTime oo t (1000 * k) + d / 1000000 + 1 := by
  obtain ⟨hs, he⟩ := shift_decomp d k hk
  unfold blockTime
  rw [rate_div]
  generalize d * (1000 * k) / second = s at *
  have hs32 : s < two32 := by omega
  have hu : u32 (-(s : Int)) = (two32 - s) % two32 := by
    unfold u32
    have : (-(s : Int)) % (two32 : Int) = (((two32 - s) % two32 : Nat) : Int) := by
      unfold two32 at *; omega
    rw [this, Int.toNat_natCast]
  have hsub : sub32 t (add32 oo (u32 (-(s : Int)))) = sub32 t oo + s := by
    rw [hu]; unfold sub32 add32 two32 at *; omega
  rw [hsub, hs]
  exact div_shift (sub32 t oo) (d % 1000000 * k / 1000000) k (d / 1000000) hk he

/-! ## the composition on `adjustOrigin` -/

theorem i32_nonneg_toNat (x : Nat) (h : x % two32 < two31) : i32 x = ((x % two32 : Nat) : Int) := by
  unfold i32; simp [h]

theorem toDuration_nonneg (x hz : Nat) : toDuration (x : Int) hz = ((x * second / hz : Nat) : Int) :=
  toDuration_nat x hz

/-- **C20_adjustOrigin_same_instant.**  Track `ti` has the provisional origin `o`; the first frame
written has timestamp `ts`, not before `o` (`x = ts - o < 2³¹` ticks); `adjustOrigin` moves everything by
`d = x·10⁹ / rate ti` ns.  Then for EVERY track `j` that has an origin `oo` and a clock rate `1000·k`, and
every sample `t` of it that is not before the moved origin, the track has a new origin `o'` and the
sample's block time has become smaller by `D` or `D + 1` ms, where `D = d / 10⁶` is one number for all
tracks: audio and video origins still stand for one instant, up to the integer divisions of the code. -/
theorem C20_adjustOrigin_same_instant (c : Conn) (ti ts o : Nat)
    (ho : (c.track ti).origin = some o) (hne : o ≠ ts % two32) (hfw : sub32 ts o < two31) :
    let d := sub32 ts o * second / (c.track ti).rate
    ∀ (j k oo t : Nat), j < c.tracks.length → 0 < k → (c.track j).rate = 1000 * k →
      (c.track j).origin = some oo → d * (1000 * k) / second ≤ sub32 t oo →
      ∃ o', ((adjustOrigin c ti ts).track j).origin = some o' ∧
        blockTime o' t (1000 * k) + d / 1000000 ≤ blockTime oo t (1000 * k) ∧
        blockTime oo t (1000 * k) ≤ blockTime o' t (1000 * k) + d / 1000000 + 1 := by
  intro d j k oo t hj hk hrate hoo hfit
  have hlt := sub32_lt ts o
  have hmod : sub32 ts o % two32 = sub32 ts o := Nat.mod_eq_of_lt hlt
  have hoff : adjOffset c ti ts = some ((d : Nat) : Int) := by
    unfold adjOffset
    simp only [ho, hne, if_false]
    rw [i32_nonneg_toNat _ (by rw [hmod]; exact hfw), hmod, toDuration_nat]
  have h := adjustOrigin_origin c ti ts j _ hj hoff
  rw [hoo, hrate, fromDuration_nat, u32_nat] at h
  have hsmall : d * (1000 * k) / second < two32 := Nat.lt_of_le_of_lt hfit (sub32_lt t oo)
  rw [Nat.mod_eq_of_lt hsmall] at h
  exact ⟨_, h, blockTime_shift_forward oo t d k hk hfit⟩

theorem i32_neg_val (x : Nat) (hlt : x < two32) (hbw : two31 ≤ x) :
    i32 x = -(((two32 - x : Nat)) : Int) := by
  unfold i32
  rw [Nat.mod_eq_of_lt hlt]
  have : ¬ x < two31 := by omega
  simp only [this, if_false]
  unfold two32 at *
  omega

theorem toDuration_neg_nat (n hz : Nat) (hn : 0 < n) :
    toDuration (-(n : Int)) hz = -((n * second / hz : Nat) : Int) := by
  unfold toDuration
  have h1 : (-(n : Int) < 0) := by omega
  simp only [h1, if_true, Int.neg_neg, Int.toNat_natCast]

/-- the backward direction: `ts` is before the provisional origin (`o - ts ≤ 2³¹`, e.g. the keyframe that
is written first arrived after a later one): every block time grows by `D` or `D + 1` ms, one `D` for all
tracks -/
theorem C20_adjustOrigin_same_instant_backward (c : Conn) (ti ts o : Nat)
    (ho : (c.track ti).origin = some o) (hbw : two31 ≤ sub32 ts o) :
    let d := (two32 - sub32 ts o) * second / (c.track ti).rate
    ∀ (j k oo t : Nat), j < c.tracks.length → 0 < k → (c.track j).rate = 1000 * k →
      (c.track j).origin = some oo → sub32 t oo + d * (1000 * k) / second < two32 →
      ∃ o', ((adjustOrigin c ti ts).track j).origin = some o' ∧
        blockTime oo t (1000 * k) + d / 1000000 ≤ blockTime o' t (1000 * k) ∧
        blockTime o' t (1000 * k) ≤ blockTime oo t (1000 * k) + d / 1000000 + 1 := by
  intro d j k oo t hj hk hrate hoo hfit
  have hlt := sub32_lt ts o
  have hne : o ≠ ts % two32 := by
    intro h
    have : sub32 ts o = 0 := by
      subst h; unfold sub32 two32; omega
    rw [this] at hbw
    exact absurd hbw (by decide)
  have hpos : 0 < two32 - sub32 ts o := Nat.sub_pos_of_lt hlt
  have hoff : adjOffset c ti ts = some (-((d : Nat) : Int)) := by
    unfold adjOffset
    simp only [ho, hne, if_false]
    rw [i32_neg_val _ hlt hbw, toDuration_neg_nat _ _ hpos]
  have h := adjustOrigin_origin c ti ts j _ hj hoff
  rw [hoo, hrate, fromDuration_neg, fromDuration_nat] at h
  exact ⟨_, h, blockTime_shift_backward oo t d k hk hfit⟩

/-- **C20_adjustOrigin_sync_kept.**  Two tracks (audio at `1000·ka` Hz, video at `1000·kv` Hz), a sample
of each: the difference of their block times is changed by `adjustOrigin` by at most 1 ms. -/
theorem C20_adjustOrigin_sync_kept (c : Conn) (ti ts o : Nat)
    (ho : (c.track ti).origin = some o) (hne : o ≠ ts % two32) (hfw : sub32 ts o < two31)
    (ja jv ka kv oa ov ta tv : Nat) (hja : ja < c.tracks.length) (hjv : jv < c.tracks.length)
    (hka : 0 < ka) (hkv : 0 < kv)
    (hra : (c.track ja).rate = 1000 * ka) (hrv : (c.track jv).rate = 1000 * kv)
    (hoa : (c.track ja).origin = some oa) (hov : (c.track jv).origin = some ov)
    (hfa : sub32 ts o * second / (c.track ti).rate * (1000 * ka) / second ≤ sub32 ta oa)
    (hfv : sub32 ts o * second / (c.track ti).rate * (1000 * kv) / second ≤ sub32 tv ov) :
    ∃ oa' ov', ((adjustOrigin c ti ts).track ja).origin = some oa' ∧
      ((adjustOrigin c ti ts).track jv).origin = some ov' ∧
      (((blockTime oa' ta (1000 * ka) : Nat) : Int) - (blockTime ov' tv (1000 * kv) : Nat)) -
        (((blockTime oa ta (1000 * ka) : Nat) : Int) - (blockTime ov tv (1000 * kv) : Nat)) ≤ 1 ∧
      -1 ≤ (((blockTime oa' ta (1000 * ka) : Nat) : Int) - (blockTime ov' tv (1000 * kv) : Nat)) -
        (((blockTime oa ta (1000 * ka) : Nat) : Int) - (blockTime ov tv (1000 * kv) : Nat)) := by
  obtain ⟨oa', h1, a1, a2⟩ := C20_adjustOrigin_same_instant c ti ts o ho hne hfw ja ka oa ta hja hka hra hoa hfa
  obtain ⟨ov', h2, v1, v2⟩ := C20_adjustOrigin_same_instant c ti ts o ho hne hfw jv kv ov tv hjv hkv hrv hov hfv
  refine ⟨oa', ov', h1, h2, ?_, ?_⟩ <;> omega

/-- **adjustOrigin_hits_ts.**  The triggering track's own origin becomes `ts` or one tick before it
(ticks → duration → ticks loses at most one tick), for a clock rate of at most 10⁹ Hz. -/
theorem adjustOrigin_hits_ts (c : Conn) (ti ts o : Nat) (hti : ti < c.tracks.length)
    (ho : (c.track ti).origin = some o) (hne : o ≠ ts % two32) (hfw : sub32 ts o < two31)
    (hz0 : 0 < (c.track ti).rate) (hz1 : (c.track ti).rate ≤ second) :
    ∃ o', ((adjustOrigin c ti ts).track ti).origin = some o' ∧ sub32 ts o' ≤ 1 := by
  have hlt := sub32_lt ts o
  have hmod : sub32 ts o % two32 = sub32 ts o := Nat.mod_eq_of_lt hlt
  have hoff : adjOffset c ti ts = some (((sub32 ts o * second / (c.track ti).rate : Nat)) : Int) := by
    unfold adjOffset
    simp only [ho, hne, if_false]
    rw [i32_nonneg_toNat _ (by rw [hmod]; exact hfw), hmod, toDuration_nat]
  have h := adjustOrigin_origin c ti ts ti _ hti hoff
  rw [ho, fromDuration_nat, u32_nat] at h
  obtain ⟨r1, r2⟩ := roundtrip_nat (sub32 ts o) (c.track ti).rate hz0 hz1
  refine ⟨_, h, ?_⟩
  show sub32 ts (add32 o (sub32 ts o * second / (c.track ti).rate * (c.track ti).rate / second % two32)) ≤ 1
  generalize sub32 ts o * second / (c.track ti).rate * (c.track ti).rate / second = s at *
  clear h hoff hz0 hz1 hmod
  unfold sub32 add32 two32 two31 at *
  omega

/-! ## non-vacuity and sensitivity -/

/-- an Opus + VP8 connection whose video origin was set provisionally by a keyframe at 1000, the
audio origin (48 kHz) corresponding to it at 5000 -/
def demo : Conn :=
  { tracks := [{ codec := "audio/opus", rate := 48000, origin := some 5000 },
               { codec := "video/VP8", rate := 90000, origin := some 1000 }],
    hasVideo := true, originLocal := .real, originRemote := 17 * two32 }

-- the first frame written is a keyframe 1.2 s (108000 ticks at 90 kHz) later: the video origin becomes
-- its timestamp, the audio origin moves by 57600 ticks = 1.2 s at 48 kHz, the remote origin by 1.2 s
example : ((adjustOrigin demo 1 109000).tracks.map (·.origin)) = [some 62600, some 109000] := by decide +kernel
example : adjOffset demo 1 109000 = some 1200000000 := by decide +kernel
-- hypotheses of `C20_adjustOrigin_same_instant` hold for audio (j = 0, k = 48) and video (j = 1, k = 90),
-- for samples 1.5 s after the old origins; block times 1500 → 300 on both tracks
example : sub32 109000 1000 < two31 ∧
    sub32 109000 1000 * second / 90000 * (1000 * 48) / second ≤ sub32 77000 5000 ∧
    blockTime 5000 77000 48000 = 1500 ∧ blockTime 62600 77000 48000 = 300 ∧
    blockTime 1000 136000 90000 = 1500 ∧ blockTime 109000 136000 90000 = 300 := by decide +kernel
-- backward: the frame written first is 0.5 s BEFORE the provisional origin
example : ((adjustOrigin demo 1 (1000 + two32 - 45000)).tracks.map (·.origin)) =
    [some (5000 + two32 - 24000), some (1000 + two32 - 45000)] := by decide +kernel

/-- the seeded change C20-2: the triggering track's clock rate converts the offset for every track -/
def adjustOriginSeeded (c : Conn) (ti ts : Nat) : Conn :=
  let t := c.track ti
  match t.origin with
  | none => c
  | some o =>
    if o = ts % two32 then c else
    let offset := toDuration (i32 (sub32 ts o)) t.rate
    { c with
      originLocal := c.originLocal.add offset,
      originRemote := if c.originRemote ≠ 0 then timeToNTP (ntpToTime c.originRemote + offset) else 0,
      tracks := c.tracks.map fun tt =>
        match tt.origin with
        | none => tt
        | some oo => { tt with origin := some (add32 oo (u32 (fromDuration offset t.rate))) } }

/-- **seeded_rate_breaks_sync.**  With C20-2 the conclusion of `C20_adjustOrigin_same_instant` fails on
`demo`: the audio origin moves by 108000 ticks (2.25 s at 48 kHz) instead of 57600, an audio sample that
was 1500 ms after the origin is 750 ms before it, while the video sample is at 300 ms. -/
theorem seeded_rate_breaks_sync :
    ((adjustOriginSeeded demo 1 109000).tracks.map (·.origin)) = [some 113000, some 109000] ∧
    lateCheck (lateThreshold codeFixes) (some 113000) 77000 = .drop ∧
    ¬ (blockTime 113000 77000 48000 + 1200 ≤ blockTime 5000 77000 48000 ∧
       blockTime 5000 77000 48000 ≤ blockTime 113000 77000 48000 + 1200 + 1) := by decide +kernel

end Galene.Props.C20Sync
