/-
Schema of the regenerated facts about the USERS of unbounded.Channel (harness/cmd/locks/chanuse.go →
Generated/ChanUse.lean).  Every expression outside package unbounded whose type is (a pointer to)
`unbounded.Channel[T]` is listed with the context it occurs in; the extractor fails closed: whatever it does
not positively recognise is `other`.
-/
namespace Galene.ChanUse

inductive Kind where
  /-- `X.Put(v)` -/
  | put
  /-- a receive from `X.Ch` (comm clause of a `select` case, or a receive statement) whose case body / next
  statement BEGINS with `v := X.Get()` on the same channel value; the pair is one use -/
  | recvGet
  /-- `unbounded.New[T]()` as the value of a field in a composite literal, or assigned to a field / new variable -/
  | new
  /-- anything else: a receive not followed at once by Get, a Get without its receive, a drain
  `select { case <-X.Ch: default: }`, `len(X.Ch)`, `X.Ch` or `X` passed, copied, compared, … -/
  | other
  deriving DecidableEq, Repr

structure Use where
  /-- file:line -/
  pos : String
  /-- enclosing function -/
  fn : String
  /-- the channel, named at type level: `webClient.actions` -/
  chan : String
  kind : Kind
  /-- for a `recvGet`: `select` (the loop blocks only in the select the receive is a case of), `selectmore`,
  `poll` (select with a default: the loop blocks elsewhere and only polls the queue), `recv`, `once`; else `-` -/
  wait : String := "-"
  /-- what was found, in words -/
  what : String := ""
  deriving Repr

def Kind.ofString? : String → Option Kind
  | "put" => some .put
  | "recvGet" => some .recvGet
  | "new" => some .new
  | "other" => some .other
  | _ => none

/-- side condition 1: no use leaves the discipline -/
def allDisciplined (us : List Use) : Bool := us.all (fun u => u.kind ≠ .other)

/-- the channels (type-level names) that occur in a list of uses -/
def chans (us : List Use) : List String := (us.map (·.chan)).eraseDups

def consumers (us : List Use) (c : String) : Nat := (us.filter (fun u => u.chan == c && u.kind == .recvGet)).length
def puts (us : List Use) (c : String) : Nat := (us.filter (fun u => u.chan == c && u.kind == .put)).length

/-- side condition 2: every channel has ONE receive-then-Get site (the proof is about one consumer), or none
if nothing is ever Put on it (a channel that is Put to but never consumed would lose everything) -/
def oneConsumerEach (us : List Use) : Bool :=
  (chans us).all (fun c => consumers us c == 1 || (consumers us c == 0 && puts us c == 0))

end Galene.ChanUse
