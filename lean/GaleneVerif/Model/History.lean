import GaleneVerif.Model.SigValue
/-
Chat history of a group (group/group.go: AddToChatHistory, discardObsoleteHistory,
GetChatHistory, ClearChatHistory).  Time is the age of an entry in seconds
relative to "now" (real messages have age 0; the harness inserts older entries
through the exported AddToChatHistory with a chosen timestamp).
-/
namespace Galene.Sig.History
open Galene.Sig

structure Entry where
  id : String := ""
  source : String := ""
  user : Option String := none
  age : Nat := 0
  kind : String := ""
  value : Val := .none
  deriving Repr, BEq, DecidableEq, Inhabited

/-- `const maxChatHistory = 50` -/
def maxChatHistory : Nat := 50

/-- AddToChatHistory: when full, shift out the oldest entry, then append. -/
def add (h : List Entry) (e : Entry) : List Entry :=
  (if h.length ≥ maxChatHistory then h.drop 1 else h) ++ [e]

/-- discardObsoleteHistory: drop the *prefix* of entries older than `maxAge`. -/
def discardObsolete (h : List Entry) (maxAge : Nat) : List Entry :=
  h.dropWhile (fun e => e.age > maxAge)

/-- ClearChatHistory(id, userId) -/
def clear (h : List Entry) (id userId : String) : List Entry :=
  if id = "" ∧ userId = "" then []
  else h.filter (fun e => ¬ (e.source = userId ∧ (id = "" ∨ e.id = id)))

/-- `DefaultMaxHistoryAge = 4 * time.Hour`, in seconds -/
def defaultMaxAge : Nat := 14400

def maxAge (cfgAge : Nat) : Nat := if cfgAge ≠ 0 then cfgAge else defaultMaxAge

end Galene.Sig.History
