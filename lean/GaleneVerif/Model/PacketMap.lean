/-
Model of packetmap.Map (packetmap/packetmap.go), transcribed branch for
branch: Map, reset, addMapping, direct, Reverse, Drop, compare.

uint16 values are `Nat` reduced mod 65536 explicitly.  `entries = []` is Go's
nil slice (the code never holds an empty non-nil slice).  Indexing is checked:
`none` is Go's index-out-of-range panic, so "does not panic" is a theorem
(`lastEntry < entries.length` whenever entries ≠ []), not an artefact.
`maxEntries` and the window `W` (Go: `8*1024`, and 8192 in addMapping/Drop)
are parameters, instantiated from the extracted constants.
-/
namespace Galene.PacketMap

def M : Nat := 65536
def sub16 (a b : Nat) : Nat := (a + 65536 - b % 65536) % 65536
def add16 (a b : Nat) : Nat := (a + b) % 65536

/-- Go `compare(s1, s2)`: 0 if equal, 1 if `(s2 - s1) & 0x8000 != 0`, else -1. -/
def compare (s1 s2 : Nat) : Int :=
  if s1 = s2 then 0 else if sub16 s2 s1 ≥ 32768 then 1 else -1

structure Params where
  maxEntries : Nat := 128
  W : Nat := 8192
  maxCount : Nat := 16384
  deriving Repr

structure Entry where
  first : Nat
  count : Nat
  delta : Nat
  pidDelta : Nat
  deriving Repr, DecidableEq

structure State where
  started : Bool := false
  next : Nat := 0
  nextPid : Nat := 0
  delta : Nat := 0
  pidDelta : Nat := 0
  lastEntry : Nat := 0
  entries : List Entry := []
  deriving Repr, DecidableEq

abbrev Result := Bool × Nat × Nat

/-- Go `reset()` clears every field except `started` -/
def State.reset (m : State) : State := { started := m.started }

/-- `addMapping`; `none` = index panic. -/
def addMapping (P : Params) (m : State) (seqno delta pidDelta : Nat) : Option State :=
  if m.entries.length = 0 then some m
  else
    match m.entries[m.lastEntry]? with
    | none => none
    | some ei =>
      if delta = ei.delta && pidDelta = ei.pidDelta && sub16 seqno ei.first < P.maxCount then
        let ei' : Entry := { ei with count := add16 (sub16 seqno ei.first) 1 }
        some { m with entries := m.entries.set m.lastEntry ei' }
      else
        let d := sub16 ei.delta delta
        let f :=
          if d < P.W then
            let ff := add16 (add16 ei.first ei.count) d
            if compare ff seqno < 0 then ff else seqno
          else seqno
        let e : Entry := { first := f, count := add16 (sub16 seqno f) 1, delta := delta, pidDelta := pidDelta }
        if m.entries.length < P.maxEntries then
          some { m with entries := m.entries ++ [e], lastEntry := m.entries.length }
        else
          let j := (m.lastEntry + 1) % P.maxEntries
          if j < m.entries.length then
            some { m with entries := m.entries.set j e, lastEntry := j }
          else none

/-- how one interval classifies a seqno during the backwards walk -/
inductive Cls where
  | inside (target pd : Nat)   -- in [f, f+count): mapped
  | stop                       -- at/after f but not inside: the walk returns false
  | cont                       -- before f: go on to the previous interval
  deriving Repr, DecidableEq

/-- classification of `seqno` against one interval starting at `f` -/
def classify (seqno f count target pd : Nat) : Cls :=
  if compare seqno f ≥ 0 then
    if compare seqno (add16 f count) < 0 then .inside target pd else .stop
  else .cont

/-- The backwards walk shared by `direct` and `Reverse`.  `fuel` bounds the loop
(each index is visited at most once, so `entries.length` suffices). -/
def walk (entries : List Entry) (lastEntry : Nat) (cls : Entry → Cls) : Nat → Nat → Option Result
  | 0, _ => some (false, 0, 0)
  | fuel + 1, i =>
    match entries[i]? with
    | none => none
    | some e =>
      match cls e with
      | .inside n pd => some (true, n, pd)
      | .stop => some (false, 0, 0)
      | .cont =>
        let i' := if i > 0 then i - 1 else entries.length - 1
        if i' = lastEntry then some (false, 0, 0)
        else walk entries lastEntry cls fuel i'

/-- `Map.direct`. -/
def direct (m : State) (seqno : Nat) : Option Result :=
  if m.entries.length = 0 then some (false, 0, 0)
  else
    walk m.entries m.lastEntry
      (fun e => classify seqno e.first e.count (add16 seqno e.delta) e.pidDelta)
      m.entries.length m.lastEntry

/-- `Map.Map`. -/
def mapOp (P : Params) (m : State) (seqno pid : Nat) : Option (State × Result) :=
  if m.delta = 0 && m.entries.length = 0 then
    let m' := if !m.started || compare m.next seqno ≤ 0 || sub16 m.next seqno > P.W
              then { m with started := true, next := add16 seqno 1, nextPid := pid } else m
    some (m', (true, seqno, 0))
  else if compare m.next seqno ≤ 0 then
    if sub16 seqno m.next > P.W then
      some ({ m.reset with next := add16 seqno 1, nextPid := pid }, (true, seqno, 0))
    else
      match addMapping P m seqno m.delta m.pidDelta with
      | none => none
      | some m1 =>
        some ({ m1 with next := add16 seqno 1, nextPid := pid }, (true, add16 seqno m1.delta, m1.pidDelta))
  else if sub16 m.next seqno > P.W then
    some ({ m.reset with next := add16 seqno 1, nextPid := pid }, (true, seqno, 0))
  else
    match direct m seqno with
    | none => none
    | some r => some (m, r)

/-- `Map.Reverse`. -/
def reverse (m : State) (seqno : Nat) : Option Result :=
  if m.entries.length = 0 then
    if m.delta = 0 then some (true, seqno, 0) else some (false, 0, 0)
  else
    walk m.entries m.lastEntry
      (fun e => classify seqno (add16 e.first e.delta) e.count (sub16 seqno e.delta) e.pidDelta)
      m.entries.length m.lastEntry

/-- `Map.Drop`. -/
def dropOp (P : Params) (m : State) (seqno pid : Nat) : State × Bool :=
  if !m.started || seqno ≠ m.next then (m, false)
  else
    let entries :=
      if m.entries.length = 0 then
        [{ first := sub16 seqno P.W, count := P.W, delta := 0, pidDelta := 0 : Entry }]
      else m.entries
    ({ m with entries := entries,
              pidDelta := add16 m.pidDelta (sub16 pid m.nextPid),
              nextPid := pid,
              delta := sub16 m.delta 1,
              next := add16 seqno 1 }, true)

end Galene.PacketMap
