/-
Model of `sdpfrag.SDPFrag.Unmarshal`, `Marshal`, `UFragPwd` and `AllCandidates`
(/repo/sdpfrag/sdpfrag.go:29-201): the parser of WHIP trickle-ICE fragments, fed with
up to 1 MiB of client-chosen bytes by the WHIP PATCH handler (webserver/whip.go:332-340).

Bytes are `Nat`s below 256.  The line splitter is `bufio.Scanner` with `bufio.ScanLines`
and the default buffer over a `bytes.Reader`:

* a line ends at `\n`; one trailing `\r` is dropped; a last unterminated non-empty
  remainder is a line too;
* when 65536 bytes from the start of a line hold no `\n`, `Scan` returns false with
  `ErrTooLong`.  `Unmarshal` never looks at `scanner.Err()`, so parsing just stops there and
  what was parsed so far is returned without error (the model says so; the engine compares).

Go's slice expression `l[n:]` panics when `n > len(l)`.  The model keeps that visible:
`sliceFrom` returns `none` there and the parser's result type has a `panic` outcome, so that
"no input makes the parser panic" is a theorem (Props/C12Sdp.lean) and not a consequence of
totalising the definition.
-/
namespace Galene.Model.SdpFrag

abbrev Bytes := List Nat

def maxToken : Nat := 65536

def str (s : String) : Bytes := s.toList.map Char.toNat

def pUfrag : Bytes := str "a=ice-ufrag:"
def pPwd : Bytes := str "a=ice-pwd:"
def pM : Bytes := str "m="
def pMid : Bytes := str "a=mid:"
def pCand : Bytes := str "a=candidate:"
def crlf : Bytes := [13, 10]

/-- `dropCR` of bufio: drop one trailing `\r`. -/
def dropCR (l : Bytes) : Bytes := if l.getLast? = some 13 then l.dropLast else l

/-- The lines `scanner.Scan()` yields.  `acc` is the current line reversed, `n` its length. -/
def scanAux : Bytes → Bytes → Nat → List Bytes
  | [], acc, _ => if acc.isEmpty then [] else [dropCR acc.reverse]
  | b :: rest, acc, n =>
    if b = 10 then dropCR acc.reverse :: scanAux rest [] 0
    else if n + 1 ≥ maxToken then []
    else scanAux rest (b :: acc) (n + 1)

def scanLines (data : Bytes) : List Bytes := scanAux data [] 0

/-- `bytes.HasPrefix(l, p)` -/
def hasPrefix (l p : Bytes) : Bool := p.isPrefixOf l

/-- Go's `l[n:]`: `none` is the run-time panic "slice bounds out of range". -/
def sliceFrom (l : Bytes) (n : Nat) : Option Bytes :=
  if n ≤ l.length then some (l.drop n) else none

/-- `webrtc.ICECandidateInit` -/
structure Cand where
  cand : Bytes
  ufrag : Option Bytes
  idx : Option Nat
  mid : Option Bytes
  deriving Repr, DecidableEq

structure Media where
  mline : Bytes := []
  mid : Bytes := []
  ufrag : Bytes := []
  pwd : Bytes := []
  cands : List Cand := []
  deriving Repr, DecidableEq

structure Frag where
  ufrag : Bytes := []
  pwd : Bytes := []
  cands : List Cand := []
  medias : List Media := []
  deriving Repr, DecidableEq

/-- parser state: the fragment so far and the `mediaDescription` pointer. -/
structure St where
  f : Frag := {}
  cur : Option Media := none
  deriving Repr, DecidableEq

inductive Step where
  | cont (s : St)
  | err            -- "unexpected mid"
  | panic          -- slice bounds out of range
  deriving Repr, DecidableEq

/-- what the `mediaDescription != nil` append does -/
def flush (s : St) : Frag :=
  match s.cur with
  | some m => { s.f with medias := s.f.medias ++ [m] }
  | none => s.f

/-- One iteration of the `for scanner.Scan()` loop (sdpfrag.go:34-87). -/
def lineStep (s : St) (l : Bytes) : Step :=
  if hasPrefix l pUfrag then
    match sliceFrom l pUfrag.length with
    | none => .panic
    | some v =>
      match s.cur with
      | none => .cont { s with f := { s.f with ufrag := v } }
      | some m => .cont { s with cur := some { m with ufrag := v } }
  else if hasPrefix l pPwd then
    match sliceFrom l pPwd.length with
    | none => .panic
    | some v =>
      match s.cur with
      | none => .cont { s with f := { s.f with pwd := v } }
      | some m => .cont { s with cur := some { m with pwd := v } }
  else if hasPrefix l pM then
    match sliceFrom l pM.length with
    | none => .panic
    | some v => .cont { f := flush s, cur := some { mline := v } }
  else if hasPrefix l pMid then
    match s.cur with
    | none => .err
    | some m =>
      match sliceFrom l pMid.length with
      | none => .panic
      | some v => .cont { s with cur := some { m with mid := v } }
  else if hasPrefix l pCand then
    match sliceFrom l pCand.length with
    | none => .panic
    | some v =>
      let uf : Option Bytes := if s.f.ufrag.length > 0 then some s.f.ufrag else none
      match s.cur with
      | some m =>
        let c : Cand := { cand := v, ufrag := uf, idx := some (s.f.medias.length % 65536), mid := some m.mid }
        .cont { s with cur := some { m with cands := m.cands ++ [c] } }
      | none =>
        let c : Cand := { cand := v, ufrag := uf, idx := none, mid := none }
        .cont { s with f := { s.f with cands := s.f.cands ++ [c] } }
  else .cont s

inductive Outcome where
  | ok (f : Frag)
  | err
  | panic
  deriving Repr, DecidableEq

def run : St → List Bytes → Outcome
  | s, [] => .ok (flush s)
  | s, l :: ls =>
    match lineStep s l with
    | .cont s' => run s' ls
    | .err => .err
    | .panic => .panic

/-- `(*SDPFrag).Unmarshal` on a zero-valued receiver. -/
def unmarshal (data : Bytes) : Outcome := run {} (scanLines data)

/-- `(*SDPFrag).UFragPwd` -/
def ufragPwd (f : Frag) : Bytes × Bytes :=
  if f.ufrag ≠ [] then (f.ufrag, f.pwd)
  else match f.medias.find? (fun m => m.ufrag ≠ []) with
    | some m => (m.ufrag, m.pwd)
    | none => ([], [])

/-- `(*SDPFrag).AllCandidates` -/
def allCandidates (f : Frag) : List Cand := f.cands ++ f.medias.flatMap (·.cands)

def optLine (p v : Bytes) : Bytes := if v ≠ [] then p ++ v ++ crlf else []

def marshalMedia (m : Media) : Bytes :=
  pM ++ m.mline ++ crlf ++ pMid ++ m.mid ++ crlf ++ optLine pUfrag m.ufrag ++ optLine pPwd m.pwd
    ++ m.cands.flatMap (fun c => pCand ++ c.cand ++ crlf)

/-- `(*SDPFrag).Marshal` (top-level candidates are written as `a=<candidate>`, as the code does). -/
def marshal (f : Frag) : Bytes :=
  optLine pUfrag f.ufrag ++ optLine pPwd f.pwd
    ++ f.cands.flatMap (fun c => str "a=" ++ c.cand ++ crlf)
    ++ f.medias.flatMap marshalMedia

end Galene.Model.SdpFrag
