/-
Model of webserver/precondition.go (the string part of C18): `scanETag`, `etagMatch`, and the decision
table of `checkPreconditions`.  Strings are `List Char` with every char a byte (see Model/Paths.lean).
-/
namespace Galene.Etag

abbrev Str := List Char

/-- the cutset of `strings.TrimLeft(s, " \t\n\r")` -/
def isOWS (c : Char) : Bool := c = ' ' || c = '\t' || c = '\n' || c = '\r'

def trimLeft (s : Str) : Str := s.dropWhile isOWS

/-- "Character values allowed in ETags": `c == 0x21 || c >= 0x23 && c <= 0x7E || c >= 0x80` -/
def etagc (c : Char) : Bool := c.toNat = 0x21 || (0x23 ≤ c.toNat && c.toNat ≤ 0x7E) || 0x80 ≤ c.toNat

/-- the loop `for i := start + 1; i < len(s); i++` of `scanETag` on the unread suffix `s[i:]`;
`acc` is `s[start+1:i]` reversed.  Result: `(s[start+1:i+1], s[i+1:])` at the closing quote, `none`
for a forbidden byte or end of string. -/
def scanBody : Str → Str → Option (Str × Str)
  | [], _ => none
  | c :: t, acc =>
    if etagc c then scanBody t (c :: acc)
    else if c = '"' then some ((c :: acc).reverse, t)
    else none

/-- `scanETag(s)`: `(etag, remain)`, or `("", "")`. -/
def scanETag (s : Str) : Str × Str :=
  let s := trimLeft s
  let start := if ['W', '/'].isPrefixOf s then 2 else 0
  let s' := s.drop start
  if s'.length < 2 ∨ s'.head? ≠ some '"' then ([], [])
  else
    match scanBody (s'.drop 1) [] with
    | some (body, remain) => (s.take (start + 1) ++ body, remain)
    | none => ([], [])

/-- the `for { … }` loop of `etagMatch`.  Fuel: every iteration that continues consumes at least one
byte of `header` (`Props/C18Etag.lean: etagLoop_fuel`). -/
def etagLoop (etag : Str) : Nat → Str → Bool
  | 0, _ => false
  | fuel + 1, header =>
    match trimLeft header with
    | [] => false
    | c :: t =>
      if c = ',' then etagLoop etag fuel t
      else if c = '*' then decide (etag ≠ [])
      else
        let (e, remain) := scanETag (c :: t)
        if e = [] then false
        else if e = etag then true
        else etagLoop etag fuel remain

/-- `etagMatch(etag, header)` -/
def etagMatch (etag header : Str) : Bool :=
  if header = [] then false
  else if header = etag then true
  else etagLoop etag (header.length + 1) header

inductive Outcome where
  | continue_            -- `done = false`: the handler goes on
  | notModified          -- 304
  | preconditionFailed   -- 412
  deriving DecidableEq, Repr

/-- `checkPreconditions(w, r, etag)`; `im`/`inm` are `r.Header.Get("If-Match")` / `("If-None-Match")`
("" when absent), `method` is `r.Method`. -/
def checkPreconditions (method etag im inm : Str) : Outcome :=
  if im ≠ [] ∧ !etagMatch etag im then .preconditionFailed
  else if inm ≠ [] ∧ etagMatch etag inm then
    if method = "GET".toList ∨ method = "HEAD".toList then .notModified
    else .preconditionFailed
  else .continue_

end Galene.Etag
