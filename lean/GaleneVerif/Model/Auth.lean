/-
Model of galene's password login (C08):

  group/client.go       ConstantTimeCompare, Password.Match, Password.UnmarshalJSON
  group/description.go  permissionsMap, Permissions.Permissions, Permissions.UnmarshalJSON,
                        upgradeDescription (obsolete op/presenter/other fields)
  group/group.go        validGroupName, validUsername, Description.getPasswordPermission,
                        the password branch of Description.GetPermission, the part of AddClient
                        that decides membership
  galenectl/galenectl.go makePassword
  rtpconn/webclient.go  remove, addnew, handleAction(changePermissionsAction)

Strings that are compared byte-wise or hex-decoded (usernames, passwords, keys, salts) are byte
lists; strings that are only compared with constants (password type, hash name, role and
permission names) are Lean `String`s.  The hash functions are a parameter `Hash` of the model.
Go slices are immutable lists here, so the aliasing of a role's permission slice between the
package-level table, the description and the clients cannot be expressed: it shows up as a
disagreement with the real code (see Engine/Auth.lean).
-/
namespace Galene.Auth

abbrev Bytes := List Nat

/-! ### encoding/hex -/

/-- `reverseHexTable`: value of a hex digit, upper or lower case -/
def hexVal (c : Nat) : Option Nat :=
  if 48 ≤ c ∧ c ≤ 57 then some (c - 48)
  else if 97 ≤ c ∧ c ≤ 102 then some (c - 87)
  else if 65 ≤ c ∧ c ≤ 70 then some (c - 55)
  else none

/-- `hex.DecodeString`; `none` for both `InvalidByteError` and `ErrLength` -/
def hexDecode : Bytes → Option Bytes
  | [] => some []
  | [_] => none
  | a :: b :: rest =>
    match hexVal a, hexVal b with
    | some x, some y =>
      match hexDecode rest with
      | some r => some ((x * 16 + y) :: r)
      | none => none
    | _, _ => none

def hexDigit (n : Nat) : Nat := if n < 10 then 48 + n else 87 + n

/-- `hex.EncodeToString` (lower case) -/
def hexEncode : Bytes → Bytes
  | [] => []
  | b :: rest => hexDigit (b / 16 % 16) :: hexDigit (b % 16) :: hexEncode rest

/-! ### the hash functions (parameters) -/

/-- The cryptographic primitives.  `pbkdf2 pw salt iter keyLen` is
`pbkdf2.Key(pw, salt, iter, keyLen, sha256.New)`; `bcryptCompare key pw` is
`bcrypt.CompareHashAndPassword` (`.ok false` for `ErrMismatchedHashAndPassword`, `.error` for any
other error); `bcryptGenerate pw cost rnd` is `bcrypt.GenerateFromPassword` drawing its salt from
`rnd`. -/
structure Hash where
  pbkdf2 : Bytes → Bytes → Int → Nat → Bytes
  bcryptCompare : Bytes → Bytes → Except Unit Bool
  bcryptGenerate : Bytes → Int → Bytes → Except Unit Bytes

/-! ### Password -/

/-- `group.Password` (= `RawPassword`); `key = none` is the nil `*string` -/
structure Password where
  type : String := ""
  hash : String := ""
  key : Option Bytes := none
  salt : Bytes := []
  iterations : Int := 0
  deriving Repr, DecidableEq, Inhabited

inductive MatchErr where
  | missingKey | badHex | unknownHash | unknownType | bcrypt
  deriving Repr, DecidableEq

/-- `ConstantTimeCompare(a, b)`: `bs` is `b` truncated or zero-padded to `len(a)` -/
def constantTimeCompare (a b : Bytes) : Bool :=
  let bs := b.take a.length ++ List.replicate (a.length - b.length) 0
  let equal := decide (a = bs)
  decide (a.length = b.length) && equal

/-- `Password.Match` -/
def Password.matchPw (H : Hash) (p : Password) (pw : Bytes) : Except MatchErr Bool :=
  if p.type = "" then .ok false
  else if p.type = "plain" then
    match p.key with
    | none => .error .missingKey
    | some k => .ok (constantTimeCompare pw k)
  else if p.type = "wildcard" then .ok true
  else if p.type = "pbkdf2" then
    match p.key with
    | none => .error .missingKey
    | some k =>
      match hexDecode k with
      | none => .error .badHex
      | some key =>
        match hexDecode p.salt with
        | none => .error .badHex
        | some salt =>
          if p.hash = "sha-256" then
            .ok (decide (key = H.pbkdf2 pw salt p.iterations key.length))
          else .error .unknownHash
  else if p.type = "bcrypt" then
    match p.key with
    | none => .error .missingKey
    | some k =>
      match H.bcryptCompare k pw with
      | .error _ => .error .bcrypt
      | .ok b => .ok b
  else .error .unknownType

/-! ### the JSON forms of a password and of a permission set -/

/-- what the JSON value of a `password` field can be: absent, `null`, a string, an object with
the five known fields (each `none` when absent or `null`: both leave the Go zero value), or
something that does not decode -/
inductive JPassword where
  | absent
  | null
  | str (s : Bytes)
  | obj (type hash : Option String) (key salt : Option Bytes) (iterations : Option Int)
  | bad
  deriving Repr, DecidableEq

/-- `Password.UnmarshalJSON` applied to a non-pointer `Password` field.  encoding/json calls the
method for `null` too; since the fix "a null password is no password" it decodes `null` to the
zero `Password` (empty type: never matches).  (Before the fix `json.Unmarshal("null", &k)`
succeeded leaving `k = ""`, so `null` decoded as the plain password "".) -/
def Password.ofJson : JPassword → Except Unit Password
  | .absent => .ok {}
  | .null => .ok {}
  | .str s => .ok { type := "plain", key := some s }
  | .obj t h k s i =>
    .ok { type := t.getD "", hash := h.getD "", key := k, salt := s.getD [], iterations := i.getD 0 }
  | .bad => .error ()

/-- a `*Password` field (`ClientPattern.Password`): absent and `null` leave the pointer nil -/
def Password.ptrOfJson : JPassword → Except Unit (Option Password)
  | .absent => .ok none
  | .null => .ok none
  | j => match Password.ofJson j with
    | .ok p => .ok (some p)
    | .error e => .error e

/-- `group.Permissions`: a role name, or (when the name is empty) a raw list -/
structure Permissions where
  name : String := ""
  permissions : List String := []
  deriving Repr, DecidableEq, Inhabited

abbrev RoleTable := List (String × List String)

/-- `permissionsMap` -/
def defaultRoles : RoleTable :=
  [ ("op", ["op", "present", "message", "caption", "token"]),
    ("present", ["present", "message"]),
    ("message", ["message"]),
    ("observe", []),
    ("caption", ["caption"]),
    ("admin", ["admin"]) ]

inductive JPermissions where
  | absent
  | null
  | name (s : String)
  | arr (l : List String)
  | bad
  deriving Repr, DecidableEq

/-- `Permissions.UnmarshalJSON`: an array (or `null`) gives a raw list, a string must be a key of
`permissionsMap` -/
def Permissions.ofJson (roles : RoleTable) : JPermissions → Except Unit Permissions
  | .absent => .ok {}
  | .null => .ok {}
  | .arr l => .ok { permissions := l }
  | .name s => if (roles.lookup s).isSome then .ok { name := s } else .error ()
  | .bad => .error ()

/-! ### Description -/

structure UserDescription where
  password : Password := {}
  permissions : Permissions := {}
  deriving Repr, DecidableEq, Inhabited

/-- the fields of `group.Description` that the password branch reads; `users` is the Go map
(at most one entry per name) -/
structure Description where
  allowRecording : Bool := false
  unrestrictedTokens : Bool := false
  users : List (Bytes × UserDescription) := []
  wildcardUser : Option UserDescription := none
  deriving Repr, Inhabited

def Description.lookup (d : Description) (u : Bytes) : Option UserDescription :=
  match d.users.find? (fun e => e.1 = u) with
  | some e => some e.2
  | none => none

/-- `Permissions.Permissions(desc)` with `desc ≠ nil` -/
def Permissions.perms (roles : RoleTable) (p : Permissions) (d : Description) : List String :=
  if p.name = "" then p.permissions
  else
    let perms := (roles.lookup p.name).getD []
    let op := perms.contains "op"
    let present := perms.contains "present"
    let token := perms.contains "token"
    let record := perms.contains "record"
    let perms := if d.allowRecording && (op && !record) then "record" :: perms else perms
    let perms := if d.unrestrictedTokens && (present && !token) then "token" :: perms else perms
    perms

/-- an entry of the obsolete `op`/`presenter`/`other` lists (`ClientPattern`) after decoding -/
structure ClientPattern where
  username : Bytes := []
  password : Option Password := none
  deriving Repr, DecidableEq

def upgradeUser (u : ClientPattern) (role : String) : UserDescription :=
  { password := match u.password with
      | none => { type := "wildcard" }
      | some p => p,
    permissions := { name := role } }

/-- `upgradeUsers(ps, p)` inside `upgradeDescription` -/
def upgradeUsers (d : Description) (ps : List ClientPattern) (role : String) : Description :=
  ps.foldl (fun d u =>
    if u.username = [] then
      match d.wildcardUser with
      | some _ => d
      | none => { d with wildcardUser := some (upgradeUser u role) }
    else
      match d.lookup u.username with
      | some _ => d
      | none => { d with users := d.users ++ [(u.username, upgradeUser u role)] }) d

/-- `upgradeDescription`, as far as users are concerned -/
def upgradeDescription (d : Description) (op presenter other : List ClientPattern) : Description :=
  upgradeUsers (upgradeUsers (upgradeUsers d op "op") presenter "present") other "message"

structure JUser where
  password : JPassword := .absent
  permissions : JPermissions := .absent
  deriving Repr, DecidableEq

structure JPattern where
  username : Bytes := []
  password : JPassword := .absent
  deriving Repr, DecidableEq

/-- the JSON text of a group description, as far as it matters here.  `users` has no duplicate
keys (the generator never produces any; encoding/json would keep the last). -/
structure JDescription where
  allowRecording : Bool := false
  unrestrictedTokens : Bool := false
  users : List (Bytes × JUser) := []
  wildcardUser : Option JUser := none
  op : List JPattern := []
  presenter : List JPattern := []
  other : List JPattern := []
  deriving Repr

def JUser.decode (roles : RoleTable) (j : JUser) : Except Unit UserDescription :=
  match Password.ofJson j.password, Permissions.ofJson roles j.permissions with
  | .ok pw, .ok pm => .ok { password := pw, permissions := pm }
  | _, _ => .error ()

def JPattern.decode (j : JPattern) : Except Unit ClientPattern :=
  match Password.ptrOfJson j.password with
  | .ok p => .ok { username := j.username, password := p }
  | .error e => .error e

def decodeUsers (roles : RoleTable) : List (Bytes × JUser) → Except Unit (List (Bytes × UserDescription))
  | [] => .ok []
  | (n, j) :: rest =>
    match j.decode roles, decodeUsers roles rest with
    | .ok u, .ok r => .ok ((n, u) :: r)
    | _, _ => .error ()

def decodePatterns : List JPattern → Except Unit (List ClientPattern)
  | [] => .ok []
  | j :: rest =>
    match j.decode, decodePatterns rest with
    | .ok u, .ok r => .ok (u :: r)
    | _, _ => .error ()

/-- `readDescription`: JSON decoding followed by `upgradeDescription`; `.error` when the file
does not decode (the group then does not exist) -/
def readDescription (roles : RoleTable) (j : JDescription) : Except Unit Description :=
  match decodeUsers roles j.users,
        (match j.wildcardUser with
          | none => (.ok none : Except Unit (Option UserDescription))
          | some w => match w.decode roles with
            | .ok u => .ok (some u)
            | .error e => .error e),
        decodePatterns j.op, decodePatterns j.presenter, decodePatterns j.other with
  | .ok us, .ok w, .ok o, .ok p, .ok x =>
    .ok (upgradeDescription
      { allowRecording := j.allowRecording, unrestrictedTokens := j.unrestrictedTokens,
        users := us, wildcardUser := w } o p x)
  | _, _, _, _, _ => .error ()

/-! ### usernames -/

/-- components of a path between slashes -/
def splitSlash : Bytes → List Bytes
  | [] => [[]]
  | c :: rest =>
    if c = 47 then [] :: splitSlash rest
    else match splitSlash rest with
      | [] => [[c]]
      | x :: xs => (c :: x) :: xs

/-- `path.Clean("/" ++ name)`, as the stack of components it keeps (rooted case: empty and "."
components are skipped, ".." removes the last kept component if there is one) -/
def cleanComponents (comps : List Bytes) : List Bytes :=
  (comps.foldl (fun (out : List Bytes) c =>
    if c = [] then out
    else if c = [46] then out
    else if c = [46, 46] then out.drop 1
    else c :: out) []).reverse

def joinSlash : List Bytes → Bytes
  | [] => []
  | c :: rest => 47 :: c ++ joinSlash rest

/-- `path.Clean("/" ++ name)` -/
def cleanRooted (name : Bytes) : Bytes :=
  match cleanComponents (splitSlash name) with
  | [] => [47]
  | cs => joinSlash cs

/-- `validGroupName` on a system whose path separator is '/' -/
def validGroupName (name : Bytes) : Bool :=
  if name.contains 92 then false
  else
    let s := cleanRooted name
    if s = [47] then false
    else decide (s = 47 :: name)

def validUsername (u : Bytes) : Bool := u = [] || validGroupName u

/-! ### login -/

inductive LoginErr where
  | pw (e : MatchErr)
  | badPassword
  | noSuchUser
  | invalidUsername
  | neither
  deriving Repr, DecidableEq

/-- `Description.getPasswordPermission` (`creds.Username ≠ nil`) -/
def getPasswordPermission (H : Hash) (d : Description) (u pw : Bytes) : Except LoginErr Permissions :=
  match d.lookup u with
  | some c =>
    match c.password.matchPw H pw with
    | .error e => .error (.pw e)
    | .ok true => .ok c.permissions
    | .ok false => .error .badPassword
  | none =>
    match d.wildcardUser with
    | some w =>
      match w.password.matchPw H pw with
      | .ok true => .ok w.permissions
      | _ => .error .noSuchUser
    | none => .error .noSuchUser

/-- `Description.GetPermission` with an empty token: `user = none` is the nil `*string`.  Note the
order: the password is checked before the username is validated. -/
def getPermission (H : Hash) (roles : RoleTable) (d : Description) (user : Option Bytes) (pw : Bytes) :
    Except LoginErr (Bytes × List String) :=
  match user with
  | none => .error .neither
  | some u =>
    match getPasswordPermission H d u pw with
    | .error e => .error e
    | .ok ps =>
      let perms := ps.perms roles d
      if validUsername u then .ok (u, perms) else .error .invalidUsername

/-! ### joining and moderation -/

structure Member where
  id : String
  username : Bytes
  perms : List String
  deriving Repr, DecidableEq

inductive JoinErr where
  | login (e : LoginErr)
  | emptyId
  | duplicateId
  deriving Repr, DecidableEq

/-- `group.AddClient` for a non-system client with an empty token, in a group that is not
locked, has no `not-before`/`expires`/`max-clients` and no autokick (the generator's
descriptions).  Returns the group's member list afterwards and what the caller sees: the client
becomes a member iff `GetPermission` succeeds and its id is non-empty and fresh. -/
def addClient (H : Hash) (roles : RoleTable) (d : Description) (members : List Member)
    (id : String) (user : Option Bytes) (pw : Bytes) : List Member × Except JoinErr (List String) :=
  match getPermission H roles d user pw with
  | .error e => (members, .error (.login e))
  | .ok (u, perms) =>
    if id = "" then (members, .error .emptyId)
    else if members.any (fun m => m.id = id) then (members, .error .duplicateId)
    else (members ++ [{ id := id, username := u, perms := perms }], .ok perms)

/-- `remove(v, l)`: since 391656f every occurrence is dropped (before, only the first one:
a permission held twice survived its revocation) -/
def remove (v : String) : List String → List String
  | [] => []
  | w :: rest => if v = w then remove v rest else w :: remove v rest

/-- `addnew(v, l)` -/
def addnew (v : String) (l : List String) : List String :=
  if l.contains v then l else l ++ [v]

/-- `handleAction(c, changePermissionsAction{kind})` on a member of a group -/
def changePermissions (kind : String) (allowRecording : Bool) (perms : List String) : Option (List String) :=
  if kind = "op" then
    let p := addnew "op" perms
    some (if allowRecording then addnew "record" p else p)
  else if kind = "unop" then some (remove "record" (remove "op" perms))
  else if kind = "present" then some (addnew "present" perms)
  else if kind = "unpresent" then some (remove "present" perms)
  else if kind = "shutup" then some (remove "message" perms)
  else if kind = "unshutup" then some (addnew "message" perms)
  else none

/-! ### galenectl makePassword -/

inductive MakeResult where
  | ok (p : Password)
  | err
  /-- `make([]byte, saltlen)` with a negative length, or `dk[:keyLen]` with a negative length -/
  | panic
  /-- `log.Fatalf("Wildcard password must be the empty string")` -/
  | fatal
  deriving Repr, DecidableEq

/-- `makePassword(pw, algorithm, iterations, length, saltlen, cost)`.  `salt` is what
`rand.Read` put into the `saltlen` bytes, `rnd` the randomness bcrypt draws its own salt from. -/
def makePassword (H : Hash) (pw : Bytes) (algorithm : String) (iterations length saltlen cost : Int)
    (salt rnd : Bytes) : MakeResult :=
  if saltlen < 0 then .panic
  else if algorithm = "pbkdf2" then
    if length < 0 then .panic
    else
      let key := H.pbkdf2 pw salt iterations length.toNat
      .ok { type := "pbkdf2", hash := "sha-256", key := some (hexEncode key), salt := hexEncode salt,
            iterations := iterations }
  else if algorithm = "bcrypt" then
    match H.bcryptGenerate pw cost rnd with
    | .error _ => .err
    | .ok k => .ok { type := "bcrypt", key := some k }
  else if algorithm = "wildcard" then
    if pw ≠ [] then .fatal else .ok { type := "wildcard" }
  else .err

/-! ### what bcrypt actually hashes

`bcrypt` feeds `password ++ [0]` to Blowfish's `ExpandKey`, which reads 18 32-bit words = 72 bytes
from the key, cycling through it.  So the hash depends on the password only through this
72-byte stream. -/

/-- the first `n` bytes of `key` repeated for ever (`key ≠ []`) -/
def cycle (key : Bytes) (n : Nat) : Bytes :=
  (List.range n).map (fun i => key.getD (i % key.length) 0)

def bcryptStream (pw : Bytes) : Bytes := cycle (pw ++ [0]) 72

end Galene.Auth
