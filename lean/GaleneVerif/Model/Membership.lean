/-
Abstract model of the user-list announcements of one group (C14).

Members have an id and attributes (user name, permissions, data); every member
owns a FIFO of `user` events (its action queue followed by its websocket) and a
view folded from the events it has consumed, the way static/protocol.js folds
them (`add`/`change` set the entry, `delete` removes it).

Two kinds of steps:
* the **synchronous** ones — what group.AddClient and group.DelClient do while
  holding the group lock, and what a change would be if it were announced
  inline: `join`, `leave`, `change` append the events to every member's FIFO in
  one atomic step;
* the **detached** ones — what permissionsChangedAction and useraction/setdata do
  today: `changeDetached` updates the member and creates a *task* (a goroutine)
  holding the event and the snapshot of recipients; `taskDeliver` hands the
  event to one recipient at a later time.
The executable world model (Model/Signalling.lean, differential-tested) has the
same structure: `broadcastChange` is the task, the mock's `parked` list the
pending recipients.
-/
namespace Galene.Membership

abbrev Id := String

structure Attr where
  username : String := ""
  perms : List String := []
  data : String := ""
  deriving Repr, DecidableEq, Inhabited

inductive Ev where
  | add (id : Id) (a : Attr)
  | change (id : Id) (a : Attr)
  | delete (id : Id)
  deriving Repr, DecidableEq, Inhabited

/-- a user list, as a finite map -/
abbrev View := Id → Option Attr

def upd (v : View) (id : Id) (x : Option Attr) : View := fun j => if j = id then x else v j

/-- static/protocol.js, `case 'user'` -/
def fold (v : View) : Ev → View
  | .add id a => upd v id (some a)
  | .change id a => upd v id (some a)
  | .delete id => upd v id none

structure Member where
  id : Id
  attr : Attr := {}
  queue : List Ev := []
  view : View := fun _ => none

structure Task where
  ev : Ev
  pending : List Id

structure St where
  members : List Member := []
  tasks : List Task := []

def St.ids (s : St) : List Id := s.members.map (·.id)

/-- the actual membership, as a finite map (Group.GetClients) -/
def St.truth (s : St) : View := fun j => (s.members.find? (·.id = j)).map (·.attr)

def St.quiescent (s : St) : Prop := (∀ m ∈ s.members, m.queue = []) ∧ s.tasks = []

def pushAll (ms : List Member) (e : Ev) : List Member := ms.map fun m => { m with queue := m.queue ++ [e] }

inductive Step where
  | join (x : Id) (a : Attr)
  | leave (x : Id)
  | change (x : Id) (a : Attr)
  | deliver (k : Id)
  | changeDetached (x : Id) (a : Attr)
  | taskDeliver (t : Nat) (k : Id)

def St.step (s : St) : Step → St
  | .join x a =>
    if x ∈ s.ids then s else
    { s with members := pushAll s.members (.add x a) ++
        [{ id := x, attr := a, queue := .add x a :: s.members.map (fun m => .add m.id m.attr) }] }
  | .leave x => { s with members := pushAll (s.members.filter (·.id ≠ x)) (.delete x) }
  | .change x a =>
    if x ∈ s.ids then
      { s with members := pushAll (s.members.map fun m => if m.id = x then { m with attr := a } else m) (.change x a) }
    else s
  | .deliver k =>
    { s with members := s.members.map fun m =>
        if m.id = k then
          match m.queue with
          | [] => m
          | e :: r => { m with queue := r, view := fold m.view e }
        else m }
  | .changeDetached x a =>
    if x ∈ s.ids then
      { members := s.members.map fun m => if m.id = x then { m with attr := a } else m,
        tasks := s.tasks ++ [{ ev := .change x a, pending := s.ids }] }
    else s
  | .taskDeliver t k =>
    match s.tasks[t]? with
    | none => s
    | some tk =>
      if k ∈ tk.pending then
        let rest := tk.pending.filter (· ≠ k)
        { members := s.members.map fun m => if m.id = k then { m with queue := m.queue ++ [tk.ev] } else m,
          tasks := if rest.isEmpty then s.tasks.eraseIdx t else s.tasks.set t { tk with pending := rest } }
      else s

def Step.sync : Step → Bool
  | .changeDetached .. => false
  | .taskDeliver .. => false
  | _ => true

def run (s : St) (steps : List Step) : St := steps.foldl St.step s

end Galene.Membership
