/-
Model of packetcache.Cache's packet ring (packetcache/packetcache.go):
Store (ring part), get/Get, GetAt, resize, Resize, ResizeCond.

Machine integers are `Nat`; the capacity is `entries.length` (1..65535 in the
property's quantifier).  A slot with `len = 0 ∧ marker = false` is Go's
`lengthAndMarker == 0`, i.e. an empty slot.  `bytes` is `buf[:len]`; bytes of
the Go array beyond `len` are not observable through Get/GetAt (both slice to
`length()`), so they are not modelled.  Precondition of `store`:
`bytes.length ≤ BufSize` (the harness never stores more; see DESIGN C05).
-/
namespace Galene.Cache

structure Slot where
  seqno : Nat
  marker : Bool
  ts : Nat
  bytes : List Nat
  deriving Repr, DecidableEq, Inhabited

def Slot.zero : Slot := { seqno := 0, marker := false, ts := 0, bytes := [] }

/-- Go: `lengthAndMarker == 0`. -/
def Slot.isEmpty (e : Slot) : Bool := e.bytes.length == 0 && !e.marker

structure Ring where
  entries : List Slot
  tail : Nat
  deriving Repr

def new (cap : Nat) : Ring := { entries := List.replicate cap Slot.zero, tail := 0 }

def Ring.cap (c : Ring) : Nat := c.entries.length

/-- Ring part of `Cache.Store`; returns the new ring and the slot index used. -/
def store (c : Ring) (p : Slot) : Ring × Nat :=
  ({ entries := c.entries.set c.tail p, tail := (c.tail + 1) % c.entries.length }, c.tail)

/-- Go `get`: first slot in index order that is non-empty and has this seqno. -/
def find (s : Nat) : List Slot → Option Slot
  | [] => none
  | e :: es => if !e.isEmpty && e.seqno == s then some e else find s es

/-- `Cache.Get` with a full-size result buffer: number of bytes and the bytes. -/
def get (c : Ring) (s : Nat) : Option Slot := find s c.entries

/-- `Cache.GetAt`. -/
def getAt (c : Ring) (s idx : Nat) : Option Slot :=
  match c.entries[idx]? with
  | none => none
  | some e => if e.seqno == s then some e else none

/-- `Cache.resize`, the three copy patterns. -/
def resize (c : Ring) (capacity : Nat) : Ring :=
  let n := c.entries.length
  if n = capacity then c
  else if capacity > n then
    { entries := c.entries.take c.tail ++ (List.replicate (capacity - n) Slot.zero ++ c.entries.drop c.tail),
      tail := c.tail }
  else if capacity > c.tail then
    { entries := c.entries.take c.tail ++ c.entries.drop (c.tail + n - capacity),
      tail := c.tail }
  else
    { entries := (c.entries.drop (c.tail - capacity)).take capacity, tail := 0 }

/-- `Cache.ResizeCond`. -/
def resizeCond (c : Ring) (capacity : Nat) : Ring × Bool :=
  let current := c.entries.length
  if current ≥ capacity * 3 / 4 && current < capacity * 2 then (c, false)
  else if capacity < current && c.tail > capacity then (c, false)
  else (resize c capacity, true)

end Galene.Cache
