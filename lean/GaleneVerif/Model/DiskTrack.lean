import GaleneVerif.Model.Codecs
import GaleneVerif.Model.Cache
/-
Model of galene's own part of the disk recorder (diskwriter/diskwriter.go) and
of rtptime/rtptime.go:

* `gapStep`      — the sequence-number logic at the head of `diskTrack.Write`
                   (first packet; forward jump < 256 ⇒ fetch every missing seqno in
                   order; forward jump ≥ 256 ⇒ keyframe request; backward jump ≥ 512
                   ⇒ forget lastSeqno and request a keyframe),
* `fetched`      — what `fetch` hands to `writeRTP` for a packet found in the
                   publisher's cache: the *whole 1504-byte buffer* is unmarshalled,
                   not the `n` bytes that `GetPacket` returned (P22),
* `setOrigin`, `setTimeOffset`, `adjustOrigin` with rtptime's conversions as
                   integer functions,
* `wb`           — `writeBuffered`: for every sample the builder returns, the
                   "late before origin" drop (up to `lateThreshold` ticks before the
                   origin), the 2^31 wrap ⇒ `conn.close()`,
                   keyframe gating / `initWriter`, and the block timestamp
                   `(ts - origin) / (clockrate / 1000)`; `conn.close()` (flush of
                   every track, re-entrantly) is `closeAll`,
* `writeRTP`, `writeOp` — the composition executed by `diskTrack.Write`.

The sample builder (jech/samplebuilder) and the container writer (ebml-go) are
third-party and are NOT modelled: the samples a `Pop` returns are an input of the
model (`Env.sample`, read from the implementation's observed behaviour by the
correspondence engine; universally quantified in the theorems), and the blocks
handed to the container are an output (`Out.write`).

Machine integers are `Nat` with explicit reduction; times are `Int` nanoseconds
since the NTP epoch (1900-01-01).  The wall clock enters `setOrigin` only through
the local origin (`LocalTime`): on the `Write` path it is the real clock
(`LocalTime.real`) and the elapsed time since the local origin is an input
(`Env.origin`: the origin the implementation chose), in the unit-level ops it is
an explicit virtual time.
-/
namespace Galene.DiskTrack
open Galene.Codecs (Bytes)

/-! ### machine arithmetic -/

def two16 : Nat := 65536
def two32 : Nat := 4294967296
def two31 : Nat := 2147483648
def two64 : Nat := 18446744073709551616

/-- Go `a - b` on `uint16` -/
def sub16 (a b : Nat) : Nat := (a % two16 + two16 - b % two16) % two16
/-- Go `a - b` on `uint32` -/
def sub32 (a b : Nat) : Nat := (a % two32 + two32 - b % two32) % two32
/-- Go `a + b` on `uint32` -/
def add32 (a b : Nat) : Nat := (a + b) % two32
/-- Go `uint32(x)` for an `int64` (two's complement truncation) -/
def u32 (x : Int) : Nat := (x % (two32 : Int)).toNat
/-- Go `int32(x)` for a `uint32` -/
def i32 (x : Nat) : Int := if x % two32 < two31 then ((x % two32 : Nat) : Int) else ((x % two32 : Nat) : Int) - (two32 : Int)

/-! ### rtptime -/

def second : Nat := 1000000000

/-- `rtptime.FromDuration(d, hz)` (d in ns).  Exact for `hz ≤ 10^9` (no overflow of
the 128/64 division, result fits int64). -/
def fromDuration (d : Int) (hz : Nat) : Int :=
  if d < 0 then -(((-d).toNat * hz / second : Nat) : Int) else ((d.toNat * hz / second : Nat) : Int)

/-- `rtptime.ToDuration(tm, hz)`; Go panics (division by zero) when `hz = 0`:
callers pass a codec clock rate. -/
def toDuration (tm : Int) (hz : Nat) : Int :=
  if tm < 0 then -(((-tm).toNat * second / hz : Nat) : Int) else ((tm.toNat * second / hz : Nat) : Int)

/-- `rtptime.NTPToTime(ntp)` as ns since the NTP epoch -/
def ntpToTime (ntp : Nat) : Int :=
  let sec := ntp / two32 % two32
  let frac := ntp % two32
  ((sec * second + frac * second / two32 : Nat) : Int)

/-- `rtptime.TimeToNTP(tm)`: Go's truncated `/` and `%` on the (possibly negative)
duration since the NTP epoch, `uint32` truncation of both parts, sum in `uint64`. -/
def timeToNTP (tm : Int) : Nat :=
  let sec := u32 (Int.tdiv tm (second : Int))
  let frac := u32 (Int.tmod tm (second : Int))
  (sec * two32 + frac * two32 / second) % two64

/-! ### the sequence-number logic of `Write` -/

structure GapResult where
  fetches : List Nat        -- seqnos handed to `fetch`, in order
  kfreq : Bool              -- `requestKeyframe` called
  last : Option Nat         -- new `lastSeqno`
  deriving Repr, DecidableEq

def gapStep (last : Option Nat) (seq : Nat) : GapResult :=
  match last with
  | none => { fetches := [], kfreq := false, last := some seq }
  | some l =>
    if sub16 seq l < 32768 then
      -- jump forward
      let count := sub16 seq l
      if count < 256 then
        { fetches := (List.range (count - 1)).map (fun i => (l + (i + 1)) % two16), kfreq := false, last := some seq }
      else { fetches := [], kfreq := true, last := some seq }
    else
      -- jump backward
      let count := sub16 l seq
      if count ≥ 512 then { fetches := [], kfreq := true, last := none }
      else { fetches := [], kfreq := false, last := some l }

/-! ### `fetch` -/

def bufSize : Nat := 1504

/-- What `fetch` unmarshals for a cache hit of `n = bytes.length` bytes: the fresh
1504-byte buffer with the packet copied to its start.  (`buf[:n]` would be `bytes`.) -/
def fetched (bytes : Bytes) : Bytes := bytes ++ List.replicate (bufSize - bytes.length) 0

/-- Repairs of galene's code that the model can follow (all `false`: the code as pinned).
`codeFixes` below says which of them the code under test has; the theorems are stated for both
values where the repair matters. -/
structure Fixes where
  /-- P22: `fetch` unmarshals `buf[:n]` instead of the whole buffer -/
  fetchSlice : Bool := false
  /-- P23: `conn.close()` flushes every track before it closes any writer -/
  closeTwoPass : Bool := false
  /-- P24: on a change of dimensions (`initWriter`) and on a 2^31 timestamp wrap (`writeBuffered`)
  the file is closed WITHOUT force-flushing the sample builders (`closeFile`), and `initWriter`
  gives the track an origin (`setOrigin(ts, now, rate)`) when it has none instead of `adjustOrigin` -/
  dimFix : Bool := false
  /-- the late/wrap threshold of `writeBuffered` is 2^30 instead of 2^16: a sample up to 2^30 ticks before
  the origin is late (dropped); only beyond that has the timestamp gone around 2^31 (`closeFile`) -/
  lateWide : Bool := false
  deriving Repr, DecidableEq

/-- the code under test (flip a field when the corresponding `fix:` commit is in /repo) -/
def codeFixes : Fixes := { fetchSlice := true, closeTwoPass := true, dimFix := true, lateWide := true }

/-- what `fetch` unmarshals of a cache entry's bytes -/
def fetchView (fx : Fixes) : Bytes → Bytes := if fx.fetchSlice then id else fetched

structure Pkt where
  seq : Nat
  ts : Nat
  payload : Bytes
  deriving Repr, DecidableEq

def be16 (b : Bytes) (i : Nat) : Nat := b.getD i 0 * 256 + b.getD (i + 1) 0
def be32 (b : Bytes) (i : Nat) : Nat := ((b.getD i 0 * 256 + b.getD (i + 1) 0) * 256 + b.getD (i + 2) 0) * 256 + b.getD (i + 3) 0

/-- `rtp.Packet.Unmarshal`: sequence number, timestamp, payload (padding removed);
`none` = error return. -/
def unmarshal (b : Bytes) : Option Pkt :=
  match Galene.Codecs.rtpUnmarshal b with
  | .ok h => some { seq := be16 b 2, ts := be32 b 4, payload := (b.take h.payloadEnd).drop h.payloadStart }
  | .error _ => none

/-! ### state -/

structure Track where
  codec : String
  rate : Nat
  lastSeqno : Option Nat := none
  origin : Option Nat := none
  remoteNTP : Nat := 0
  remoteRTP : Nat := 0
  /-- timestamp and payload of `savedKf` -/
  savedKf : Option (Nat × Bytes) := none
  /-- `time.Since(lastKf) ≤ 4 s`: true once a keyframe start has been seen (a case
  of the correspondence run lasts far less than 4 s) -/
  kfRecent : Bool := false
  writer : Bool := false
  deriving Repr, Inhabited

/-- `len(codec) > 6 && strings.EqualFold(codec[:6], "video/")` -/
def isVideo (codec : String) : Bool :=
  codec.length > 6 && Galene.Codecs.lower (String.ofList (codec.toList.take 6)) == "video/"

inductive LocalTime where
  | zero                 -- `time.Time{}`
  | real                 -- a wall-clock reading
  | virt (ns : Int)      -- explicit time (ns since the NTP epoch)
  deriving Repr, DecidableEq, Inhabited

structure Conn where
  tracks : List Track
  hasVideo : Bool
  originLocal : LocalTime := .zero
  originRemote : Nat := 0
  fileOpen : Bool := false
  width : Nat := 0
  height : Nat := 0
  deriving Repr, Inhabited

def Conn.track (c : Conn) (i : Nat) : Track := c.tracks.getD i default
def Conn.setTrack (c : Conn) (i : Nat) (t : Track) : Conn := { c with tracks := c.tracks.set i t }
def Conn.modTrack (c : Conn) (i : Nat) (f : Track → Track) : Conn := c.setTrack i (f (c.track i))

/-! ### origins -/

/-- the closure `sub` of `setOrigin` -/
def subTs (a b hz : Nat) : Int := toDuration (i32 (sub32 a b)) hz

/-- the remote time of timestamp `ts` according to the track's last sender report -/
def remoteOf (t : Track) (ts hz : Nat) : Int := ntpToTime t.remoteNTP + subTs ts t.remoteRTP hz

/-- Elapsed local time `now - originLocal` needed by the third branch of `setOrigin`. -/
inductive Elapsed where
  | ns (d : Int)                             -- known (virtual clock)
  | observed (origin : Nat) (remote : Nat)   -- wall clock: the values the implementation stored
  deriving Repr

/-- `setOrigin(ts, now, clockrate)`.  `now` is `nowT`; `el` is `now - originLocal`
(only used when the local origin is set and the remote origins are not both known). -/
def setOrigin (c : Conn) (ti ts : Nat) (nowT : LocalTime) (el : Elapsed) (hz : Nat) : Conn :=
  let t := c.track ti
  if c.originLocal = .zero then
    let c := c.setTrack ti { t with origin := some (ts % two32) }
    { c with originLocal := nowT,
             originRemote := if t.remoteNTP ≠ 0 then timeToNTP (remoteOf t ts hz) else 0 }
  else if c.originRemote ≠ 0 ∧ t.remoteNTP ≠ 0 then
    let delta := fromDuration (remoteOf t ts hz - ntpToTime c.originRemote) hz
    c.setTrack ti { t with origin := some (sub32 ts (u32 delta)) }
  else
    match el with
    | .ns d =>
      let delta := fromDuration d hz
      let c := c.setTrack ti { t with origin := some (sub32 ts (u32 delta)) }
      if t.remoteNTP ≠ 0 then { c with originRemote := timeToNTP (remoteOf t ts hz - d) } else c
    | .observed o r =>
      let c := c.setTrack ti { t with origin := some (o % two32) }
      if t.remoteNTP ≠ 0 then { c with originRemote := r } else c

/-- `setTimeOffset(ntp, rtp, clockrate)` -/
def setTimeOffset (c : Conn) (ti ntp rtp hz : Nat) : Conn :=
  let t := c.track ti
  let c :=
    match t.origin with
    | none => c
    | some o =>
      let loc := toDuration (i32 (sub32 rtp o)) hz
      if c.originRemote = 0 then
        { c with originRemote := timeToNTP (ntpToTime ntp - loc) }
      else
        let remote := ntpToTime ntp - ntpToTime c.originRemote
        let delta := fromDuration (remote - loc) hz
        c.setTrack ti { t with origin := some (sub32 o (u32 delta)) }
  c.modTrack ti fun t => { t with remoteNTP := ntp, remoteRTP := rtp % two32 }

def LocalTime.add (l : LocalTime) (d : Int) : LocalTime :=
  match l with
  | .zero => .zero
  | .real => .real
  | .virt ns => .virt (ns + d)

/-- `adjustOrigin(ts)`: move every origin of the connection so that track `ti`'s
origin becomes (up to the rounding of the two conversions) `ts`. -/
def adjustOrigin (c : Conn) (ti ts : Nat) : Conn :=
  let t := c.track ti
  match t.origin with
  | none => c
  | some o =>
    if o = ts % two32 then c else
    let offset := toDuration (i32 (sub32 ts o)) t.rate
    { c with
      originLocal := c.originLocal.add offset,
      originRemote := if c.originRemote ≠ 0 then timeToNTP (ntpToTime c.originRemote + offset) else 0,
      tracks := c.tracks.map fun tt =>
        match tt.origin with
        | none => tt
        | some oo => { tt with origin := some (add32 oo (u32 (fromDuration offset tt.rate))) } }

/-! ### `writeBuffered` -/

/-- what the environment (sample builder, wall clock) answers, in order -/
inductive Env where
  | sample (trk ts : Nat)            -- `Pop` returned a sample with this timestamp
  | fail (trk ts : Nat)              -- `Pop` returned nil after a depacketizer error
  | origin (trk o remote : Nat)      -- the origin `setOrigin` stored (wall clock)
  | mark                             -- a later `writeRTP` begins here: `Pop` returned nil
  deriving Repr, DecidableEq

inductive Out where
  | fetch (seq n : Nat)
  | kfreq
  | rtp
  | origin (trk o : Nat)
  | sample (trk ts : Nat)
  | fail (trk ts : Nat)
  | write (trk : Nat) (kf : Bool) (tm : Nat)
  | init (ext : String) (w h : Nat)
  | closeW (trk : Nat)
  | panic (what : String)
  deriving Repr, DecidableEq

inductive Late where
  | ok | drop | wrap
  deriving Repr, DecidableEq

/-- `value(t.origin)-ts < lim` tells a late sample from a timestamp that has gone around 2^31:
`0x10000` in the pinned code, `0x40000000` after the repair (`Fixes.lateWide`) -/
def lateThreshold (fx : Fixes) : Nat := if fx.lateWide then 0x40000000 else 0x10000

/-- the test at the head of the loop body; `lim` is `lateThreshold fx` -/
def lateCheck (lim : Nat) (origin : Option Nat) (ts : Nat) : Late :=
  match origin with
  | none => .ok
  | some o =>
    if i32 (sub32 ts o) < 0 then
      if sub32 o ts < lim then .drop else .wrap
    else .ok

/-- `(ts - origin) / (clockrate / 1000)` in `uint32` -/
def blockTime (origin ts rate : Nat) : Nat := sub32 ts origin / (rate / 1000)

def extension (c : Conn) : String :=
  if c.tracks.any (fun t => Galene.Codecs.isCodec t.codec "video/h264") then "mkv" else "webm"

def dims (t : Track) : Nat × Nat :=
  match t.savedKf with
  | none => (0, 0)
  | some (_, payload) =>
    match Galene.Codecs.keyframeDimensions t.codec payload with
    | .ok d => d
    | .error _ => (0, 0)

/-- the call of `setOrigin` from `writeRTP` (wall clock) -/
def setOriginNow (c : Conn) (ti ts : Nat) (env : List Env) : Conn × List Env × List Out :=
  let t := c.track ti
  -- the third branch needs the elapsed time: read what the implementation stored
  let third := !(c.originLocal = .zero) && !(c.originRemote ≠ 0 && t.remoteNTP ≠ 0)
  match env with
  | Env.origin trk o r :: rest =>
    if trk ≠ ti then (c, env, [Out.panic "origin event of another track"]) else
    -- the wall clock is trusted only within a minute of elapsed time (in either direction:
    -- adjustOrigin may have moved the local origin past the current time)
    if third && (i32 (sub32 ts o)).natAbs > 60 * t.rate then (c, rest, [Out.panic "implausible origin"]) else
    let c' := setOrigin c ti ts .real (if third then .observed o r else .ns 0) t.rate
    (c', rest, [Out.origin ti (((c'.track ti).origin).getD 0)])
  | _ =>
    let c' := setOrigin c ti ts .real (.ns 0) t.rate
    (c', env, [Out.origin ti (((c'.track ti).origin).getD 0)])

abbrev WB := Conn → Nat → Bool → List Env → Conn × List Env × List Out

/-- `conn.close()`: flush (force-pop) every track, close its writer, forget its origin, reset the
connection's origins.  The pinned code does this track by track (a file created by the flush of a
later track leaves the earlier track's new writer open); with `closeTwoPass` every track is flushed
first.  `flush = false` is `closeFile` of the repaired code: no flush. -/
def closeAll (fx : Fixes) (rec : WB) (c : Conn) (env : List Env) (flush : Bool := true) :
    Conn × List Env × List Out :=
  let reset (c : Conn) : Conn := { c with originLocal := .zero, originRemote := 0 }
  let finish (c : Conn) (i : Nat) : Conn × List Out :=
    let t := c.track i
    (c.setTrack i { t with writer := false, origin := none }, if t.writer then [Out.closeW i] else [])
  let idx := List.range c.tracks.length
  let closeLoop (c : Conn) (out : List Out) : Conn × List Out :=
    idx.foldl
      (fun (acc : Conn × List Out) i =>
        let (c, out) := acc
        let (c, o) := finish c i
        (c, out ++ o))
      (c, out)
  let (c, env, out) :=
    if !flush then
      let (c, out) := closeLoop (reset c) []
      (c, env, out)
    else if fx.closeTwoPass then
      let (c, env, out) := idx.foldl
        (fun (acc : Conn × List Env × List Out) i =>
          let (c, env, out) := acc
          let (c, env, o) := rec c i true env
          (c, env, out ++ o))
        (c, env, [])
      let (c, out) := closeLoop (reset c) out
      (c, env, out)
    else
      idx.foldl
        (fun (acc : Conn × List Env × List Out) i =>
          let (c, env, out) := acc
          let (c, env, o) := rec c i true env
          let (c, o2) := finish c i
          (c, env, out ++ o ++ o2))
        (reset c, env, [])
  ({ c with fileOpen := false }, env, out)

/-- `initWriter(width, height, track, ts)` (the file system and the container
library never fail in the model) -/
def initWriter (fx : Fixes) (rec : WB) (c : Conn) (w h ti ts : Nat) (env : List Env) : Conn × List Env × List Out :=
  if c.fileOpen ∧ w = c.width ∧ h = c.height then (c, env, [])
  else
    let (c, env, out) := if c.fileOpen then closeAll fx rec c env (flush := !fx.dimFix) else (c, env, [])
    let (c, env, oo) :=
      if fx.dimFix && (c.track ti).origin.isNone then setOriginNow c ti ts env
      else (adjustOrigin c ti ts, env, [])
    let c := { c with fileOpen := true, width := w, height := h,
                      tracks := c.tracks.map fun t => { t with writer := true } }
    (c, env, out ++ [Out.init (extension c) w h] ++ oo)

/-- `writeBuffered(force)` for track `ti`; `fuel` bounds the recursion (one unit per
sample consumed or nested call). -/
def wb (fx : Fixes) : Nat → WB
  | 0, c, _, _, env => (c, env, [Out.panic "fuel"])
  | fuel + 1, c, ti, force, env =>
    match env with
    | Env.fail trk ts :: rest =>
      if trk ≠ ti then (c, env, []) else (c, rest, [Out.fail trk ts])
    | Env.sample trk ts :: rest =>
      if trk ≠ ti then (c, env, []) else
      let t := c.track ti
      let pre := [Out.sample trk ts]
      match lateCheck (lateThreshold fx) t.origin ts with
      | .drop =>
        let (c, env, o) := wb fx fuel c ti force rest
        (c, env, pre ++ o)
      | late =>
        let (c, env, o1) := if late = .wrap then closeAll fx (wb fx fuel) c rest (flush := !fx.dimFix) else (c, rest, [])
        let t := c.track ti
        let video := isVideo t.codec
        let keyframe := if video then (match t.savedKf with | none => false | some (kts, _) => ts % two32 = kts) else true
        let (c, env, o2) :=
          if video then
            if keyframe then
              let (w, h) := dims t
              initWriter fx (wb fx fuel) c w h ti ts env
            else (c, env, [])
          else if !t.writer && !c.hasVideo then initWriter fx (wb fx fuel) c 0 0 ti ts env
          else (c, env, [])
        let t := c.track ti
        if !t.writer then
          let (c, env, o) := wb fx fuel c ti force env
          (c, env, pre ++ o1 ++ o2 ++ o)
        else
          match t.origin with
          | none => (c, env, pre ++ o1 ++ o2)          -- "Invalid origin": return
          | some o =>
            if t.rate / 1000 = 0 then (c, env, pre ++ o1 ++ o2 ++ [Out.panic "integer divide by zero"]) else
            let w := Out.write ti keyframe (blockTime o ts t.rate)
            let (c, env, o3) := wb fx fuel c ti force env
            (c, env, pre ++ o1 ++ o2 ++ [w] ++ o3)
    | _ => (c, env, [])

/-! ### `writeRTP` and `Write` -/

/-- per-op bookkeeping: has `RequestKeyframe` reached the publisher in this op
(requestKeyframe's 500 ms rate limit: only the first request of an op goes through) -/
structure OpSt where
  kfSent : Bool := false

def requestKeyframe (s : OpSt) : OpSt × List Out :=
  if s.kfSent then (s, []) else ({ kfSent := true }, [Out.kfreq])

def fuelFor (env : List Env) : Nat := 2 * env.length + 8

def writeRTP (fx : Fixes) (c : Conn) (s : OpSt) (ti : Nat) (p : Pkt) (env : List Env) : Conn × OpSt × List Env × List Out :=
  let t := c.track ti
  let out := [Out.rtp]
  let env := match env with
    | Env.mark :: rest => rest
    | _ => env
  let (c, s, env, out) :=
    if isVideo t.codec then
      let kf := match Galene.Codecs.keyframe t.codec p.payload with
        | .ok (k, _) => k
        | .error _ => false
      if kf then
        let c := c.setTrack ti { t with savedKf := some (p.ts, p.payload), kfRecent := true }
        if (c.track ti).origin.isNone then
          let (c, env, o) := setOriginNow c ti p.ts env
          (c, s, env, out ++ o)
        else (c, s, env, out)
      else if !t.kfRecent then
        let (s, o) := requestKeyframe s
        (c, s, env, out ++ o)
      else (c, s, env, out)
    else (c, s, env, out)
  let (c, env, out) :=
    if (c.track ti).origin.isNone && (!c.hasVideo || !(c.originLocal = .zero)) then
      let (c, env, o) := setOriginNow c ti p.ts env
      (c, env, out ++ o)
    else (c, env, out)
  -- builder.Push(p): third-party; writeBuffered(false)
  let (c, env, o) := wb fx (fuelFor env) c ti false env
  (c, s, env, out ++ o)

structure WriteResult where
  conn : Conn
  n : Nat                 -- Write's first result
  out : List Out
  rest : List Env         -- unconsumed environment events (must be empty)
  pushed : List Pkt       -- packets handed to the builder, in order
  deriving Repr

/-- `fetch(t, seqno)` for every missing seqno.  `fetchView fx` is what `fetch` unmarshals of the
cache's answer: `fetched` (the whole buffer) in the pinned code, `id` (`buf[:n]`) after the repair of P22. -/
def fetchAll (fx : Fixes) (cache : Galene.Cache.Ring) (ti : Nat) :
    List Nat → Conn → OpSt → List Env → List Out → List Pkt → Conn × OpSt × List Env × List Out × List Pkt
  | [], c, s, env, out, ps => (c, s, env, out, ps)
  | q :: qs, c, s, env, out, ps =>
    match Galene.Cache.get cache q with
    | none => fetchAll fx cache ti qs c s env (out ++ [Out.fetch q 0]) ps
    | some slot =>
      if slot.bytes.length = 0 then fetchAll fx cache ti qs c s env (out ++ [Out.fetch q 0]) ps else
      let out := out ++ [Out.fetch q slot.bytes.length]
      match unmarshal (fetchView fx slot.bytes) with
      | none => fetchAll fx cache ti qs c s env out ps
      | some p =>
        let (c, s, env, o) := writeRTP fx c s ti p env
        fetchAll fx cache ti qs c s env (out ++ o) (ps ++ [p])

/-- `diskTrack.Write(buf)` -/
def writeOp (c : Conn) (cache : Galene.Cache.Ring) (ti : Nat) (buf : Bytes) (env : List Env)
    (fx : Fixes := codeFixes) : WriteResult :=
  match unmarshal buf with
  | none => { conn := c, n := 0, out := [], rest := env, pushed := [] }
  | some p =>
    let t := c.track ti
    let g := gapStep t.lastSeqno p.seq
    let (c, s, env, out, ps) := fetchAll fx cache ti g.fetches c {} env [] []
    let (s, o) := if g.kfreq then requestKeyframe s else (s, [])
    let c := c.modTrack ti fun t => { t with lastSeqno := g.last }
    let (c, _, env, o2) := writeRTP fx c s ti p env
    { conn := c, n := buf.length, out := out ++ o ++ o2, rest := env, pushed := ps ++ [p] }

/-- `diskConn.Close()` / `Client.Close()` / replacement: `conn.close()` -/
def closeOp (c : Conn) (env : List Env) (fx : Fixes := codeFixes) : Conn × List Env × List Out :=
  closeAll fx (wb fx (fuelFor env)) c env

end Galene.DiskTrack
