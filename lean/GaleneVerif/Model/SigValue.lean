/-
Values, dictionaries and Go slices for the signalling model (Model/Signalling.lean).

* `Val` is the abstract image of a JSON value carried by a client message
  (`clientMessage.Value`, `.Data`, `.Request`): absent, a scalar, or a map of
  scalars; plus the two server-made payloads (a token, a token list).
* `Slice`/`Heap` model Go string slices **with their backing arrays**: the
  permission lists handed out by `group.Permissions.Permissions`, by a group
  description and by a stateful token are shared, and `webclient.go` edits them
  in place (`remove`, `addnew`).  A slice is (array, length); its capacity is the
  length of the array.  Offsets are always 0 in the code that is modelled.
-/
namespace Galene.Sig

inductive Scalar where
  | nil
  | str (s : String)
  | num (n : Int)
  | bool (b : Bool)
  | list (l : List String)
  deriving Repr, BEq, DecidableEq, Inhabited

/-- a JSON object whose values are scalars; kept sorted by key, keys unique -/
abbrev Dict := List (String × Scalar)

inductive TimeC where
  | future
  | past
  deriving Repr, BEq, DecidableEq, Inhabited

/-- what a client is shown of a stateful token -/
structure TokView where
  id : String := ""
  group : String := ""
  user : Option String := none
  perms : List String := []
  expires : Option TimeC := none
  notBefore : Option TimeC := none
  issuedBy : Option String := none
  deriving Repr, BEq, DecidableEq, Inhabited

inductive Val where
  | none
  | sc (s : Scalar)
  | map (m : Dict)
  | tok (t : TokView)
  | toks (l : List TokView)
  deriving Repr, BEq, DecidableEq, Inhabited

namespace Dict

def get? (d : Dict) (k : String) : Option Scalar :=
  match d with
  | [] => none
  | (k', v) :: r => if k' = k then some v else get? r k

def erase (d : Dict) (k : String) : Dict := d.filter (fun e => e.1 ≠ k)

/-- insert keeping the keys sorted and unique -/
def insert (d : Dict) (k : String) (v : Scalar) : Dict :=
  match d with
  | [] => [(k, v)]
  | (k', v') :: r =>
    if k = k' then (k, v) :: r
    else if k < k' then (k, v) :: (k', v') :: r
    else (k', v') :: insert r k v

/-- `for k, v := range d { if v == nil { delete(m, k) } else { m[k] = v } }` -/
def merge (m d : Dict) : Dict :=
  d.foldl (fun acc e => if e.2 = Scalar.nil then erase acc e.1 else insert acc e.1 e.2) m

def normalize (d : Dict) : Dict := d.foldl (fun acc e => insert acc e.1 e.2) []

end Dict

/-- Go `v.(string)` with the zero value on failure -/
def Scalar.asStr : Scalar → String
  | .str s => s
  | _ => ""

/-! ### slices with shared backing arrays -/

structure Slice where
  arr : Nat := 0
  len : Nat := 0
  deriving Repr, BEq, DecidableEq, Inhabited

/-- array 0 is the empty array: `⟨0, 0⟩` is the nil slice -/
abbrev Heap := List (List String)

def nilSlice : Slice := ⟨0, 0⟩

namespace Heap

def arrOf (h : Heap) (s : Slice) : List String := h.getD s.arr []

/-- the elements of the slice -/
def get (h : Heap) (s : Slice) : List String := (arrOf h s).take s.len

def cap (h : Heap) (s : Slice) : Nat := (arrOf h s).length

/-- a new array holding exactly `l` (capacity = length) -/
def alloc (h : Heap) (l : List String) : Heap × Slice :=
  if l.isEmpty then (h, nilSlice) else (h ++ [l], ⟨h.length, l.length⟩)

/-- a new array holding `l` with capacity `c ≥ l.length` -/
def allocCap (h : Heap) (l : List String) (c : Nat) : Heap × Slice :=
  (h ++ [l ++ List.replicate (c - l.length) ""], ⟨h.length, l.length⟩)

end Heap

/-- index of the first occurrence -/
def idxOf? (v : String) : List String → Option Nat
  | [] => none
  | x :: r => if x = v then some 0 else (idxOf? v r).map (· + 1)

/-- webclient.go `remove`: `append(l[:i], l[i+1:]...)` shifts the tail left *in
the backing array*; the slot after the new end keeps its old content. -/
def removeS (h : Heap) (s : Slice) (v : String) : Heap × Slice :=
  let l := h.get s
  match idxOf? v l with
  | none => (h, s)
  | some i =>
    let a := h.arrOf s
    let a' := l.eraseIdx i ++ a.drop (s.len - 1)
    (h.set s.arr a', ⟨s.arr, s.len - 1⟩)

/-- webclient.go `remove` after the repair "remove every occurrence" (391656f): the old step
`append(l[:i], l[i+1:]...)` on the first occurrence, repeated on the shrinking slice until none is
left.  `removeS` is the identity once `v` no longer occurs, so `n` iterations with `n` at least the
number of occurrences are the loop; `removeAllS` takes `n = s.len`. -/
def removeAllN : Nat → Heap → Slice → String → Heap × Slice
  | 0, h, s, _ => (h, s)
  | n + 1, h, s, v => removeAllN n (removeS h s v).1 (removeS h s v).2 v

def removeAllS (h : Heap) (s : Slice) (v : String) : Heap × Slice := removeAllN s.len h s v

/-- Go's `growslice` for a []string whose length equals its capacity and one
element appended (sizes small enough that the size classes are exact). -/
def growCap (c : Nat) : Nat := if c = 0 then 1 else 2 * c

/-- webclient.go `addnew`: `append(l, v)` writes into the backing array when
there is room (visible through every other slice of that array). -/
def addnewS (h : Heap) (s : Slice) (v : String) : Heap × Slice :=
  let l := h.get s
  if v ∈ l then (h, s)
  else
    let a := h.arrOf s
    if s.len < a.length then (h.set s.arr (a.set s.len v), ⟨s.arr, s.len + 1⟩)
    else
      let (h', s') := h.allocCap (l ++ [v]) (growCap a.length)
      (h', s')

/-- `append([]string{x}, l...)`: capacity of the result -/
def prependCap (n : Nat) : Nat := if n = 0 then 1 else if n = 1 then 2 else n + 1

end Galene.Sig
