import GaleneVerif.Lemmas.SafeReplaceDesc
/-
The system calls of `group.rewriteDescriptionFile` when writing the temporary file FAILS (C18:
"… sees either the complete old or the complete new definition, never a partial one"; a failed
or short write — ENOSPC, EFBIG, EDQUOT, EIO — or a failed fsync must not be followed by the
rename that publishes the temporary file).

A captured call either succeeded (`ok op`, with the semantics of Lemmas/SafeReplaceDesc.lean) or
failed (`failed op errno`: no effect on the file system; a short write appears as a successful
`write fd k` followed by the failed write of the rest).

`faultShapeOK target calls`: a write or fsync did fail (the capture is of a faulted run), and no
successful call of the run can change what `target` holds: no rename, no in-place open, no unlink
of the target — only read-only opens, the creation of files other than the target, writes (to the
descriptors of those files), fsync, close, and unlinks of other files.  Props/C18Fault.lean proves
that after every prefix of such a run the target holds exactly what it held before.
-/
namespace Galene.WriteFault
open Galene.SafeReplaceDesc

inductive Call where
  | ok (op : Op)
  | failed (op : Op) (errno : String)
  deriving DecidableEq, Repr, Inhabited

/-- the calls that took effect -/
def successes : List Call → List Op
  | [] => []
  | .ok op :: rest => op :: successes rest
  | .failed _ _ :: rest => successes rest

def isWriteFailure : Call → Bool
  | .failed (.write _ _) _ => true
  | .failed (.fsync _) _ => true
  | _ => false

def hasFailure (cs : List Call) : Bool := cs.any isWriteFailure

/-- a call that cannot change what `target` holds, provided no descriptor is open on its file -/
def quietOp (target : String) : Op → Bool
  | .mkdir _ | .openRead _ _ | .fsync _ | .close _ | .write _ _ => true
  | .createExcl p _ => p ≠ target
  | .unlink p => p ≠ target
  | .openWrite _ _ | .rename _ _ | .other _ => false

def quiet (target : String) (ops : List Op) : Bool := ops.all (quietOp target)

def faultShapeOK (target : String) (cs : List Call) : Bool := hasFailure cs && quiet target (successes cs)

/-- for the message of the engine: a successful rename onto the target after a failed write/fsync -/
def renameAfterFailure (target : String) : List Call → Bool
  | [] => false
  | c :: rest =>
    if isWriteFailure c then
      rest.any (fun x => match x with | .ok (.rename _ d) => d == target | _ => false)
    else renameAfterFailure target rest

end Galene.WriteFault
