/-
Model of /repo/unbounded/unbounded.go (`Channel[T]`) and of its users: any number
of producers calling `Put`, one consumer that alternates `<-ch.Ch` and `ch.Get()`
(webClient's action loop).  `Put` is TWO atomic steps — the locked append, which
records whether the queue was empty, and the non-blocking send on the one-slot
channel `Ch` if it was — so an interleaving may pre-empt a producer between them.
`Get` drains the queue under the lock (one step).  Values are tagged with the
index of the producer that put them.
-/
namespace Galene.Unbounded

/-- a producer thread -/
structure Prod where
  /-- values it still has to `Put`, in order -/
  todo : List Nat
  /-- `some empty` between the locked append and the signal of a `Put` -/
  pending : Option Bool := none
  deriving DecidableEq, Repr

/-- the consumer's program counter -/
inductive CPc where
  /-- blocked in (or about to execute) `<-ch.Ch` -/
  | waiting
  /-- has received from `ch.Ch`, about to call `Get` -/
  | woken
  deriving DecidableEq, Repr

structure St where
  /-- `ch.queue` (producer index, value) -/
  queue : List (Nat × Nat) := []
  /-- `len(ch.Ch) == 1` -/
  slot : Bool := false
  prods : List Prod := []
  cons : CPc := .waiting
  /-- concatenation of everything `Get` has returned to the consumer -/
  got : List (Nat × Nat) := []
  /-- ghost: every value appended, in lock order -/
  appended : List (Nat × Nat) := []
  deriving DecidableEq, Repr

inductive Step where
  /-- producer `i`: `mu.Lock(); empty := len(queue) == 0; queue = append(queue, v); mu.Unlock()` -/
  | append (i : Nat)
  /-- producer `i`: `if empty { select { case Ch <- struct{}{}: default: } }` -/
  | signal (i : Nat)
  /-- consumer: `<-ch.Ch` (enabled only when the slot is full) -/
  | recv
  /-- consumer: `ch.Get()` -/
  | get
  deriving DecidableEq, Repr

/-- the locked part of `Put` on the channel state alone -/
def lockedAppend (queue : List (Nat × Nat)) (x : Nat × Nat) : List (Nat × Nat) × Bool :=
  (queue ++ [x], queue.isEmpty)

/-- the signalling part of `Put` on the slot alone -/
def trySignal (slot empty : Bool) : Bool := if empty then true else slot

/-- One step; `none` if the step is not enabled in this state. -/
def step? (s : St) : Step → Option St
  | .append i =>
    match s.prods[i]? with
    | some ⟨v :: rest, none⟩ =>
      let (q, empty) := lockedAppend s.queue (i, v)
      some { s with queue := q, appended := s.appended ++ [(i, v)],
                    prods := s.prods.set i { todo := rest, pending := some empty } }
    | _ => none
  | .signal i =>
    match s.prods[i]? with
    | some ⟨todo, some empty⟩ =>
      some { s with slot := trySignal s.slot empty, prods := s.prods.set i { todo := todo, pending := none } }
    | _ => none
  | .recv =>
    if s.cons = .waiting ∧ s.slot = true then some { s with slot := false, cons := .woken } else none
  | .get =>
    if s.cons = .woken then some { s with got := s.got ++ s.queue, queue := [], cons := .waiting } else none

def run? (s : St) : List Step → Option St
  | [] => some s
  | x :: xs => match step? s x with
    | some s' => run? s' xs
    | none => none

/-- initial state: producer `i` will put the values `work[i]` in order -/
def init (work : List (List Nat)) : St := { prods := work.map (fun t => { todo := t }) }

/-! Sequential use (the correspondence harness): whole `Put`s, non-blocking receive, `Get`. -/

structure Chan where
  queue : List (Nat × Nat) := []
  slot : Bool := false
  deriving DecidableEq, Repr

def Chan.put (c : Chan) (x : Nat × Nat) : Chan :=
  let (q, empty) := lockedAppend c.queue x
  { queue := q, slot := trySignal c.slot empty }

def Chan.tryRecv (c : Chan) : Chan × Bool := ({ c with slot := false }, c.slot)

def Chan.get (c : Chan) : Chan × List (Nat × Nat) := ({ c with queue := [] }, c.queue)

end Galene.Unbounded
