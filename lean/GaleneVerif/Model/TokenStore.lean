/-
Model of galene's stateful-token store, token/stateful.go (property C16).

The Go `state` keeps a map of tokens in memory together with the version
(size, mtime) of the JSONL file it mirrors; every entry point first calls
`load()`, which re-reads the file iff the version differs.  `Update`/`Delete`
compare a client-supplied version tag with the current one, `add` appends a
line, `rewrite` writes a temp file and renames it over the token file (or
unlinks the file when no token is left), `Expire` sweeps tokens that expired
more than a week ago.

What is abstract here:
* a file version (size, mtime) is a `Nat`; every change of the file gets a
  version never used before (`next`) — the property's "successive file
  versions differing in size or modification time";
* a token line is a `Tok` (the fields the store looks at plus an opaque `pad`
  standing for the rest of the contents), or `junk` (anything the JSON decoder
  rejects);
* failures of the file system are explicit `Fault` arguments: `fs` = every
  `write(2)` fails, `fd` = every `open(2)` fails (what the harness injects
  with RLIMIT_FSIZE / RLIMIT_NOFILE);
* the Go map is a list without duplicate ids (`insert` replaces);
* the `filename == ""` branches (no token file configured) are not modelled: the store
  always has a file name.

The functions follow the Go code branch for branch, including `rewrite`
calling `list` → `load` a second time, `Expire` not rolling back when the
rewrite fails but resetting the state instead (so that the next `load` re-reads
the file; `expireSweep` is `Expire` as it was before that fix), and the rollback
`state.tokens[id] = old` panicking on a nil map.
-/
namespace Galene.TokenStore

structure Tok where
  id : String
  group : String := ""
  sub : Bool := false
  exp : Option Int := none
  nb : Option Int := none
  pad : Nat := 0
  deriving DecidableEq, Repr, Inhabited

inductive Line where
  | tok (t : Tok)
  | junk
  deriving DecidableEq, Repr

inductive Fault where
  | none | fs | fd
  deriving DecidableEq, Repr

/-- results of the entry points (`os.ErrNotExist` = notfound, `ErrTagMismatch` =
mismatch, any other error = err; `panic` = the Go code would panic). -/
inductive Res where
  | ok | mismatch | notfound | err | panic
  deriving DecidableEq, Repr

/-! ### the in-memory map -/

abbrev TMap := List Tok

def TMap.find (m : TMap) (id : String) : Option Tok := List.find? (fun t => t.id == id) m
def TMap.erase (m : TMap) (id : String) : TMap := List.filter (fun t => t.id != id) m
/-- `m[t.id] = t` -/
def TMap.insert (m : TMap) (t : Tok) : TMap := t :: TMap.erase m t.id

/-- One step of the decoding loop of `load`: `ts[t.Token] = &t`, or the error return. -/
def parseStep (acc : Option TMap) (l : Line) : Option TMap :=
  match acc, l with
  | some m, .tok t => some (TMap.insert m t)
  | _, _ => none

/-- The decoding loop of `load`: later lines win; any undecodable line is an error (`none`). -/
def parse (ls : List Line) : Option TMap := ls.foldl parseStep (some [])

/-- `sort.Slice` of `list`: by expiry, tokens without expiry first (the relative order of equal
keys is unspecified in Go; here: insertion order). -/
def expLe (a b : Tok) : Bool :=
  match a.exp, b.exp with
  | none, _ => true
  | some _, none => false
  | some x, some y => x ≤ y

def insertSorted (t : Tok) : List Tok → List Tok
  | [] => [t]
  | u :: us => if expLe t u then t :: u :: us else u :: insertSorted t us

def sortExp (m : List Tok) : List Tok := m.foldr insertSorted []

/-! ### the state -/

structure St where
  /-- `state.tokens` (`none` = nil map) -/
  mem : Option TMap := none
  /-- `state.fileSize/modTime` (`none` = zero time) -/
  memVer : Option Nat := none
  /-- the token file: lines and version; `none` = no such file -/
  file : Option (List Line × Nat) := none
  /-- the next unused file version -/
  next : Nat := 1
  deriving Repr

def St.reset (s : St) : St := { s with mem := none, memVer := none }

/-- `state.etag()`: the empty string (`none`) when nothing is mirrored. -/
def St.etag (s : St) : Option Nat := s.memVer

/-- `state.load()`.  Result: `none` = error, `some e` = the etag.  `os.Stat` needs no file
descriptor; `os.Open` fails under `fd`. -/
def load (s : St) (f : Fault) : St × Option (Option Nat) :=
  match s.file with
  | none => (s.reset, some none)
  | some (ls, v) =>
    if s.memVer = some v then (s, some s.etag)
    else if f = .fd then (s.reset, none)
    else match parse ls with
      | none => (s.reset, none)
      | some m => ({ s with mem := some m, memVer := some v }, some (some v))

/-- `state.rewrite()`; `true` = nil error. -/
def rewrite (s : St) (f : Fault) : St × Bool :=
  match s.mem with
  | none => ({ s with file := none }, true)
  | some [] => ({ s with file := none }, true)
  | some (_ :: _) =>
    if f = .fd then (s, false)              -- CreateTemp fails
    else
      let (s1, r) := load s f               -- state.list("", true) calls load()
      match r with
      | none => (s1, false)                 -- temp file removed
      | some _ =>
        let a := match s1.mem with
          | none => []
          | some m => sortExp m
        if f = .fs ∧ a ≠ [] then (s1, false)  -- Encode fails, temp file removed
        else
          ({ s1 with file := some (a.map .tok, s1.next), memVer := some s1.next, next := s1.next + 1 }, true)

/-- `state.add(token)`; `true` = nil error. -/
def add (s : St) (t : Tok) (f : Fault) : St × Bool :=
  if f = .fd then (s, false)                -- OpenFile fails
  else if f = .fs then
    -- OpenFile(O_CREATE|O_APPEND) succeeded (creating an empty file if there was none), Encode failed
    match s.file with
    | none => ({ s with file := some ([], s.next), next := s.next + 1 }, false)
    | some _ => (s, false)
  else
    let ls := match s.file with
      | none => []
      | some (ls, _) => ls
    ({ s with file := some (ls ++ [.tok t], s.next), next := s.next + 1,
              mem := some (TMap.insert (s.mem.getD []) t), memVer := some s.next }, true)

/-- the rollback `state.tokens[id] = old` (a nil map panics). -/
def rollback (s : St) (old : Tok) : St × Res :=
  match s.mem with
  | none => (s, .panic)
  | some m => ({ s with mem := some (TMap.insert m old) }, .err)

/-- `state.Update(token, etag)`; `etag = none` is the empty string. -/
def update (s : St) (t : Tok) (etag : Option Nat) (f : Fault) : St × Res :=
  let (s1, r) := load s f
  match r with
  | none => (s1, .err)
  | some _ =>
    let s2 : St := match s1.mem with
      | none => { s1 with mem := some [] }
      | some _ => s1
    let m := s2.mem.getD []
    match TMap.find m t.id with
    | some old =>
      if etag ≠ s2.etag then (s2, .mismatch)
      else
        let (s4, ok) := rewrite { s2 with mem := some (TMap.insert m t) } f
        if ok then (s4, .ok) else rollback s4 old
    | none =>
      if etag ≠ none then (s2, .mismatch)
      else
        let (s3, ok) := add s2 t f
        (s3, if ok then .ok else .err)

/-- `state.Delete(id, etag)`. -/
def delete (s : St) (id : String) (etag : Option Nat) (f : Fault) : St × Res :=
  let (s1, r) := load s f
  match r with
  | none => (s1, .err)
  | some _ =>
    match s1.mem with
    | none => (s1, .notfound)
    | some m =>
      match TMap.find m id with
      | none => (s1, .notfound)
      | some old =>
        if etag ≠ s1.etag then (s1, .mismatch)
        else
          let (s3, ok) := rewrite { s1 with mem := some (TMap.erase m id) } f
          if ok then (s3, .ok) else rollback s3 old

def week : Int := 7 * 24 * 3600

/-- `t.Expires != nil && t.Expires.Before(now - week)` -/
def sweepable (now : Int) (t : Tok) : Bool :=
  match t.exp with
  | none => false
  | some e => e < now - week

/-- Expire up to and including the rewrite, without the reload-on-failure; this was the whole of
Expire before the fix.  NB: no rollback when `rewrite` fails. -/
def expireSweep (s : St) (now : Int) (f : Fault) : St × Res :=
  let (s1, r) := load s f
  match r with
  | none => (s1, .err)
  | some _ =>
    match s1.mem with
    | none => (s1, .ok)
    | some m =>
      let keep := m.filter (fun t => !sweepable now t)
      if keep.length = m.length then (s1, .ok)
      else
        let (s3, ok) := rewrite { s1 with mem := some keep } f
        (s3, if ok then .ok else .err)

/-- `state.Expire()`: the sweep; when it fails (load error, or the rewrite failed) the state is reset so that the file is reloaded -/
def expire (s : St) (now : Int) (f : Fault) : St × Res :=
  let r := expireSweep s now f
  if r.2 = .err then (r.1.reset, .err) else r

/-- `state.Get(id)`: the token and the etag, `notfound`, or `err`. -/
def get (s : St) (id : String) : St × Except Res (Tok × Option Nat) :=
  let (s1, r) := load s .none
  match r with
  | none => (s1, .error .err)
  | some e =>
    match s1.mem with
    | none => (s1, .error .notfound)
    | some m =>
      match TMap.find m id with
      | none => (s1, .error .notfound)
      | some t => (s1, .ok (t, e))

/-- `state.list(group, all)` after `load`: the tokens and the etag, or `none` on error. -/
def list (s : St) (group : Option String) : St × Option (List Tok × Option Nat) :=
  let (s1, r) := load s .none
  match r with
  | none => (s1, none)
  | some _ =>
    let m := s1.mem.getD []
    let a := match group with
      | none => m
      | some g => m.filter (fun t => t.group == g)
    (s1, some (sortExp a, s1.etag))

/-- `Stateful.match(group)` -/
def tokMatch (t : Tok) (group : String) : Bool :=
  if group = "" then t.sub && t.group = ""
  else if group = t.group then true
  else if t.sub then (if t.group = "" then true else (t.group ++ "/").isPrefixOf group)
  else false

inductive CheckRes where
  | ok (pad : Nat) | badgroup | expired | future
  deriving DecidableEq, Repr

/-- `Stateful.Check(host, group)` at time `now`. -/
def check (t : Tok) (group : String) (now : Int) : CheckRes :=
  if !tokMatch t group then .badgroup
  else match t.exp with
    | none => .expired
    | some e =>
      if now > e then .expired
      else match t.nb with
        | some n => if now < n then .future else .ok t.pad
        | none => .ok t.pad

/-! ### what is outside the Go code: other processes and restarts -/

/-- Another process replaces the file (new version). -/
def extEdit (s : St) (ls : List Line) : St := { s with file := some (ls, s.next), next := s.next + 1 }
/-- Another process removes the file. -/
def extRemove (s : St) : St := { s with file := none }
/-- The server restarts: nothing in memory. -/
def restart (s : St) : St := { s with mem := none, memVer := none }
/-- `SetStatefulFilename(same name)`: the mirrored version is forgotten, the map is kept. -/
def setFile (s : St) : St := { s with memVer := none }

/-- What an instance honours when asked now: every token after `load`, or `none` if loading fails. -/
def honoured (s : St) : Option TMap :=
  match load s .none with
  | (_, none) => none
  | (s1, some _) => some (s1.mem.getD [])

/-- What a freshly started server honours on the same file. -/
def freshHonoured (s : St) : Option TMap := honoured (restart s)

/-- The operations of a history. -/
inductive Op where
  | update (t : Tok) (etag : Option Nat) (f : Fault)
  | delete (id : String) (etag : Option Nat) (f : Fault)
  | get (id : String)
  | list (group : String)
  | expire (now : Int) (f : Fault)
  | extEdit (ls : List Line)
  | extRemove
  | restart
  | setFile
  deriving Repr

def step (s : St) : Op → St × Res
  | .update t e f => update s t e f
  | .delete id e f => delete s id e f
  | .get id => let (s1, r) := get s id; (s1, match r with | .ok _ => .ok | .error e => e)
  | .list g => let (s1, r) := list s (some g); (s1, if r.isSome then .ok else .err)
  | .expire now f => expire s now f
  | .extEdit ls => (extEdit s ls, .ok)
  | .extRemove => (extRemove s, .ok)
  | .restart => (restart s, .ok)
  | .setFile => (setFile s, .ok)

def run (s : St) : List Op → St
  | [] => s
  | op :: ops => run (step s op).1 ops

end Galene.TokenStore
