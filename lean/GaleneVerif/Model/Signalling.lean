import GaleneVerif.Model.History
/-
Executable model of galene's signalling layer, transcribed from
rtpconn/webclient.go (handleClientMessage, handleAction, leaveGroup, the close
sequence of StartClient/clientLoop) and group/group.go (Add, AddClient,
DelClient, autoLockKick, SetLocked, UpdateData, chat history), group/description.go
(Permissions.Permissions, GetPermission) and token/stateful.go (Check, Update).

Structure
* `handle : Conn → Env → Msg → List Effect` is handleClientMessage **with every
  guard** (membership, permission, well-formedness) and nothing else: it looks at
  the connection's own fields and at a read-only view of its group, and returns
  the list of primitive effects the handler performs, in order.
* `applyEffect` performs one effect on the `World` (clients, their action queues,
  groups, tokens, the slice heap); it contains mechanics, no permission test.
* `handleAction` is the action loop's body; `leaveGroup`, `finish` as in the code.
A Go nil dereference is the explicit outcome `World.crashed`.

Out of the model (the harness never creates them): down connections, tracks,
SDP negotiation.  Up connections exist only as (id, replace) pairs.
-/
namespace Galene.Sig
open Galene.Sig.History

/-! ### structural helpers -/

/-- split at a separator character (structural, so that concrete runs reduce in the kernel) -/
def splitChars (sep : Char) : List Char → List (List Char)
  | [] => [[]]
  | c :: r =>
    if c = sep then [] :: splitChars sep r
    else match splitChars sep r with
      | [] => [[c]]
      | s :: ss => (c :: s) :: ss

def segments (name : String) : List String := (splitChars '/' name.toList).map String.ofList

/-- insertion sort by a key (structural) -/
def insertBy {α : Type} (key : α → String) (x : α) : List α → List α
  | [] => [x]
  | y :: r => if key x < key y then x :: y :: r else y :: insertBy key x r

def sortBy {α : Type} (key : α → String) (l : List α) : List α := l.foldr (insertBy key) []

/-! ### messages -/

/-- client → server (`clientMessage` as decoded from JSON) -/
structure Msg where
  type : String := ""
  kind : String := ""
  id : String := ""
  replace : String := ""
  source : String := ""
  dest : String := ""
  username : Option String := none
  password : String := ""
  token : String := ""
  group : String := ""
  value : Val := .none
  noecho : Bool := false
  data : Dict := []
  /-- the SDP of an `offer` parses (newUpConn gets as far as using the group) -/
  sdpOk : Bool := false
  request : Val := .none
  candidate : Bool := false
  deriving Repr, BEq, DecidableEq, Inhabited

/-- server → client, the fields the harness records -/
structure OutMsg where
  type : String := ""
  kind : String := ""
  id : String := ""
  replace : String := ""
  source : String := ""
  dest : String := ""
  username : Option String := none
  privileged : Bool := false
  noecho : Bool := false
  error : String := ""
  group : String := ""
  perms : List String := []
  /-- `Status`: locked, client count (-1: absent) -/
  status : Option (Bool × Int) := none
  data : Dict := []
  value : Val := .none
  /-- a websocket close frame (code) rather than a JSON message -/
  closeCode : Option Nat := none
  deriving Repr, BEq, DecidableEq, Inhabited

inductive CloseErr where
  | proto (s : String)
  | user (s : String)
  | kick (id : String) (user : Option String) (msg : String)
  | ws
  | other (s : String)
  deriving Repr, BEq, DecidableEq, Inhabited

structure Creds where
  username : Option String := none
  password : String := ""
  token : String := ""
  deriving Repr, BEq, DecidableEq, Inhabited

inductive MemberKind where
  | web
  | other
  deriving Repr, BEq, DecidableEq, Inhabited

structure Token where
  id : String := ""
  group : String := ""
  user : Option String := none
  perms : Slice := nilSlice
  expires : Option TimeC := none
  notBefore : Option TimeC := none
  issuedBy : Option String := none
  deriving Repr, BEq, DecidableEq, Inhabited

/-- result of parseStatefulToken -/
structure TokReq where
  token : String := ""
  group : String := ""
  user : Option String := none
  perms : Option (List String) := none
  expires : Option TimeC := none
  notBefore : Option TimeC := none
  deriving Repr, BEq, DecidableEq, Inhabited

def futureLit : String := "2099-01-01T00:00:00Z"
def pastLit : String := "2001-01-01T00:00:00Z"

def parseTime (v : Option Scalar) : Except String (Option TimeC) :=
  match v with
  | none => .ok none
  | some .nil => .ok none
  | some (.str s) =>
    if s = futureLit then .ok (some .future) else if s = pastLit then .ok (some .past)
    else .error "bad time value"
  | some (.num n) => .ok (some (if n > 60000 then .future else .past))
  | some _ => .error "bad time value"

def parseStr (v : Option Scalar) : Except String (Option String) :=
  match v with
  | none => .ok none
  | some .nil => .ok none
  | some (.str s) => .ok (some s)
  | some _ => .error "bad string value"

def parseStrList (v : Option Scalar) : Except String (Option (List String)) :=
  match v with
  | none => .ok none
  | some .nil => .ok none
  | some (.list l) => .ok (some l)
  | some _ => .error "bad string list"

/-- webclient.go parseStatefulToken -/
def parseStatefulToken (v : Val) : Except String TokReq :=
  match v with
  | .map d => do
    let t ← parseStr (d.get? "token")
    let u ← parseStr (d.get? "username")
    let g ← parseStr (d.get? "group")
    let p ← parseStrList (d.get? "permissions")
    let e ← parseTime (d.get? "expires")
    let n ← parseTime (d.get? "not-before")
    pure { token := t.getD "", group := g.getD "", user := u, perms := p, expires := e, notBefore := n }
  | _ => .error "bad token value"

/-- webclient.go parseRequested: a map from labels to string arrays -/
def parseRequested (v : Val) : Bool :=
  match v with
  | .none => true
  | .map d => d.all (fun e => match e.2 with | .nil => true | .list _ => true | _ => false)
  | _ => false

/-! ### repairs

Each flag is one of the small repairs proposed for a confirmed defect (DESIGN.md
section 6; the unified diffs are delivered with the report).  `false` is the code
as pinned; the theorems in Props/ are stated for both values where they differ.
`currentFixes` is what the engine runs: **flip the flags here when the
corresponding `fix:` commit is in /repo**. -/
structure Fixes where
  /-- P10: group.AddClient calls c.Init only after all admission checks -/
  p10 : Bool := false
  /-- P11: edittoken refuses a token whose group is not the member's -/
  p11 : Bool := false
  /-- P12: the pushClientAction case ignores the event when c.group == nil -/
  p12 : Bool := false
  /-- P18: the redirect branch of the `join` case undoes the join (`c.group = g; leaveGroup(c)`) before answering -/
  p18 : Bool := false
  /-- P19: changePermissionsAction/permissionsChangedAction are ignored when c.group == nil -/
  p19 : Bool := false
  /-- the `offer` case treats c.group == nil like a missing `present` -/
  offerNil : Bool := false
  /-- token.Stateful.Check returns a copy of the token's permission list -/
  tokClone : Bool := false
  /-- gotOffer: `replace` in a renegotiation of an existing stream pushes the close at once (C07 finding 3) -/
  f3 : Bool := false
  /-- webclient.go `remove` deletes every occurrence of the permission, not only the first (391656f) -/
  removeAll : Bool := false
  deriving Repr, BEq, DecidableEq, Inhabited

/-- the repairs present in the tree the engine is compared with
(P10 is in /repo since c983258) -/
def currentFixes : Fixes :=
  { p10 := true, p11 := true, p12 := true, p18 := true, p19 := true, offerNil := true, tokClone := true, f3 := true,
    removeAll := true }

def allFixes : Fixes :=
  { p10 := true, p11 := true, p12 := true, p18 := true, p19 := true, offerNil := true, tokClone := true, f3 := true,
    removeAll := true }

/-- webclient.go `remove`, before (`removeS`: first occurrence) and after (`removeAllS`) the repair -/
def removeFix (fx : Fixes) (h : Heap) (s : Slice) (v : String) : Heap × Slice :=
  if fx.removeAll then removeAllS h s v else removeS h s v

/-! ### the guard layer: handleClientMessage as a function to effects -/

/-- what handleClientMessage reads of the connection -/
structure Conn where
  id : String := ""
  username : String := ""
  group : Option String := none
  perms : List String := []
  deriving Repr, BEq, DecidableEq, Inhabited

/-- read-only view of the connection's group and of the token store -/
structure Env where
  /-- the identifier the server would generate next (crypto/rand in the code) -/
  fresh : String := ""
  members : List (String × MemberKind) := []
  /-- user names that have an entry in the group description -/
  users : List String := []
  tokens : List Token := []
  /-- another member is a disk writer -/
  recording : Bool := false
  fix : Fixes := {}
  deriving Inhabited

def Env.member (env : Env) (id : String) : Option MemberKind :=
  (env.members.find? (fun e => e.1 = id)).map (·.2)

def Env.tokenGet (env : Env) (id : String) : Option Token := env.tokens.find? (fun t => t.id = id)

inductive Effect where
  /-- `c.write(m)` -/
  | reply (m : OutMsg)
  /-- `ccc.write(mm)` to the member with this id -/
  | deliver (dest : String) (m : OutMsg)
  /-- `broadcast(g.GetClients(except), mm)` -/
  | broadcast (noecho : Bool) (m : OutMsg)
  | consumeFresh
  | histAdd (e : Entry)
  | histClear (id userId : String)
  | setLocked (locked : Bool) (msg : String)
  | groupData (d : Dict)
  | changePerm (dest kind : String)
  | kick (dest id : String) (user : Option String) (msg : String)
  | identify (dest : String)
  | record
  | unrecord
  | subgroups
  | mintToken (t : TokReq) (id : String) (issuedBy : Option String)
  | editToken (old : Token) (expires notBefore : Option TimeC)
  | listTokens (group : String)
  | setOwnData (d : Dict)
  | join (group : String) (cr : Creds) (data : Dict)
  | leave
  | request
  /-- gotOffer -/
  | publish (id : String) (sdpOk : Bool) (replace : String)
  /-- delUpConn(c, id, c.id, true) -/
  | unpublish (id : String)
  /-- handleClientMessage returns this error: the connection is closed -/
  | fail (e : CloseErr)
  deriving Repr, BEq, DecidableEq, Inhabited

def errMsg (id text : String) : OutMsg :=
  { type := "usermessage", kind := "error", dest := id, privileged := true, value := .sc (.str text) }

def errReply (c : Conn) (text : String) : Effect := .reply (errMsg c.id text)

/-- webClient.Warn -/
def warnMsg (id text : String) : OutMsg :=
  { type := "usermessage", kind := "warning", dest := id, privileged := true, value := .sc (.str text) }

def privMsg (kind : String) (v : Val) : OutMsg :=
  { type := "usermessage", kind := kind, privileged := true, value := v }

def tokErr (kind e text : String) : Effect :=
  .reply { type := "usermessage", kind := kind, privileged := true, error := e, value := .sc (.str text) }

/-- what the client is told when `token.Update` fails on the file (text canonicalised by the harness) -/
def storeFaultReply : OutMsg :=
  { type := "usermessage", kind := "token", privileged := true, error := "error", value := .sc (.str "EFBIG") }

def emptyId : Effect := .fail (.proto "empty id")

def permKinds : List String := ["op", "unop", "present", "unpresent", "shutup", "unshutup"]

def handleChat (c : Conn) (env : Env) (m : Msg) : List Effect :=
  match c.group with
  | none => [errReply c "join a group first"]
  | some _ =>
    let required := if m.type = "chat" ∧ m.kind = "caption" then "caption" else "message"
    if required ∉ c.perms then [errReply c "not authorised"]
    else
      let genId : Bool := m.type = "chat" ∧ m.dest = "" ∧ m.id = ""
      let id := if genId then env.fresh else m.id
      let mm : OutMsg :=
        { type := m.type, id := id, source := m.source, dest := m.dest, username := m.username,
          privileged := "op" ∈ c.perms, kind := m.kind, noecho := m.noecho, value := m.value }
      (if genId then [Effect.consumeFresh] else []) ++
      (if m.type = "chat" ∧ m.dest = "" then
         [Effect.histAdd { id := id, source := m.source, user := m.username, age := 0, kind := m.kind, value := m.value }]
       else []) ++
      (if m.dest = "" then [Effect.broadcast m.noecho mm]
       else match env.member m.dest with
         | none => [errReply c "user unknown"]
         | some .web => [Effect.deliver m.dest mm]
         | some .other => [errReply c "this user doesn't chat"])

def handleMakeToken (c : Conn) (env : Env) (g : String) (m : Msg) : List Effect :=
  if "token" ∉ c.perms then [tokErr "token" "not-authorised" "not authorised"]
  else match parseStatefulToken m.value with
    | .error e => [tokErr "token" "error" e]
    | .ok t =>
      if t.token ≠ "" then [tokErr "token" "error" "client specified token"]
      else if t.group ≠ g then [tokErr "token" "error" "wrong group in token"]
      else if t.expires.isNone then [tokErr "token" "error" "token doesn't expire"]
      else if (match t.user with | some u => env.users.contains u | none => false) then
        [tokErr "token" "error" "that username is taken"]
      else if (t.perms.getD []).any (fun p => p ∉ c.perms) then
        [tokErr "token" "not-authorised" "not authorised"]
      else
        [.consumeFresh, .mintToken t env.fresh (if c.username ≠ "" then some c.username else none)]

def handleEditToken (c : Conn) (env : Env) (g : String) (m : Msg) : List Effect :=
  if "op" ∉ c.perms ∨ "token" ∉ c.perms then [tokErr "token" "not-authorised" "not authorised"]
  else match parseStatefulToken m.value with
    | .error e => [tokErr "token" "error" e]
    | .ok t =>
      if t.group ≠ "" ∨ t.user.isSome ∨ t.perms.isSome then
        [tokErr "token" "error" "this field cannot be edited"]
      else match env.tokenGet t.token with
        | none => [tokErr "token" "error" "file does not exist"]
        | some old =>
          if env.fix.p11 ∧ old.group ≠ g then [tokErr "token" "error" "wrong group in token"]
          else [.editToken old t.expires t.notBefore]

def handleGroupAction (c : Conn) (env : Env) (m : Msg) : List Effect :=
  match c.group with
  | none => [errReply c "join a group first"]
  | some g =>
    if m.kind = "clearchat" then
      if "op" ∉ c.perms then [errReply c "not authorised"]
      else
        let go (id userId : String) : List Effect :=
          if userId = "" ∧ id ≠ "" then [errReply c "bad value in clearchat"]
          else [.histClear id userId,
                .broadcast false { type := "usermessage", kind := "clearchat", value := m.value, privileged := true }]
        match m.value with
        | .none => go "" ""
        | .map d => go ((d.get? "id").getD .nil).asStr ((d.get? "userId").getD .nil).asStr
        | _ => [errReply c "bad value in clearchat"]
    else if m.kind = "lock" ∨ m.kind = "unlock" then
      if "op" ∉ c.perms then [errReply c "not authorised"]
      else [.setLocked (m.kind = "lock") (match m.value with | .sc (.str s) => s | _ => "")]
    else if m.kind = "record" then
      if "record" ∉ c.perms then [errReply c "not authorised"]
      else if env.recording then [errReply c "already recording"]
      else [.record]
    else if m.kind = "unrecord" then
      if "record" ∉ c.perms then [errReply c "not authorised"] else [.unrecord]
    else if m.kind = "subgroups" then
      if "op" ∉ c.perms then [errReply c "not authorised"] else [.subgroups]
    else if m.kind = "setdata" then
      if "op" ∉ c.perms then [errReply c "not authorised"]
      else match m.value with
        | .map d => [.groupData d]
        | _ => [errReply c "Bad value in setdata"]
    else if m.kind = "maketoken" then handleMakeToken c env g m
    else if m.kind = "edittoken" then handleEditToken c env g m
    else if m.kind = "listtokens" then
      if "op" ∉ c.perms ∨ "token" ∉ c.perms then [tokErr "tokenlist" "not-authorised" "not authorised"]
      else [.listTokens g]
    else [.fail (.user "unknown group action")]

def handleUserAction (c : Conn) (env : Env) (m : Msg) : List Effect :=
  match c.group with
  | none => [errReply c "join a group first"]
  | some _ =>
    if m.kind ∈ permKinds then
      if "op" ∉ c.perms then [errReply c "not authorised"]
      else match env.member m.dest with
        | none => [errReply c "no suck user"]
        | some .web => [.changePerm m.dest m.kind]
        | some .other => [errReply c "this is not a real user"]
    else if m.kind = "identify" then
      if "op" ∉ c.perms then [errReply c "not authorised"]
      else match env.member m.dest with
        | none => [errReply c "client not found"]
        | some _ => [.identify m.dest]
    else if m.kind = "kick" then
      if "op" ∉ c.perms then [errReply c "not authorised"]
      else match env.member m.dest with
        | none => [errReply c "no such user"]
        | some _ => [.kick m.dest m.source m.username (match m.value with | .sc (.str s) => s | _ => "")]
    else if m.kind = "setdata" then
      if m.dest ≠ c.id then [errReply c "not authorised"]
      else match m.value with
        | .map d => [.setOwnData d]
        | _ => [errReply c "Bad value in setdata"]
    else [.fail (.user "unknown user action")]

def handleJoin (c : Conn) (m : Msg) : List Effect :=
  if m.kind = "leave" then
    if c.group = some m.group then [.leave] else [.fail (.user "you are not joined")]
  else if m.kind ≠ "join" then [.fail (.proto "unknown kind")]
  else if c.group.isSome then [.fail (.proto "cannot join multiple groups")]
  else [.join m.group { username := m.username, password := m.password, token := m.token } m.data]

def handleRequest (c : Conn) (m : Msg) : List Effect :=
  if !parseRequested m.request then [.fail (.other "bad type")]
  else if c.group.isNone then [.fail (.other "attempted to request with no group joined")]
  else [.request]

def handleOffer (c : Conn) (env : Env) (m : Msg) : List Effect :=
  if m.id = "" then [emptyId]
  else if "present" ∉ c.perms ∨ (env.fix.offerNil ∧ c.group.isNone) then
    (if m.replace ≠ "" then [Effect.unpublish m.replace] else []) ++
      [.reply { type := "abort", id := m.id }, errReply c "not authorised"]
  else [.publish m.id m.sdpOk m.replace]

/-- answer, renegotiate, close, abort, ice: there are no down connections in this model -/
def handleMedia (m : Msg) : List Effect :=
  if m.type = "answer" then
    if m.id = "" then [emptyId] else [.reply { type := "close", id := m.id }]
  else if m.type = "renegotiate" then
    if m.id = "" then [emptyId] else []
  else if m.type = "close" then
    if m.id = "" then [emptyId] else [.unpublish m.id]
  else if m.type = "abort" then
    if m.id = "" then [emptyId] else [.reply { type := "close", id := m.id }]
  else
    if m.id = "" then [emptyId]
    else if !m.candidate then [.fail (.proto "null candidate")]
    else []

def mediaTypes : List String := ["answer", "renegotiate", "close", "abort", "ice"]

/-- `m.Source != "" && m.Source != c.Id()` -/
def spoofedSource (c : Conn) (m : Msg) : Bool := m.source ≠ "" ∧ m.source ≠ c.id

/-- `m.Type != "join" && m.Username != nil && *m.Username != c.Username()` -/
def spoofedUser (c : Conn) (m : Msg) : Bool :=
  m.type != "join" && (match m.username with | some u => u != c.username | none => false)

/-- handleClientMessage -/
def handle (c : Conn) (env : Env) (m : Msg) : List Effect :=
  if spoofedSource c m then [.fail (.proto "spoofed client id")]
  else if spoofedUser c m then [.fail (.proto "spoofed username")]
  else if m.type = "join" then handleJoin c m
  else if m.type = "request" then handleRequest c m
  else if m.type = "requestStream" then [.fail (.other "unknown id")]
  else if m.type = "offer" then handleOffer c env m
  else if m.type ∈ mediaTypes then handleMedia m
  else if m.type = "chat" ∨ m.type = "usermessage" then handleChat c env m
  else if m.type = "groupaction" then handleGroupAction c env m
  else if m.type = "useraction" then handleUserAction c env m
  else if m.type = "pong" then []
  else if m.type = "ping" then [.reply { type := "pong" }]
  else [.fail (.proto "unexpected message")]

/-! ### the world -/

inductive Ref where
  | web (i : Nat)
  | mock (id : String)
  | disk (id : String)
  deriving Repr, BEq, DecidableEq, Inhabited

inductive PermRef where
  | alias (s : Slice)
  | fixed (l : List String)
  deriving Repr, BEq, DecidableEq, Inhabited

inductive Action where
  | pushConn (group id : String) (hasUp : Bool) (replace : String)
  | requestConns (group : String) (target : Ref) (id : String)
  | pushClient (group kind id username : String) (perms : PermRef) (data : Dict)
  | changePerm (kind : String)
  | permChanged
  | joined (group kind : String)
  | kick (id : String) (user : Option String) (msg : String)
  deriving Repr, BEq, DecidableEq, Inhabited

structure Client where
  id : String := ""
  alive : Bool := true
  username : String := ""
  group : Option String := none
  perms : Slice := nilSlice
  data : Dict := []
  /-- up connections: (id, replace); the harness keeps at most one -/
  up : List (String × String) := []
  queue : List Action := []
  deriving Repr, Inhabited

inductive PermSpec where
  | role (r : String)
  | explicit (l : List String)
  deriving Repr, BEq, DecidableEq, Inhabited

structure UserCfg where
  name : String := ""
  /-- none: no password in the description (never matches) -/
  pw : Option String := none
  /-- password of type "wildcard" -/
  anyPw : Bool := false
  perms : PermSpec := .role "observe"
  deriving Repr, Inhabited

structure GroupCfg where
  name : String := ""
  users : List UserCfg := []
  wildcard : Option UserCfg := none
  allowRecording : Bool := false
  unrestrictedTokens : Bool := false
  autolock : Bool := false
  autokick : Bool := false
  autoSubgroups : Bool := false
  maxClients : Nat := 0
  maxHistoryAge : Nat := 0
  redirect : String := ""
  closed : Bool := false
  notYet : Bool := false
  deriving Repr, Inhabited

structure Group where
  name : String := ""
  cfg : GroupCfg := {}
  locked : Option String := none
  members : List Ref := []
  history : List Entry := []
  data : Dict := []
  deriving Repr, Inhabited

/-- a detached `go func(clients)` parked in the mock's PushClient -/
structure Parked where
  pending : List Nat := []
  act : Action := .permChanged
  deriving Repr, Inhabited

structure Mock where
  id : String := ""
  group : Option String := none
  block : Bool := false
  parked : List Parked := []
  deriving Repr, Inhabited

structure Disk where
  id : String := ""
  group : String := ""
  closed : Bool := false
  deriving Repr, Inhabited

inductive LogItem where
  | write (i : Nat) (m : OutMsg)
  | enq (i : Nat) (a : Action) (rendered : List String)
  deriving Repr, Inhabited

/-- role table of description.go: array index, initial contents -/
def roleTable : List (String × List String) :=
  [("op", ["op", "present", "message", "caption", "token"]),
   ("present", ["present", "message"]),
   ("message", ["message"]),
   ("observe", []),
   ("caption", ["caption"]),
   ("admin", ["admin"])]

def roleIdx (r : String) : Option Nat := (roleTable.findIdx? (fun e => e.1 = r)).map (· + 1)

def initHeap : Heap := [] :: roleTable.map (·.2)

structure World where
  cfgs : List GroupCfg := []
  groups : List Group := []
  clients : List Client := []
  mocks : List Mock := []
  disks : List Disk := []
  heap : Heap := initHeap
  tokens : List Token := []
  nextR : Nat := 1
  fix : Fixes := currentFixes
  log : List LogItem := []
  /-- actions queued by a detached goroutine whose timing is free (autoLockKick's
  kicks): the harness takes the schedule in which they arrive last in the step -/
  deferred : List (Nat × Action) := []
  crashed : Bool := false
  /-- injected fault: rewriting the token file fails (the harness runs the handler with
  RLIMIT_FSIZE 0), so `token.Update` returns an error and must leave the live table alone -/
  storeFault : Bool := false
  /-- schedule choice supplied from outside: when a detached broadcast meets a
  blocking mock, `choice i` says whether client `i` was served before the mock -/
  choice : Nat → Bool := fun _ => true
  deriving Inhabited

namespace World

def fresh (w : World) : String := s!"R{w.nextR}"

def client? (w : World) (i : Nat) : Option Client := w.clients[i]?

def modClient (w : World) (i : Nat) (f : Client → Client) : World :=
  { w with clients := w.clients.modify i f }

def group? (w : World) (n : String) : Option Group := w.groups.find? (fun g => g.name = n)

def modGroup (w : World) (n : String) (f : Group → Group) : World :=
  { w with groups := w.groups.map (fun g => if g.name = n then f g else g) }

def permsOf (w : World) (i : Nat) : List String :=
  match w.client? i with
  | some c => w.heap.get c.perms
  | none => []

def refPerms (w : World) : Ref → List String
  | .web i => w.permsOf i
  | .mock _ => ["system"]
  | .disk _ => ["system"]

def refId (w : World) : Ref → String
  | .web i => ((w.client? i).map (·.id)).getD ""
  | .mock id => id
  | .disk id => id

def refUsername (w : World) : Ref → String
  | .web i => ((w.client? i).map (·.username)).getD ""
  | .mock _ => "MOCK"
  | .disk _ => "RECORDING"

def refData (w : World) : Ref → Dict
  | .web i => ((w.client? i).map (·.data)).getD []
  | _ => []

def write (w : World) (i : Nat) (m : OutMsg) : World := { w with log := w.log ++ [.write i m] }

def resolve (w : World) : PermRef → List String
  | .alias s => w.heap.get s
  | .fixed l => l

/-- `c.action(a)`: append to the client's unbounded queue -/
def enq (w : World) (i : Nat) (a : Action) : World :=
  let rendered := match a with
    | .pushClient _ _ _ _ p _ => w.resolve p
    | _ => []
  let w := w.modClient i (fun c => { c with queue := c.queue ++ [a] })
  { w with log := w.log ++ [.enq i a rendered] }

/-- end of a handler step: the detached kicks arrive -/
def flush (w : World) : World :=
  let w' := w.deferred.foldl (fun w e => w.enq e.1 e.2) w
  { w' with deferred := [] }

/-- members sorted by id, as the harness orders every map iteration that matters -/
def sortedRefs (w : World) (l : List Ref) : List Ref := sortBy w.refId l

/-- Client.PushClient -/
def pushClientTo (w : World) (r : Ref) (a : Action) : World :=
  match r with
  | .web i => w.enq i a
  | _ => w

/-- Client.Joined -/
def joinedTo (w : World) (r : Ref) (g kind : String) : World :=
  match r with
  | .web i => w.enq i (.joined g kind)
  | _ => w

def conn (w : World) (i : Nat) : Conn :=
  match w.client? i with
  | some c => { id := c.id, username := c.username, group := c.group, perms := w.heap.get c.perms }
  | none => {}

def memberKind : Ref → MemberKind
  | .web _ => .web
  | _ => .other

def env (w : World) (i : Nat) : Env :=
  match (w.client? i).bind (·.group) with
  | none => { fresh := w.fresh, tokens := w.tokens, fix := w.fix }
  | some gn =>
    match w.group? gn with
    | none => { fresh := w.fresh, tokens := w.tokens, fix := w.fix }
    | some g =>
      { fresh := w.fresh, fix := w.fix,
        members := g.members.map (fun r => (w.refId r, memberKind r)),
        users := g.cfg.users.map (·.name),
        tokens := w.tokens,
        recording := g.members.any (fun r => match r with | .disk _ => r != .web i | _ => false) }

end World

/-! ### group.go -/

/-- group.validGroupName: no backslash, and `path.Clean("/"+name) == "/"+name`, not "/" -/
def validGroupName (name : String) : Bool :=
  !name.toList.contains '\\' && (segments name).all (fun s => s ≠ "" ∧ s ≠ "." ∧ s ≠ "..")

def validUsername (u : String) : Bool := u = "" || validGroupName u

/-- capacity of a []string produced by encoding/json for `n` elements -/
def jsonCap (n : Nat) : Nat := if n ≤ 1 then n else if n ≤ 2 then 2 else if n ≤ 4 then 4 else if n ≤ 8 then 8 else 16

/-- getDescriptionFile with allowSubgroups: the description of `name`, else of the
nearest ancestor (which must allow automatic subgroups). -/
def findCfg (cfgs : List GroupCfg) (name : String) : Option GroupCfg :=
  match cfgs.find? (fun c => c.name = name) with
  | some c => some c
  | none =>
    let segs := segments name
    let rec up (k : Nat) : Option GroupCfg :=
      match k with
      | 0 => none
      | k + 1 =>
        let parent := "/".intercalate (segs.take (k + 1))
        if k + 1 ≥ segs.length then up k
        else match cfgs.find? (fun c => c.name = parent) with
          | some c => if c.autoSubgroups then some c else none
          | none => up k
    up segs.length

/-- autoLockKick (called with the group lock held) -/
def autoLockKick (w : World) (gn : String) : World :=
  match w.group? gn with
  | none => w
  | some g =>
    if !(g.cfg.autolock && g.locked.isNone) && !g.cfg.autokick then w
    else if g.members.any (fun r => "op" ∈ w.refPerms r) then w
    else
      let w :=
        if g.cfg.autolock && g.locked.isNone then
          let w := w.modGroup gn (fun g => { g with locked := some "this group is locked" })
          g.members.foldl (fun w r => w.joinedTo r gn "change") w
        else w
      if g.cfg.autokick then
        -- detached goroutine; the recorder's Kick (Close + DelClient) is not modelled:
        -- the harness never combines autokick with recording
        g.members.foldl (fun w r => match r with
          | .web i => { w with deferred := w.deferred ++ [(i, .kick "" none "there are no operators in this group")] }
          | _ => w) w
      else w

inductive JoinErr where
  | needUsername
  | duplicateUsername
  | notAuthorised
  | notExist
  | user (s : String)
  | internal
  deriving Repr, BEq, DecidableEq, Inhabited

/-- group.Add(name, nil): load the description on first use, then autoLockKick -/
def addGroup (w : World) (name : String) : World × Except JoinErr Unit :=
  if !validGroupName name then (w, .error (.user "illegal group name"))
  else match w.group? name with
    | some _ => (autoLockKick w name, .ok ())
    | none =>
      match findCfg w.cfgs name with
      | none => (w, .error .notExist)
      | some cfg =>
        let g : Group := { name := name, cfg := cfg }
        let w := { w with groups := w.groups ++ [g] }
        (autoLockKick w name, .ok ())

/-- Permissions.Permissions(desc): since dd17351 both branches return a copy
(`slices.Clone`), so the result aliases nothing; capacity = length. -/
def specPerms (w : World) (g : Group) (_uname : String) (p : PermSpec) : World × Slice :=
  match p with
  | .explicit l =>
    let (h, s) := w.heap.alloc l
    ({ w with heap := h }, s)
  | .role r =>
    let l := ((roleTable.find? (fun e => e.1 = r)).map (·.2)).getD []
    let op := "op" ∈ l
    let present := "present" ∈ l
    let token := "token" ∈ l
    let record := "record" ∈ l
    let (l, c) : List String × Nat :=
      if g.cfg.allowRecording ∧ op ∧ ¬record then ("record" :: l, prependCap l.length) else (l, l.length)
    let (l, c) : List String × Nat :=
      if g.cfg.unrestrictedTokens ∧ present ∧ ¬token then ("token" :: l, prependCap l.length) else (l, c)
    if l.isEmpty then (w, nilSlice)
    else
      let (h, s) := w.heap.allocCap l c
      ({ w with heap := h }, s)

def pwMatch (u : UserCfg) (pw : String) : Bool :=
  u.anyPw || (match u.pw with | some p => p = pw | none => false)

/-- Description.GetPermission -/
def getPermission (w : World) (g : Group) (cr : Creds) : World × Except JoinErr (String × Slice) :=
  let finish (w : World) (username : String) (s : Slice) : World × Except JoinErr (String × Slice) :=
    if !validUsername username then (w, .error .notAuthorised) else (w, .ok (username, s))
  if cr.token ≠ "" then
    match w.tokens.find? (fun t => t.id = cr.token) with
    | none => (w, .error .notAuthorised)
    | some t =>
      if cr.username.isNone ∧ t.user.isNone then (w, .error .needUsername)
      else if t.group ≠ g.name then (w, .error .notAuthorised)
      else if t.expires ≠ some .future then (w, .error .notAuthorised)
      else if t.notBefore = some .future then (w, .error .notAuthorised)
      else
        let username := t.user.getD ""
        -- Stateful.Check returns token.Permissions itself (shared) unless repaired
        let (w, perms) : World × Slice :=
          if w.fix.tokClone then
            let (h, s) := w.heap.alloc (w.heap.get t.perms)
            ({ w with heap := h }, s)
          else (w, t.perms)
        match (if username = "" then cr.username else none) with
        | some u =>
          if g.cfg.users.any (fun x => x.name = u) then (w, .error .duplicateUsername)
          else finish w u perms
        | none => finish w username perms
  else match cr.username with
    | none => (w, .error .internal)
    | some u =>
      match g.cfg.users.find? (fun x => x.name = u) with
      | some uc =>
        if pwMatch uc cr.password then
          let (w, s) := specPerms w g u uc.perms
          finish w u s
        else (w, .error .notAuthorised)
      | none =>
        match g.cfg.wildcard with
        | some wc =>
          if pwMatch wc cr.password then
            let (w, s) := specPerms w g "*" wc.perms
            finish w u s
          else (w, .error .notAuthorised)
        | none => (w, .error .notAuthorised)

def joinFailMsg (gname username : String) (e : JoinErr) : OutMsg :=
  let (er, s) := match e with
    | .needUsername => ("need-username", "username required")
    | .duplicateUsername => ("duplicate-username", "not authorised: this username is taken")
    | .notAuthorised => ("", "not authorised")
    | .notExist => ("", "group does not exist")
    | .user t => ("", t)
    | .internal => ("", "internal server error")
  { type := "joined", kind := "fail", error := er, group := gname, username := some username, value := .sc (.str s) }

/-- delUpConn(c, id, c.id, push) -/
def delUpConn (w : World) (i : Nat) (id : String) (push : Bool) : World × Bool :=
  match w.client? i with
  | none => (w, false)
  | some c =>
    match c.up.find? (fun u => u.1 = id) with
    | none => (w, false)
    | some u =>
      let w := w.modClient i (fun c => { c with up := c.up.filter (fun x => x.1 ≠ id) })
      match (if push then c.group else none) with
      | none => (w, true)
      | some gn =>
        match w.group? gn with
        | none => (w, true)
        | some g =>
          (g.members.foldl (fun w r => match r with
            | .web j => if j = i then w else w.enq j (.pushConn gn id false u.2)
            | _ => w) w, true)

/-- group.DelClient -/
def delClient (w : World) (r : Ref) (gn : String) : World :=
  match w.group? gn with
  | none => w
  | some g =>
    if !g.members.contains r then w
    else
      let id := w.refId r
      let uname := w.refUsername r
      let w := w.modGroup gn (fun g => { g with members := g.members.filter (· != r) })
      -- since 8fc7443 autoLockKick runs before the lock is released, i.e. before the pushes
      let w := autoLockKick w gn
      let w := w.joinedTo r gn "leave"
      let rest := g.members.filter (· != r)
      rest.foldl (fun w cc => w.pushClientTo cc (.pushClient gn "delete" id uname (.fixed []) [])) w

/-- leaveGroup -/
def leaveGroup (w : World) (i : Nat) : World :=
  match w.client? i with
  | none => w
  | some c =>
    match c.group with
    | none => w
    | some gn =>
      let w := c.up.foldl (fun w u => (delUpConn w i u.1 true).1) w
      let w := delClient w (.web i) gn
      w.modClient i (fun c => { c with perms := nilSlice, data := [], group := none })

/-- the `joined`/`fail` reply of the `join` case -/
def joinFail (w : World) (i : Nat) (gname : String) (e : JoinErr) : World :=
  w.write i (joinFailMsg gname (((w.client? i).map (·.username)).getD "") e)

/-- the end of group.AddClient (the client is admitted: `c.Init` if P10 is
repaired, insertion, the pushes in both directions) and the tail of the `join`
case (redirect, or `c.group = g`) -/
def insertClient (w : World) (i : Nat) (gname : String) (g : Group) (username : String) (perms : Slice) : World :=
  let clients := g.members
  let cid := ((w.client? i).map (·.id)).getD ""
  let w := if w.fix.p10 then w.modClient i (fun c => { c with username := username, perms := perms }) else w
  let w := w.modGroup gname (fun g => { g with members := g.members ++ [.web i] })
  let w := w.enq i (.joined gname "join")
  let cdata := ((w.client? i).map (·.data)).getD []
  let selfAdd := Action.pushClient gname "add" cid username (.alias perms) cdata
  let w := w.enq i selfAdd
  let w := (w.sortedRefs clients).foldl (fun w r =>
    let w := w.enq i (.pushClient gname "add" (w.refId r) (w.refUsername r)
      (match r with | .web j => .alias (((w.client? j).map (·.perms)).getD nilSlice) | _ => .fixed ["system"])
      (w.refData r))
    w.pushClientTo r selfAdd) w
  if g.cfg.redirect ≠ "" then
    let w := if w.fix.p18 then leaveGroup (w.modClient i (fun c => { c with group := some gname })) i else w
    w.write i { type := "joined", kind := "redirect", group := gname, username := some username,
                value := .sc (.str g.cfg.redirect) }
  else w.modClient i (fun c => { c with group := some gname })

/-- the admission checks of group.AddClient for a client that is not `system` -/
def admission (w : World) (i : Nat) (gname : String) (g : Group) (username : String) (perms : Slice) : World :=
  let clients := g.members
  let pl := w.heap.get perms
  let isOp := "op" ∈ pl
  let cid := ((w.client? i).map (·.id)).getD ""
  if ¬isOp ∧ g.locked.isSome then
    joinFail w i gname (.user (if g.locked.getD "" = "" then "this group is locked" else g.locked.getD ""))
  else if ¬isOp ∧ g.cfg.notYet then joinFail w i gname (.user "this group is not open yet")
  else if ¬isOp ∧ g.cfg.closed then joinFail w i gname (.user "this group is closed")
  else if ¬isOp ∧ g.cfg.autokick ∧ ¬ clients.any (fun r => "op" ∈ w.refPerms r) then
    joinFail w i gname (.user "there are no operators in this group")
  else if ¬isOp ∧ g.cfg.maxClients > 0 ∧ clients.length ≥ g.cfg.maxClients then
    joinFail w i gname (.user "too many users")
  else if cid = "" then joinFail w i gname .internal
  else if clients.any (fun r => w.refId r = cid) then joinFail w i gname .internal
  else insertClient w i gname g username perms

/-- group.AddClient for a webClient, then the tail of the `join` case -/
def joinGroup (w : World) (i : Nat) (gname : String) (cr : Creds) (data : Dict) : World :=
  let w := w.modClient i (fun c => { c with data := data })
  match addGroup w gname with
  | (w, .error e) => joinFail w i gname e
  | (w, .ok ()) =>
    match w.group? gname with
    | none => joinFail w i gname .internal
    | some g =>
      match getPermission w g cr with
      | (w, .error e) => joinFail w i gname e
      | (w, .ok (username, perms)) =>
        -- c.Init(username, perms): before the admission checks (after them once P10 is repaired)
        let w := if w.fix.p10 then w else w.modClient i (fun c => { c with username := username, perms := perms })
        admission w i gname g username perms

/-- errorToWSCloseMessage + the deferred calls of clientLoop/StartClient -/
def finish (w : World) (i : Nat) (e : CloseErr) : World :=
  let w := w.modClient i (fun c => { c with alive := false })
  let w := leaveGroup w i
  let cid := ((w.client? i).map (·.id)).getD ""
  let frame (code : Nat) (text : String) : OutMsg := { closeCode := some code, value := .sc (.str text) }
  match e with
  | .ws => w.write i (frame 1000 "")
  | .proto s => (w.write i (errMsg cid s)).write i (frame 1002 s)
  | .user s => (w.write i (errMsg cid s)).write i (frame 1000 s)
  | .kick id user msg =>
    let text := "kicked out" ++ (if msg ≠ "" then " (" ++ msg ++ ")" else "") ++
      (match user with | some u => if u ≠ "" then " by " ++ u else "" | none => "")
    let m : OutMsg := { type := "usermessage", kind := "kicked", id := id, username := user, dest := cid,
                        privileged := true, value := .sc (.str (if msg = "" then "you have been kicked out" else msg)) }
    (w.write i m).write i (frame 1000 text)
  | .other _ => w.write i (frame 1011 "")

/-- the detached `go func(clients)` of permissionsChangedAction / setdata -/
def broadcastChange (w : World) (gn : String) (a : Action) : World :=
  match w.group? gn with
  | none => w
  | some g =>
    let webs := g.members.filterMap (fun r => match r with | .web j => some j | _ => none)
    let blocker := g.members.findSome? (fun r => match r with
      | .mock id => (w.mocks.find? (fun m => m.id = id ∧ m.block)).map (·.id)
      | _ => none)
    match blocker with
    | none => webs.foldl (fun w j => w.enq j a) w
    | some mid =>
      let now := webs.filter w.choice
      let later := webs.filter (fun j => !w.choice j)
      let w := now.foldl (fun w j => w.enq j a) w
      { w with mocks := w.mocks.map (fun m =>
          if m.id = mid then { m with parked := m.parked ++ [{ pending := later, act := a }] } else m) }

def tokView (w : World) (t : Token) : TokView :=
  { id := t.id, group := t.group, user := t.user, perms := w.heap.get t.perms, expires := t.expires,
    notBefore := t.notBefore, issuedBy := t.issuedBy }

/-- Group.WallOps -/
def wallOps (w : World) (gn text : String) : World :=
  match w.group? gn with
  | none => w
  | some g =>
    g.members.foldl (fun w r => match r with
      | .web j =>
        if "op" ∈ w.permsOf j then
          w.write j (warnMsg (w.refId r) text)
        else w
      | _ => w) w

def webAddr : String := "192.0.2.7:4000"

/-- perform one effect of client `i`'s handler -/
def applyEffect (w : World) (i : Nat) (e : Effect) : World :=
  let c := (w.client? i).getD {}
  let gn := c.group.getD ""
  match e with
  | .reply m => w.write i m
  | .deliver dest m =>
    match (w.group? gn).bind (fun g => g.members.find? (fun r => w.refId r = dest)) with
    | some (.web j) => w.write j m
    | _ => w
  | .broadcast noecho m =>
    match w.group? gn with
    | none => w
    | some g => g.members.foldl (fun w r => match r with
        | .web j => if noecho ∧ j = i then w else w.write j m
        | _ => w) w
  | .consumeFresh => { w with nextR := w.nextR + 1 }
  | .histAdd en => w.modGroup gn (fun g => { g with history := History.add g.history en })
  | .histClear id userId => w.modGroup gn (fun g => { g with history := History.clear g.history id userId })
  | .setLocked l msg =>
    let w := w.modGroup gn (fun g => { g with locked := if l then some msg else none })
    match w.group? gn with
    | none => w
    | some g => g.members.foldl (fun w r => w.joinedTo r gn "change") w
  | .groupData d =>
    let w := w.modGroup gn (fun g => { g with data := Dict.merge g.data d })
    match w.group? gn with
    | none => w
    | some g => g.members.foldl (fun w r => w.joinedTo r gn "change") w
  | .changePerm dest kind =>
    match (w.group? gn).bind (fun g => g.members.find? (fun r => w.refId r = dest)) with
    | some (.web j) => w.enq j (.changePerm kind)
    | _ => w
  | .kick dest id user msg =>
    match (w.group? gn).bind (fun g => g.members.find? (fun r => w.refId r = dest)) with
    | some (.web j) => w.enq j (.kick id user msg)
    | some (.disk d) =>
      let w := { w with disks := w.disks.map (fun x => if x.id = d then { x with closed := true } else x) }
      delClient w (.disk d) gn
    | _ => w
  | .identify dest =>
    match (w.group? gn).bind (fun g => g.members.find? (fun r => w.refId r = dest)) with
    | none => w
    | some r =>
      let uname := w.refUsername r
      let d : Dict := [("id", .str (w.refId r))]
      let d := if uname ≠ "" then Dict.insert d "username" (.str uname) else d
      let d := match r with | .web _ => Dict.insert d "address" (.str webAddr) | _ => d
      let w := match r with
        | .web j => w.write j (warnMsg (w.refId r)
            ("Your IP address has been communicated to user " ++ c.username ++ "."))
        | _ => w
      w.write i (privMsg "userinfo" (.map d))
  | .record =>
    -- diskwriter.New; group.AddClient(g.Name(), disk, System); requestConns(disk, g, "")
    let w : World := (addGroup w gn).1
    match w.group? gn with
    | none => w
    | some g =>
      let did := w.fresh
      let w : World := { w with nextR := w.nextR + 1, disks := w.disks ++ [({ id := did, group := gn } : Disk)] }
      let clients := g.members
      let w : World := w.modGroup gn (fun g => { g with members := g.members ++ [Ref.disk did] })
      let w : World := clients.foldl (fun w cc =>
        w.pushClientTo cc (.pushClient gn "add" did "RECORDING" (.fixed ["system"]) [])) w
      clients.foldl (fun w cc => match cc with
        | .web j => w.enq j (.requestConns gn (.disk did) "")
        | _ => w) w
  | .unrecord =>
    match w.group? gn with
    | none => w
    | some g =>
      g.members.foldl (fun w r => match r with
        | .disk d =>
          let w := { w with disks := w.disks.map (fun x => if x.id = d then { x with closed := true } else x) }
          delClient w (.disk d) gn
        | _ => w) w
  | .subgroups =>
    let lines := w.groups.filterMap (fun g =>
      if g.name.startsWith (gn ++ "/") ∧ g.members.length > 0 then
        some s!"{g.name} ({g.members.length} client{if g.members.length > 1 then "s" else ""})"
      else none)
    let sorted := sortBy id lines
    w.write i { type := "chat", dest := c.id, username := some "Server",
                value := .sc (.str ("\n".intercalate sorted)) }
  | .mintToken t id issuedBy =>
    -- the identifier drawn for the token is never revealed, and the harness numbers the server's
    -- identifiers in the order in which they appear: give the number back
    if w.storeFault then { w with nextR := w.nextR - 1 }.write i (storeFaultReply) else
    let pl := t.perms.getD []
    let (h, s) := w.heap.alloc pl
    let tok : Token := { id := id, group := t.group, user := t.user, perms := s, expires := t.expires,
                         notBefore := t.notBefore, issuedBy := issuedBy }
    let w := { w with heap := h, tokens := w.tokens ++ [tok] }
    w.write i (privMsg "token" (.tok (tokView w tok)))
  | .editToken old ex nb =>
    if w.storeFault then w.write i (storeFaultReply) else
    let (h, s) := w.heap.alloc (w.heap.get old.perms)
    let t : Token := { old with perms := s, expires := if ex.isSome then ex else old.expires,
                                notBefore := if nb.isSome then nb else old.notBefore }
    let w := { w with heap := h, tokens := w.tokens.map (fun (x : Token) => if x.id = old.id then t else x) }
    w.write i (privMsg "token" (.tok (tokView w t)))
  | .listTokens g =>
    w.write i (privMsg "tokenlist" (.toks ((w.tokens.filter (fun t => t.group = g)).map (tokView w))))
  | .setOwnData d =>
    let w := w.modClient i (fun c => { c with data := Dict.merge c.data d })
    let c := (w.client? i).getD {}
    broadcastChange w gn (.pushClient gn "change" c.id c.username (.alias c.perms) c.data)
  | .join g cr data => joinGroup w i g cr data
  | .leave => leaveGroup w i
  | .request =>
    match w.group? gn with
    | none => w
    | some g => g.members.foldl (fun w r => match r with
        | .web j => if j = i then w else w.enq j (.requestConns gn (.web i) "")
        | _ => w) w
  | .publish id sdpOk replace =>
    -- gotOffer → addUpConn
    match c.up.find? (fun u => u.1 = id) with
    | some _ =>
      -- the old connection is reused; SetRemoteDescription rejects the SDP
      let w := if replace ≠ "" then
          if w.fix.f3 then
            -- after the repair "announce the close of a stream replaced in a renegotiation": no deferred
            -- replace, the close is pushed right away
            (delUpConn w i replace true).1
          else
            let w := w.modClient i (fun c => { c with up := c.up.map (fun u => if u.1 = id then (u.1, replace) else u) })
            (delUpConn w i replace false).1
        else w
      (w.write i { type := "abort", id := id }).write i (errMsg c.id "OTHER")
    | none =>
      if !sdpOk then (w.write i { type := "abort", id := id }).write i (errMsg c.id "OTHER")
      else if c.group.isNone then { w with crashed := true }     -- newUpConn: c.Group().API() on a nil group
      else w                                                      -- a real negotiation: not modelled (never generated)
  | .unpublish id => (delUpConn w i id true).1
  | .fail err => finish w i err

/-- handleClientMessage on client `i` -/
def handleMsg (w : World) (i : Nat) (m : Msg) : World :=
  ((handle (w.conn i) (w.env i) m).foldl (fun w e => if w.crashed then w else applyEffect w i e) w).flush

/-- the status of a message: the connection-closing error, if any -/
def failOf (es : List Effect) : Option CloseErr :=
  es.findSome? (fun e => match e with | .fail err => some err | _ => none)

/-- Group.Status(true, nil) as far as the harness records it -/
def statusOf (g : Group) : Bool × Int :=
  if g.cfg.redirect ≠ "" then (false, -1) else (g.locked.isSome, g.members.length)

/-- handleAction; returns the error that ends the connection, if any -/
def handleAction (w : World) (i : Nat) (a : Action) : World × Option CloseErr :=
  match w.client? i with
  | none => (w, none)
  | some c =>
    match a with
    | .pushConn g id _ replace =>
      if c.group ≠ some g then (w, none)
      else
        -- pushDownConn with nothing requested: close id, then (deferred) close replace
        let w := w.write i { type := "close", id := id }
        (if replace ≠ "" then w.write i { type := "close", id := replace } else w, none)
    | .requestConns g target id =>
      if c.group ≠ some g then (w, none)
      else
        (c.up.foldl (fun w u =>
          if id ≠ "" ∧ id ≠ u.1 then w
          else match target with
            | .web j => w.enq j (.pushConn g u.1 true u.2)
            | .disk d =>
              match w.disks.find? (fun x => x.id = d) with
              | some x => if x.closed ∨ x.group ≠ g then w else wallOps w g "Write to disk: no usable tracks found"
              | none => w
            | .mock _ => w) w, none)
    | .pushClient g kind id username perms data =>
      match c.group with
      | none =>
        if w.fix.p12 then (w, none)
        else ({ w with crashed := true }, none)             -- c.group.Name() on a nil group
      | some cg =>
        if g ≠ cg then (w, none)
        else (w.write i { type := "user", kind := kind, id := id, username := some username,
                          perms := w.resolve perms, data := data }, none)
    | .joined g kind =>
      match w.group? g with
      | none =>
        (w.write i { type := "joined", kind := kind, group := g, username := some c.username,
                     perms := w.heap.get c.perms }, none)
      | some gr =>
        let w := w.write i { type := "joined", kind := kind, group := g, username := some c.username,
                             perms := w.heap.get c.perms, status := some (statusOf gr), data := gr.data }
        if kind = "join" then
          let h := History.discardObsolete gr.history (History.maxAge gr.cfg.maxHistoryAge)
          let w := w.modGroup g (fun x => { x with history := h })
          (h.foldl (fun w en => w.write i { type := "chathistory", id := en.id, source := en.source,
                                             username := en.user, value := en.value, kind := en.kind }) w, none)
        else (w, none)
    | .changePerm kind =>
      if w.fix.p19 ∧ c.group.isNone then (w, none) else
      let s := c.perms
      let upd : Option (Heap × Slice) :=
        if kind = "op" then
          let (h, s) := addnewS w.heap s "op"
          if (c.group.bind w.group?).any (fun g => g.cfg.allowRecording) then some (addnewS h s "record")
          else some (h, s)
        else if kind = "unop" then
          let (h, s) := removeFix w.fix w.heap s "op"
          some (removeFix w.fix h s "record")
        else if kind = "present" then some (addnewS w.heap s "present")
        else if kind = "unpresent" then some (removeFix w.fix w.heap s "present")
        else if kind = "shutup" then some (removeFix w.fix w.heap s "message")
        else if kind = "unshutup" then some (addnewS w.heap s "message")
        else none
      match upd with
      | none => (w, some (.user "unknown permission"))
      | some (h, s) =>
        let w := { w with heap := h }
        let w := w.modClient i (fun c => { c with perms := s })
        (w.enq i .permChanged, none)
    | .permChanged =>
      match c.group.bind w.group? with
      | none => if w.fix.p19 then (w, none) else (w, some (.other "Permissions changed in no group"))
      | some g =>
        let perms := w.heap.get c.perms
        let w := w.write i { type := "joined", kind := "change", group := g.name, username := some c.username,
                             perms := perms, status := some (statusOf g) }
        let w :=
          if "present" ∉ perms then
            c.up.foldl (fun w u =>
              let (w, ok) := delUpConn w i u.1 true
              if ok then (w.write i { type := "abort", id := u.1 }).write i (errMsg c.id "permission denied")
              else w) w
          else w
        (broadcastChange w g.name (.pushClient g.name "change" c.id c.username (.fixed perms) c.data), none)
    | .kick id user msg => (w, some (.kick id user msg))

/-- one iteration of the action loop for client `i`: the oldest queued action.
Also returns the error that closed the connection, if any. -/
def stepAction (w : World) (i : Nat) : World × Option CloseErr :=
  match w.client? i with
  | none => (w, none)
  | some c =>
    match c.queue with
    | [] => (w, none)
    | a :: rest =>
      let w := w.modClient i (fun c => { c with queue := rest })
      let (w, err) := handleAction w i a
      if w.crashed then (w, err)
      else match err with
        | some e => ((finish w i e).flush, err)
        | none => (w.flush, none)

end Galene.Sig
