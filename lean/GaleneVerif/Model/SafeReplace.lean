/-
A small model of the file-system syscalls by which a program replaces a file
(property C16/C18, "atomic replace"), and the decidable shape `SafeReplace`
that makes the replacement atomic with respect to a crash between any two
syscalls.  The syscall lists themselves are captured with strace from the real
code (lean/GaleneVerif/Generated/Syscalls*.lean).

Contents of a file: the list of the sizes of the chunks written to it (every
`write` in the captured code appends: the file is either new and written
sequentially, or opened with O_APPEND).  A path is a pair of interned numbers
(directory, name).
-/
namespace Galene.SafeReplace

structure Path where
  dir : Nat
  name : Nat
  deriving DecidableEq, Repr

inductive Op where
  /-- `openat(O_CREAT|O_EXCL)`: creates an empty file, fails if the name exists -/
  | createExcl (p : Path)
  /-- `openat(O_CREAT|O_APPEND|O_WRONLY)`: creates an empty file if there is none -/
  | openAppend (p : Path)
  /-- any other open for writing (`O_TRUNC`, in-place): modelled as truncation -/
  | openTrunc (p : Path)
  | openRead (p : Path)
  /-- `write` of `n` bytes through a descriptor opened on `p` (appends) -/
  | write (p : Path) (n : Nat)
  | fsync (p : Path)
  | close (p : Path)
  | rename (src dst : Path)
  | unlink (p : Path)
  /-- stat and the like, or a failed call: no effect -/
  | other (p : Path)
  deriving DecidableEq, Repr

abbrev Content := List Nat
abbrev FS := Path → Option Content

def FS.set (fs : FS) (p : Path) (c : Option Content) : FS := fun q => if q = p then c else fs q

def exec (fs : FS) : Op → FS
  | .createExcl p => match fs p with
    | none => fs.set p (some [])
    | some _ => fs
  | .openAppend p => match fs p with
    | none => fs.set p (some [])
    | some _ => fs
  | .openTrunc p => fs.set p (some [])
  | .write p n => match fs p with
    | some c => fs.set p (some (c ++ [n]))
    | none => fs
  | .rename s d =>
    if s = d then fs else
    match fs s with
    | none => fs
    | some c => (fs.set d (some c)).set s none
  | .unlink p => fs.set p none
  | .openRead _ => fs
  | .fsync _ => fs
  | .close _ => fs
  | .other _ => fs

def run (fs : FS) (ops : List Op) : FS := ops.foldl exec fs

/-- What a reader gets: a missing file reads as the empty set of lines (`load` treats
`ENOENT` as "no tokens"). -/
def view (c : Option Content) : Content := c.getD []

/-- can the op change what is stored under path `t`? -/
def mutates (t : Path) : Op → Bool
  | .createExcl p => p = t
  | .openAppend p => p = t
  | .openTrunc p => p = t
  | .write p _ => p = t
  | .rename s d => s = t || d = t
  | .unlink p => p = t
  | _ => false

/-- does the op name path `p` (other than by a stat)? -/
def mentions (p : Path) : Op → Bool
  | .createExcl q => q = p
  | .openAppend q => q = p
  | .openTrunc q => q = p
  | .openRead q => q = p
  | .write q _ => q = p
  | .fsync q => q = p
  | .close q => q = p
  | .rename s d => s = p || d = p
  | .unlink q => q = p
  | .other _ => false

def quiet (t : Path) (ops : List Op) : Bool := ops.all (fun o => !mutates t o)

/-- split at the first op that can change `t` -/
def splitMut (t : Path) : List Op → List Op × Option (Op × List Op)
  | [] => ([], none)
  | o :: os =>
    if mutates t o then ([], some (o, os))
    else ((splitMut t os).1.cons o, (splitMut t os).2)

def isWriteTo (p : Path) : Op → Bool
  | .write q _ => q = p
  | .fsync q => q = p
  | _ => false

/-- The ops naming the temp file before the rename are exactly: exclusive creation, then
writes (and fsyncs), then close. -/
def tmpDiscipline (tmp : Path) (pre : List Op) : Bool :=
  match pre.filter (mentions tmp) with
  | .createExcl _ :: rest =>
    match rest.reverse with
    | .close _ :: ws => ws.all (isWriteTo tmp)
    | _ => false
  | _ => false

/-- The decidable shape.  Among the ops that can change the target there is
* none; or
* first a `rename tmp target` from a different name in the same directory, where `tmp` was
  created exclusively, written and closed before and is not named afterwards, and nothing else; or
* first an `unlink target`, and nothing else; or
* first an `openAppend target`, then at most one `write`, and nothing else. -/
def SafeReplace (t : Path) (ops : List Op) : Bool :=
  match splitMut t ops with
  | (_, none) => true
  | (pre, some (.rename tmp d, post)) =>
    d = t && tmp ≠ t && tmp.dir = t.dir && quiet t post && post.all (fun o => !mentions tmp o)
      && tmpDiscipline tmp pre
  | (_, some (.unlink _, post)) => quiet t post
  | (_, some (.openAppend _, post)) =>
    match splitMut t post with
    | (_, none) => true
    | (_, some (.write _ _, post')) => quiet t post'
    | _ => false
  | _ => false

/-- does the replacement call `fsync` on anything before renaming?  (recorded as a remark) -/
def hasFsync (ops : List Op) : Bool := ops.any (fun o => match o with | .fsync _ => true | _ => false)

end Galene.SafeReplace
