/-
Model of `sendSequence` (/repo/rtpconn/rtpwriter.go:209-224): the keyframe replay for a
receiver — or the recorder — that is attached in mid-stream.  `rtpWriterLoop` starts it with
`kf` = the sequence number of the last keyframe's first packet and `last` = the newest packet
in the cache; the live packets that follow are `last+1, …`.

    seqno := kf
    for ((last - seqno) & 0x8000) == 0 {        // uint16 arithmetic
        bytes := cache.Get(seqno, buf); if bytes == 0 { return }
        _, err := track.Write(buf[:bytes]);   if err != nil { return }
        seqno++
    }

Sequence numbers are `Nat`s below 65536, uint16 subtraction is written out with `% 65536`, and
`(x & 0x8000) == 0` for a 16-bit `x` is written `x < 32768` (bit 15 clear).  `fuel` bounds the
loop; `replay` gives it more than the loop can use (Props/C20Replay.lean: `fuel_irrelevant`).
-/
namespace Galene.Model.SendSeq

def dist (last seqno : Nat) : Nat := (last % 65536 + 65536 - seqno % 65536) % 65536

/-- `written` = number of successful writes so far; the `failAt`-th write (0-based) fails. -/
def loop : Nat → Nat → Nat → (Nat → Bool) → Option Nat → Nat → List Nat
  | 0, _, _, _, _, _ => []
  | fuel + 1, seqno, last, cached, failAt, written =>
    if dist last seqno < 32768 then
      if !cached seqno then []
      else if failAt = some written then []
      else seqno :: loop fuel ((seqno + 1) % 65536) last cached failAt (written + 1)
    else []

def replay (kf last : Nat) (cached : Nat → Bool) (failAt : Option Nat) : List Nat :=
  loop 65537 (kf % 65536) last cached failAt 0

end Galene.Model.SendSeq
