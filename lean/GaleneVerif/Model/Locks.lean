/-
Generic concurrency model for C13 (b)/(c): an abstract machine of threads that
acquire/release mutexes and access shared locations, plus the decision
procedures that are run on the regenerated lock facts (`acyclic`,
`cyclicComponents`, `certOk`).  Nothing here mentions galene: the galene
facts are in `GaleneVerif/Generated/{Locks,Accesses}.lean`.
-/
namespace Galene.Locks

/-! ### the abstract machine -/

inductive Event (L X : Type) where
  | acq (l : L)
  | rel (l : L)
  | access (x : X) (write : Bool)
  deriving Repr

/-- a thread: the mutexes it has acquired and not released, and its remaining program -/
structure Thread (L X : Type) where
  held : List L := []
  prog : List (Event L X)

structure MState (L X : Type) where
  threads : List (Thread L X)
  /-- mutex semantics: the owning thread, if any -/
  owner : L → Option Nat

variable {L X : Type} [DecidableEq L]

def initState (progs : List (List (Event L X))) : MState L X :=
  { threads := progs.map (fun p => { prog := p }), owner := fun _ => none }

/-- thread `t` executes its next event; `none` if it has finished or is blocked
(`acq` of an owned mutex blocks — also of one it owns itself: Go mutexes are not
reentrant; `rel` of a mutex it does not own is not enabled). -/
def stepThread (s : MState L X) (t : Nat) : Option (MState L X) :=
  match s.threads[t]? with
  | some ⟨held, .acq l :: rest⟩ =>
    if s.owner l = none then
      some { threads := s.threads.set t ⟨l :: held, rest⟩,
             owner := fun l' => if l' = l then some t else s.owner l' }
    else none
  | some ⟨held, .rel l :: rest⟩ =>
    if s.owner l = some t then
      some { threads := s.threads.set t ⟨held.erase l, rest⟩,
             owner := fun l' => if l' = l then none else s.owner l' }
    else none
  | some ⟨held, .access _ _ :: rest⟩ => some { s with threads := s.threads.set t ⟨held, rest⟩ }
  | _ => none

inductive Reachable (s0 : MState L X) : MState L X → Prop where
  | refl : Reachable s0 s0
  | step {s s' : MState L X} (t : Nat) : Reachable s0 s → stepThread s t = some s' → Reachable s0 s'

/-- every access in the program happens while `guard x` is (lexically) held -/
def GuardedFrom (guard : X → L) : List L → List (Event L X) → Prop
  | _, [] => True
  | held, .acq l :: rest => GuardedFrom guard (l :: held) rest
  | held, .rel l :: rest => GuardedFrom guard (held.erase l) rest
  | held, .access x _ :: rest => guard x ∈ held ∧ GuardedFrom guard held rest

/-- every acquire happens while all held mutexes have a smaller rank; mutexes are
released only when held; everything is released at the end -/
def RankedFrom (rank : L → Nat) : List L → List (Event L X) → Prop
  | held, [] => held = []
  | held, .acq l :: rest => (∀ l' ∈ held, rank l' < rank l) ∧ RankedFrom rank (l :: held) rest
  | held, .rel l :: rest => l ∈ held ∧ RankedFrom rank (held.erase l) rest
  | held, .access _ _ :: rest => RankedFrom rank held rest

/-- every acquire-while-holding pair of the program is one of the listed edges -/
def ConformsFrom (edges : List (L × L)) : List L → List (Event L X) → Prop
  | held, [] => held = []
  | held, .acq l :: rest => (∀ l' ∈ held, (l', l) ∈ edges) ∧ ConformsFrom edges (l :: held) rest
  | held, .rel l :: rest => l ∈ held ∧ ConformsFrom edges (held.erase l) rest
  | held, .access _ _ :: rest => ConformsFrom edges held rest

/-! ### decision procedures on edge lists -/

section graph
variable {α : Type} [DecidableEq α]

def nodes (es : List (α × α)) : List α := (es.flatMap fun e => [e.1, e.2]).eraseDups

def succs (es : List (α × α)) (a : α) : List α := (es.filter (fun e => e.1 == a)).map (·.2)

/-- nodes reachable from the frontier (frontier included), bounded search -/
def closure (es : List (α × α)) : Nat → List α → List α → List α
  | 0, _, visited => visited
  | fuel + 1, frontier, visited =>
    match frontier.filter (fun n => !visited.contains n) with
    | [] => visited
    | fresh => closure es fuel ((fresh.flatMap (succs es)).eraseDups) (visited ++ fresh.eraseDups)

/-- nodes reachable from `a` in one or more steps -/
def reach (es : List (α × α)) (a : α) : List α := closure es ((nodes es).length + 1) (succs es a) []

/-- the position of `a` in `order` (its length if absent) -/
def rankIn (order : List α) (a : α) : Nat := order.idxOf a

/-- every edge goes forward in `order` -/
def respects (order : List α) (es : List (α × α)) : Bool :=
  es.all (fun e => decide (rankIn order e.1 < rankIn order e.2))

def insertBy (key : α → Nat) (x : α) : List α → List α
  | [] => [x]
  | y :: ys => if key x ≥ key y then x :: y :: ys else y :: insertBy key x ys

/-- candidate topological order: nodes by decreasing number of reachable nodes
(correct for every DAG; `acyclic` CHECKS the candidate, so a wrong candidate can only
make the answer `false`) -/
def candidateOrder (es : List (α × α)) : List α :=
  (nodes es).foldr (insertBy (fun n => (reach es n).length)) []

/-- the side condition decided on the regenerated facts -/
def acyclic (es : List (α × α)) : Bool := respects (candidateOrder es) es

end graph

/-! ### string-keyed helpers for the `locks` engine (witnesses) -/

def insertStr (x : String) : List String → List String
  | [] => [x]
  | y :: ys => if x ≤ y then x :: y :: ys else y :: insertStr x ys
def sortStrs (l : List String) : List String := l.foldr insertStr []

/-- strongly connected components that contain a cycle: nodes sorted inside a component,
components in the order of their smallest node (the canonical form the extractor prints) -/
def cyclicComponents (es : List (String × String)) : List (List String) :=
  let ns := sortStrs (nodes es)
  let r := ns.map (fun n => (n, reach es n))
  let reaches (a b : String) : Bool := ((r.lookup a).getD []).contains b
  let step (acc : List (List String) × List String) (n : String) : List (List String) × List String :=
    if acc.2.contains n || !reaches n n then acc
    else
      let comp := ns.filter (fun m => reaches n m && reaches m n)
      (acc.1 ++ [comp], acc.2 ++ comp)
  (ns.foldl step ([], [])).1

/-! ### guard certificate -/

/-- `needs` lookup in a certificate (functions not listed need nothing) -/
def certNeeds (cert : List (Nat × List Nat)) (f : Nat) : List Nat := (cert.lookup f).getD []

/-- The certificate check: every access is covered by a lock that is lexically held or
that the function is certified to need from its caller; every call to a function with
needs happens with each needed lock held or needed in turn; entry points need nothing. -/
def certOk (accesses : List (Nat × Nat × Bool × Nat × List Nat)) (calls : List (Nat × Nat × List Nat))
    (cert : List (Nat × List Nat)) (entries : List Nat) : Bool :=
  accesses.all (fun a => a.2.2.2.2.contains a.2.2.2.1 || (certNeeds cert a.1).contains a.2.2.2.1) &&
  calls.all (fun c => (certNeeds cert c.2.1).all (fun l => c.2.2.contains l || (certNeeds cert c.1).contains l)) &&
  entries.all (fun e => (certNeeds cert e).isEmpty)

end Galene.Locks
