/-
Model of codecs/codecs.go (PacketFlags, RewritePacket, Keyframe,
KeyframeDimensions) and of the parts of pion/rtp v1.10.4 they call
(rtp.Packet.Unmarshal, codecs.VP8Packet.Unmarshal, codecs.VP9Packet.Unmarshal).

Bytes are `List Nat` (each < 256).  Every index expression of the Go code is a
checked access here: an out-of-range index yields `Fail.panic`, an error return
yields `Fail.err`, so "never reads out of bounds" is a theorem about the model
(`≠ .panic`) and not an artefact of totalisation.
-/
namespace Galene.Codecs

abbrev Bytes := List Nat

inductive Fail where
  | err      -- the Go function returned a non-nil error
  | panic    -- index out of range (Go runtime panic)
  deriving Repr, DecidableEq

abbrev R := Except Fail

/-- checked index -/
def byteAt (b : Bytes) (i : Nat) : R Nat :=
  match b[i]? with
  | some x => pure x
  | none => throw .panic

def lower (s : String) : String := s.map Char.toLower

/-- `strings.EqualFold(codec, name)` for the ASCII names used by galene -/
def isCodec (codec name : String) : Bool := lower codec == name

def band (a b : Nat) : Nat := a &&& b
def bor (a b : Nat) : Nat := a ||| b
def bit (x mask : Nat) : Bool := x &&& mask != 0

/-! ### pion rtp.Packet.Unmarshal -/

structure Rtp where
  marker : Bool
  ext : Bool
  payloadStart : Nat
  payloadEnd : Nat
  deriving Repr, DecidableEq

/-- the one-byte / two-byte extension walk of `Header.Unmarshal`; returns error
or ok.  `fuel` bounds the loop (n strictly increases). -/
def extWalk (b : Bytes) (oneByte : Bool) (extEnd : Nat) : Nat → Nat → R Unit
  | 0, _ => pure ()
  | fuel + 1, n =>
    if n < extEnd then do
      let x ← byteAt b n
      if x = 0 then extWalk b oneByte extEnd fuel (n + 1)
      else if oneByte then
        let extid := x / 16
        let plen := x % 16 + 1
        let n := n + 1
        if extid = 15 || extid = 0 then pure ()
        else if extEnd < n + plen then throw .err
        else extWalk b oneByte extEnd fuel (n + plen)
      else
        let n := n + 1
        if extEnd ≤ n then throw .err
        else do
          let plen ← byteAt b n
          let n := n + 1
          if extEnd < n + plen then throw .err
          else extWalk b oneByte extEnd fuel (n + plen)
    else pure ()

def rtpUnmarshal (b : Bytes) : R Rtp := do
  if b.length < 12 then throw .err
  let b0 ← byteAt b 0
  let b1 ← byteAt b 1
  let padding := bit b0 0x20
  let ext := bit b0 0x10
  let n := 12 + (b0 % 16) * 4
  if b.length < n then throw .err
  let hlen ←
    if ext then do
      if b.length < n + 4 then throw .err
      let p0 ← byteAt b n
      let p1 ← byteAt b (n + 1)
      let l0 ← byteAt b (n + 2)
      let l1 ← byteAt b (n + 3)
      let profile := p0 * 256 + p1
      let extEnd := n + 4 + (l0 * 256 + l1) * 4
      if b.length < extEnd then throw .err
      if profile = 0xBEDE || profile = 0x1000 then
        extWalk b (profile = 0xBEDE) extEnd (b.length + 1) (n + 4)
      pure extEnd
    else pure n
  let mut end_ := b.length
  if padding then
    if end_ ≤ hlen then throw .err
    let ps ← byteAt b (end_ - 1)
    if ps = 0 then throw .err
    -- Go: `end -= int(PaddingSize)`; a negative `end` fails `end < n`
    if ps > end_ then throw .err
    end_ := end_ - ps
  if end_ < hlen then throw .err
  pure { marker := bit b1 0x80, ext := ext, payloadStart := hlen, payloadEnd := end_ }

/-! ### pion codecs.VP8Packet.Unmarshal -/

structure VP8 where
  x : Bool := false
  n : Bool := false
  s : Bool := false
  pid : Nat := 0        -- partition index (3 bits)
  i : Bool := false
  l : Bool := false
  t : Bool := false
  k : Bool := false
  m : Bool := false     -- 15-bit picture id
  pictureID : Nat := 0
  tid : Nat := 0
  y : Bool := false
  payloadStart : Nat := 0   -- offset of the VP8 payload inside the RTP payload
  deriving Repr, DecidableEq

def vp8Unmarshal (p : Bytes) : R VP8 := do
  if 0 ≥ p.length then throw .err
  let b0 ← byteAt p 0
  let x := bit b0 0x80
  let n := bit b0 0x20
  let s := bit b0 0x10
  let pid := b0 % 8
  let mut idx := 1
  let mut i := false
  let mut l := false
  let mut t := false
  let mut k := false
  if x then
    if idx ≥ p.length then throw .err
    let b ← byteAt p idx
    i := bit b 0x80
    l := bit b 0x40
    t := bit b 0x20
    k := bit b 0x10
    idx := idx + 1
  let mut m := false
  let mut pictureID := 0
  if i then
    if idx ≥ p.length then throw .err
    let b ← byteAt p idx
    if bit b 0x80 then
      if idx + 1 ≥ p.length then throw .err
      let b' ← byteAt p (idx + 1)
      m := true
      pictureID := (b % 128) * 256 + b'
      idx := idx + 2
    else
      pictureID := b
      idx := idx + 1
  if l then
    if idx ≥ p.length then throw .err
    idx := idx + 1
  let mut tid := 0
  let mut y := false
  if t || k then
    if idx ≥ p.length then throw .err
    let b ← byteAt p idx
    if t then
      tid := b / 64
      y := bit b 0x20
    idx := idx + 1
  pure { x, n, s, pid, i, l, t, k, m, pictureID, tid, y, payloadStart := idx }

/-! ### pion codecs.VP9Packet.Unmarshal -/

structure VP9 where
  i : Bool
  p : Bool
  l : Bool
  f : Bool
  b : Bool
  e : Bool
  v : Bool
  z : Bool
  tid : Nat := 0
  u : Bool := false
  sid : Nat := 0
  /-- (width, height) pairs of the scalability structure, when `v ∧ Y` -/
  dims : List (Nat × Nat) := []
  payloadStart : Nat := 0
  deriving Repr, DecidableEq

def refIndices (p : Bytes) : Nat → Nat → Nat → R Nat
  | 0, pos, _ => pure pos
  | fuel + 1, pos, cnt => do
    if p.length ≤ pos then throw .err
    let b ← byteAt p pos
    let cnt := cnt + 1
    if b % 2 = 0 then pure (pos + 1)
    else if cnt ≥ 3 then throw .err
    else refIndices p fuel (pos + 1) cnt

def ssDims (p : Bytes) : Nat → Nat → List (Nat × Nat) → R (Nat × List (Nat × Nat))
  | 0, pos, acc => pure (pos, acc.reverse)
  | k + 1, pos, acc => do
    if p.length ≤ pos + 3 then throw .err
    let w0 ← byteAt p pos
    let w1 ← byteAt p (pos + 1)
    let h0 ← byteAt p (pos + 2)
    let h1 ← byteAt p (pos + 3)
    ssDims p k (pos + 4) ((w0 * 256 + w1, h0 * 256 + h1) :: acc)

def ssGroups (p : Bytes) : Nat → Nat → R Nat
  | 0, pos => pure pos
  | k + 1, pos => do
    if p.length ≤ pos then throw .err
    let b ← byteAt p pos
    let reference := (b / 4) % 4
    let pos := pos + 1
    -- Go: `len(packet) <= pos + reference - 1` on ints
    if p.length + 1 ≤ pos + reference then throw .err
    ssGroups p k (pos + reference)

def vp9Unmarshal (p : Bytes) : R VP9 := do
  if p.length < 1 then throw .err
  let b0 ← byteAt p 0
  let i := bit b0 0x80
  let pp := bit b0 0x40
  let l := bit b0 0x20
  let f := bit b0 0x10
  let b := bit b0 0x08
  let e := bit b0 0x04
  let v := bit b0 0x02
  let z := bit b0 0x01
  let mut pos := 1
  if i then
    if p.length ≤ pos then throw .err
    let x ← byteAt p pos
    if bit x 0x80 then
      pos := pos + 1
      if p.length ≤ pos then throw .err
    pos := pos + 1
  let mut tid := 0
  let mut u := false
  let mut sid := 0
  if l then
    if p.length ≤ pos then throw .err
    let x ← byteAt p pos
    tid := x / 32
    u := bit x 0x10
    sid := (x / 2) % 8
    if sid ≥ 5 then throw .err
    pos := pos + 1
    if !f then
      if p.length ≤ pos then throw .err
      pos := pos + 1
  if f && pp then
    pos ← refIndices p (p.length + 1) pos 0
  let mut dims := []
  if v then
    if p.length ≤ pos then throw .err
    let x ← byteAt p pos
    let ns := x / 32
    let y := bit x 0x10
    let g := bit x 0x08
    pos := pos + 1
    if y then
      let (pos', d) ← ssDims p (ns + 1) pos []
      pos := pos'
      dims := d
    let mut ng := 0
    if g then
      if p.length ≤ pos then throw .err
      ng ← byteAt p pos
      pos := pos + 1
    pos ← ssGroups p ng pos
  pure { i, p := pp, l, f, b, e, v, z, tid, u, sid, dims, payloadStart := pos }

/-! ### codecs.PacketFlags -/

structure Flags where
  seqno : Nat := 0
  marker : Bool := false
  start : Bool := false
  end_ : Bool := false
  keyframe : Bool := false
  pid : Nat := 0
  tid : Nat := 0
  sid : Nat := 0
  tidUpSync : Bool := false
  sidUpSync : Bool := false
  sidNonReference : Bool := false
  discardable : Bool := false
  deriving Repr, DecidableEq

def packetFlags (codec : String) (buf : Bytes) : R Flags := do
  if buf.length < 4 then throw .err
  let b1 ← byteAt buf 1
  let b2 ← byteAt buf 2
  let b3 ← byteAt buf 3
  let flags : Flags := { seqno := b2 * 256 + b3, marker := bit b1 0x80 }
  if isCodec codec "video/vp8" then
    let pkt ← rtpUnmarshal buf
    let payload := (buf.take pkt.payloadEnd).drop pkt.payloadStart
    let vp8 ← vp8Unmarshal payload
    let vpay := payload.drop vp8.payloadStart
    let start := vp8.s && vp8.pid = 0
    let kf : Bool ←
      if start && vpay.length > 0 then do
        let x ← byteAt vpay 0
        pure (decide (x % 2 = 0))
      else pure false
    pure { flags with start := start, end_ := pkt.marker, keyframe := kf, pid := vp8.pictureID,
                      tid := vp8.tid, tidUpSync := kf || vp8.y, sidUpSync := kf, discardable := vp8.n }
  else if isCodec codec "video/vp9" then
    let pkt ← rtpUnmarshal buf
    let payload := (buf.take pkt.payloadEnd).drop pkt.payloadStart
    let vp9 ← vp9Unmarshal payload
    let vpay := payload.drop vp9.payloadStart
    let kf : Bool ←
      if vp9.b && vpay.length > 0 then do
        let x ← byteAt vpay 0
        if band x 0xc0 = 0x80 then
          let profile := (x / 16) % 4
          if profile ≠ 3 then pure (decide (band x 0xC = 0)) else pure (decide (band x 0x6 = 0))
        else pure false
      else pure false
    let p0 ← byteAt payload 0
    pure { flags with start := vp9.b, end_ := vp9.e, keyframe := kf, tid := vp9.tid, sid := vp9.sid,
                      tidUpSync := kf || vp9.u, sidUpSync := kf || !vp9.p,
                      sidNonReference := decide (p0 % 2 = 1) }
  else pure flags

/-! ### codecs.RewritePacket -/

inductive Status where
  | ok | err | panic
  deriving Repr, DecidableEq

def setByte (b : Bytes) (i v : Nat) : Bytes := b.set i v

/-- in-place edit; returns the buffer as left by the Go code and the status.
(On `err`/`panic` the caller discards the buffer, but the mutation made so far
is modelled so that the differential check compares it too.) -/
def rewritePacket (codec : String) (data : Bytes) (setMarker : Bool) (seqno delta : Nat) :
    Bytes × Status :=
  if data.length < 12 then (data, .err) else
  let d1 := if setMarker then setByte data 1 (bor (data.getD 1 0) 0x80) else data
  let d := setByte (setByte d1 2 (seqno / 256 % 256)) 3 (seqno % 256)
  if delta = 0 then (d, .ok) else
  let offset := 12 + (d.getD 0 0 % 16) * 4
  if d.length ≤ offset then (d, .err) else
  let afterExt : Except Status Nat :=
    if bit (d.getD 0 0) 0x10 then
      if d.length < offset + 4 then .error .err else
      match d[offset + 2]?, d[offset + 3]? with
      | some a, some b =>
        let offset' := offset + 4 + (a * 256 + b) * 4
        if d.length < offset' + 4 then .error .err else .ok offset'
      | _, _ => .error .panic
    else .ok offset
  match afterExt with
  | .error s => (d, s)
  | .ok offset =>
    if !isCodec codec "video/vp8" then (d, .ok) else
    match d[offset]? with
    | none => (d, .panic)
    | some x0 =>
      if !bit x0 0x80 then (d, .ok) else
      let offset := offset + 1
      if d.length ≤ offset then (d, .err) else
      match d[offset]? with
      | none => (d, .panic)
      | some x1 =>
        if !bit x1 0x80 then (d, .ok) else
        let offset := offset + 1
        if d.length ≤ offset then (d, .err) else
        match d[offset]? with
        | none => (d, .panic)
        | some x2 =>
          if bit x2 0x80 then
            if d.length ≤ offset + 1 then (d, .err) else
            match d[offset + 1]? with
            | none => (d, .panic)
            | some x3 =>
              let pid := ((x2 % 128) * 256 + x3 + delta) % 32768
              (setByte (setByte d offset (bor 0x80 (pid / 256 % 128))) (offset + 1) (pid % 256), .ok)
          else
            (setByte d offset ((x2 + delta % 256) % 256 % 128), .ok)

/-! ### codecs.Keyframe -/

/-- result of `Keyframe`: (keyframe, known) -/
abbrev KF := Bool × Bool

/-- AV1 `getObu` on `data` (a suffix): (obuStart, obuLen, consumed, truncated), positions relative to `data` -/
def getObuLen (data : Bytes) : Nat → Nat → Nat → R (Option (Nat × Nat) × Nat × Bool)
  | 0, offset, _ => pure (none, offset, true)
  | fuel + 1, offset, length => do
    if data.length ≤ offset then pure (none, offset, decide (offset > 0))
    else if offset ≥ 4 then pure (none, offset, true)
    else
      let l ← byteAt data offset
      let length := length ||| ((l % 128) <<< (offset * 7))
      let offset := offset + 1
      if l / 128 % 2 = 0 then
        if data.length < offset + length then pure (some (offset, data.length - offset), data.length, true)
        else pure (some (offset, length), offset + length, false)
      else getObuLen data fuel offset length

def getObu (data : Bytes) (last : Bool) : R (Bytes × Nat × Bool) := do
  if last then pure (data, data.length, false)
  else
    let (o, consumed, trunc) ← getObuLen data 5 0 0
    match o with
    | none => pure ([], consumed, trunc)
    | some (st, len) => pure ((data.drop st).take len, consumed, trunc)

def av1Loop (payload : Bytes) (w : Nat) : Nat → Nat → Nat → R KF
  | 0, _, _ => pure (false, false)
  | fuel + 1, offset, i => do
    -- Go: packet.Payload[offset:] panics if offset > len
    if offset > payload.length then throw .panic
    let (obu, length, truncated) ← getObu (payload.drop offset) (w = i + 1)
    if obu.length < 1 then pure (false, false)
    else
      let o0 ← byteAt obu 0
      let tpe := (o0 / 8) % 8
      let decided : Option KF ←
        if i = 0 then
          (if tpe ≠ 1 then pure (some (false, true)) else pure none)
        else if tpe = 3 || tpe = 6 then do
          if obu.length < 2 then pure (some (false, false))
          else
            let o1 ← byteAt obu 1
            if bit o1 0x80 then pure (some (false, true))
            else pure (some (band o1 0x60 = 0, true))
        else pure none
      match decided with
      | some r => pure r
      | none =>
        if truncated || i ≥ w then pure (false, false)
        else av1Loop payload w fuel (offset + length) (i + 1)

def h264Agg (p : Bytes) (nalu : Nat) : Nat → Nat → R KF
  | 0, _ => pure (false, false)
  | fuel + 1, i => do
    if i < p.length then
      if i + 2 > p.length then pure (false, false)
      else
        let a ← byteAt p i
        let b ← byteAt p (i + 1)
        let length := a * 256 + b
        let i := i + 2
        if i + length > p.length then pure (false, false)
        else
          let offset := if nalu = 26 then 3 else if nalu = 27 then 4 else 0
          if offset ≥ length then pure (false, false)
          else
            let x ← byteAt p (i + offset)
            let n := x % 32
            if n = 7 then pure (true, true)
            else if n ≥ 24 then pure (false, false)
            else h264Agg p nalu fuel (i + length)
    else if i = p.length then pure (false, true)
    else pure (false, false)

/-- `Keyframe(codec, packet)` on the RTP payload of an already unmarshalled packet -/
def keyframe (codec : String) (payload : Bytes) : R KF := do
  if isCodec codec "video/vp8" then
    match vp8Unmarshal payload with
    | .error _ => pure (false, false)
    | .ok vp8 =>
      let vpay := payload.drop vp8.payloadStart
      if vpay.length < 1 then pure (false, false)
      else
        let x ← byteAt vpay 0
        if vp8.s && vp8.pid = 0 && x % 2 = 0 then pure (true, true) else pure (false, true)
  else if isCodec codec "video/vp9" then
    match vp9Unmarshal payload with
    | .error _ => pure (false, false)
    | .ok vp9 =>
      let vpay := payload.drop vp9.payloadStart
      if vpay.length < 1 then pure (false, false)
      else if !vp9.b then pure (false, true)
      else
        let x ← byteAt vpay 0
        if band x 0xc0 ≠ 0x80 then pure (false, false)
        else
          let profile := (x / 16) % 4
          if profile ≠ 3 then pure (band x 0xC = 0, true) else pure (band x 0x6 = 0, true)
  else if isCodec codec "video/av1" then
    if payload.length < 2 then pure (false, true)
    else
      let p0 ← byteAt payload 0
      if band p0 0x88 ≠ 0x08 then pure (false, true)
      else
        let w := (band p0 0x30) / 16
        av1Loop payload w (payload.length + 2) 1 0
  else if isCodec codec "video/h264" then
    if payload.length < 1 then pure (false, false)
    else
      let p0 ← byteAt payload 0
      let nalu := p0 % 32
      if nalu = 0 then pure (false, false)
      else if nalu ≤ 23 then pure (nalu = 7, true)
      else if nalu = 24 || nalu = 25 || nalu = 26 || nalu = 27 then
        h264Agg payload nalu (payload.length + 1) (if nalu = 24 then 1 else 3)
      else if nalu = 28 || nalu = 29 then
        if payload.length < 2 then pure (false, false)
        else
          let p1 ← byteAt payload 1
          if !bit p1 0x80 then pure (false, true)
          else pure (p1 % 32 = 7, true)
      else pure (false, false)
  else pure (false, false)

/-- `KeyframeDimensions(codec, packet)` on the RTP payload -/
def keyframeDimensions (codec : String) (payload : Bytes) : R (Nat × Nat) := do
  if isCodec codec "video/vp8" then
    match vp8Unmarshal payload with
    | .error _ => pure (0, 0)
    | .ok vp8 =>
      let vpay := payload.drop vp8.payloadStart
      if vpay.length < 10 then pure (0, 0)
      else
        let b6 ← byteAt vpay 6
        let b7 ← byteAt vpay 7
        let b8 ← byteAt vpay 8
        let b9 ← byteAt vpay 9
        let raw := b6 + b7 * 256 + b8 * 65536 + b9 * 16777216
        pure (raw % 16384, (raw / 65536) % 16384)
  else if isCodec codec "video/vp9" then
    match vp9Unmarshal payload with
    | .error _ => pure (0, 0)
    | .ok vp9 =>
      if !vp9.v then pure (0, 0)
      else pure (vp9.dims.foldl (fun (acc : Nat × Nat) d => (max acc.1 d.1, max acc.2 d.2)) (0, 0))
  else pure (0, 0)

end Galene.Codecs
