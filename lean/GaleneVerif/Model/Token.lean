/-
Model of galene's token authorisation (property C09), transcribed branch for
branch from

  token/stateful.go   (*Stateful).match, (*Stateful).Check
  token/jwt.go        ParseKey (kty/alg table), ParseKeys, parseJWT, matchGroup, (*JWT).Check
  token/token.go      Parse
  group/group.go      validGroupName/validUsername, Description.GetPermission (token branch)
  webserver/util.go   checkGlobalAdminToken

Strings are Go strings, i.e. byte strings: `Str := List Char` with one `Char`
per byte (the engine decodes byte b as `Char.ofNat b`).  Instants are integers
in an arbitrary unit; `now` is explicit (the Go code reads `time.Now()`), and
the leeway of the JWT validator is the parameter `leeway` (5 s in parseJWT).

Library behaviour that is not galene's is a parameter or an input shape:
* cryptography: `verify : Key → Str → Bool` ("the token's signature verifies
  under this (parsed) key with this signing method"), and `methods`, the list
  of signing methods registered in golang-jwt (`jwt.GetSigningMethod ≠ nil`);
* `jwt.Parse`'s syntax layer: a token string is either not a JWT at all
  (`ErrTokenMalformed`: wrong number of segments, bad base64/JSON) or a header
  and claims already decoded (`Jwt`); `url.Parse` of an audience is an input
  (`none` = does not parse, `some (host, path)` otherwise);
* `path.Clean` inside `validGroupName` is replaced by its fixed-point
  characterisation (no empty, "." or ".." component).
All of these are exercised against the real libraries by the `token` engine.
-/
namespace Galene.Token

abbrev Str := List Char

/-- a Go string literal -/
def lit (s : String) : Str := s.toList

def hasPrefix (s p : Str) : Bool := p.isPrefixOf s
def hasSuffix (s p : Str) : Bool := p.isSuffixOf s

/-! ## token/stateful.go -/

structure Stateful where
  group : Str := []
  includeSubgroups : Bool := false
  username : Option Str := none
  permissions : List Str := []
  expires : Option Int := none
  notBefore : Option Int := none
  deriving Repr, DecidableEq, Inhabited

/-- `(*Stateful).match` -/
def Stateful.match (t : Stateful) (group : Str) : Bool :=
  if group = [] then t.includeSubgroups && t.group = []
  else if group = t.group then true
  else if t.includeSubgroups then
    if t.group = [] then true
    else hasPrefix group (t.group ++ ['/'])
  else false

inductive SErr where
  | badGroup   -- "token for bad group"
  | expired    -- "token has expired"
  | future     -- "token is in the future"
  deriving Repr, DecidableEq

/-- `(*Stateful).Check` with the clock reading as an argument.
`now.After(*Expires)` is `now > expires`; `now.Before(*NotBefore)` is `now < notBefore`. -/
def Stateful.check (t : Stateful) (now : Int) (group : Str) : Except SErr (Str × List Str) :=
  if !t.match group then .error .badGroup
  else if (match t.expires with | none => true | some e => decide (now > e)) then .error .expired
  else if (match t.notBefore with | none => false | some nb => decide (now < nb)) then .error .future
  else .ok (t.username.getD [], t.permissions)

def Stateful.needsUsername (t : Stateful) : Bool := t.username.isNone

/-! ## token/jwt.go: keys -/

/-- One entry of a group's `authKeys`.  `kty`, `alg`, `kid` are `none` when the
field is absent or not a JSON string.  `klen` is the decoded length of `k`
(`none`: absent or not base64url); `ecOk`: `crv = "P-256"` and `x`, `y` decode to
a point on the curve; `rsaOk`: `n`, `e` decode and `e` has at most 8 bytes.
`material` identifies the key bytes (only `verify` looks at it). -/
structure Key where
  kty : Option Str := none
  alg : Option Str := none
  kid : Option Str := none
  klen : Option Nat := none
  ecOk : Bool := false
  rsaOk : Bool := false
  material : Str := []
  deriving Repr, DecidableEq, Inhabited

/-- `ParseKey` succeeds (the value it returns is the key material of the entry) -/
def parseKey (k : Key) : Bool :=
  match k.kty with
  | none => false                       -- "kty not found"
  | some kty =>
    match k.alg with
    | none => false                     -- "alg not found"
    | some alg =>
      if kty = lit "oct" then
        let length : Option Nat :=
          if alg = lit "HS256" then some 32
          else if alg = lit "HS384" then some 48
          else if alg = lit "HS512" then some 64
          else none
        match length with
        | none => false                 -- "unknown alg"
        | some len =>
          match k.klen with
          | none => false               -- parseBase64 failed
          | some l => l = len           -- "bad length for key"
      else if kty = lit "EC" then
        if alg ≠ lit "ES256" then false else k.ecOk
      else if kty = lit "RSA" then
        if alg ≠ lit "RS256" then false else k.rsaOk
      else false                        -- "unknown key type"

/-- `ParseKeys`: `none` is an error (some selected key does not parse). -/
def parseKeys : List Key → Str → Str → Option (List Key)
  | [], _, _ => some []
  | ky :: rest, alg, kid =>
    if alg ≠ [] && ky.alg ≠ some alg then parseKeys rest alg kid
    else if kid ≠ [] && ky.kid ≠ some kid then parseKeys rest alg kid
    else if !parseKey ky then none
    else (parseKeys rest alg kid).map (ky :: ·)

/-! ## token/jwt.go: parseJWT over a syntactically well-formed token -/

/-- a NumericDate claim of a `MapClaims` (`parseNumericDate`) -/
inductive NumClaim where
  | absent               -- not there, or the number 0
  | invalid              -- not a number
  | at (t : Int)
  deriving Repr, DecidableEq, Inhabited

structure Jwt where
  /-- header `alg` when it is a string -/
  alg : Option Str := none
  /-- header `kid` when it is a string, else "" -/
  kid : Str := []
  exp : NumClaim := .absent
  nbf : NumClaim := .absent
  iat : NumClaim := .absent
  /-- `GetAudience`: `none` = wrong type; each entry is `url.Parse`d: `none` = error, else (Host, Path) -/
  aud : Option (List (Option (Str × Str))) := some []
  /-- `GetSubject`: `none` = wrong type, absent = "" -/
  sub : Option Str := some []
  /-- `claims["include-subgroups"].(bool)` -/
  includeSubgroups : Bool := false
  /-- `claims["permissions"]`: `none` = present, non-null and not an array of strings; absent/null = `[]` -/
  perms : Option (List Str) := some []
  /-- the signature segment is not base64url (found after the signing method has been looked up) -/
  sigMalformed : Bool := false
  deriving Repr, Inhabited

/-- what a token string is to `jwt.Parse`'s syntax layer -/
inductive TokenInput where
  | malformed              -- wrong number of segments, header or claims not base64url JSON
  | jwt (t : Jwt)
  deriving Repr, Inhabited

inductive PErr where
  | unverifiable      -- jwt.ErrTokenUnverifiable: no/unknown alg, key function failed, empty key set
  | badSig            -- jwt.ErrTokenSignatureInvalid
  | claims            -- jwt.ErrTokenInvalidClaims
  deriving Repr, DecidableEq

/-- what the library and the deployment contribute -/
structure Params where
  /-- signing methods registered in golang-jwt -/
  methods : List Str
  /-- signature check of *this* token under a parsed key with a signing method -/
  verify : Key → Str → Bool
  /-- `jwt.WithLeeway` -/
  leeway : Int := 5

/-- the key function passed to `jwt.Parse` followed by the library's signature
check: a single key is checked directly, otherwise the set (empty = error). -/
def verifySig (P : Params) (keys : List Key) (alg kid : Str) : Except PErr Unit :=
  if alg = [] then .error .unverifiable               -- "alg not found"
  else
    match parseKeys keys alg kid with
    | none => .error .unverifiable                    -- error while executing keyfunc
    | some [k] => if P.verify k alg then .ok () else .error .badSig
    | some ks =>
      if ks.isEmpty then .error .unverifiable         -- empty verification key set
      else if ks.any (fun k => P.verify k alg) then .ok () else .error .badSig

/-- the Validator with `WithExpirationRequired`, `WithIssuedAt`, `WithLeeway` -/
def validateClaims (P : Params) (now : Int) (t : Jwt) : Bool :=
  (match t.exp with
   | .invalid => false
   | .absent => false                                  -- exp claim is required
   | .at e => decide (now < e + P.leeway)) &&
  (match t.nbf with
   | .invalid => false
   | .absent => true
   | .at n => !decide (now < n - P.leeway)) &&
  (match t.iat with
   | .invalid => false
   | .absent => true
   | .at i => !decide (now < i - P.leeway))

/-- `parseJWT`: `.ok none` is Go's `(nil, nil)` ("does not look like a JWT": `ErrTokenMalformed`). -/
def parseJWT (P : Params) (keys : List Key) (now : Int) : TokenInput → Except PErr (Option Jwt)
  | .malformed => .ok none
  | .jwt t =>
    match t.alg with
    | none => .error .unverifiable                      -- signing method (alg) is unspecified
    | some alg =>
      if !P.methods.contains alg then .error .unverifiable   -- signing method (alg) is unavailable
      else if t.sigMalformed then .ok none
      else
        match verifySig P keys alg t.kid with
        | .error e => .error e
        | .ok () => if validateClaims P now t then .ok (some t) else .error .claims

/-! ## token/jwt.go: matchGroup and (*JWT).Check -/

def groupPrefix : Str := lit "/group/"

/-- `matchGroup` -/
def matchGroup (pth group : Str) (includeSubgroups : Bool) : Bool :=
  if !includeSubgroups then pth = groupPrefix ++ group ++ ['/']
  else if !hasPrefix pth groupPrefix then false
  else if !hasSuffix pth ['/'] then false
  else hasPrefix (groupPrefix ++ group ++ ['/']) pth

def lowerByte (c : Char) : Char := if 'A' ≤ c ∧ c ≤ 'Z' then Char.ofNat (c.toNat + 32) else c

/-- `strings.EqualFold` restricted to ASCII host names -/
def equalFold (a b : Str) : Bool := a.map lowerByte = b.map lowerByte

inductive CErr where
  | badClaim        -- sub or aud of the wrong type
  | wrongGroup      -- "token for wrong group"
  | badPerms        -- "invalid 'permissions' field"
  deriving Repr, DecidableEq

/-- one iteration of the audience loop -/
def audOk (host group : Str) (incl : Bool) : Option (Str × Str) → Bool
  | none => false
  | some (h, p) =>
    if host ≠ [] && !equalFold h host then false
    else matchGroup p group incl

/-- `(*JWT).Check` -/
def Jwt.check (t : Jwt) (host group : Str) : Except CErr (Str × List Str) :=
  match t.sub with
  | none => .error .badClaim
  | some sub =>
    match t.aud with
    | none => .error .badClaim
    | some aud =>
      if !aud.any (audOk host group t.includeSubgroups) then .error .wrongGroup
      else
        match t.perms with
        | none => .error .badPerms
        | some perms => .ok (sub, perms)

/-! ## token/token.go: Parse -/

inductive Tok where
  | stateful (t : Stateful)
  | jwt (t : Jwt)
  deriving Repr, Inhabited

inductive ParseErr where
  | jwt (e : PErr)
  | notFound              -- os.ErrNotExist from the stateful store
  deriving Repr, DecidableEq

/-- the stateful store as `Parse` sees it: the token of that name, if any -/
abbrev Lookup := Option Stateful

/-- `token.Parse` -/
def parse (P : Params) (keys : List Key) (now : Int) (inp : TokenInput) (stored : Lookup) : Except ParseErr Tok :=
  match parseJWT P keys now inp with
  | .error e => .error (.jwt e)
  | .ok (some t) => .ok (.jwt t)
  | .ok none =>
    match stored with
    | none => .error .notFound
    | some s => .ok (.stateful s)

inductive CheckErr where
  | stateful (e : SErr)
  | jwt (e : CErr)
  deriving Repr, DecidableEq

def Tok.check (t : Tok) (now : Int) (host group : Str) : Except CheckErr (Str × List Str) :=
  match t with
  | .stateful s => (s.check now group).mapError .stateful
  | .jwt j => (j.check host group).mapError .jwt

def Tok.needsUsername : Tok → Bool
  | .stateful s => s.needsUsername
  | .jwt _ => false

/-! ## group/group.go -/

/-- split at '/' (never empty: `splitSlash [] = [[]]`) -/
def splitSlash : Str → List Str
  | [] => [[]]
  | c :: cs =>
    if c = '/' then [] :: splitSlash cs
    else
      match splitSlash cs with
      | [] => [[c]]          -- unreachable
      | w :: ws => (c :: w) :: ws

/-- `validGroupName`: no backslash, and `path.Clean("/"+name)` is `"/"+name` and not "/" -/
def validGroupName (name : Str) : Bool :=
  !name.contains '\\' &&
  (splitSlash name).all (fun c => c ≠ [] && c ≠ ['.'] && c ≠ ['.', '.'])

def validUsername (name : Str) : Bool := name = [] || validGroupName name

inductive PermErr where
  | notAuthorisedParse (e : ParseErr)
  | usernameRequired
  | notAuthorisedCheck (e : CheckErr)
  | duplicateUsername
  | invalidUsername
  deriving Repr, DecidableEq

/-- the token branch of `Description.GetPermission` (`creds.Token ≠ ""`).
`users` are the names configured in the description, `host` the canonical host of the configuration. -/
def getPermissionToken (P : Params) (keys : List Key) (users : List Str) (host : Str) (now : Int)
    (group : Str) (clientUsername : Option Str) (inp : TokenInput) (stored : Lookup) :
    Except PermErr (Str × List Str) :=
  match parse P keys now inp stored with
  | .error e => .error (.notAuthorisedParse e)
  | .ok tok =>
    if clientUsername.isNone && tok.needsUsername then .error .usernameRequired
    else
      match tok.check now host group with
      | .error e => .error (.notAuthorisedCheck e)
      | .ok (username, perms) =>
        let r : Except PermErr Str :=
          if username = [] then
            match clientUsername with
            | some cu => if users.contains cu then .error .duplicateUsername else .ok cu
            | none => .ok username
          else .ok username
        match r with
        | .error e => .error e
        | .ok username =>
          if !validUsername username then .error .invalidUsername
          else .ok (username, perms)

/-! ## webserver/util.go -/

/-- `checkGlobalAdminToken`: `token.Parse(tok, nil)`, then `Check(host, "")`, then `"admin" ∈ perms` -/
def checkGlobalAdminToken (P : Params) (host : Str) (now : Int) (inp : TokenInput) (stored : Lookup) :
    Except (ParseErr ⊕ CheckErr) Bool :=
  match parse P [] now inp stored with
  | .error e => .error (.inl e)
  | .ok tok =>
    match tok.check now host [] with
    | .error e => .error (.inr e)
    | .ok (_, perms) => .ok (perms.contains (lit "admin"))

end Galene.Token
