/-
Model of the critical sections of /repo/group/group.go that decide admission
(C10): `add` (description reload + `autoLockKick`, under groups.mu and g.mu),
the body of `AddClient` (under g.mu), the first part of `DelClient` (under
g.mu), the `autoLockKick` call that `DelClient` makes AFTER releasing g.mu,
and `SetLocked`.  One `Step` = one region executed under g.mu, so that a list
of steps is an interleaving of critical sections; the op-level functions at
the end (`opJoin`, `opLeave`, ...) are the sequential schedules the
correspondence harness runs, and `opP9` is the forced schedule of finding P9.

Conventions: client objects are identified by a handle (`Nat`); what the Go
code reads through the `group.Client` interface (`Id()`, `Username()`,
`Permissions()`) is the `Client` record of that handle.  The description file
on disk is `World.file`; `Desc.version` stands for (FileName, size, mtime),
which is all `descriptionMatch`/`descriptionUnchanged` look at.  `time.Now()`
is the input `now`; `not-before`/`expires` are integers on the same axis.
Token credentials (C09) and the allow-recording / unrestricted-tokens
adjustments of `Permissions.Permissions` are not modelled (the harness never
sets them); usernames are assumed to satisfy `validUsername`.
-/
namespace Galene.Group

/-- `permissionsMap` of description.go (a parameter of the model). -/
def defaultRoles : List (String × List String) :=
  [("op", ["op", "present", "message", "caption", "token"]),
   ("present", ["present", "message"]),
   ("message", ["message"]),
   ("observe", []),
   ("caption", ["caption"]),
   ("admin", ["admin"])]

/-- `Password` as far as `Match` distinguishes: absent (`Type == ""`), plain, wildcard. -/
inductive Pw where
  | none
  | plain (key : String)
  | wildcard
  deriving DecidableEq, Repr

/-- `Password.Match` (no error cases for these three types). -/
def Pw.matches : Pw → String → Bool
  | .none, _ => false
  | .plain k, pw => pw == k
  | .wildcard, _ => true

structure User where
  role : String
  pw : Pw
  deriving DecidableEq, Repr

structure Desc where
  maxClients : Int := 0
  notBefore : Option Int := none
  expires : Option Int := none
  autolock : Bool := false
  autokick : Bool := false
  users : List (String × User) := []
  wildcard : Option User := none
  /-- stands for (FileName, fileSize, modTime) -/
  version : Nat := 0
  deriving DecidableEq, Repr

structure Creds where
  username : Option String
  password : String
  deriving DecidableEq, Repr

/-- The error classes of `AddClient`/`Add` (what the harness maps the Go errors to). -/
inductive Fail where
  | notauthorised            -- *NotAuthorisedError (bad password, no such user)
  | err                      -- "neither username nor token provided"
  | locked (msg : String)    -- UserError(*g.locked or the default text)
  | notopen | closed | noops | full
  | emptyid | dup
  | notfound                 -- os.ErrNotExist from Add
  deriving DecidableEq, Repr

/-- The fields of a client object that group.go reads or writes through the interface. -/
structure Client where
  id : String := ""
  username : String := ""
  perms : List String := []
  deriving DecidableEq, Repr

/-- Callbacks made on a client. -/
inductive Ev where
  | joined (kind : String)
  | add (id user : String) (perms : List String)
  | del (id user : String)
  deriving DecidableEq, Repr

/-- (receiving handle, event), in emission order -/
abbrev Evs := List (Nat × Ev)

structure Grp where
  desc : Desc
  locked : Option String := none
  /-- `g.clients`: id ↦ client object, in insertion order -/
  clients : List (String × Nat) := []
  deriving DecidableEq, Repr

structure World where
  roles : List (String × List String) := defaultRoles
  /-- code variant, probed by the harness on the real code at start-up: `DelClient` keeps `g.mu`
  across `autoLockKick` (the repair of finding P9; `false` = the pinned code, which unlocks first) -/
  delAtomic : Bool := false
  /-- code variant: `AddClient` calls `c.Init` only once every check has passed (the repair of
  finding P10; `false` = the pinned code, which calls it right after `GetPermission`) -/
  initLate : Bool := false
  /-- the description file on disk -/
  file : Option Desc := none
  /-- `groups.groups[name]` -/
  group : Option Grp := none
  /-- client objects by handle; an absent handle is a zero-valued object -/
  objs : List (Nat × Client) := []
  deriving Repr

def World.obj (w : World) (h : Nat) : Client := (w.objs.lookup h).getD {}

def World.setObj (w : World) (h : Nat) (c : Client) : World :=
  { w with objs := (h, c) :: w.objs.filter (fun p => p.1 != h) }

def rolePerms (roles : List (String × List String)) (r : String) : List String :=
  (roles.lookup r).getD []

def isOp (c : Client) : Bool := c.perms.contains "op"

/-- some member's `Permissions()` contains "op" -/
def hasOp (w : World) (g : Grp) : Bool := g.clients.any (fun p => isOp (w.obj p.2))

def handles (g : Grp) : List Nat := g.clients.map (·.2)

def defaultLockMsg : String := "this group is locked"

/-- `Description.GetPermission` restricted to username/password credentials. -/
def getPermission (roles : List (String × List String)) (d : Desc) (c : Creds) :
    Except Fail (String × List String) :=
  match c.username with
  | none => .error .err
  | some u =>
    match d.users.lookup u with
    | some usr =>
      if usr.pw.matches c.password then .ok (u, rolePerms roles usr.role) else .error .notauthorised
    | none =>
      match d.wildcard with
      | some wu =>
        if wu.pw.matches c.password then .ok (u, rolePerms roles wu.role) else .error .notauthorised
      | none => .error .notauthorised

/-- `autoLockKick(g)`: returns the group, the `Joined("change")` callbacks made and
the clients handed to the asynchronous kick goroutine. -/
def autoLockKick (w : World) (g : Grp) : Grp × Evs × List Nat :=
  if !(g.desc.autolock && g.locked.isNone) && !g.desc.autokick then (g, [], [])
  else if hasOp w g then (g, [], [])
  else
    let hs := handles g
    let lockNow := g.desc.autolock && g.locked.isNone
    let g' := if lockNow then { g with locked := some defaultLockMsg } else g
    let evs : Evs := if lockNow then hs.map (fun h => (h, Ev.joined "change")) else []
    let kicks := if g.desc.autokick then hs else []
    (g', evs, kicks)

structure AddOut where
  err : Option Fail := none
  evs : Evs := []
  kicks : List Nat := []
  /-- members to be sent `Joined("change")` by `Add` after the locks are released -/
  notify : List Nat := []
  deriving Repr

/-- The critical section of `add(name, nil)` (groups.mu and g.mu held). -/
def secAdd (w : World) : World × AddOut :=
  let g? : Option Grp := match w.group with
    | some g => some g
    | none => match w.file with
      | some d => some { desc := d }
      | none => none
  match g? with
  | none => (w, { err := some .notfound })
  | some g =>
    match w.file with
    | none =>
      -- description vanished: deleteUnlocked(g); the group stays if it has members
      ({ w with group := if g.clients.isEmpty then none else some g }, { err := some .notfound })
    | some d =>
      let changed := d.version != g.desc.version
      let g1 := if changed then { g with desc := d } else g
      let (g2, evs, kicks) := autoLockKick w g1
      ({ w with group := some g2 },
       { evs := evs, kicks := kicks, notify := if changed then handles g2 else [] })

structure AdmitOut where
  res : Except Fail Unit
  evs : Evs := []

/-- insertion sort of (id, handle) pairs by id: the canonical order in which the
harness reports the announcements galene makes in Go map order -/
def insertById (p : String × Nat) : List (String × Nat) → List (String × Nat)
  | [] => [p]
  | q :: qs => if p.1 ≤ q.1 then p :: q :: qs else q :: insertById p qs

def sortById (l : List (String × Nat)) : List (String × Nat) := l.foldr insertById []

/-- `g.description.NotBefore != nil && NotBefore.After(now)` -/
def notYetOpen (d : Desc) (now : Int) : Bool :=
  match d.notBefore with
  | some nb => decide (nb > now)
  | none => false

/-- `g.description.Expires != nil && Expires.Before(now)` -/
def alreadyClosed (d : Desc) (now : Int) : Bool :=
  match d.expires with
  | some ex => decide (ex < now)
  | none => false

/-- `MaxClients > 0 && len(g.clients) >= MaxClients` -/
def isFull (g : Grp) : Bool :=
  decide (g.desc.maxClients > 0) && decide ((g.clients.length : Int) ≥ g.desc.maxClients)

/-- The admission checks a non-operator has to pass (in the order of the code). -/
def admissionChecks (w : World) (g : Grp) (now : Int) : Except Fail Unit :=
  match g.locked with
  | some m => .error (.locked (if m = "" then defaultLockMsg else m))
  | none =>
    if notYetOpen g.desc now then .error .notopen
    else if alreadyClosed g.desc now then .error .closed
    else if g.desc.autokick && !hasOp w g then .error .noops
    else .ok ()

/-- First part of the section: unless the client's own `Permissions()` contains
"system", `GetPermission` and then `c.Init(username, perms)` — BEFORE any admission
check (finding P10).  Returns the world with the initialised client object and
whether the client is a system client. -/
def authorise (w : World) (g : Grp) (h : Nat) (creds : Creds) : Except Fail (World × Bool) :=
  let c := w.obj h
  if c.perms.contains "system" then .ok (w, true)
  else match getPermission w.roles g.desc creds with
    | .error f => .error f
    | .ok (username, perms) =>
      .ok (w.setObj h { c with username := username, perms := perms }, false)

/-- Second part: the checks, in the order of the code.  Operators and system clients
skip the lock/window/autokick/capacity checks; everybody needs a fresh non-empty id. -/
def admitChecks (w1 : World) (g : Grp) (h : Nat) (system : Bool) (now : Int) : Except Fail Unit :=
  let c1 := w1.obj h
  let chk : Except Fail Unit :=
    if system || isOp c1 then .ok ()
    else match admissionChecks w1 g now with
      | .error f => .error f
      | .ok () =>
        if isFull g then .error .full else .ok ()
  match chk with
  | .error f => .error f
  | .ok () =>
    if c1.id = "" then .error .emptyid
    else if (g.clients.lookup c1.id).isSome then .error .dup
    else .ok ()

/-- Third part: insertion and the announcements (`Joined("join")`, the newcomer to
itself, then for every previous member: that member to the newcomer and the
newcomer to that member). -/
def insertClient (w1 : World) (g : Grp) (h : Nat) : Grp × Evs :=
  let c1 := w1.obj h
  let others := sortById g.clients
  let g' := { g with clients := g.clients ++ [(c1.id, h)] }
  let evs : Evs :=
    [(h, Ev.joined "join"), (h, Ev.add c1.id c1.username c1.perms)] ++
    others.flatMap (fun p =>
      let cc := w1.obj p.2
      [(h, Ev.add cc.id cc.username cc.perms), (p.2, Ev.add c1.id c1.username c1.perms)])
  (g', evs)

/-- The critical section of `AddClient` (g.mu held), for client object `h`. -/
def secAdmit (w : World) (h : Nat) (creds : Creds) (now : Int) : World × AdmitOut :=
  match w.group with
  | none => (w, { res := .error .notfound })
  | some g =>
    match authorise w g h creds with
    | .error f => (w, { res := .error f })
    | .ok (w1, system) =>
      match admitChecks w1 g h system now with
      | .error f => ((if w.initLate then w else w1), { res := .error f })
      | .ok () =>
        let (g', evs) := insertClient w1 g h
        ({ w1 with group := some g' }, { res := .ok (), evs := evs })

structure RemoveOut where
  removed : Bool := false
  evs : Evs := []

/-- The critical section of `DelClient(c)` (assuming `c.Group()` is this group) and
the callbacks it makes right after unlocking. -/
def secRemove (w : World) (h : Nat) : World × RemoveOut :=
  match w.group with
  | none => (w, {})
  | some g =>
    let c := w.obj h
    if g.clients.lookup c.id != some h then (w, {})     -- "Deleting unknown client"
    else
      let g' := { g with clients := g.clients.filter (fun p => p.1 != c.id) }
      ({ w with group := some g' },
       { removed := true,
         evs := (h, Ev.joined "leave") :: (handles g').map (fun x => (x, Ev.del c.id c.username)) })

/-- `autoLockKick(g)` as `DelClient` calls it: after `g.mu.Unlock()`. -/
def secAutolock (w : World) : World × Evs × List Nat :=
  match w.group with
  | none => (w, [], [])
  | some g =>
    let (g', evs, kicks) := autoLockKick w g
    ({ w with group := some g' }, evs, kicks)

/-- removal and `autoLockKick` as ONE critical section (what `DelClient` does when it keeps the
lock: variant `delAtomic`); `autoLockKick` is only reached if the client was a member -/
def removeAtomic (w : World) (h : Nat) : World :=
  let (w1, r) := secRemove w h
  if r.removed then (secAutolock w1).1 else w1

/-- `SetLocked` -/
def secSetLocked (w : World) (locked : Bool) (msg : String) : World × Evs :=
  match w.group with
  | none => (w, [])
  | some g =>
    let g' := { g with locked := if locked then some msg else none }
    ({ w with group := some g' }, (handles g').map (fun h => (h, Ev.joined "change")))

/-! ### Interleavings of critical sections -/

inductive Step where
  /-- the environment replaces / removes the description file -/
  | setFile (d : Option Desc)
  /-- a client object is given an id (before it tries to join) -/
  | setId (h : Nat) (id : String)
  /-- a client object whose `Permissions()` is `["system"]` (disk writer) -/
  | mkSystem (h : Nat)
  | add
  | admitSec (h : Nat) (creds : Creds) (now : Int)
  | remove (h : Nat)
  | autolock
  | setLocked (locked : Bool) (msg : String)
  deriving Repr

def exec (w : World) : Step → World
  | .setFile d => { w with file := d }
  | .setId h id => w.setObj h { w.obj h with id := id }
  | .mkSystem h => w.setObj h { w.obj h with perms := ["system"] }
  | .add => (secAdd w).1
  | .admitSec h c now => (secAdmit w h c now).1
  | .remove h => if w.delAtomic then removeAtomic w h else (secRemove w h).1
  | .autolock => (secAutolock w).1
  | .setLocked b m => (secSetLocked w b m).1

def run (w : World) (steps : List Step) : World := steps.foldl exec w

/-! ### Sequential schedules (what the correspondence harness runs) -/

structure OpOut where
  status : String
  evs : Evs := []
  kicks : List Nat := []
  deriving Repr

def failString : Fail → String
  | .notauthorised => "fail:notauthorised"
  | .err => "fail:err"
  | .locked m => "fail:locked:" ++ m.replace " " "_"
  | .notopen => "fail:notopen"
  | .closed => "fail:closed"
  | .noops => "fail:noops"
  | .full => "fail:full"
  | .emptyid => "fail:emptyid"
  | .dup => "fail:dup"
  | .notfound => "fail:notfound"

/-- `group.Add(name, nil)`: the section, then `Joined("change")` to the notify list. -/
def opReload (w : World) : World × OpOut :=
  let (w1, o) := secAdd w
  let evs := o.evs ++ o.notify.map (fun h => (h, Ev.joined "change"))
  (w1, { status := match o.err with | some f => failString f | none => "ok", evs := evs, kicks := o.kicks })

/-- `group.AddClient(name, c, creds)`: `Add`, then the admission section. -/
def opJoin (w : World) (h : Nat) (creds : Creds) (now : Int) : World × OpOut :=
  let (w1, o) := secAdd w
  match o.err with
  | some f => (w1, { status := failString f, evs := o.evs, kicks := o.kicks })
  | none =>
    let evs1 := o.evs ++ o.notify.map (fun x => (x, Ev.joined "change"))
    let (w2, a) := secAdmit w1 h creds now
    (w2, { status := match a.res with | .ok () => "ok" | .error f => failString f,
           evs := evs1 ++ a.evs, kicks := o.kicks })

/-- `group.DelClient(c)` with `c.Group()` being this group. -/
def opLeave (w : World) (h : Nat) : World × OpOut :=
  let (w1, r) := secRemove w h
  if r.removed then
    let (w2, evs, kicks) := secAutolock w1
    -- `autoLockKick` runs before the leave/delete callbacks when it runs under the lock
    (w2, { status := "ok", evs := if w.delAtomic then evs ++ r.evs else r.evs ++ evs, kicks := kicks })
  else (w1, { status := "ok" })

def opSetLocked (w : World) (b : Bool) (msg : String) : World × OpOut :=
  match w.group with
  | none => (w, { status := "nogroup" })
  | some _ =>
    let (w1, evs) := secSetLocked w b msg
    (w1, { status := "ok", evs := evs })

/-- The forced schedule of finding P9 (DESIGN C10): the file is touched; the joiner
runs `add`; while `Add` notifies the members, operator `oph` runs the first
section of `DelClient` and is parked before its `autoLockKick`; the joiner runs
its admission section; then `DelClient` finishes.  `none` = precondition not met
(`oph` must be a member holding "op", a description file must exist). -/
def opP9 (w : World) (jh : Nat) (creds : Creds) (now : Int) (oph : Nat) : Option (World × OpOut) :=
  match w.group, w.file with
  | some g, some d =>
    if !(g.clients.any (fun p => p.2 == oph)) || !isOp (w.obj oph) || jh == oph then none else
    let w0 := { w with file := some { d with version := d.version + 1 } }
    let (w1, o) := secAdd w0
    match o.err with
    | some _ => none
    | none =>
      let evs1 := o.evs ++ o.notify.map (fun x => (x, Ev.joined "change"))
      -- operator: first section of DelClient, parked in its own Joined("leave")
      let (w2, r) := secRemove w1 oph
      let evLeave := r.evs.take 1
      let evDel := r.evs.drop 1
      if w.delAtomic then
        -- repaired code: autoLockKick ran under the lock, before the operator was parked
        let (w3, evs3, kicks3) := secAutolock w2
        let (w4, a) := secAdmit w3 jh creds now
        some (w4, { status := "sched=1 " ++ (match a.res with | .ok () => "ok" | .error f => failString f),
                    evs := evs1 ++ evs3 ++ evLeave ++ a.evs ++ evDel,
                    kicks := o.kicks ++ kicks3 })
      else
      -- joiner: admission section
      let (w3, a) := secAdmit w2 jh creds now
      -- operator released: delete announcements, then autoLockKick without the lock
      let (w4, evs4, kicks4) := secAutolock w3
      some (w4, { status := "sched=1 " ++ (match a.res with | .ok () => "ok" | .error f => failString f),
                  evs := evs1 ++ evLeave ++ a.evs ++ evDel ++ evs4,
                  kicks := o.kicks ++ kicks4 })
  | _, _ => none

end Galene.Group
