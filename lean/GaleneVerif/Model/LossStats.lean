/-
Model of the loss-accounting half of packetcache.Cache
(packetcache/packetcache.go): compare, seqnoInvalid, bitmap.set/get, the
counter part of Store, Expect, GetStats, Last, Keyframe, ToBitmap, and the
NACK decision of rtpconn.readLoop (rtpconn/rtpreader.go:101-129).

uint16/uint32 are `Nat` with explicit wrap.  Go's shift semantics
(`x >> k = 0`, `1 << k = 0` for k ≥ width) are modelled explicitly.
-/
namespace Galene.Loss

def sub16 (a b : Nat) : Nat := (a + 65536 - b % 65536) % 65536
def add16 (a b : Nat) : Nat := (a + b) % 65536
def add32 (a b : Nat) : Nat := (a + b) % 4294967296

/-- Go `compare(s1, s2)`: 0 if equal, 1 if `(s2 - s1) & 0x8000 != 0`, else -1. -/
def compare (s1 s2 : Nat) : Int :=
  if s1 = s2 then 0 else if sub16 s2 s1 ≥ 32768 then 1 else -1

def seqnoInvalid (seqno reference : Nat) : Bool :=
  if compare reference seqno < 0 then false
  else if sub16 reference seqno > 0x100 then true
  else false

/-- trailing zeros of a value < 2^32 (32 for 0), as `bits.TrailingZeros32`. -/
def tzAux : Nat → Nat → Nat → Nat
  | 0, _, acc => acc
  | fuel + 1, x, acc => if x % 2 = 1 then acc else tzAux fuel (x / 2) (acc + 1)

def tz32 (x : Nat) : Nat := tzAux 32 x 0

def not32 (x : Nat) : Nat := 4294967295 - x % 4294967296

/-- Go `uint32(1) << k`. -/
def bit32 (k : Nat) : Nat := if k < 32 then 2 ^ k else 0

/-- Go `x >> k` on uint32. -/
def shr32 (x k : Nat) : Nat := if k < 32 then x / 2 ^ k else 0

structure Bitmap where
  valid : Bool := false
  first : Nat := 0
  bits : Nat := 0
  deriving Repr, DecidableEq

def Bitmap.set (b : Bitmap) (seqno : Nat) : Bitmap :=
  if !b.valid || seqnoInvalid seqno b.first then
    { valid := true, first := seqno, bits := 1 }
  else if compare b.first seqno > 0 then b
  else
    let b1 : Bitmap :=
      if sub16 seqno b.first ≥ 32 then
        let shift := sub16 (sub16 seqno b.first) 31
        { b with bits := shr32 b.bits shift, first := add16 b.first shift }
      else b
    let b2 : Bitmap :=
      if b1.bits % 2 = 1 then
        let ones := tz32 (not32 b1.bits)
        { b1 with bits := shr32 b1.bits ones, first := add16 b1.first ones }
      else b1
    { b2 with bits := b2.bits ||| bit32 (sub16 seqno b2.first) }

/-- `bitmap.get(next)`: new bitmap, and (found, first, bitmap16). -/
def Bitmap.get (b : Bitmap) (next : Nat) : Bitmap × (Bool × Nat × Nat) :=
  let first := b.first
  if compare first next ≥ 0 then (b, (false, first, 0))
  else
    let count := min (sub16 next first) 17
    let bm := (not32 b.bits) % 2 ^ count
    let b' : Bitmap := { b with bits := shr32 b.bits count, first := add16 b.first count }
    if bm = 0 then (b', (false, first, 0))
    else if bm % 2 = 0 then
      let c := tz32 bm
      (b', (true, add16 first c, (shr32 bm c / 2) % 65536))
    else (b', (true, first, (bm / 2) % 65536))

structure Stats where
  last : Nat := 0
  cycle : Nat := 0
  lastValid : Bool := false
  expected : Nat := 0
  totalExpected : Nat := 0
  received : Nat := 0
  totalReceived : Nat := 0
  keyframe : Nat := 0
  keyframeValid : Bool := false
  bitmap : Bitmap := {}
  deriving Repr

/-- Counter and bitmap part of `Cache.Store`; returns `bitmap.first`. -/
def Stats.store (c : Stats) (seqno : Nat) (kf : Bool) : Stats × Nat :=
  let c1 : Stats :=
    if !c.lastValid || seqnoInvalid seqno c.last then
      { c with last := seqno, lastValid := true,
               expected := add32 c.expected 1, received := add32 c.received 1 }
    else
      let cmp := compare c.last seqno
      if cmp < 0 then
        { c with received := add32 c.received 1,
                 expected := add32 c.expected (sub16 seqno c.last),
                 cycle := if seqno < c.last then add16 c.cycle 1 else c.cycle,
                 last := seqno,
                 keyframeValid :=
                   if c.keyframeValid && compare c.keyframe seqno > 0 then false
                   else c.keyframeValid }
      else if cmp > 0 then
        if c.received < c.expected then { c with received := add32 c.received 1 } else c
      else c
  let bm := c1.bitmap.set seqno
  let c2 : Stats := { c1 with bitmap := bm }
  let c3 : Stats := if kf then { c2 with keyframe := seqno, keyframeValid := true } else c2
  (c3, bm.first)

def Stats.expect (c : Stats) (n : Int) : Stats :=
  if n ≤ 0 then c else { c with expected := add32 c.expected n.toNat }

structure StatsOut where
  received : Nat
  totalReceived : Nat
  expected : Nat
  totalExpected : Nat
  eseqno : Nat
  deriving Repr, DecidableEq

def Stats.getStats (c : Stats) (reset : Bool) : Stats × StatsOut :=
  let s : StatsOut :=
    { received := c.received, totalReceived := add32 c.totalReceived c.received,
      expected := c.expected, totalExpected := add32 c.totalExpected c.expected,
      eseqno := c.cycle * 65536 + c.last }
  if reset then
    ({ c with totalExpected := add32 c.totalExpected c.expected, expected := 0,
              totalReceived := add32 c.totalReceived c.received, received := 0 }, s)
  else (c, s)

/-- `packetcache.ToBitmap` on a non-empty list: (first, bitmap, remain). -/
def toBitmapLoop (first : Nat) : Nat → List Nat → Nat × List Nat
  | bm, [] => (bm, [])
  | bm, r :: rs =>
    let delta := sub16 (sub16 r first) 1
    if delta ≥ 16 then (bm, r :: rs) else toBitmapLoop first (bm ||| 2 ^ delta) rs

def toBitmap : List Nat → Option (Nat × Nat × List Nat)
  | [] => none      -- Go panics (index out of range) on an empty list
  | f :: rest => let (bm, rem) := toBitmapLoop f 0 rest; some (f, bm, rem)

/-- The NACK decision of `readLoop` after `Store` returned `first` for packet
`seqno`, with `rate` the estimated packet rate: `some next` means the loop
calls `BitmapGet(next)`. -/
def readLoopNackArg (seqno first rate : Nat) : Option Nat :=
  let delta0 := sub16 seqno first
  let delta := if delta0 ≥ 32768 then 0 else delta0
  let p0 := rate / 50
  let p1 := if p0 > 24 then 24 else p0
  let packets := if p1 < 2 then 2 else p1
  let unnacked := if 4 > packets then packets else 4
  if delta > packets then some (sub16 seqno unnacked) else none

end Galene.Loss

namespace Galene.Loss

/-- The receiver-report arithmetic of `sendUpRTCP` (rtpconn/rtpconn.go:948-960)
on the result of `GetStats(true)`: (totalLost, fractionLost).  uint32 wrap of
`lost * 256` is modelled. -/
def reportLoss (s : StatsOut) : Nat × Nat :=
  let totalLost := if s.totalExpected > s.totalReceived then s.totalExpected - s.totalReceived else 0
  let fractionLost :=
    if s.expected > s.received then
      let lost := s.expected - s.received
      let f := (lost * 256 % 4294967296) / s.expected
      if f ≥ 255 then 255 else f
    else 0
  (totalLost, fractionLost)

end Galene.Loss

namespace Galene.Loss

/-- insert `n` after the elements that are not farther from the cutoff (stable insertion sort step) -/
def insertNack (cutoff n : Nat) : List Nat → List Nat
  | [] => [n]
  | m :: ms => if sub16 m cutoff ≤ sub16 n cutoff then m :: insertNack cutoff n ms else n :: m :: ms

/-- `nackWriter` (rtpconn/rtpwriter.go:313-368): which buffered subscriber NACKs are
shipped upstream.  `kf` = `cache.Keyframe()`, `last` = `cache.Last()`, `inCache n` =
`cache.Get(n, nil) > 0`.  Returns the seqnos sent, in the order sent. -/
def nackWriter (kf last : Option Nat) (inCache : Nat → Bool) (nacks : List Nat) : List Nat :=
  match last with
  | none => []
  | some l =>
    let cutoff := match kf with
      | some k => k
      | none => sub16 l 256
    let kept := nacks.filter (fun n => sub16 n cutoff < 32768 && sub16 l n < 32768 && !inCache n)
    -- sort.Slice by (n - cutoff); insertion sort is enough for the model
    kept.foldl (fun acc n => insertNack cutoff n acc) []

end Galene.Loss
