/-
Model of galene's administrative API (webserver/api.go, webserver/webserver.go
`globalAdminMatch`/`httpError`/`splitPath`, webserver/util.go
`checkGlobalAdminToken`, webserver/precondition.go `checkPreconditions` on
symbolic header lists) on top of a model of the group-definition store
(group/description.go: `getDescriptionFile`, `readDescription`,
`GetSanitisedDescription`, `GetUsers`, `GetSanitisedUser`, `UpdateDescription`,
`DeleteDescription`, `UpdateUser`, `DeleteUser`, `SetUserPassword`, `SetKeys`,
`rewriteDescriptionFile`) and of the stateful-token store as far as
`tokensHandler` uses it (token/stateful.go `Get/List/Update/Delete`,
`Stateful.match/Check`).

Abstractions (each one is exercised by the correspondence run of engine `api`):
* A password is a symbol: `plain id` stores the cleartext named `id` (`"-"` is
  the empty string), `hashed kind id` a bcrypt/pbkdf2 hash of it.  Hash
  assumption: a stored hash of `id` matches exactly the cleartext `id`.
* A key is a symbol (kind, id); an HS256 JWT "signed with key id" verifies
  against exactly the `oct` keys with that id.
* A file version is a natural number (`ctr` is bumped on every write; the
  harness stamps each written file with a fresh mtime, so the entity tag
  `"size-mtime"` of version `k` is known as `k`).  `If-Match`/`If-None-Match`
  are lists of `*`, tags and a tag that never matches (the string level of
  precondition.go is engine `paths`, Model/Etag.lean).
* Only the `description` (as its length) and `auto-subgroups` fields of a
  definition are modelled besides users, wildcard user and keys — and the
  legacy file format: the obsolete arrays `op`/`presenter`/`other` and
  `allow-subgroups`, which `upgradeDescription` (`Desc.upgrade`) folds into
  the modern fields whenever a file is read.
* `getDescription` resolves the name and reads the file, as `group.GetDescription`
  does when the group is not live in memory.  For live groups (engine op `live`)
  the real function may return the group's cached description; the last section
  transcribes that (`getDescriptionLive`, `addLive`) and Props/C17Live.lean proves
  it returns the same at every reachable state, so the handlers below need no
  live table.  Live groups have no clients.
* The configuration and group files parse, time does not pass (a token is valid,
  expired, without expiry or not yet valid), the canonical host is unset.
* Write faults (engine op `freq`): `handleFault`, second-last section.
A nil dereference in the Go code is the outcome `crash`.
-/
namespace Galene.Api

/-! ### Users, passwords, permissions, keys -/

inductive Password where
  | absent                               -- Type "": never matches
  | wildcard                             -- every password matches
  | plain (id : String)
  | hashed (kind : String) (id : String) -- kind "b" (bcrypt) or "k" (pbkdf2)
  | bad                                  -- unknown type: Match returns an error
  deriving DecidableEq, Repr, Inhabited

/-- `Password.Match`; `none` is an error. -/
def Password.matches : Password → String → Option Bool
  | .absent, _ => some false
  | .wildcard, _ => some true
  | .plain id, pw => some (pw == id)
  | .hashed _ id, pw => some (pw == id)
  | .bad, _ => none

inductive Perms where
  | absent
  | named (s : String)
  | list (l : List String)
  deriving DecidableEq, Repr, Inhabited

/-- `permissionsMap` of group/description.go. -/
def permissionsMap : String → List String
  | "op" => ["op", "present", "message", "caption", "token"]
  | "present" => ["present", "message"]
  | "message" => ["message"]
  | "observe" => []
  | "caption" => ["caption"]
  | "admin" => ["admin"]
  | _ => []

def knownPermission (s : String) : Bool :=
  s == "op" || s == "present" || s == "message" || s == "observe" || s == "caption" || s == "admin"

/-- `Permissions.Permissions(desc)`; the additions governed by allow-recording
and unrestricted-tokens (never `admin`) are not modelled. -/
def Perms.perms : Perms → List String
  | .absent => []
  | .named s => permissionsMap s
  | .list l => l

structure User where
  password : Password := .absent
  perms : Perms := .absent
  deriving DecidableEq, Repr, Inhabited

inductive KeyKind where
  | oct | ec | ecPriv | bad
  deriving DecidableEq, Repr, Inhabited

structure Key where
  kind : KeyKind
  id : String
  deriving DecidableEq, Repr, Inhabited

/-! ### Association lists sorted by key (Go maps, printed in key order) -/

def lookup {β} (k : String) : List (String × β) → Option β
  | [] => none
  | (k', v) :: rest => if k = k' then some v else lookup k rest

def upsert {β} (k : String) (v : β) : List (String × β) → List (String × β)
  | [] => [(k, v)]
  | (k', v') :: rest =>
    if k = k' then (k, v) :: rest
    else if k < k' then (k, v) :: (k', v') :: rest
    else (k', v') :: upsert k v rest

def erase {β} (k : String) : List (String × β) → List (String × β)
  | [] => []
  | (k', v') :: rest => if k = k' then erase k rest else (k', v') :: erase k rest

/-! ### Group definitions -/

/-- an entry of one of the obsolete arrays `op` / `presenter` / `other` of a definition file
(`ClientPattern`) -/
structure Legacy where
  role : String                        -- the permission the array stands for: "op", "present", "message"
  name : String := ""                  -- "": no username (a wildcard entry)
  password : Option Password := none   -- none: no password field (the nil `*Password`)
  deriving DecidableEq, Repr, Inhabited

/-- A definition as it is in a file (or in a request body).  `legacy` is `op ++ presenter ++ other`
in file order, `allowSubLegacy` the obsolete `allow-subgroups`; both are empty/false in everything
the server writes after `upgradeDescription` has run. -/
structure Desc where
  content : Nat := 0
  autoSub : Bool := false
  users : List (String × User) := []
  wildcard : Option User := none
  keys : List Key := []
  allowSubLegacy : Bool := false
  legacy : List Legacy := []
  deriving DecidableEq, Repr, Inhabited

/-- `upgradeUser`/`upgradePassword`: no password field means "any password" -/
def upgradeUser (l : Legacy) : User := { password := l.password.getD .wildcard, perms := .named l.role }

/-- one iteration of `upgradeUsers`: an entry without username becomes the wildcard user unless there
is one; an entry with a username becomes that user unless there is one; otherwise it is dropped -/
def upgradeStep (d : Desc) (l : Legacy) : Desc :=
  if l.name = "" then
    match d.wildcard with
    | some _ => d
    | none => { d with wildcard := some (upgradeUser l) }
  else
    match lookup l.name d.users with
    | some _ => d
    | none => { d with users := upsert l.name (upgradeUser l) d.users }

/-- `upgradeDescription`: the arrays are folded into users (first wins, the `users` map wins over
all of them) and then cleared, `allow-subgroups` becomes `auto-subgroups`. -/
def Desc.upgrade (d : Desc) : Desc :=
  { d.legacy.foldl upgradeStep d with
    legacy := [], autoSub := d.autoSub || d.allowSubLegacy, allowSubLegacy := false }

/-- what `GetSanitisedDescription` clears in its copy of the (upgraded) description — the obsolete
arrays are NOT among it: that they are empty is `upgradeDescription`'s doing -/
def Desc.sanitise (d : Desc) : Desc := { d with users := [], wildcard := none, keys := [] }

structure GroupFile where
  desc : Desc
  ver : Nat
  deriving DecidableEq, Repr, Inhabited

structure Conf where
  writable : Bool := false
  users : List (String × User) := []
  deriving DecidableEq, Repr, Inhabited

inductive Validity where
  | ok | expired | noexp | future
  deriving DecidableEq, Repr, Inhabited

structure Tok where
  group : String := ""
  sub : Bool := false
  user : Option String := none
  perms : List String := []
  valid : Validity := .noexp
  deriving DecidableEq, Repr, Inhabited

structure State where
  conf : Conf := {}
  groups : List (String × GroupFile) := []
  tokens : List (String × Tok) := []
  tokVer : Option Nat := none
  ctr : Nat := 0
  nrnd : Nat := 0
  deriving DecidableEq, Repr, Inhabited

/-! ### File names (`getDescriptionFile`) -/

/-- split a character list at every `sep` (like `strings.Split`; structural, so that `decide` can evaluate it) -/
def splitChars (sep : Char) : List Char → List (List Char)
  | [] => [[]]
  | c :: cs =>
    if c = sep then [] :: splitChars sep cs
    else match splitChars sep cs with
      | [] => [[c]]
      | w :: ws => (c :: w) :: ws

def isPrefix : List Char → List Char → Bool
  | [], _ => true
  | _ :: _, [] => false
  | a :: as, b :: bs => a == b && isPrefix as bs

/-- `/`-separated components, empty ones dropped: `path.Clean("/"+name)` for names
without `.`/`..` components (`splitPath` cuts a URL at the first `/.`, so no
name taken from a URL has one). -/
def segs (name : String) : List (List Char) := (splitChars '/' name.toList).filter (· ≠ [])

/-- the definition file of `name`, relative to the groups directory, without `.json` -/
def fileKey (name : String) : String := String.ofList (List.intercalate ['/'] (segs name))

def dropRightWhile (p : Char → Bool) (l : List Char) : List Char := (l.reverse.dropWhile p).reverse

/-- `name, _ = path.Split(name); name = strings.TrimRight(name, "/")` -/
def parentName (name : String) : String :=
  String.ofList (dropRightWhile (· == '/') (dropRightWhile (· != '/') name.toList))

/-- `getDescriptionFile`: the file found, and whether it was found for an ancestor. -/
def getFileAux (gs : List (String × GroupFile)) (allowSub : Bool) : Nat → String → Bool → Option (String × GroupFile × Bool)
  | 0, _, _ => none
  | fuel + 1, name, isSub =>
    if name = "" then none
    else match lookup (fileKey name) gs with
      | some f => some (fileKey name, f, isSub)
      | none => if allowSub then getFileAux gs allowSub fuel (parentName name) true else none

def getFile (gs : List (String × GroupFile)) (name : String) (allowSub : Bool) : Option (String × GroupFile × Bool) :=
  getFileAux gs allowSub (name.length + 2) name false

/-- `readDescription`: `(file key, file with the UPGRADED description, isSubgroup)`; a subgroup
exists only below an auto-subgroups group. -/
def readDescription (gs : List (String × GroupFile)) (name : String) (allowSub : Bool) : Option (String × GroupFile × Bool) :=
  match getFile gs name allowSub with
  | none => none
  | some (k, f, isSub) =>
    let f' : GroupFile := { f with desc := f.desc.upgrade }
    if isSub && !f'.desc.autoSub then none else some (k, f', isSub)

/-- `GetDescription` when no group is live in memory. -/
def getDescription (st : State) (name : String) : Option (String × GroupFile × Bool) :=
  readDescription st.groups name true

/-! ### Credentials -/

inductive Cred where
  | none
  | basic (user pw : String)
  | bearer (name : String)
  | jwt (keyId aud : String) (perms : List String)
  deriving DecidableEq, Repr, Inhabited

/-- `creds.Password` -/
def Cred.password : Cred → String
  | .basic _ pw => pw
  | _ => "-"

/-- `globalAdminMatch`; `none` = error. -/
def globalAdminMatch (c : Conf) (u pw : String) : Option Bool :=
  match lookup u c.users with
  | none => some false
  | some usr =>
    match usr.password.matches pw with
    | none => none
    | some false => some false
    | some true => some (usr.perms.perms.contains "admin")

/-- `Stateful.match` -/
def Tok.matchGroup (t : Tok) (group : String) : Bool :=
  if group = "" then t.sub && t.group == ""
  else if group = t.group then true
  else if t.sub then (if t.group = "" then true else isPrefix (t.group.toList ++ ['/']) group.toList)
  else false

/-- `Stateful.Check`: user name and permissions, or an error. -/
def Tok.check (t : Tok) (group : String) : Option (String × List String) :=
  if !t.matchGroup group then none
  else match t.valid with
    | .ok => some (t.user.getD "", t.perms)
    | _ => none

/-- `checkGlobalAdminToken`: a JWT cannot be verified without keys. -/
def checkGlobalAdminToken (st : State) : Cred → Bool
  | .bearer name =>
    match lookup name st.tokens with
    | none => false
    | some t => match t.check "" with
      | none => false
      | some (_, perms) => perms.contains "admin"
  | _ => false

/-- `validGroupName`/`validUsername` -/
def validUsername (u : String) : Bool :=
  u == "" || (!u.toList.contains '\\' && (splitChars '/' u.toList).all (fun s => s ≠ [] && s ≠ ['.'] && s ≠ ['.', '.']))

/-- `getPasswordPermission` -/
def getPasswordPermission (d : Desc) (u pw : String) : Option Perms :=
  match lookup u d.users with
  | some c =>
    match c.password.matches pw with
    | some true => some c.perms
    | _ => none
  | none =>
    match d.wildcard with
    | some w => if w.password.matches pw = some true then some w.perms else none
    | none => none

/-- `Description.GetPermission` as far as the API uses it: the permission list, or an error. -/
def getPermission (st : State) (d : Desc) (groupname : String) : Cred → Option (List String)
  | .none => none
  | .basic u pw =>
    match getPasswordPermission d u pw with
    | none => none
    | some ps => if validUsername u then some ps.perms else none
  | .bearer name =>
    match lookup name st.tokens with
    | none => none
    | some t =>
      if t.user.isNone then none       -- ErrUsernameRequired: bearer requests carry no user name
      else match t.check groupname with
        | none => none
        | some (u, perms) => if validUsername u then some perms else none
  | .jwt keyId aud perms =>
    if d.keys.any (fun k => k.kind == .oct && k.id == keyId) then
      if aud = groupname then some perms else none
    else none

/-- `isAdminOrExplicitPassword` -/
def isAdminOrExplicitPassword (st : State) (groupname user : String) (c : Cred) : Bool :=
  let global : Option Bool := match c with
    | .basic u pw => globalAdminMatch st.conf u pw
    | _ => some false
  match global with
  | none => false
  | some true => true
  | some false =>
    if groupname = "" then checkGlobalAdminToken st c
    else match getDescription st groupname with
      | none => false
      | some (_, f, _) =>
        let explicit : Bool :=
          user ≠ "" && (match lookup user f.desc.users with
            | some u => u.password.matches c.password == some true
            | none => false)
        if explicit then true
        else match getPermission st f.desc groupname c with
          | none => false
          | some perms => perms.contains "admin"

/-! ### Errors and the update functions of group/description.go -/

inductive Err where
  | notExist | tagMismatch | notAuth | unknownPerm | tooLarge | other
  deriving DecidableEq, Repr, Inhabited

/-- `rewriteDescriptionFile`: a new version of the file `key`. -/
def rewrite (st : State) (key : String) (d : Desc) : Except Err State :=
  if !st.conf.writable then .error .notAuth
  else .ok { st with groups := upsert key { desc := d, ver := st.ctr + 1 } st.groups, ctr := st.ctr + 1 }

/-- a description as decoded from a request: the sanitised fields plus what must not be there -/
structure DescIn where
  content : Nat := 0
  autoSub : Bool := false
  hasUsers : Bool := false
  hasWildcard : Bool := false
  hasKeys : Bool := false
  legacy : List Legacy := []      -- obsolete op/presenter/other arrays in the body: NOT tested by the sanitised check
  deriving DecidableEq, Repr, Inhabited

/-- `UpdateDescription(name, etag, desc)`; `etag = none` is the empty tag. -/
def updateDescription (st : State) (name : String) (etag : Option Nat) (d : DescIn) : Except Err State :=
  if d.hasUsers || d.hasWildcard || d.hasKeys then .error .other
  else
    let old := readDescription st.groups name false
    let oldetag := old.map (fun o => o.2.1.ver)
    let key := match old with
      | some (k, _, _) => k
      | none => fileKey name
    if oldetag ≠ etag then .error .tagMismatch
    else
      let nd : Desc := match old with
        | some (_, f, _) => { content := d.content, autoSub := d.autoSub, users := f.desc.users, wildcard := f.desc.wildcard, keys := f.desc.keys, legacy := d.legacy }
        | none => { content := d.content, autoSub := d.autoSub, legacy := d.legacy }
      rewrite st key nd

/-- `GetDescriptionTag` -/
def getDescriptionTag (st : State) (name : String) : Option Nat :=
  (getFile st.groups name false).map (fun o => o.2.1.ver)

/-- `DeleteDescription` (no `writableGroups` test in the Go code) -/
def deleteDescription (st : State) (name : String) (etag : Option Nat) : Except Err State :=
  match getFile st.groups name false with
  | none => .error .notExist
  | some (k, f, _) =>
    if etag ≠ some f.ver then .error .tagMismatch
    else .ok { st with groups := erase k st.groups }

/-- user selector: a named user (possibly the empty name) or the wildcard user -/
inductive Who where
  | named (u : String)
  | wildcard
  deriving DecidableEq, Repr, Inhabited

def Desc.getUser (d : Desc) : Who → Option User
  | .named u => lookup u d.users
  | .wildcard => d.wildcard

def Desc.setUser (d : Desc) (w : Who) (u : User) : Desc :=
  match w with
  | .named n => { d with users := upsert n u d.users }
  | .wildcard => { d with wildcard := some u }

def Desc.delUser (d : Desc) : Who → Desc
  | .named n => { d with users := erase n d.users }
  | .wildcard => { d with wildcard := none }

/-- `GetSanitisedUser`: the user without password, and the tag of the file. -/
def getSanitisedUser (st : State) (g : String) (w : Who) : Option (User × Nat) :=
  match getDescription st g with
  | none => none
  | some (_, f, _) =>
    match f.desc.getUser w with
    | none => none
    | some u => some ({ u with password := .absent }, f.ver)

def getUserTag (st : State) (g : String) (w : Who) : Option Nat := (getSanitisedUser st g w).map (·.2)

/-- `UpdateUser` -/
def updateUser (st : State) (g : String) (w : Who) (etag : Option Nat) (u : User) : Except Err State :=
  if u.password ≠ .absent then .error .other
  else match readDescription st.groups g false with
    | none => .error .notExist
    | some (k, f, _) =>
      let old := f.desc.getUser w
      let oldetag := old.map (fun _ => f.ver)
      if oldetag ≠ etag then .error .tagMismatch
      else
        let nu : User := { perms := u.perms, password := (old.map (·.password)).getD .absent }
        rewrite st k (f.desc.setUser w nu)

/-- `DeleteUser` -/
def deleteUser (st : State) (g : String) (w : Who) (etag : Option Nat) : Except Err State :=
  match readDescription st.groups g false with
  | none => .error .notExist
  | some (k, f, _) =>
    match f.desc.getUser w with
    | none => .error .notExist
    | some _ =>
      if etag ≠ some f.ver then .error .tagMismatch
      else rewrite st k (f.desc.delUser w)

/-- `SetUserPassword` -/
def setUserPassword (st : State) (g : String) (w : Who) (pw : Password) : Except Err State :=
  match readDescription st.groups g false with
  | none => .error .notExist
  | some (k, f, _) =>
    match f.desc.getUser w with
    | none => .error .notExist
    | some u => rewrite st k (f.desc.setUser w { u with password := pw })

/-- `SetKeys`; `none` is the nil slice (no validation). -/
def setKeys (st : State) (g : String) (keys : Option (List Key)) : Except Err State :=
  if (keys.getD []).any (fun k => k.kind == .bad) then .error .other
  else match readDescription st.groups g false with
    | none => .error .notExist
    | some (k, f, _) => rewrite st k { f.desc with keys := keys.getD [] }

/-! ### HTTP layer -/

inductive Method where
  | GET | HEAD | PUT | POST | DELETE | OPTIONS | OTHER
  deriving DecidableEq, Repr, Inhabited

inductive CType where
  | none | json | text | jwk | other
  deriving DecidableEq, Repr, Inhabited

inductive HItem where
  | star | tag (k : Nat) | bogus
  deriving DecidableEq, Repr, Inhabited

inductive ReqBody where
  | none | garbage | big | foreign
  | desc (d : DescIn)
  | user (u : User)
  | userBadPerm
  | pw (p : Password)
  | text (id : String)
  | keys (ks : Option (List Key))
  | tok (t : Tok)
  | tokOver
  deriving DecidableEq, Repr, Inhabited

structure Request where
  method : Method
  path : String
  cred : Cred := .none
  ctype : CType := .none
  ifMatch : List HItem := []
  ifNoneMatch : List HItem := []
  body : ReqBody := .none
  deriving Repr, Inhabited

inductive Body where
  | empty
  | haha                              -- failAuthentication
  | nfPage                            -- notFound(w): the 404 page
  | txt (s : String)                  -- http.Error
  | names (l : List String) (nullIfEmpty : Bool)
  | desc (d : Desc)
  | user (u : User)
  | token (t : Tok)
  | stats
  deriving DecidableEq, Repr, Inhabited

structure Resp where
  status : Nat
  etag : Option Nat := none
  body : Body := .empty
  location : Option String := none
  deriving DecidableEq, Repr, Inhabited

inductive Outcome where
  | resp (r : Resp)
  | crash
  deriving DecidableEq, Repr, Inhabited

/-- `etagMatch` on a well-formed header list; `etag = none` is the non-existent object. -/
def etagMatch (etag : Option Nat) : List HItem → Bool
  | [] => false
  | .star :: _ => etag.isSome
  | .tag k :: rest => if etag = some k then true else etagMatch etag rest
  | .bogus :: rest => etagMatch etag rest

/-- `checkPreconditions`: `some status` when the request is finished. -/
def checkPreconditions (r : Request) (etag : Option Nat) : Option Nat :=
  if r.ifMatch ≠ [] && !etagMatch etag r.ifMatch then some 412
  else if r.ifNoneMatch ≠ [] && etagMatch etag r.ifNoneMatch then
    (if r.method = .GET || r.method = .HEAD then some 304 else some 412)
  else none

def httpError : Err → Resp
  | .notExist => { status := 404, body := .nfPage }
  | .unknownPerm => { status := 400, body := .txt "unknown permission" }
  | .notAuth => { status := 401, body := .txt "not authorised" }
  | .tooLarge => { status := 413, body := .txt "Request body too large" }
  | .tagMismatch | .other => { status := 500, body := .txt "Internal server error" }

def notFoundPlain : Resp := { status := 404, body := .txt "404 page not found" }
def methodNotAllowed : Resp := { status := 405, body := .txt "method not allowed" }
def unsupported : Resp := { status := 415, body := .txt "unsupported content type" }

/-- `sendJSON`: nothing is written for HEAD. -/
def sendJSON (r : Request) (etag : Option Nat) (b : Body) : Resp :=
  { status := 200, etag := etag, body := if r.method = .HEAD then .empty else b }

/-- the content-type and syntax part of `getJSON`: `some resp` when the request is finished. -/
def jsonGate (r : Request) : Option Resp :=
  if r.ctype ≠ .json then some unsupported
  else match r.body with
    | .none | .garbage | .text _ => some (httpError .other)
    | .big => some (httpError .tooLarge)
    | _ => none

/-! #### The router -/

inductive Auth where
  | none
  | admin (g : String)
  | adminOrSelf (g u : String)
  deriving DecidableEq, Repr, Inhabited

inductive Action where
  | notFoundPlain          -- http.NotFound: the path does not exist
  | notFoundPage           -- checkAdmin, then notFound
  | stats
  | listGroups
  | group (g : String)
  | listUsers (g : String)
  | user (g : String) (w : Who)
  | password (g : String) (w : Who)
  | keys (g : String)
  | tokenList (g : String)
  | token (g t : String)
  deriving DecidableEq, Repr, Inhabited

structure Branch where
  cors : Bool            -- apiCORS runs before the authorisation test
  auth : Auth
  action : Action
  deriving DecidableEq, Repr, Inhabited

/-- index of the first occurrence of `pat` -/
def indexOf (pat : List Char) : List Char → Nat → Option Nat
  | [], i => if pat.isEmpty then some i else none
  | c :: cs, i => if isPrefix pat (c :: cs) then some i else indexOf pat cs (i + 1)

/-- `splitPath` of webserver.go -/
def splitPath (p : List Char) : List Char × List Char × List Char :=
  match indexOf ['/', '.'] p 0 with
  | none => (p, [], [])
  | some i =>
    let tail := p.drop (i + 1)
    match indexOf ['/'] tail 0 with
    | none => (p.take i, tail, [])
    | some j => (p.take i, tail.take j, tail.drop j)

def s (l : List Char) : String := String.ofList l

def routeUser (g : String) (w : Who) : Branch := { cors := true, auth := .admin g, action := .user g w }

def routePassword (g : String) (w : Who) : Branch :=
  match w with
  | .wildcard => { cors := true, auth := .admin g, action := .password g w }
  | .named u => { cors := true, auth := .adminOrSelf g u, action := .password g w }

def afterAuth404 (g : String) : Branch := { cors := false, auth := .admin g, action := .notFoundPage }
def plain404 : Branch := { cors := false, auth := .none, action := .notFoundPlain }

/-- `usersHandler` -/
def routeUsers (g : String) (pth : List Char) : Branch :=
  if pth = [] then plain404
  else if pth = ['/'] then { cors := true, auth := .admin g, action := .listUsers g }
  else
    let (first2, kind2, rest2) := splitPath pth
    if first2 ≠ [] && kind2 = [] then routeUser g (.named (s (first2.drop 1)))
    else if first2 ≠ [] && kind2 = ".password".toList && rest2 = [] then routePassword g (.named (s (first2.drop 1)))
    else afterAuth404 g

/-- `specialUserHandler` -/
def routeSpecial (g : String) (pth : List Char) (w : Who) : Branch :=
  if pth = [] then routeUser g w
  else if pth = "/.password".toList then routePassword g w
  else afterAuth404 g

/-- `tokensHandler` -/
def routeTokens (g : String) (pth : List Char) : Branch :=
  if pth = [] then plain404
  else if pth = ['/'] then { cors := true, auth := .admin g, action := .tokenList g }
  else { cors := true, auth := .admin g, action := .token g (s (pth.drop 1)) }

/-- `apiGroupHandler` -/
def routeGroup (pth : List Char) : Branch :=
  let (first, kind, rest) := splitPath pth
  let g := s (first.drop 1)
  if g = "" && kind = [] then { cors := true, auth := .admin "", action := .listGroups }
  else if kind = ".users".toList then routeUsers g rest
  else if kind = ".empty-user".toList then routeSpecial g rest (.named "")
  else if kind = ".wildcard-user".toList then routeSpecial g rest .wildcard
  else if kind = ".keys".toList && rest = [] then { cors := true, auth := .admin g, action := .keys g }
  else if kind = ".tokens".toList then routeTokens g rest
  else if kind ≠ [] then afterAuth404 g
  else { cors := true, auth := .admin g, action := .group g }

/-- `apiHandler`: the branch a path selects (the method plays no role before the authorisation test). -/
def route (path : String) : Branch :=
  let p := path.toList
  if !isPrefix "/galene-api/".toList p then plain404
  else
    let (first, kind, rest) := splitPath (p.drop "/galene-api".length)
    if first ≠ "/v0".toList then plain404
    else if kind = ".stats".toList then
      (if rest ≠ [] then plain404 else { cors := true, auth := .admin "", action := .stats })
    else if kind = ".groups".toList then routeGroup rest
    else plain404

/-- the authorisation test of a branch -/
def authorised (st : State) (c : Cred) : Auth → Bool
  | .none => true
  | .admin g => isAdminOrExplicitPassword st g "" c
  | .adminOrSelf g u => isAdminOrExplicitPassword st g u c

/-! #### Pending fixes

Defects of the handlers that a `fix:` commit repairs are switches, so that the model of the
tree before and after the commit is the same text.  `currentFixes` is what the correspondence
run of engine `api` compares with the code: flip a field when the commit lands. -/

structure Fixes where
  /-- P13: `tokensHandler` (PUT) tests `old != nil` before `old.Group`, so that the PUT of a token
  that does not exist creates it instead of dereferencing the nil token. -/
  p13 : Bool := false
  /-- P25: `UpdateDescription` also refuses a description that carries the obsolete `op` /
  `presenter` / `other` arrays ("description is not sanitised"), through which a PUT of a group
  definition could otherwise add users. -/
  p25 : Bool := false
  deriving DecidableEq, Repr, Inhabited

/-- the state of the tree the engine is run against -/
def currentFixes : Fixes := { p13 := true, p25 := true }

/-! #### The actions (after CORS and authorisation) -/

def done (st : State) (r : Resp) : Outcome × State := (.resp r, st)

def finish (st : State) (res : Except Err State) (ok : Resp) : Outcome × State :=
  match res with
  | .ok st' => (.resp ok, st')
  | .error e => (.resp (httpError e), st)

def created (etag : Option Nat) : Resp := { status := if etag.isNone then 201 else 204 }

def actGroup (fx : Fixes) (st : State) (r : Request) (g : String) : Outcome × State :=
  match r.method with
  | .GET | .HEAD =>
    match getDescription st g with
    | none => done st (httpError .notExist)
    | some (_, f, isSub) =>
      if isSub then done st (httpError .notExist)
      else match checkPreconditions r (some f.ver) with
        | some code => done st { status := code, etag := some f.ver }
        | none => done st (sendJSON r (some f.ver)
            (.desc f.desc.sanitise))
  | .PUT =>
    let etag := getDescriptionTag st g
    match checkPreconditions r etag with
    | some code => done st { status := code }
    | none =>
      match jsonGate r with
      | some resp => done st resp
      | none =>
        let d : DescIn := match r.body with
          | .desc d => d
          | _ => {}
        if fx.p25 && !d.legacy.isEmpty then done st (httpError .other)
        else finish st (updateDescription st g etag d) (created etag)
  | .DELETE =>
    match getDescriptionTag st g with
    | none => done st (httpError .notExist)
    | some v =>
      match checkPreconditions r (some v) with
      | some code => done st { status := code }
      | none => finish st (deleteDescription st g (some v)) { status := 204 }
  | _ => done st methodNotAllowed

def actUser (st : State) (r : Request) (g : String) (w : Who) : Outcome × State :=
  match r.method with
  | .GET | .HEAD =>
    match getSanitisedUser st g w with
    | none => done st (httpError .notExist)
    | some (u, v) =>
      match checkPreconditions r (some v) with
      | some code => done st { status := code, etag := some v }
      | none => done st (sendJSON r (some v) (.user u))
  | .PUT =>
    let etag := getUserTag st g w
    match checkPreconditions r etag with
    | some code => done st { status := code }
    | none =>
      if r.ctype ≠ .json then done st unsupported
      else match r.body with
        | .none | .garbage | .text _ => done st (httpError .other)
        | .big => done st (httpError .tooLarge)
        | .userBadPerm => done st (httpError .unknownPerm)
        | b =>
          let u : User := match b with
            | .user u => u
            | .tok t => { perms := .list t.perms }
            | _ => {}
          finish st (updateUser st g w etag u) (created etag)
  | .DELETE =>
    match getUserTag st g w with
    | none => done st (httpError .notExist)
    | some v =>
      match checkPreconditions r (some v) with
      | some code => done st { status := code }
      | none => finish st (deleteUser st g w (some v)) { status := 204 }
  | _ => done st methodNotAllowed

def actPassword (st : State) (r : Request) (g : String) (w : Who) : Outcome × State :=
  match r.method with
  | .PUT =>
    match jsonGate r with
    | some resp => done st resp
    | none =>
      let p : Password := match r.body with
        | .pw p => p
        | _ => .absent
      finish st (setUserPassword st g w p) { status := 204 }
  | .POST =>
    if r.ctype ≠ .text then done st unsupported
    else match r.body with
      | .big => done st (httpError .tooLarge)
      | .text id => finish st (setUserPassword st g w (.hashed "b" id)) { status := 204 }
      | .none => finish st (setUserPassword st g w (.hashed "b" "-")) { status := 204 }
      | _ => done st (httpError .other)        -- other bodies: not generated (bcrypt of the raw bytes)
  | .DELETE => finish st (setUserPassword st g w .absent) { status := 204 }
  | _ => done st methodNotAllowed

def actKeys (st : State) (r : Request) (g : String) : Outcome × State :=
  match r.method with
  | .PUT =>
    if r.ctype ≠ .jwk then done st unsupported
    else match r.body with
      | .none | .garbage | .text _ => done st (httpError .other)
      | .big => done st (httpError .tooLarge)
      | .keys ks => finish st (setKeys st g ks) { status := 204 }
      | _ => finish st (setKeys st g none) { status := 204 }
  | .DELETE => finish st (setKeys st g none) { status := 204 }
  | _ => done st methodNotAllowed

def tokEtag (st : State) : Option Nat := st.tokVer

/-- `token.Update` for a token that does not exist (`add`), or does (`rewrite`). -/
def tokenWrite (st : State) (name : String) (t : Tok) : State :=
  { st with tokens := upsert name t st.tokens, tokVer := some (st.ctr + 1), ctr := st.ctr + 1 }

def tokenDelete (st : State) (name : String) : State :=
  let ts := erase name st.tokens
  if ts = [] then { st with tokens := [], tokVer := none }
  else { st with tokens := ts, tokVer := some (st.ctr + 1), ctr := st.ctr + 1 }

def actTokenList (st : State) (r : Request) (g : String) : Outcome × State :=
  if g ≠ "" && (getDescription st g).isNone then done st (httpError .notExist)
  else match r.method with
    | .GET | .HEAD =>
      done st (sendJSON r (tokEtag st) (.names ((st.tokens.filter (fun p => p.2.group = g)).map (·.1)) false))
    | .POST =>
      match jsonGate r with
      | some resp => done st resp
      | none =>
        match r.body with
        | .tokOver => done st { status := 400, body := .txt "overspecified token" }
        | b =>
          let t : Tok := match b with
            | .tok t => t
            | _ => {}
          let name := "@rnd" ++ toString (st.nrnd + 1)
          let st' := tokenWrite { st with nrnd := st.nrnd + 1 } name { t with group := g }
          (.resp { status := 201, location := some name }, st')
    | _ => done st methodNotAllowed

def actToken (fx : Fixes) (st : State) (r : Request) (g t : String) : Outcome × State :=
  if g ≠ "" && (getDescription st g).isNone then done st (httpError .notExist)
  else match r.method with
    | .GET | .HEAD =>
      match lookup t st.tokens with
      | none => done st (httpError .notExist)
      | some old =>
        if old.group ≠ g then done st notFoundPlain
        else match checkPreconditions r (tokEtag st) with
          | some code => done st { status := code, etag := tokEtag st }
          | none => done st (sendJSON r (tokEtag st) (.token { old with group := "" }))
    | .PUT =>
      let old := lookup t st.tokens
      -- `old.Group` on the nil token that token.Get returned together with ErrNotExist
      if old.isNone && !fx.p13 then (.crash, st)
      else if (match old with | some o => decide (o.group ≠ g) | none => false) then
        done st { status := 409, body := .txt "token exists in different group" }
      else
        let etag := if old.isSome then tokEtag st else none
        match checkPreconditions r etag with
        | some code => done st { status := code }
        | none =>
          match jsonGate r with
          | some resp => done st resp
          | none =>
            match r.body with
            | .tokOver => done st { status := 400, body := .txt "overspecified token" }
            | b =>
              let nt : Tok := match b with
                | .tok t => t
                | _ => {}
              (.resp (created etag), tokenWrite st t { nt with group := g })
    | .DELETE =>
      match lookup t st.tokens with
      | none => done st (httpError .notExist)
      | some old =>
        if old.group ≠ g then done st notFoundPlain
        else match checkPreconditions r (tokEtag st) with
          | some code => done st { status := code }
          | none => (.resp { status := 204 }, tokenDelete st t)
    | _ => done st methodNotAllowed

def getHead (r : Request) : Bool := r.method = .GET || r.method = .HEAD

def act (fx : Fixes) (st : State) (r : Request) : Action → Outcome × State
  | .notFoundPlain => done st notFoundPlain
  | .notFoundPage => done st (httpError .notExist)
  | .stats => if getHead r then done st (sendJSON r none .stats) else done st methodNotAllowed
  | .listGroups =>
    if getHead r then done st (sendJSON r none (.names (st.groups.map (·.1)) true)) else done st methodNotAllowed
  | .group g => actGroup fx st r g
  | .listUsers g =>
    if !getHead r then done st methodNotAllowed
    else match getDescription st g with
      | none => done st (httpError .notExist)
      | some (_, f, _) =>
        match checkPreconditions r (some f.ver) with
        | some code => done st { status := code, etag := some f.ver }
        | none => done st (sendJSON r (some f.ver) (.names (f.desc.users.map (·.1)) false))
  | .user g w => actUser st r g w
  | .password g w => actPassword st r g w
  | .keys g => actKeys st r g
  | .tokenList g => actTokenList st r g
  | .token g t => actToken fx st r g t

/-- `apiHandler`: CORS preflight, authorisation, action. -/
def handle (fx : Fixes) (st : State) (r : Request) : Outcome × State :=
  let b := route r.path
  if b.cors && r.method = .OPTIONS then done st { status := 200 }
  else if !authorised st r.cred b.auth then done st { status := 401, body := .haha }
  else act fx st r b.action

/-! ### Requests under a write fault (engine op `freq`)

While the file-size limit of the process is `limit` bytes (RLIMIT_FSIZE; SIGXFSZ is ignored by the
Go runtime) a `write(2)` that would make a regular file longer than `limit` is cut short or fails
with EFBIG.  Of the handlers' effects on definition files only `rewriteDescriptionFile` writes:
`json.Encoder.Encode` returns the error, the temporary file is closed and removed, the error goes
back through `UpdateDescription`/`UpdateUser`/`DeleteUser`/`SetUserPassword`/`SetKeys` to
`httpError` (500), and nothing has changed.  `DeleteDescription` (an unlink) and every read are
not affected.  `rewrite` is the last step of every handler that calls it and is called at most
once per request, so "the request as it would have run, except that a successful `rewrite`
becomes the error" is the request under the fault.  (Requests that rewrite the token file are
engine `store`'s business, C16; the generator does not issue them under a fault.) -/

/-- did the request (re)write a definition file? -/
def wroteGroupFile (st st' : State) : Bool := st'.groups.any fun p => lookup p.1 st.groups ≠ some p.2

/-- a lower bound of the length in bytes of what `rewriteDescriptionFile` writes for `d`:
`{}` and a newline, or at least `{"description":"` … `"}` and a newline around the description -/
def Desc.sizeLowerBound (d : Desc) : Nat := if d.content = 0 then 3 else d.content + 19

/-- Does the write of the definition files that the request writes fail under the limit?
`some true`: certainly (the file is longer than the limit); `some false`: nothing is written;
`none`: it depends on the length of the file, which the symbolic model does not know. -/
def faultBites (limit : Nat) (st st' : State) : Option Bool :=
  match st'.groups.filter (fun p => lookup p.1 st.groups ≠ some p.2) with
  | [] => some false
  | written => if written.all (fun p => limit < p.2.desc.sizeLowerBound) then some true else none

/-- `apiHandler` while every write of a definition file fails -/
def handleFault (fx : Fixes) (st : State) (r : Request) : Outcome × State :=
  let (out, st') := handle fx st r
  if wroteGroupFile st st' then (.resp (httpError .other), st) else (out, st')

/-! ### Groups that are live in memory (engine op `live`)

`group.GetDescription(name)` first asks the table of live groups: `g := Get(name)`; if there is one
and `descriptionUnchanged(name, g.Description())`, the cached description is returned, otherwise the
file is read.  Everything above works with `getDescription` = "read the file"; Props/C17Live.lean
proves that `getDescriptionLive` returns the same at every state that requests, fixture writes and
`group.Add` can reach (versions identify contents), so the live table is kept by the engine only to
predict `group.Add` and `.stats`. -/

/-- what a live group keeps of the definition it was created from (or last refreshed with): the
file it was read from, that file's version (size and modification time) with the upgraded
description, and whether the group is an automatic subgroup -/
structure Cached where
  key : String
  file : GroupFile
  isSub : Bool
  deriving DecidableEq, Repr, Inhabited

/-- `descriptionUnchanged(name, desc)`: the NAME still resolves (`getDescriptionFile(name, true,
os.Stat)`) to the file the description was read from, and that file has the same size and
modification time -/
def descriptionUnchanged (gs : List (String × GroupFile)) (name : String) (c : Cached) : Bool :=
  match getFile gs name true with
  | some (k, f, _) => k == c.key && f.ver == c.file.ver
  | none => false

/-- `GetDescription` with a table of live groups: the cached description if it is unchanged,
otherwise the file is read (the live group itself is refreshed by `group.Add`/`Update` only) -/
def getDescriptionLive (live : List (String × Cached)) (st : State) (name : String) : Option (String × GroupFile × Bool) :=
  match lookup name live with
  | some c =>
    if descriptionUnchanged st.groups name c then some (c.key, c.file, c.isSub)
    else readDescription st.groups name true
  | none => readDescription st.groups name true

/-- the definition is (re)read for a live group: `readDescription(name, true)`; a group whose
definition cannot be read any more is dropped (`deleteUnlocked`; the groups here have no clients) -/
def readLive (live : List (String × Cached)) (st : State) (name : String) : Bool × List (String × Cached) :=
  match readDescription st.groups name true with
  | some (k, f, s) => (true, upsert name { key := k, file := f, isSub := s } live)
  | none => (false, erase name live)

/-- `group.Add(name, nil)`: whether it succeeded, and the table of live groups afterwards -/
def addLive (live : List (String × Cached)) (st : State) (name : String) : Bool × List (String × Cached) :=
  match lookup name live with
  | some c => if descriptionUnchanged st.groups name c then (true, live) else readLive live st name
  | none => readLive live st name

end Galene.Api
