import GaleneVerif.Model.Paths
import GaleneVerif.Model.Etag
import GaleneVerif.Model.Token
/-
Model of galene's WHIP ingest (the last clause of C11, and the WHIP part of C12), transcribed
branch for branch from

  webserver/whip.go       whipEndpointHandler, whipResourceHandler, canPresent, (de)obfuscate
  webserver/util.go       parseBearerToken
  webserver/webserver.go  groupHandler (the dispatch on splitPath), httpError, methodNotAllowed
  rtpconn/whipclient.go   NewWhipClient, Init, SetETag, NewConnection, Close, Kick, GotICECandidate,
                          UFragPwd, Restart (as far as the handlers can tell the outcomes apart)
  group/group.go          Add/add, AddClient (everything except autolock/autokick), DelClient, Get,
                          GetClient, SetLocked, Description.GetPermission (password branch here, token
                          branch = Model/Token.lean `getPermissionToken`)

Reused models: `Paths.splitPath`, `Paths.parseGroupName`, `Paths.validGroupName` (C19),
`Etag.checkPreconditions` (C18), `Token.Stateful`/`getPermissionToken` (C09).

Strings are Go byte strings, `List Char` with one char per byte (as in Model/Paths.lean).

What is abstracted, and how the `whip` engine ties it to the real code:
* ids.  `newId()` draws 128 random bits; here a session gets the next number (`Id.s n`), a mock
  member `Id.m n`.  `obfuscate` is AES under a process-random key; on the wire of this model the
  obfuscated form of an id is the placeholder `@S<n>`/`@M<n>`/`@X<n>` (the harness substitutes the
  real obfuscated id; `@X<n>` is a well-formed id that nobody has) and `deobfuscate` inverts it.  Any
  other path segment is judged as base64 does: 22 URL-safe characters (CR/LF ignored) decode to 16
  bytes, i.e. to a well-formed id that nobody has (assumption: a client cannot guess an id; this is
  the secrecy of AES-128 under a random key and of 128 random bits, not proved here).
* client objects.  `g.clients` maps ids to objects; here it is the list of member ids plus the
  sublist `nonWhip` of ids held by something that is not a `*WhipClient` (clients choose their own
  ids, so a web client may join under the id of a WHIP session that has ended: the type assertion in
  whipResourceHandler is what answers 404 then).  The WhipClient objects are `World.sessions`.
* entity tags.  `"\"" + newId() + "\""` becomes `"E<k>"`, k a counter; the harness substitutes.
* the request body is what the handlers and pion make of it (`Body`): too large, an offer that
  `NewConnection` accepts, a fragment that parses, the ICE credentials it carries, whether the
  patched offer is one pion accepts.  The session keeps the credentials in force (`cred`) and
  whether a failed restart left the PeerConnection in `have-remote-offer` (`stuck`: pion moves the
  signalling state before it validates the description and galene does not roll back, so every
  later restart of that session is answered 500), because later PATCH answers depend on them.
* no `canonicalHost` (so `redirect` never fires), no `Origin` header, tokens are not JWTs, groups have
  no autolock/autokick and are not subgroups: the generator never produces these.
* whipResourceHandler is written as two functions, `findSession` (from the request to the session:
  every 500/404/403 before the method is looked at, in the order of the Go code) and `actOn` (the
  method dispatch), so that the theorems can name the point between them.
* a Go panic is the explicit outcome `Outcome.crash` (the only slice expression that could fail is
  `rest[1:]`; `C12_whip_no_crash` proves it is guarded).
Quirks of the code that the model keeps: an unknown bearer token is answered 404, not 401
(`httpError` tests `os.ErrNotExist` first and `NotAuthorisedError` unwraps); a token without a
username is refused (401 "this username is taken") when the description has a user called "whip";
the token check of a session comes before OPTIONS (a CORS preflight, which carries no credentials,
gets 403); a session created without a bearer token is not protected by one.
-/
namespace Galene.Whip
open Galene

abbrev Str := List Char

def lit (s : String) : Str := s.toList

/-! ### small pieces of the Go standard library -/

/-- `strings.Split(s, sep)` for a one-byte separator (never empty: `Split("", sep) = [""]`) -/
def splitOn (sep : Char) : Str → List Str
  | [] => [[]]
  | c :: cs =>
    if c = sep then [] :: splitOn sep cs
    else
      match splitOn sep cs with
      | [] => [[c]]          -- unreachable
      | w :: ws => (c :: w) :: ws

def isSpTab (c : Char) : Bool := c = ' ' || c = '\t'

/-- `strings.Trim(a, " \t")` -/
def trimSpTab (s : Str) : Str := ((s.dropWhile isSpTab).reverse.dropWhile isSpTab).reverse

def lowerByte (c : Char) : Char := if 'A' ≤ c ∧ c ≤ 'Z' then Char.ofNat (c.toNat + 32) else c

/-- the key under which `strings.EqualFold(s, k)` compares `s` with a lower-case ASCII constant `k`:
ASCII letters fold to lower case; the only non-ASCII runes whose simple-folding orbit contains an
ASCII letter are U+017F (long s, bytes C5 BF) and U+212A (Kelvin sign, bytes E2 84 AA); every other
byte ≥ 0x80 stays and matches no ASCII byte. -/
def foldKeyAux : Nat → Str → Str
  | 0, _ => []
  | _, [] => []
  | fuel + 1, c :: cs =>
    match cs with
    | d :: rest =>
      if c.toNat = 0xC5 ∧ d.toNat = 0xBF then 's' :: foldKeyAux fuel rest
      else
        match rest with
        | e :: rest' =>
          if c.toNat = 0xE2 ∧ d.toNat = 0x84 ∧ e.toNat = 0xAA then 'k' :: foldKeyAux fuel rest'
          else lowerByte c :: foldKeyAux fuel cs
        | [] => lowerByte c :: foldKeyAux fuel cs
    | [] => [lowerByte c]

/-- fuel: every step consumes at least one byte -/
def foldKey (s : Str) : Str := foldKeyAux s.length s

/-- `strings.EqualFold(s, k)` for a lower-case ASCII constant `k` -/
def equalFold (s k : Str) : Bool := foldKey s = k

/-! ### webserver/util.go -/

/-- the body of the loop of `parseBearerToken` for one comma-separated element -/
def bearerOf (a : Str) : Option Str :=
  match splitOn ' ' (trimSpTab a) with
  | [k, v] => if equalFold k (lit "bearer") then some v else none
  | _ => none

/-- `parseBearerToken(auth)` -/
def parseBearerToken (auth : Str) : Str :=
  ((splitOn ',' auth).findSome? bearerOf).getD []

/-- `canPresent(perms)` -/
def canPresent (perms : List Str) : Bool := perms.contains (lit "present")

/-! ### ids -/

inductive Id where
  | s (n : Nat)      -- the n-th WHIP session created
  | m (n : Nat)      -- a non-WHIP member
  | x (seg : Str)    -- a well-formed id that nobody has
  deriving DecidableEq, Repr

def isB64Url (c : Char) : Bool := c.isAlphanum || c = '-' || c = '_'

def digitsVal : List Char → Option Nat
  | [] => none
  | cs => if cs.all Char.isDigit then some (cs.foldl (fun a c => a * 10 + (c.toNat - '0'.toNat)) 0) else none

/-- `deobfuscate(seg)`: `none` is an error (bad base64 or bad length). -/
def deobfuscate (seg : Str) : Option Id :=
  match seg with
  | '@' :: 'S' :: ds => (digitsVal ds).map .s
  | '@' :: 'M' :: ds => (digitsVal ds).map .m
  | '@' :: 'X' :: ds => (digitsVal ds).map (fun _ => .x seg)
  | _ =>
    let t := seg.filter (fun c => c ≠ '\r' ∧ c ≠ '\n')
    if t.length = 22 ∧ t.all isB64Url then some (.x seg) else none

/-! ### group descriptions -/

/-- `Password` as far as `Match` distinguishes -/
inductive Pw where
  | none                 -- Type == "": never matches
  | plain (key : Str)
  | wildcard
  deriving DecidableEq, Repr

/-- `Password.Match(pw)` (no error cases for these types; `ConstantTimeCompare` is equality) -/
def Pw.matches : Pw → Str → Bool
  | .none, _ => false
  | .plain k, pw => pw = k
  | .wildcard, _ => true

/-- `group.Permissions`: a role name or a raw list -/
inductive Perms where
  | role (name : Str)
  | raw (l : List Str)
  deriving DecidableEq, Repr

/-- `permissionsMap` -/
def roles : List (Str × List Str) :=
  [ (lit "op", [lit "op", lit "present", lit "message", lit "caption", lit "token"]),
    (lit "present", [lit "present", lit "message"]),
    (lit "message", [lit "message"]),
    (lit "observe", []),
    (lit "caption", [lit "caption"]),
    (lit "admin", [lit "admin"]) ]

/-- `Permissions.Permissions(desc)` (descriptions without allow-recording / unrestricted-tokens) -/
def Perms.list : Perms → List Str
  | .role n => (roles.lookup n).getD []
  | .raw l => l

structure User where
  pw : Pw
  perms : Perms
  deriving DecidableEq, Repr

structure Desc where
  users : List (Str × User) := []
  wildcard : Option User := none
  maxClients : Nat := 0
  notBefore : Option Int := none
  expires : Option Int := none
  deriving DecidableEq, Repr

/-- `g.description.NotBefore != nil && g.description.NotBefore.After(now)` -/
def Desc.notYetOpen (d : Desc) (now : Int) : Bool :=
  match d.notBefore with
  | some nb => decide (nb > now)
  | none => false

/-- `g.description.Expires != nil && g.description.Expires.Before(now)` -/
def Desc.alreadyClosed (d : Desc) (now : Int) : Bool :=
  match d.expires with
  | some e => decide (e < now)
  | none => false

/-- a description file on disk: one that parses, or one that does not -/
inductive File where
  | desc (d : Desc)
  | bad
  deriving DecidableEq, Repr

/-! ### the server state -/

/-- a `*rtpconn.WhipClient` -/
structure Session where
  id : Id
  /-- `c.token`: the bearer token of the creating request ("" if it carried none) -/
  token : Str
  username : Str := []
  perms : List Str := []
  /-- `c.group` (nil after `Close`) -/
  group : Option Str := none
  /-- `c.connection != nil` -/
  conn : Bool := false
  /-- the remote ICE credentials in force (0 = the offer's) -/
  cred : Nat := 0
  /-- signalling state `have-remote-offer`, left behind by a failed restart -/
  stuck : Bool := false
  etag : Str := []
  deriving DecidableEq, Repr

/-- a `*group.Group` in memory -/
structure Grp where
  locked : Bool := false
  /-- `g.clients` (ids; the client object of a session id is in `World.sessions`) -/
  clients : List Id := []
  /-- the ids of `clients` that are held by something other than a `*WhipClient` (a web client, a
  recorder: ids are chosen by the clients themselves, so one may carry the id of a WHIP session that
  has ended) -/
  nonWhip : List Id := []
  deriving DecidableEq, Repr

structure World where
  /-- the groups directory -/
  files : List (Str × File) := []
  /-- `groups.groups` -/
  groups : List (Str × Grp) := []
  /-- the stateful token store -/
  tokens : List (Str × Token.Stateful) := []
  /-- every WhipClient that was ever admitted, in order of creation -/
  sessions : List Session := []
  nextId : Nat := 1
  nextEtag : Nat := 1
  /-- `time.Now()` (the harness uses only far-past / far-future instants) -/
  now : Int := 0
  deriving Repr

def World.session? (w : World) (id : Id) : Option Session := w.sessions.find? (fun s => s.id = id)

/-- update the (first) session object with this id -/
def updFirst (id : Id) (f : Session → Session) : List Session → List Session
  | [] => []
  | s :: rest => if s.id = id then f s :: rest else s :: updFirst id f rest

def World.updSession (w : World) (id : Id) (f : Session → Session) : World :=
  { w with sessions := updFirst id f w.sessions }

def World.group? (w : World) (name : Str) : Option Grp := w.groups.lookup name

/-- `g.clients` of the group of that name ([] if there is none in memory) -/
def World.clientsOf (w : World) (name : Str) : List Id :=
  match w.group? name with
  | some g => g.clients
  | none => []

/-- `m[k] = v` on an association list that keeps insertion order -/
def setKey {α : Type} (k : Str) (v : α) : List (Str × α) → List (Str × α)
  | [] => [(k, v)]
  | (n, h) :: rest => if n = k then (k, v) :: rest else (n, h) :: setKey k v rest

/-- `delete(m, k)` -/
def delKey {α : Type} (k : Str) : List (Str × α) → List (Str × α)
  | [] => []
  | (n, h) :: rest => if n = k then delKey k rest else (n, h) :: delKey k rest

def World.setGroup (w : World) (name : Str) (g : Grp) : World :=
  { w with groups := setKey name g w.groups }

def etagOf (k : Nat) : Str := '"' :: 'E' :: (toString k).toList ++ ['"']

/-! ### errors and `httpError` -/

inductive Err where
  | notExist        -- errors.Is(err, os.ErrNotExist)
  | notAuthorised   -- *group.NotAuthorisedError (not wrapping ErrNotExist)
  | tooLarge        -- *http.MaxBytesError
  | other           -- anything else: UserError, ProtocolError, JSON and SDP errors, …
  deriving DecidableEq, Repr

/-- the status `httpError` answers with.  The `os.ErrNotExist` test comes first, and
`NotAuthorisedError` unwraps: an unknown token is answered 404, not 401. -/
def httpError : Err → Nat
  | .notExist => 404
  | .notAuthorised => 401
  | .tooLarge => 413
  | .other => 500

/-! ### group.Add -/

/-- `deleteUnlocked(g)` on the failure paths of `add`: the group leaves memory iff it has no clients -/
def World.dropIfEmpty (w : World) (name : Str) : World :=
  match w.group? name with
  | some g => if g.clients.isEmpty then { w with groups := delKey name w.groups } else w
  | none => w

/-- `group.Add(name, nil)`: (re)reads the description when the file changed; the description in
force afterwards is the file's. -/
def add (w : World) (name : Str) : World × Except Err Desc :=
  if !Paths.validGroupName name then (w, .error .other)     -- UserError("illegal group name")
  else
    match w.files.lookup name with
    | some (.desc d) =>
      match w.group? name with
      | some _ => (w, .ok d)
      | none => (w.setGroup name {}, .ok d)
    | some .bad => (w.dropIfEmpty name, .error .other)
    | none => (w.dropIfEmpty name, .error .notExist)

/-! ### Description.GetPermission for the WHIP credentials `{Username: "whip", Token: token}` -/

def whipName : Str := lit "whip"

/-- golang-jwt is not involved: the tokens of this model are not JWTs -/
def noJwt : Token.Params := { methods := [], verify := fun _ _ => false }

/-- `getPasswordPermission` with username "whip" and the empty password -/
def getPasswordPermission (d : Desc) : Except Err Perms :=
  match d.users.lookup whipName with
  | some u => if u.pw.matches [] then .ok u.perms else .error .notAuthorised      -- ErrBadPassword
  | none =>
    match d.wildcard with
    | some u => if u.pw.matches [] then .ok u.perms else .error .notAuthorised    -- ErrNoSuchUsername
    | none => .error .notAuthorised

/-- `g.description.GetPermission(g.name, creds)` -/
def getPermission (w : World) (d : Desc) (gname token : Str) : Except Err (Str × List Str) :=
  if token ≠ [] then
    match Token.getPermissionToken noJwt [] (d.users.map (·.1)) [] w.now gname (some whipName) .malformed
        (w.tokens.lookup token) with
    | .ok r => .ok r
    | .error (.notAuthorisedParse .notFound) => .error .notExist   -- NotAuthorisedError{os.ErrNotExist}
    | .error _ => .error .notAuthorised
  else
    match getPasswordPermission d with
    | .error e => .error e
    | .ok ps => if Paths.validUsername whipName then .ok (whipName, ps.list) else .error .notAuthorised

/-! ### group.AddClient / DelClient -/

/-- `group.AddClient(name, c, creds)` for a fresh WhipClient `c` (id, token): on success the id
is in the group's client table and the client object (with username and permissions installed by
`Init`) is returned; the handler decides whether it is kept (then it enters `World.sessions`). -/
def addClient (w : World) (name : Str) (id : Id) (token : Str) : World × Except Err Session :=
  match add w name with
  | (w1, .error e) => (w1, .error e)
  | (w1, .ok d) =>
    match w1.group? name with
    | none => (w1, .error .other)           -- unreachable: `add` has just put the group into memory
    | some g =>
      match getPermission w1 d name token with
      | .error e => (w1, .error e)
      | .ok (username, perms) =>
        let op := perms.contains (lit "op")
        if !op ∧ g.locked then (w1, .error .other)
        else if !op ∧ d.notYetOpen w1.now then (w1, .error .other)
        else if !op ∧ d.alreadyClosed w1.now then (w1, .error .other)
        else if !op ∧ d.maxClients > 0 ∧ g.clients.length ≥ d.maxClients then (w1, .error .other)
        else if g.clients.contains id then (w1, .error .other)      -- duplicate client id
        else
          let c : Session := { id := id, token := token, username := username, perms := perms, group := some name }
          (w1.setGroup name { g with clients := g.clients ++ [id] }, .ok c)

/-- the effect of `group.DelClient(c)` for a WhipClient `c` on the group table: `c.Group()` is
`gname`.  (The Go code compares pointers, `g.clients[c.Id()] != c`; both call sites — right after a
successful `AddClient`, and `Close` with `c.group != nil` — have `c` as the holder of its id, because
`AddClient` refuses duplicate ids.) -/
def World.delMember (w : World) (gname : Str) (id : Id) : World :=
  match w.group? gname with
  | some g => if g.clients.contains id then w.setGroup gname { g with clients := g.clients.erase id } else w
  | none => w

/-- `(*WhipClient).Close()` -/
def World.close (w : World) (id : Id) : World :=
  match w.session? id with
  | none => w
  | some s =>
    match s.group with
    | none => w.updSession id (fun s => { s with conn := false })
    | some g => (w.delMember g id).updSession id (fun s => { s with conn := false, group := none })

/-! ### requests and responses -/

/-- what the handlers and pion make of a request body -/
structure Body where
  /-- more than `sdpLimit` bytes -/
  tooLarge : Bool := false
  /-- `NewConnection` succeeds on it (it is a usable SDP offer) -/
  offerOk : Bool := false
  /-- `sdpfrag.Unmarshal` succeeds on it -/
  fragOk : Bool := true
  /-- the ICE (ufrag, pwd) pair of the fragment (`none`: it has none) -/
  fragCred : Option Nat := none
  /-- the offer patched with this fragment is one pion accepts (`false`: e.g. a candidate line that
  does not parse) -/
  patchOk : Bool := true
  deriving DecidableEq, Repr

structure Req where
  method : Str
  path : Str
  /-- `r.Header.Get("Authorization")` etc.; "" when absent -/
  auth : Str := []
  ifMatch : Str := []
  ifNoneMatch : Str := []
  ctype : Str := []
  body : Body := {}
  deriving Repr

/-- what a request did -/
inductive Effect where
  | none
  | created (id : Id)
  | closed (id : Id)
  | candidates (id : Id)
  | restarted (id : Id)
  | restartFailed (id : Id)
  deriving DecidableEq, Repr

structure Resp where
  status : Nat
  /-- the `Location` header: the session's URL -/
  location : Option Id := none
  etag : Option Str := none
  allow : Str := []
  accept : Str := []
  /-- `Access-Control-Allow-Methods` -/
  acam : Str := []
  effect : Effect := .none
  deriving DecidableEq, Repr

inductive Outcome where
  | resp (r : Resp)
  /-- a Go panic -/
  | crash
  /-- a path of `groupHandler` that is not WHIP's (the group page, `.status`) -/
  | notWhip
  deriving DecidableEq, Repr

def status (n : Nat) : Outcome := .resp { status := n }

/-- `methodNotAllowed(w, methods)` -/
def methodNotAllowed (methods : String) : Outcome :=
  .resp { status := 405, allow := lit ("OPTIONS, " ++ methods) }

/-! ### whipEndpointHandler -/

def whipEndpointHandler (w : World) (r : Req) : World × Outcome :=
  -- redirect(w, r): no canonical host
  let (pth, kind, pthid) := Paths.splitPath r.path
  if kind ≠ lit ".whip" ∨ pthid ≠ [] then (w, status 500)
  else
    let name := Paths.parseGroupName (lit "/group/") pth
    if name = [] then (w, status 404)
    else
      match add w name with
      | (w1, .error e) => (w1, status (httpError e))
      | (w1, .ok _) =>
        if r.method = lit "OPTIONS" then (w1, .resp { status := 200, acam := lit "OPTIONS, POST" })
        else if r.method ≠ lit "POST" then (w1, methodNotAllowed "POST")
        else if !equalFold r.ctype (lit "application/sdp") then
          (w1, .resp { status := 415, accept := lit "application/sdp" })
        else if r.body.tooLarge then (w1, status (httpError .tooLarge))
        else
          let token := parseBearerToken r.auth
          let id := Id.s w1.nextId
          match addClient w1 name id token with
          | (w2, .error e) => (w2, status (httpError e))
          | (w2, .ok c) =>
            -- group.DelClient(c) on both refusal paths: the client object becomes garbage
            if !canPresent c.perms then (w2.delMember name id, status 403)
            else if !r.body.offerOk then (w2.delMember name id, status (httpError .other))   -- NewConnection failed
            else
              let etag := etagOf w2.nextEtag
              let c' : Session := { c with etag := etag, conn := true }
              ({ w2 with sessions := w2.sessions ++ [c'], nextId := w2.nextId + 1, nextEtag := w2.nextEtag + 1 },
               .resp { status := 201, location := some id, etag := some etag, effect := .created id })

/-! ### whipResourceHandler -/

/-- `checkPreconditions(w, r, c.ETag())`: `some status` = done -/
def precond (r : Req) (etag : Str) : Option Nat :=
  match Etag.checkPreconditions r.method etag r.ifMatch r.ifNoneMatch with
  | .continue_ => none
  | .notModified => some 304
  | .preconditionFailed => some 412

/-- the first half of `whipResourceHandler`: from the request to the session it addresses, with
the checks in the order of the Go code (malformed id 500, then the 404s, then the token 403) -/
def findSession (w : World) (r : Req) : Except Outcome (Id × Session) :=
  let (pth, kind, rest) := Paths.splitPath r.path
  if kind ≠ lit ".whip" ∨ rest = [] then .error (status 500)
  else
    match rest with
    | [] => .error .crash                     -- rest[1:] of an empty string
    | _ :: seg =>
      match deobfuscate seg with
      | none => .error (status (httpError .other))
      | some id =>
        let name := Paths.parseGroupName (lit "/group/") pth
        if name = [] then .error (status 404)
        else
          match w.group? name with
          | none => .error (status 404)
          | some g =>
            if !g.clients.contains id then .error (status 404)         -- g.GetClient(id) == nil
            else if g.nonWhip.contains id then .error (status 404)     -- c, ok := cc.(*rtpconn.WhipClient); !ok
            else
              match w.session? id with
              | none => .error (status 404)                            -- (a member id without an object)
              | some c =>
                -- if t := c.Token(); t != "" { … ConstantTimeCompare(token, t) … }
                if c.token ≠ [] ∧ parseBearerToken r.auth ≠ c.token then .error (status 403)
                else .ok (id, c)

/-- the second half: what the request does to the session `c` (with id `id`) it addresses -/
def actOn (w : World) (r : Req) (id : Id) (c : Session) : World × Outcome :=
  if r.method = lit "OPTIONS" then
    (w, .resp { status := 200, acam := lit "OPTIONS, DELETE, PATCH" })
  else if r.method = lit "DELETE" then
    match precond r c.etag with
    | some st => (w, status st)
    | none => (w.close id, .resp { status := 200, effect := .closed id })
  else if r.method ≠ lit "PATCH" then (w, methodNotAllowed "DELETE, PATCH")
  else
    match precond r c.etag with
    | some st => (w, status st)
    | none =>
      if !equalFold r.ctype (lit "application/trickle-ice-sdpfrag") then
        (w, .resp { status := 415, accept := lit "application/trickle-ice-sdpfrag" })
      else if r.body.tooLarge then (w, status 500)
      else if !r.body.fragOk then (w, status 400)
      else if !c.conn then (w, status 500)              -- UFragPwd: no connection
      else if r.body.fragCred ≠ some c.cred then
        -- c.Restart(ctx, frag)
        match r.body.fragCred, r.body.patchOk with
        | some k, true =>
          if c.stuck then (w, .resp { status := 500, effect := .restartFailed id })
          else
            let etag := etagOf w.nextEtag
            ({ (w.updSession id (fun s => { s with cred := k, etag := etag })) with nextEtag := w.nextEtag + 1 },
             .resp { status := 200, etag := some etag, effect := .restarted id })
        | _, _ =>
          -- SetRemoteDescription fails (no ice-ufrag, bad candidate) after pion has moved to
          -- have-remote-offer; nothing rolls it back
          (w.updSession id (fun s => { s with stuck := true }),
           .resp { status := 500, effect := .restartFailed id })
      else (w, .resp { status := 204, effect := .candidates id })

def whipResourceHandler (w : World) (r : Req) : World × Outcome :=
  match findSession w r with
  | .error o => (w, o)
  | .ok (id, c) => actOn w r id c

/-! ### groupHandler: the dispatch -/

def groupHandler (w : World) (r : Req) : World × Outcome :=
  let (_, kind, rest) := Paths.splitPath r.path
  if kind = lit ".status" ∧ rest = [] then (w, .notWhip)
  else if kind = lit ".status.json" ∧ rest = [] then (w, .notWhip)
  else if kind = lit ".whip" then
    if rest = [] then whipEndpointHandler w r else whipResourceHandler w r
  else if kind ≠ [] then (w, status 404)
  else (w, .notWhip)

/-- how the harness reaches the code: through the dispatcher, or a handler called directly -/
inductive Via where
  | g | e | r
  deriving DecidableEq, Repr

def handle (w : World) (via : Via) (r : Req) : World × Outcome :=
  match via with
  | .g => groupHandler w r
  | .e => whipEndpointHandler w r
  | .r => whipResourceHandler w r

/-! ### everything else that happens to the server (the environment) -/

inductive Op where
  | req (via : Via) (r : Req)
  | setFile (name : Str) (f : File)
  | rmFile (name : Str)
  | addToken (name : Str) (t : Token.Stateful)
  | expireToken (name : Str)
  | delToken (name : Str)
  /-- `group.Add(name, nil)` then `SetLocked` -/
  | lock (name : Str) (locked : Bool)
  /-- a non-WHIP client with this id joins / leaves (`group.AddClient` / `DelClient`) -/
  | mockJoin (id : Id) (name : Str)
  | mockLeave (id : Id) (name : Str)
  /-- `c.Kick(...)` by an operator or autokick, `c.Close()` from the ICE state callback -/
  | kick (id : Id)
  | iceClose (id : Id)
  deriving Repr

/-- the far past -/
def past : Int := -1000

def step (w : World) : Op → World × Option Outcome
  | .req via r => ((handle w via r).1, some (handle w via r).2)
  | .setFile name f => ({ w with files := setKey name f w.files }, none)
  | .rmFile name => ({ w with files := delKey name w.files }, none)
  | .addToken name t =>
    -- token.Update(t, ""): added if it did not exist
    match w.tokens.lookup name with
    | some _ => (w, none)
    | none => ({ w with tokens := w.tokens ++ [(name, t)] }, none)
  | .expireToken name =>
    match w.tokens.lookup name with
    | some t => ({ w with tokens := setKey name { t with expires := some (w.now + past) } w.tokens }, none)
    | none => (w, none)
  | .delToken name => ({ w with tokens := delKey name w.tokens }, none)
  | .lock name locked =>
    match add w name with
    | (w1, .error _) => (w1, none)
    | (w1, .ok _) =>
      match w1.group? name with
      | some g => (w1.setGroup name { g with locked := locked }, none)
      | none => (w1, none)
  | .mockJoin id name =>
    match add w name with
    | (w1, .error _) => (w1, none)
    | (w1, .ok _) =>
      match w1.group? name with
      | some g =>
        if g.clients.contains id then (w1, none)        -- duplicate client id
        else (w1.setGroup name { g with clients := g.clients ++ [id], nonWhip := g.nonWhip ++ [id] }, none)
      | none => (w1, none)
  | .mockLeave id name =>
    match w.group? name with
    | some g =>
      -- DelClient: `g.clients[c.Id()] != c` unless this client is the holder of the id
      if g.nonWhip.contains id then
        (w.setGroup name { g with clients := g.clients.erase id, nonWhip := g.nonWhip.erase id }, none)
      else (w, none)
    | none => (w, none)
  | .kick id => (w.close id, none)
  | .iceClose id => (w.close id, none)

def run (w : World) (ops : List Op) : World := ops.foldl (fun w op => (step w op).1) w

end Galene.Whip
