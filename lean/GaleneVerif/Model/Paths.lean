/-
Model of the name/path handling that C19 is about (Unix build: filepath.Separator = '/').

  * Go's `path.Clean` (src/path/path.go, the lazybuf algorithm; `filepath.Clean` is the same code on Unix)
  * `path.Split`, `filepath.Join` (Unix), `strings.TrimRight(s, "/")`, `strings.Index`
  * group/group.go:        `validGroupName`, `validUsername`
  * group/description.go:  `getDescriptionFile` (the sequence of file names tried)
  * webserver/webserver.go: `parseGroupName`, `splitPath`, the group/filename split of
                            `recordingsHandler`, the filename check of the delete form (`handleGroupAction`)
  * diskwriter/diskwriter.go: `sanitise`, the file name built by `openDiskFile`

Go strings are byte strings.  They are modelled as `List Char` in which every char is a byte
(code point < 256; the engine decodes `%XX` to `Char.ofNat 0xXX`).  No function here looks at a
byte except to compare it with '/', '.', '\\' (all ASCII), so non-ASCII bytes are opaque
non-separator bytes, exactly as in the Go code (`strings.ContainsRune(s, '\\')` with an ASCII rune is
a byte search).  All theorems are stated for every `List Char`, a superset of the byte strings.

Data refinement used for `path.Clean`: the Go code keeps the input `path`, a read index `r`, and a
`lazybuf` (`out`) with write index `out.w`.  Here the unread suffix `path[r:]` is the list `rest`,
and the written prefix `out[0:out.w]` is kept REVERSED in `rout` (a stack: `append c` is `c :: rout`,
`out.w` is `rout.length`, `out.w--` pops the head, and the byte popped is the one `out.index(out.w)`
reads next).  The lazybuf's copy-on-write trick (no allocation while the output is a prefix of the
input) is not modelled: it is an implementation of this buffer ADT.  Everything else is branch for
branch.  The outer `for r < n` loop runs on fuel (`n` iterations are enough because every iteration
consumes at least one byte; `Props/C19.lean: cleanLoop_fuel` proves the result does not depend on the
fuel once it is ≥ the number of unread bytes).
-/
namespace Galene.Paths

abbrev Str := List Char

/-! ### path.Clean -/

/-- `for ; r < n && path[r] != '/'; r++ { out.append(path[r]) }` on (unread suffix, reversed buffer). -/
def copyElem : Str → Str → Str × Str
  | [], rout => ([], rout)
  | c :: t, rout => if c = '/' then (c :: t, rout) else copyElem t (c :: rout)

/-- `for out.w > dotdot && out.index(out.w) != '/' { out.w-- }`: `last` is the byte at index `out.w`
(the byte most recently given up), the list is the reversed buffer below it. -/
def backtrackLoop (dotdot : Nat) : Str → Char → Str
  | [], _ => []
  | c :: r, last => if (c :: r).length > dotdot ∧ last ≠ '/' then backtrackLoop dotdot r c else c :: r

/-- `out.w--` followed by the loop above.  Only called with `rout.length > dotdot ≥ 0`, so the first
case (w = 0) is never taken. -/
def backtrack (dotdot : Nat) : Str → Str
  | [] => []
  | last :: r => backtrackLoop dotdot r last

/-- the body of `for r < n { switch … }` of `path.Clean`; returns the reversed output buffer. -/
def cleanLoop (rooted : Bool) : Nat → Str → Str → Nat → Str
  | 0, _, rout, _ => rout
  | fuel + 1, rest, rout, dotdot =>
    match rest with
    | [] => rout
    | c :: t =>
      if c = '/' then
        -- empty path element
        cleanLoop rooted fuel t rout dotdot
      else if c = '.' ∧ (t = [] ∨ t.head? = some '/') then
        -- . element
        cleanLoop rooted fuel t rout dotdot
      else if c = '.' ∧ t.head? = some '.' ∧ (t.tail = [] ∨ t.tail.head? = some '/') then
        -- .. element: remove to last /
        if rout.length > dotdot then
          -- can backtrack
          cleanLoop rooted fuel t.tail (backtrack dotdot rout) dotdot
        else if !rooted then
          -- cannot backtrack, but not rooted, so append .. element.
          let rout1 := if rout.length > 0 then '/' :: rout else rout
          let rout2 := '.' :: '.' :: rout1
          cleanLoop rooted fuel t.tail rout2 rout2.length
        else
          cleanLoop rooted fuel t.tail rout dotdot
      else
        -- real path element.  add slash if needed
        let rout1 := if (rooted && rout.length != 1) || (!rooted && rout.length != 0) then '/' :: rout else rout
        -- copy element
        let (rest', rout2) := copyElem (c :: t) rout1
        cleanLoop rooted fuel rest' rout2 dotdot

/-- Go `path.Clean`. -/
def clean (path : Str) : Str :=
  match path with
  | [] => ['.']
  | c0 :: t0 =>
    let rooted : Bool := c0 = '/'
    let rout :=
      if rooted then cleanLoop true path.length t0 ['/'] 1
      else cleanLoop false path.length path [] 0
    if rout.length = 0 then ['.'] else rout.reverse

/-! ### small string helpers of the Go standard library -/

/-- `strings.TrimRight(s, "/")` and the loop `for len(p) > 0 && p[len(p)-1] == '/' { p = p[:len(p)-1] }`. -/
def trimRightSlash (s : Str) : Str := (s.reverse.dropWhile (· = '/')).reverse

/-- Go `path.Split`: split immediately after the final slash; `dir ++ file = path`. -/
def pathSplit (p : Str) : Str × Str :=
  ((p.reverse.dropWhile (· ≠ '/')).reverse, (p.reverse.takeWhile (· ≠ '/')).reverse)

/-- Unix `filepath.Join(a, b)`: leading empty elements are skipped, the rest joined by '/' and Cleaned;
"" if all are empty. -/
def fjoin (a b : Str) : Str :=
  if a ≠ [] then clean (a ++ '/' :: b)
  else if b ≠ [] then clean b
  else []

/-- `strings.Index(s, pat)` -/
def indexOf (pat : Str) : Str → Option Nat
  | [] => if pat = [] then some 0 else none
  | c :: t => if pat.isPrefixOf (c :: t) then some 0 else (indexOf pat t).map (· + 1)

/-! ### group/group.go -/

/-- `validGroupName` (Unix: the `filepath.Separator` test is dead code). -/
def validGroupName (name : Str) : Bool :=
  if name.contains '\\' then false
  else
    let s := clean ('/' :: name)
    if s = ['/'] then false
    else s = '/' :: name

/-- `validUsername` -/
def validUsername (username : Str) : Bool := username = [] || validGroupName username

/-! ### group/description.go: getDescriptionFile -/

def jsonExt : Str := ['.', 'j', 's', 'o', 'n']

/-- the file name computed in one iteration: `filepath.Join(Directory, path.Clean("/"+name)+".json")` -/
def descFileName (dir name : Str) : Str := fjoin dir (clean ('/' :: name) ++ jsonExt)

/-- the next `name` of the subgroup walk: `name, _ = path.Split(name); name = strings.TrimRight(name, "/")` -/
def descParent (name : Str) : Str := trimRightSlash (pathSplit name).1

/-- `getDescriptionFile(name, allowSubgroups, get)`.  The callback may be stateful in Go (`os.Stat`,
`os.Open`: the file system can change between calls), so it is modelled as a function of the call
number `k` and the file name: `get k f = true` means that the k-th call, on `f`, did NOT return
`os.ErrNotExist` (the loop stops there).  Result: `(fileName, isSubgroup)` or `none` (ErrNotExist).
Fuel: every iteration strictly shortens `name` (`Props/C19.lean: descParent_length_lt`). -/
def getDescriptionFile (dir : Str) (allowSub : Bool) (get : Nat → Str → Bool) :
    Nat → Nat → Str → Bool → Option (Str × Bool)
  | 0, _, _, _ => none
  | fuel + 1, k, name, isSub =>
    if name = [] then none
    else
      let fileName := descFileName dir name
      if get k fileName then some (fileName, isSub)
      else if !allowSub then none
      else getDescriptionFile dir allowSub get fuel (k + 1) (descParent name) true

/-- the sequence of file names `getDescriptionFile` tries when nothing exists. -/
def descFiles (dir : Str) (allowSub : Bool) : Nat → Str → List Str
  | 0, _ => []
  | fuel + 1, name =>
    if name = [] then []
    else descFileName dir name :: (if !allowSub then [] else descFiles dir allowSub fuel (descParent name))

/-! ### webserver/webserver.go -/

/-- `parseGroupName(prefix, p)` (Unix). `name[1:]` cannot panic: Clean never returns "". -/
def parseGroupName (pre p : Str) : Str :=
  if !pre.isPrefixOf p then []
  else
    let name := p.drop pre.length
    if name = [] then []
    else if name.head? = some '.' then []
    else if name.contains '\\' then []
    else (clean ('/' :: name)).drop 1

/-- `splitPath(pth)` -/
def splitPath (pth : Str) : Str × Str × Str :=
  match indexOf ['/', '.'] pth with
  | none => (pth, [], [])
  | some index =>
    let after := pth.drop (index + 1)
    match indexOf ['/'] after with
    | none => (pth.take index, after, [])
    | some index2 => (pth.take index, after.take index2, after.drop index2)

/-- `recordingsHandler`: the computation of `group, filename` from `p = r.URL.Path[12:]`, given what
`root.Open(p)` turned out to be (`isDir`).  `none` = 400 "Bad group name". -/
def recSplit (p : Str) (isDir : Bool) : Option (Str × Str) :=
  if isDir then
    let g := parseGroupName [] (trimRightSlash p)
    if g = [] then none else some (g, [])
  else
    let (g0, filename) := pathSplit p
    let g := parseGroupName [] g0
    if g = [] then none else some (g, filename)

/-- `u := "/recordings/" + group + "/" + filename; if r.URL.Path != u { redirect }` with the common
prefix "/recordings/" removed from both sides. -/
def recCanonical (p group filename : Str) : Bool := p = group ++ '/' :: filename

/-- `handleGroupAction`, q=delete: the argument of `root.Remove` (root = the recordings directory), or
`none` when the form is refused with 400. -/
def deleteTarget (group filename : Str) : Option Str :=
  if group = [] ∨ filename = [] then none
  else if filename.contains '/' then none
  else some (fjoin group (clean ('/' :: filename)))

/-! ### diskwriter/diskwriter.go -/

def slashWord : Str := "-slash-".toList
def backslashWord : Str := "-backslash-".toList

/-- `sanitise`: `strings.NewReplacer("/", "-slash-", "\\", "-backslash-").Replace(s)` (single-byte
patterns: every byte is replaced independently). -/
def sanitise (s : Str) : Str :=
  s.flatMap fun c => if c = '/' then slashWord else if c = '\\' then backslashWord else [c]

/-- `%02d` of a counter below 100 (the loop of `openDiskFile` stops at 100) -/
def twoDigits (n : Nat) : Str := [Char.ofNat (48 + n / 10 % 10), Char.ofNat (48 + n % 10)]

/-- the `counter`-th file name `openDiskFile` tries, `ts` being the formatted time stamp:
`fmt.Sprintf("%v.%v", filename, extension)` / `fmt.Sprintf("%v-%02d.%v", filename, counter, extension)`. -/
def recFileName (ts username ext : Str) (counter : Nat) : Str :=
  let filename := if username ≠ [] then ts ++ '-' :: sanitise username else ts
  if counter = 0 then filename ++ '.' :: ext
  else filename ++ '-' :: twoDigits counter ++ '.' :: ext

end Galene.Paths
