/-
Model of galene's stream fan-out state machine (C07), transcribed from
rtpconn/webclient.go (handleClientMessage, handleAction, pushDownConn,
requestedTracks, replaceTracks, negotiate, delUpConn, leaveGroup,
closeDownConn) and rtpconn/rtpconn.go (newUpConn/OnTrack, pushConn,
pushConnNow, rtpUpConnection.AddLocal).

Conventions.  Stream ids and labels are `Nat`, `0` standing for Go's empty
string (ids are never empty: the handlers reject `""`; label `0` is also the
default key of the request map).  Clients are numbered; a client is one
websocket connection (`webClient` object), it never comes back once dead.
`rtpUpConnection` objects live in a table indexed by a serial number, because
queued actions and down connections keep pointers to them after they have been
deleted from their owner's `up` map (`closed` is the flag `AddLocal` tests).

One model step is one of: the server handling one client message
(`join … answer`), the `OnTrack` callback (`track`), the expiry of the oldest
200 ms timer started by `pushConn` (`fire`), or a client loop handling ONE
queued action (`deliver`; the real loop handles the queue in batches, which is
a special case).  Steps are atomic with respect to the modelled state: each
runs in the goroutine of the client it names and touches other clients only by
appending to their (FIFO, unbounded) action queues and by reading group
membership under the group mutex.

Abstracted away: SDP/ICE/DTLS (negotiation never fails; the signalling state of
a down connection is the two flags `haveOffer`/`negNeeded`), admission
(`join` always succeeds on a client that is in no group), the other message
types, ICE restarts.  `limitSid` does not influence signalling and is kept
only as the second component of `requestedTracks`.
-/
namespace Galene.Streams

/-- Repairs of galene that change the modelled behaviour (`fix:` commits found through C07).  The model is
parametrised by them, so that the defects stay provable about the old switch values.
* `f1` — `pushConn`: the member list of a delayed push is computed when the timer fires
  (`pushConnNow(up, g, g.GetClients(up.client))`), not when it is started.
* `f3` — `gotOffer`: a `replace` in an offer that renegotiates an EXISTING connection closes the named
  stream with a push (`delUpConn(c, replace, c.Id(), true)`) and does not set `up.replace`. -/
structure Fixes where
  f1 : Bool := false
  f3 : Bool := false
  deriving DecidableEq, Repr

/-- the switch values of the code the correspondence runs are made against -/
def currentFixes : Fixes := { f1 := true, f3 := true }

/-- a value of a request list: "audio", "video", "video-low", anything else -/
inductive RK where
  | audio | video | videoLow | other
  deriving DecidableEq, Repr

/-- kind of a published track -/
inductive TK where
  | audio | video
  deriving DecidableEq, Repr

/-- a published track (`*rtpUpTrack`): `up` is the serial of its connection,
`k` the index of the track in the publisher's PeerConnection -/
structure Track where
  up : Nat
  k : Nat
  kind : TK
  deriving DecidableEq, Repr

abbrev Req := List RK

def findFirst (tracks : List Track) (kind : TK) : Option Track := tracks.find? (fun t => t.kind = kind)

def findLast (tracks : List Track) (kind : TK) : Option Track := (tracks.filter (fun t => t.kind = kind)).getLast?

def countKind (tracks : List Track) (kind : TK) : Nat := (tracks.filter (fun t => t.kind = kind)).length

/-- `requestedTracks`: the tracks selected by a request list, and `limitSid` -/
def requestedTracks (req : Req) (tracks : List Track) : List Track × Bool :=
  if req.isEmpty then ([], false) else
  let audio := req.contains .audio
  let video := req.contains .video
  let low := req.contains .videoLow
  let a := if audio then (findFirst tracks .audio).toList else []
  let v := if video then (findFirst tracks .video).toList
           else if low then (findLast tracks .video).toList else []
  (a ++ v, !video && low && countKind tracks .video < 2)

/-- `rtpUpConnection` -/
structure UpObj where
  owner : Nat := 0
  id : Nat := 0
  label : Nat := 0
  group : Nat := 0
  user : Nat := 0
  tracks : List Track := []
  replace : Nat := 0
  pushed : Bool := false
  closed : Bool := false
  deriving Repr

/-- `rtpDownConnection` -/
structure Down where
  id : Nat
  remote : Nat
  requested : Option Req := none
  tracks : List Track := []
  haveOffer : Bool := false
  negNeeded : Bool := false
  deriving Repr

inductive Action where
  | pushConn (group id : Nat) (up : Option Nat) (tracks : List Track) (replace : Nat)
  | requestConns (group target id : Nat)
  | kick
  | changePerm (present : Bool)
  | permsChanged
  deriving Repr

/-- `webClient` -/
structure Client where
  alive : Bool := true
  group : Option Nat := none
  user : Nat := 0
  present : Bool := false
  op : Bool := false
  requested : List (Nat × Req) := []
  up : List (Nat × Nat) := []
  down : List Down := []
  queue : List Action := []
  deriving Repr

/-- the goroutine started by `pushConn`: sleeps 200 ms, then pushes to `cs` unless already pushed -/
structure Timer where
  up : Nat
  group : Nat
  cs : List Nat
  deriving Repr

/-- messages written to a client's websocket -/
inductive Event where
  | offer (to id label src user replace : Nat) (tracks : List Track)
  | close (to id : Nat)
  | abort (to id : Nat)
  | dead (c : Nat)
  deriving DecidableEq, Repr

structure State where
  n : Nat := 0
  clients : Nat → Client := fun _ => {}
  nUps : Nat := 0
  ups : Nat → UpObj := fun _ => {}
  timers : List Timer := []

def setClient (s : State) (c : Nat) (f : Client → Client) : State :=
  { s with clients := fun i => if i = c then f (s.clients c) else s.clients i }

def setUp (s : State) (n : Nat) (f : UpObj → UpObj) : State :=
  { s with ups := fun i => if i = n then f (s.ups n) else s.ups i }

/-- `g.GetClients(except)` -/
def members (s : State) (g : Nat) (except : Nat) : List Nat :=
  (List.range s.n).filter (fun i => i ≠ except && (s.clients i).group == some g)

/-- `c.action(a)`; a dead client's queue is never read again -/
def put (s : State) (c : Nat) (a : Action) : State :=
  if (s.clients c).alive then setClient s c (fun cl => { cl with queue := cl.queue ++ [a] }) else s

def putAll (s : State) (cs : List Nat) (a : Action) : State := cs.foldl (fun s c => put s c a) s

def findDown (cl : Client) (id : Nat) : Option Down := cl.down.find? (fun d => d.id = id)

def delDown (s : State) (c id : Nat) : State :=
  setClient s c (fun cl => { cl with down := cl.down.filter (fun d => d.id ≠ id) })

def storeDown (s : State) (c : Nat) (d : Down) : State :=
  setClient s c (fun cl => { cl with down := cl.down.filter (fun x => x.id ≠ d.id) ++ [d] })

/-- `closeDownConn(c, id, "")` -/
def closeDown (s : State) (c id : Nat) : State × List Event := (delDown s c id, [.close c id])

/-- `delUpConn(c, id, c.id, push)` -/
def delUpConn (s : State) (c id : Nat) (push : Bool) : State :=
  match (s.clients c).up.lookup id with
  | none => s
  | some n =>
    let replace := (s.ups n).replace
    let s := setClient s c (fun cl => { cl with up := cl.up.filter (fun p => p.1 ≠ id) })
    let s := setUp s n (fun u => { u with closed := true })
    if push then
      match (s.clients c).group with
      | some g => putAll s (members s g c) (.pushConn g id none [] replace)
      | none => s
    else s

/-- `leaveGroup` -/
def leaveGroup (s : State) (c : Nat) : State :=
  match (s.clients c).group with
  | none => s
  | some _ =>
    let s := (s.clients c).up.foldl (fun s p => delUpConn s c p.1 true) s
    -- (every entry of c.up has just been deleted by delUpConn; `up := []` only makes that explicit)
    setClient s c (fun cl => { cl with up := [], down := [], group := none, present := false, op := false, requested := [] })

/-- the client loop returns an error: `leaveGroup`, connection closed -/
def die (s : State) (c : Nat) : State × List Event :=
  let s := leaveGroup s c
  (setClient s c (fun cl => { cl with alive := false, queue := [] }), [.dead c])

/-- the request list that `pushDownConn` applies to a pushed connection -/
def effReq (cl : Client) (u : UpObj) (replace : Nat) : Req :=
  let old := findDown cl (if replace ≠ 0 then replace else u.id)
  match old.bind (fun d => d.requested) with
  | some r => r
  | none =>
    match cl.requested.lookup u.label with
    | some r => r
    | none => (cl.requested.lookup 0).getD []

/-- `replaceTracks`: new track list, and whether anything changed -/
def replaceTracks (cur req : List Track) : List Track × Bool :=
  let add := req.filter (fun t => !cur.contains t)
  let del := cur.filter (fun t => !req.contains t)
  if add.isEmpty && del.isEmpty then (cur, false)
  else (cur.filter (fun t => req.contains t) ++ add, true)

/-- the deferred `closeDownConn(c, replace, "")` of `pushDownConn` -/
def deferredClose (s : State) (c replace : Nat) : State × List Event :=
  if replace ≠ 0 then closeDown s c replace else (s, [])

/-- `replaceTracks` + `negotiate` on down connection `d` of `c` (already looked up or just created) -/
def renegotiate (s : State) (c : Nat) (d : Down) (requested : List Track) (replace : Nat) :
    State × List Event :=
  let (ts, done) := replaceTracks d.tracks requested
  if !done then deferredClose s c replace
  else if d.haveOffer then
    (storeDown s c { d with tracks := ts, negNeeded := true }, [])
  else
    let r := s.ups d.remote
    (storeDown s c { d with tracks := ts, haveOffer := true, negNeeded := false },
     [.offer c d.id r.label r.owner r.user replace ts])

/-- the tracks `pushDownConn` selects for a pushed connection (none for a closed one) -/
def selection (s : State) (c : Nat) (up : Option Nat) (tracks : List Track) (replace : Nat) : List Track :=
  match up with
  | none => []
  | some n => (requestedTracks (effReq (s.clients c) (s.ups n) replace) tracks).1

/-- `pushDownConn` first deletes the down connection that is being replaced -/
def afterReplace (s : State) (c replace : Nat) : State := if replace ≠ 0 then delDown s c replace else s

/-- nothing is requested: `closeDownConn(c, id, "")`, then the deferred close of `replace` -/
def closeBoth (s : State) (c id replace : Nat) : State × List Event × Bool :=
  let r1 := closeDown s c id
  let r2 := deferredClose r1.1 c replace
  (r2.1, r1.2 ++ r2.2, false)

/-- `addDownConn` + `replaceTracks` + `negotiate`; the Boolean says that an error was returned -/
def attach (s : State) (c n : Nat) (requested : List Track) (replace : Nat) : State × List Event × Bool :=
  let u := s.ups n
  if ((s.clients c).up.lookup u.id).isSome then
    -- addDownConn: "adding duplicate connection"
    let r := deferredClose s c replace
    (r.1, r.2, true)
  else
    match findDown (s.clients c) u.id with
    | some d =>
      let r := renegotiate s c d requested replace
      (r.1, r.2, false)
    | none =>
      if u.closed then
        -- AddLocal: os.ErrClosed
        let r := deferredClose s c replace
        (r.1, r.2, false)
      else
        let r := renegotiate s c { id := u.id, remote := n } requested replace
        (r.1, r.2, false)

/-- `pushDownConn`; the Boolean says that it returned an error (the client loop exits) -/
def pushDownConn (s : State) (c id : Nat) (up : Option Nat) (tracks : List Track) (replace : Nat) :
    State × List Event × Bool :=
  let requested := selection s c up tracks replace
  let s := afterReplace s c replace
  match up with
  | none => closeBoth s c id replace
  | some n => if requested.isEmpty then closeBoth s c id replace else attach s c n requested replace

inductive Op where
  | join (c g user : Nat) (present op : Bool)
  | leave (c : Nat)
  | disc (c : Nat)
  | request (c : Nat) (m : List (Nat × Req))
  | reqStream (c id : Nat) (r : Option Req)
  | abort (c id : Nat)
  | close (c id : Nat)
  | offer (c id label replace : Nat)
  | track (c id k : Nat) (kind : TK)
  | answer (c id : Nat)
  | kick (o c : Nat)
  | setPresent (o c : Nat) (b : Bool)
  | fire
  | deliver (c : Nat)
  deriving Repr

/-- `newUpConn`: a fresh connection object registered in `c.up`, and its first delayed push
(`pushConn(up, g, g.GetClients(c))`) -/
def newUp (s : State) (c id label g : Nat) : State × Nat :=
  let n := s.nUps
  let s1 : State := { s with nUps := n + 1 }
  let s2 := setUp s1 n (fun _ => { owner := c, id := id, label := label, group := g, user := (s.clients c).user })
  let s3 := setClient s2 c (fun cl => { cl with up := cl.up ++ [(id, n)] })
  ({ s3 with timers := s3.timers ++ [{ up := n, group := g, cs := members s3 g c }] }, n)

/-- `addUpConn`: the existing connection of that id (a renegotiation), else a new one -/
def getUp (s : State) (c id label g : Nat) : State × Nat :=
  match (s.clients c).up.lookup id with
  | some n => (s, n)
  | none => newUp s c id label g

/-- the first half of `gotOffer`: `addUpConn`, then the handling of `replace` -/
def offerUp (F : Fixes) (s : State) (c id label replace g : Nat) : State :=
  let existing := ((s.clients c).up.lookup id).isSome
  let r := getUp s c id label g
  if replace ≠ 0 then
    if F.f3 && existing then
      -- renegotiation: no push of this connection is scheduled, the close is announced at once
      delUpConn r.1 c replace true
    else
      delUpConn (setUp r.1 r.2 (fun u => { u with replace := replace })) c replace false
  else r.1

/-- `gotOffer` for a client in group `g` -/
def gotOffer (F : Fixes) (s : State) (c id label replace g : Nat) : State × List Event :=
  let s1 := offerUp F s c id label replace g
  -- replace = id: the connection has just closed itself, SetRemoteDescription fails
  if ((s1.clients c).up.lookup id).isNone then (s1, [.abort c id]) else (s1, [])

/-- the `offer` message: the permission test, then `gotOffer` -/
def offerOp (F : Fixes) (s : State) (c id label replace : Nat) : State × List Event :=
  let cl := s.clients c
  if id = 0 then die s c
  else if !cl.present then
    ((if replace ≠ 0 then delUpConn s c replace true else s), [.abort c id])
  else
    match cl.group with
    | none => (s, [.abort c id])   -- unreachable: `present` implies joined (the Go code would dereference nil)
    | some g =>
      if (findDown cl id).isSome then (s, [.abort c id])   -- addUpConn: duplicate connection
      else gotOffer F s c id label replace g

/-- the `answer` message -/
def answerOp (s : State) (c id : Nat) : State × List Event :=
  match findDown (s.clients c) id with
  | none => closeDown s c id
  | some d =>
    if !d.haveOffer then closeDown s c id      -- SetRemoteDescription fails in the stable state
    else if d.negNeeded then
      let r := s.ups d.remote
      (storeDown s c { d with haveOffer := true, negNeeded := false },
       [.offer c d.id r.label r.owner r.user 0 d.tracks])
    else (storeDown s c { d with haveOffer := false }, [])

/-- `handleAction`, case `pushConnAction` -/
def handlePush (s : State) (c g id : Nat) (up : Option Nat) (tracks : List Track) (replace : Nat) :
    State × List Event :=
  if (s.clients c).group ≠ some g then (s, [])
  else
    let r := pushDownConn s c id up tracks replace
    if r.2.2 then
      let r2 := die r.1 c
      (r2.1, r.2.1 ++ r2.2)
    else (r.1, r.2.1)

/-- `handleAction`, case `requestConnsAction`: push every (or the named) up connection to `target` -/
def handleRequestConns (s : State) (c g target id : Nat) : State × List Event :=
  if (s.clients c).group ≠ some g then (s, [])
  else
    (((s.clients c).up.filter (fun p => id = 0 || id = p.1)).foldl
      (fun s p => put s target (.pushConn g p.1 (some p.2) (s.ups p.2).tracks (s.ups p.2).replace)) s, [])

/-- `handleAction`, case `permissionsChangedAction` -/
def handlePermsChanged (s : State) (c : Nat) : State × List Event :=
  match (s.clients c).group with
  | none => die s c
  | some _ =>
    if (s.clients c).present then (s, [])
    else
      ((s.clients c).up.foldl (fun s p => delUpConn s c p.1 true) s,
       (s.clients c).up.map (fun p => Event.abort c p.1))

/-- `handleAction` (the action has been taken off the queue) -/
def handleAction (s : State) (c : Nat) : Action → State × List Event
  | .pushConn g id up tracks replace => handlePush s c g id up tracks replace
  | .requestConns g target id => handleRequestConns s c g target id
  | .kick => die s c
  | .changePerm b => (put (setClient s c (fun cl => { cl with present := b })) c .permsChanged, [])
  | .permsChanged => handlePermsChanged s c

/-- the client loop of `c` handles its first queued action -/
def deliver (s : State) (c : Nat) : State × List Event :=
  if !(s.clients c).alive then (s, []) else
  match (s.clients c).queue with
  | [] => (s, [])
  | a :: rest => handleAction (setClient s c (fun cl => { cl with queue := rest })) c a

def step (F : Fixes) (s : State) (op : Op) : State × List Event :=
  match op with
  | .join c g user present op =>
    let cl := s.clients c
    if !cl.alive || decide (s.n ≤ c) then (s, [])   -- (clients are numbered below `n`)
    else if cl.group.isSome then die s c
    else (setClient s c (fun cl => { cl with group := some g, user := user, present := present, op := op }), [])
  | .leave c =>
    let cl := s.clients c
    if !cl.alive then (s, [])
    else if cl.group.isNone then die s c
    else (leaveGroup s c, [])
  | .disc c =>
    if !(s.clients c).alive then (s, []) else
    let (s, _) := die s c
    (s, [])
  | .request c m =>
    let cl := s.clients c
    if !cl.alive then (s, []) else
    match cl.group with
    | none => die s c
    | some g =>
      let s := setClient s c (fun cl => { cl with requested := m })
      (putAll s (members s g c) (.requestConns g c 0), [])
  | .reqStream c id r =>
    let cl := s.clients c
    if !cl.alive then (s, []) else
    match findDown cl id with
    | none => die s c
    | some d =>
      let s := storeDown s c { d with requested := r }
      match cl.group with
      | none => (s, [])
      | some g => (put s (s.ups d.remote).owner (.requestConns g c (s.ups d.remote).id), [])
  | .abort c id =>
    if !(s.clients c).alive then (s, []) else
    if id = 0 then die s c else closeDown s c id
  | .close c id =>
    if !(s.clients c).alive then (s, []) else
    if id = 0 then die s c else (delUpConn s c id true, [])
  | .offer c id label replace =>
    if !(s.clients c).alive then (s, []) else offerOp F s c id label replace
  | .track c id k kind =>
    match (s.clients c).up.lookup id, (s.clients c).group with
    | some n, some g =>
      let s := setUp s n (fun u => { u with tracks := u.tracks ++ [{ up := n, k := k, kind := kind }], pushed := false })
      ({ s with timers := s.timers ++ [{ up := n, group := g, cs := members s g c }] }, [])
    | _, _ => (s, [])
  | .answer c id =>
    if !(s.clients c).alive then (s, []) else
    if id = 0 then die s c else answerOp s c id
  | .kick o c =>
    let ol := s.clients o
    if !ol.alive then (s, []) else
    match ol.group with
    | none => (s, [])
    | some g =>
      if ol.op && (s.clients c).group == some g && c < s.n then (put s c .kick, []) else (s, [])
  | .setPresent o c b =>
    let ol := s.clients o
    if !ol.alive then (s, []) else
    match ol.group with
    | none => (s, [])
    | some g =>
      if ol.op && (s.clients c).group == some g && c < s.n then (put s c (.changePerm b), []) else (s, [])
  | .fire =>
    match s.timers with
    | [] => (s, [])
    | t :: rest =>
      let s := { s with timers := rest }
      let u := s.ups t.up
      if u.pushed then (s, [])
      else
        let s := setUp s t.up (fun u => { u with pushed := true, replace := 0 })
        -- f1: the members of the group now (except the publisher), not those captured with the timer
        let cs := if F.f1 then members s t.group u.owner else t.cs
        (putAll s cs (.pushConn t.group u.id (some t.up) u.tracks u.replace), [])
  | .deliver c => deliver s c

/-- run a list of steps, concatenating the messages sent -/
def run (F : Fixes) (s : State) : List Op → State × List Event
  | [] => (s, [])
  | op :: ops =>
    let (s1, e1) := step F s op
    let (s2, e2) := run F s1 ops
    (s2, e1 ++ e2)

/-- is some live client's action queue non-empty? -/
def busy (s : State) : Option Nat := (List.range s.n).find? (fun c => (s.clients c).alive && !(s.clients c).queue.isEmpty)

/-- deliver queued actions (lowest client first) until every queue is empty, at most `fuel` steps -/
def drain : Nat → State → State × List Event
  | 0, s => (s, [])
  | fuel + 1, s =>
    match busy s with
    | none => (s, [])
    | some c =>
      let (s1, e1) := deliver s c
      let (s2, e2) := drain fuel s1
      (s2, e1 ++ e2)

/-- let every pending timer expire, oldest first -/
def fireAll (F : Fixes) : Nat → State → State
  | 0, s => s
  | fuel + 1, s => if s.timers.isEmpty then s else fireAll F fuel (step F s .fire).1

def init (n : Nat) : State := { n := n }

end Galene.Streams
