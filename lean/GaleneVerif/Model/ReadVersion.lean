/-
A reader of a file that other processes replace by `rename(2)` (C18: "a reader, the running
server, or a restart … sees either the complete old or the complete new definition", and the
entity tag served with a definition identifies the version that was served).

`group.readDescription` opens the definition file, takes its size and modification time — the
source of the entity tag `"size-mtime"` and of the running server's cache validator
(`descriptionUnchanged`) — and decodes the content.  Writers never modify a definition file in
place: `rewriteDescriptionFile` renames a complete temporary file over it (theorem
`C18_atomic_file`), `DeleteDescription` unlinks it.  So a *path* is re-bound atomically to another
version at arbitrary points of the reader's run, while a *descriptor* stays bound to the version
it was opened on.

The model: versions are natural numbers; the environment step `replace v` binds the target path
to version `v`; the reader performs a list of calls of the shape that extract/gen-syscalls-desc-faults
captures with strace from the real `group.GetDescription` (only the calls that touch the target;
every successful open has its own descriptor number):

  pathStat p      stat/newfstatat/statx with a path: metadata of the version the path is bound to NOW
  openAt p fd     successful open: `fd` is bound to the version the path is bound to NOW
  fstat fd        fstat / statx(fd, "", AT_EMPTY_PATH): metadata of the version `fd` is bound to
  read fd         bytes of the version `fd` is bound to
  close fd

The reader's result is recorded as the versions its metadata came from (`tagSrc`: every stat of
the target made once the file is open — whichever of them feeds the tag) and the versions its
content came from (`contentSrc`).  A path-stat made BEFORE the open (`descriptionUnchanged`
locating and validating the cached description of a live group) is recorded separately (`pre`):
it decides whether to read at all and is not the tag of what is then read.

`readShapeOK` is the decidable shape under which tag and content cannot be torn apart
(Props/C18Read.lean): one open of the target; after it no path-based stat of the target; an fstat
on that descriptor exists.  Failed calls (ENOENT after an unlink) give the reader an error and no
(tag, content) pair; they are not part of the lists.
-/
namespace Galene.ReadVersion

inductive Call where
  | pathStat (path : String)
  | openAt (path : String) (fd : Nat)
  | fstat (fd : Nat)
  | read (fd : Nat)
  | close (fd : Nat)
  deriving DecidableEq, Repr, Inhabited

/-- one step of an interleaving: the environment replaces the target, or the reader makes a call -/
inductive Ev where
  | replace (v : Nat)
  | call (c : Call)
  deriving DecidableEq, Repr, Inhabited

structure St where
  cur : Nat                          -- the version the target path is bound to
  fds : List (Nat × Nat) := []       -- descriptors open on the target: descriptor ↦ version
  opened : Bool := false             -- the reader has opened the target
  pre : List Nat := []               -- versions seen by path-stats before the open
  tagSrc : List Nat := []            -- versions whose size/mtime the reader obtained once the file was open
  contentSrc : List Nat := []        -- versions whose bytes the reader obtained
  deriving DecidableEq, Repr, Inhabited

def bound (fd : Nat) : List (Nat × Nat) → Option Nat
  | [] => none
  | (d, v) :: rest => if d = fd then some v else bound fd rest

def step (target : String) (s : St) : Ev → St
  | .replace v => { s with cur := v }
  | .call (.pathStat p) =>
    if p = target then
      (if s.opened then { s with tagSrc := s.cur :: s.tagSrc } else { s with pre := s.cur :: s.pre })
    else s
  | .call (.openAt p fd) =>
    if p = target then { s with fds := (fd, s.cur) :: s.fds, opened := true } else s
  | .call (.fstat fd) =>
    match bound fd s.fds with
    | some v => { s with tagSrc := v :: s.tagSrc }
    | none => s
  | .call (.read fd) =>
    match bound fd s.fds with
    | some v => { s with contentSrc := v :: s.contentSrc }
    | none => s
  | .call (.close fd) => { s with fds := s.fds.filter (fun p => p.1 ≠ fd) }

def run (target : String) (s : St) (evs : List Ev) : St := evs.foldl (step target) s

/-- the reader's own calls in an interleaving -/
def calls : List Ev → List Call
  | [] => []
  | .replace _ :: rest => calls rest
  | .call c :: rest => c :: calls rest

/-! ### The shape -/

inductive Phase where
  | p0                               -- the target has not been opened
  | p1 (fd : Nat) (st : Bool)        -- open on `fd`; `st`: an fstat on `fd` has been made
  | p2 (st : Bool)                   -- closed again
  | bad
  deriving DecidableEq, Repr, Inhabited

def phaseStep (target : String) : Phase → Call → Phase
  | .bad, _ => .bad
  | .p0, .openAt p fd => if p = target then .p1 fd false else .p0
  | .p0, _ => .p0
  | .p1 fd b, .pathStat p => if p = target then .bad else .p1 fd b
  | .p1 fd b, .openAt p fd' => if p = target ∨ fd' = fd then .bad else .p1 fd b
  | .p1 fd b, .fstat fd' => if fd' = fd then .p1 fd true else .p1 fd b
  | .p1 fd b, .read _ => .p1 fd b
  | .p1 fd b, .close fd' => if fd' = fd then .p2 b else .p1 fd b
  | .p2 b, .pathStat p => if p = target then .bad else .p2 b
  | .p2 b, .openAt p _ => if p = target then .bad else .p2 b
  | .p2 b, _ => .p2 b

def phaseOf (target : String) (cs : List Call) : Phase := cs.foldl (phaseStep target) .p0

/-- the target is opened once; after the open there is no path-based stat of it; its size and
modification time are taken by fstat from the descriptor the content is read from -/
def readShapeOK (target : String) (cs : List Call) : Bool :=
  match phaseOf target cs with
  | .p1 _ true | .p2 true => true
  | _ => false

/-- for the message of the engine: a path-based stat of the target after it was opened -/
def pathStatAfterOpen (target : String) : List Call → Bool
  | [] => false
  | .openAt p _ :: rest =>
    if p = target then rest.any (fun c => c == .pathStat target) else pathStatAfterOpen target rest
  | _ :: rest => pathStatAfterOpen target rest

end Galene.ReadVersion
