import GaleneVerif.Model.Codecs
import GaleneVerif.Model.PacketMap
import GaleneVerif.Model.Cache
/-
Model of rtpDownTrack (rtpconn/rtpconn.go): the packed layer word, Write
(layer bookkeeping, switch rules, Drop-or-Map, RewritePacket), adjustLayer,
GetMaxBitrate, bitrate.Get/Set, updateRate, gotNACK, and the limitSid loop of
replaceTracks / requestedTracks' limitSid (rtpconn/webclient.go).

Time enters as explicit inputs: `maxBitrate`/`remb` are `none` when the stored
value has timed out (`bitrate.Get` returns ^0), `rate` is the estimator's
current byte rate.
-/
namespace Galene.Down
open Galene Galene.Codecs

structure Layer where
  sid : Nat := 0
  wantedSid : Nat := 0
  maxSid : Nat := 0
  tid : Nat := 0
  wantedTid : Nat := 0
  maxTid : Nat := 0
  limitSid : Bool := false
  deriving Repr, DecidableEq

/-- `setLayerInfo`: pack into the 32-bit word -/
def pack (l : Layer) : Nat :=
  (l.sid % 16) + (l.wantedSid % 16) * 16 + (l.maxSid % 16) * 256 + (if l.limitSid then 4096 else 0)
    + (l.tid % 16) * 65536 + (l.wantedTid % 16) * 1048576 + (l.maxTid % 16) * 16777216

/-- `getLayerInfo`: unpack the word -/
def unpack (w : Nat) : Layer :=
  { sid := w % 16, wantedSid := w / 16 % 16, maxSid := w / 256 % 16, limitSid := w / 4096 % 2 = 1,
    tid := w / 65536 % 16, wantedTid := w / 1048576 % 16, maxTid := w / 16777216 % 16 }

structure Consts where
  minLossRate : Nat := 9600
  initLossRate : Nat := 512000
  maxLossRate : Nat := 1073741824
  defaultMax : Nat := 524288       -- 512 * 1024
  deriving Repr

structure State where
  word : Nat := 0                       -- atomics.layerInfo
  pm : PacketMap.State := {}
  maxBitrate : Option Nat := none       -- `none`: timed out / never set (Get = ^0)
  remb : Option Nat := none
  rate : Nat := 0                       -- estimator byte rate
  deriving Repr

def M64 : Nat := 18446744073709551616

/-- `GetMaxBitrate` (bitrate part) -/
def getMax (C : Consts) (s : State) : Nat :=
  let r := match s.maxBitrate with | none => C.defaultMax | some r => r
  match s.remb with
  | some rr => if rr ≠ 0 && rr < r then rr else r
  | none => r

/-- `adjustLayer` -/
def adjustLayer (C : Consts) (s : State) : State :=
  let max := getMax C s
  let rate := s.rate * 8
  let layer := unpack s.word
  if rate < (max * 7 % M64) / 8 then
    if layer.limitSid && layer.wantedSid ≠ 0 then { s with word := pack { layer with wantedSid := 0 } }
    else if !layer.limitSid && layer.sid < layer.maxSid then
      { s with word := pack { layer with wantedSid := layer.sid + 1 } }
    else if layer.tid < layer.maxTid then { s with word := pack { layer with wantedTid := layer.tid + 1 } }
    else s
  else if rate > (max * 3 % M64) / 2 then
    if layer.tid > 0 then { s with word := pack { layer with wantedTid := layer.tid - 1 } }
    else if layer.sid > 0 then
      { s with word := pack { layer with wantedSid := if layer.limitSid then 0 else layer.sid - 1 } }
    else s
  else s

/-- `updateRate(loss, now)` with `maxBitrate.Get(now)` given by the state -/
def updateRate (C : Consts) (s : State) (loss : Nat) : State :=
  let rate0 := match s.maxBitrate with | none => M64 - 1 | some r => r
  let rate := if rate0 < C.minLossRate || rate0 > C.maxLossRate then C.initLossRate else rate0
  let rate' :=
    if loss < 5 then
      let actual := 8 * s.rate
      if actual ≥ (rate * 3) / 4 then
        let r := rate * 269 / 256
        if r > C.maxLossRate then C.maxLossRate else r
      else rate
    else if loss > 25 then
      let r := rate * (512 - loss) / 512
      if r < C.minLossRate then C.minLossRate else r
    else rate
  { s with maxBitrate := some rate' }

/-- the deferred loop of `replaceTracks` -/
def setLimit (s : State) (limit : Bool) : State :=
  let layer := unpack s.word
  let layer := { layer with limitSid := limit }
  let layer := if limit then { layer with wantedSid := 0 } else layer
  { s with word := pack layer }

inductive Out where
  | err                       -- Write returned an error
  | none                      -- nothing written (withheld or unmappable)
  | sent (bytes : Bytes)      -- bytes handed to the local track
  deriving Repr, DecidableEq

structure WriteRes where
  st : State
  out : Out
  kfreq : Bool := false       -- remote.RequestKeyframe() was called
  dropped : Bool := false     -- packetmap.Drop returned true
  panic : Bool := false
  deriving Repr

/-- the layer bookkeeping of `Write` up to (not including) the drop decision;
returns the state (word updated), the layer used for the drop decision, and
whether a keyframe was requested -/
def layerStep (C : Consts) (s : State) (flags : Flags) : State × Layer × Bool :=
  let layer := unpack s.word
  let (s, layer) :=
    if flags.tid > layer.maxTid || flags.sid > layer.maxSid then
      let layer :=
        if flags.tid > layer.maxTid then
          let l := if layer.tid = layer.maxTid then { layer with wantedTid := flags.tid, tid := flags.tid } else layer
          { l with maxTid := flags.tid }
        else layer
      let layer :=
        if flags.sid > layer.maxSid then
          let l := if layer.sid = layer.maxSid && !layer.limitSid
                   then { layer with wantedSid := flags.sid, sid := flags.sid } else layer
          { l with maxSid := flags.sid }
        else layer
      let s := adjustLayer C { s with word := pack layer }
      (s, unpack s.word)
    else (s, layer)
  let (s, layer) :=
    if flags.start && layer.tid ≠ layer.wantedTid then
      if flags.keyframe then
        let l := { layer with tid := layer.wantedTid }; ({ s with word := pack l }, l)
      else if layer.wantedTid < layer.tid then
        let l := { layer with tid := layer.wantedTid }; ({ s with word := pack l }, l)
      else if flags.tidUpSync && flags.tid ≤ layer.wantedTid then
        let l := { layer with tid := flags.tid }; ({ s with word := pack l }, l)
      else (s, layer)
    else (s, layer)
  if flags.start && layer.sid ≠ layer.wantedSid then
    if flags.keyframe then
      let l := { layer with sid := layer.wantedSid }; ({ s with word := pack l }, l, false)
    else (s, layer, true)
  else (s, layer, false)

/-- does `Write` ask the packet map to drop this packet? -/
def wantDrop (flags : Flags) (layer : Layer) : Bool :=
  flags.tid > layer.tid || flags.sid > layer.sid || (flags.sid < layer.sid && flags.sidNonReference)

/-- `rtpDownTrack.Write` -/
def write (C : Consts) (P : PacketMap.Params) (codec : String) (s : State) (buf : Bytes) : WriteRes :=
  match packetFlags codec buf with
  | .error .err => { st := s, out := .err }
  | .error .panic => { st := s, out := .err, panic := true }
  | .ok flags =>
    let (s, layer, kfreq) := layerStep C s flags
    let (pm1, dropped) :=
      if wantDrop flags layer then PacketMap.dropOp P s.pm flags.seqno flags.pid else (s.pm, false)
    let s := { s with pm := pm1 }
    if dropped then { st := s, out := .none, kfreq, dropped := true }
    else
      match PacketMap.mapOp P s.pm flags.seqno flags.pid with
      | none => { st := s, out := .err, kfreq, panic := true }
      | some (pm2, (ok, newseqno, piddelta)) =>
        let s := { s with pm := pm2 }
        if !ok then { st := s, out := .none, kfreq }
        else
          let setMarker := flags.sid = layer.sid && flags.end_ && !flags.marker
          if !setMarker && newseqno = flags.seqno && piddelta = 0 then { st := s, out := .sent buf, kfreq }
          else
            -- Go copies into a BufSize pooled buffer: `n := copy(buf2, buf)` truncates to BufSize
            let buf2 := buf.take 1504
            match rewritePacket codec buf2 setMarker newseqno (PacketMap.sub16 0 piddelta) with
            | (d, .ok) => { st := s, out := .sent d, kfreq }
            | (_, .err) => { st := s, out := .err, kfreq }
            | (_, .panic) => { st := s, out := .err, kfreq, panic := true }

/-- `gotNACK` for one outgoing seqno `n`, given the publisher's cache: Reverse,
cache lookup, re-run Write. -/
def gotNack (C : Consts) (P : PacketMap.Params) (codec : String) (s : State) (cache : Cache.Ring) (n : Nat) : WriteRes :=
  match PacketMap.reverse s.pm n with
  | none => { st := s, out := .none, panic := true }
  | some (false, _, _) => { st := s, out := .none }
  | some (true, seqno, _) =>
    match Cache.get cache seqno with
    | none => { st := s, out := .none }
    | some e =>
      if e.bytes.length = 0 then { st := s, out := .none } else write C P codec s e.bytes

/-- `requestedTracks`' limitSid: requested is the list of requested kinds, `videoCount`
the number of video tracks of the stream -/
def requestedLimitSid (requested : List String) (videoCount : Nat) : Bool :=
  if requested.contains "video" then false
  else if requested.contains "video-low" then videoCount < 2
  else false

end Galene.Down
