import GaleneVerif.Engine.Common
import GaleneVerif.Engine.Cache
import GaleneVerif.Engine.PacketMap
import GaleneVerif.Engine.Codecs
import GaleneVerif.Engine.Down
import GaleneVerif.Engine.UpE2E
import GaleneVerif.Engine.Token
import GaleneVerif.Engine.Auth
import GaleneVerif.Engine.FuzzMisc
import GaleneVerif.Engine.Paths
import GaleneVerif.Engine.Writer
import GaleneVerif.Engine.Store
import GaleneVerif.Engine.Group
import GaleneVerif.Engine.Unbounded
import GaleneVerif.Engine.Locks
import GaleneVerif.Engine.Api
import GaleneVerif.Engine.Rec
import GaleneVerif.Engine.Streams
import GaleneVerif.Engine.Sig
import GaleneVerif.Engine.Whip
/-
Line-protocol driver.  usage: driver <engine> [oracle-only] < trace
`oracle-only` (failing-input search): model/impl mismatches do not end the case;
only the property oracle is evaluated, on the implementation's outputs.
Trace lines: `# case <id>` starts a fresh case (engine state reset);
`<op tokens> => <impl result tokens>` is one step.  After the first
MISMATCH/ORACLE in a case the rest of the case is skipped (cascading).
-/
open Galene.Engine

structure Counters where
  lines : Nat := 0
  cases : Nat := 0
  mismatches : Nat := 0
  oracles : Nat := 0
  badops : Nat := 0
  skipped : Nat := 0

def splitArrow (line : String) : List String × List String :=
  match line.splitOn " => " with
  | [a] =>
    if a.endsWith " =>" then ((a.dropEnd 3).toString.splitOn " " |>.filter (· ≠ ""), [])
    else (a.splitOn " " |>.filter (· ≠ ""), [])
  | a :: rest => (a.splitOn " " |>.filter (· ≠ ""), (" => ".intercalate rest).splitOn " " |>.filter (· ≠ ""))
  | [] => ([], [])

partial def loop (e : EngineDef) (oracleOnly : Bool) (h : IO.FS.Stream) (st : e.σ) (caseId : String) (dead : Bool)
    (lineNo : Nat) (c : Counters) : IO Counters := do
  let raw ← h.getLine
  if raw.isEmpty then return c
  let line := (raw.dropEndWhile (fun ch => ch = '\n' || ch = '\r')).toString
  let lineNo := lineNo + 1
  if line.startsWith "# case" then
    loop e oracleOnly h e.init ((line.drop 7).toString) false lineNo { c with cases := c.cases + 1 }
  else if line.startsWith "#" || line.isEmpty then
    loop e oracleOnly h st caseId dead lineNo c
  else if dead then
    loop e oracleOnly h st caseId dead lineNo { c with skipped := c.skipped + 1 }
  else
    let (op, impl) := splitArrow line
    let (st', v) := e.step st op impl
    -- a Go panic recovered by the harness (result `panic:<msg>`) is a crash of real code on client input
    let v := match v with
      | .badop m => Verdict.badop m
      | v => if (impl.head?.getD "").startsWith "panic" then
               Verdict.oracle s!"C12: {op.head?.getD ""} panicked on this input: {" ".intercalate impl}"
             else v
    let c := { c with lines := c.lines + 1 }
    match v with
    | .ok => loop e oracleOnly h st' caseId false lineNo c
    | .mismatch m =>
      if oracleOnly then
        -- failing-input search: keep evaluating the oracle on the implementation's outputs
        loop e oracleOnly h st' caseId false lineNo { c with mismatches := c.mismatches + 1 }
      else
      IO.println s!"MISMATCH case={caseId} line={lineNo} op=[{" ".intercalate op}] impl=[{" ".intercalate impl}] model=[{m}]"
      loop e oracleOnly h st' caseId true lineNo { c with mismatches := c.mismatches + 1 }
    | .oracle m =>
      IO.println s!"ORACLE case={caseId} line={lineNo} op=[{" ".intercalate op}] impl=[{" ".intercalate impl}] msg=[{m}]"
      loop e oracleOnly h st' caseId true lineNo { c with oracles := c.oracles + 1 }
    | .badop m =>
      IO.println s!"BADOP case={caseId} line={lineNo} op=[{" ".intercalate op}] msg=[{m}]"
      loop e oracleOnly h st' caseId true lineNo { c with badops := c.badops + 1 }

def engines : List (String × EngineDef) :=
  [ ("cache", Galene.Engine.Cache.engine),
    ("pmap", Galene.Engine.PacketMap.engine),
    ("codecs", Galene.Engine.Codecs.engine),
    ("down", Galene.Engine.Down.engine),
    ("upe2e", Galene.Engine.UpE2E.engine),
    ("token", Galene.Engine.Token.engine),
    ("auth", Galene.Engine.Auth.engine),
    ("fuzzmisc", Galene.Engine.FuzzMisc.engine),
    ("paths", Galene.Engine.Paths.engine),
    ("writer", Galene.Engine.Writer.engine),
    ("store", Galene.Engine.Store.engine),
    ("group", Galene.Engine.Group.engine),
    ("unbounded", Galene.Engine.Unbounded.engine),
    ("locks", Galene.Engine.Locks.engine),
    ("api", Galene.Engine.Api.engine),
    ("rec", Galene.Engine.Rec.engine),
    ("streams", Galene.Engine.Streams.engine),
    ("sig", Galene.Engine.Sig.engine),
    ("sigfixed", Galene.Engine.Sig.engineFixed),
    ("whip", Galene.Engine.Whip.engine) ]

def main (args : List String) : IO UInt32 := do
  let (name?, oracleOnly) := match args with
    | [name] => (some name, false)
    | [name, "oracle-only"] => (some name, true)
    | _ => (none, false)
  match name? with
  | some name =>
    match engines.lookup name with
    | some e =>
      let h ← IO.getStdin
      let c ← loop e oracleOnly h e.init "0" false 0 {}
      IO.println s!"SUMMARY lines={c.lines} cases={c.cases} mismatches={c.mismatches} oracles={c.oracles} badops={c.badops} skipped={c.skipped}"
      return 0
    | none => IO.eprintln s!"unknown engine {name}"; return 2
  | none => IO.eprintln "usage: driver <engine> [oracle-only]"; return 2
