#!/usr/bin/env python3
"""3-way merge of a builder copy into /verif.  usage: tools_merge3.py <name> <base-commit> [--apply] [file…]
For every file that differs between /tmp/build/<name>/verif and /verif and that the builder CHANGED relative to the base
commit, run `git merge-file` (mine = /verif, base = <base-commit>, theirs = the copy).  New files are copied.
Without --apply only reports.  Files never merged automatically: MANIFEST.json, evidence/, replays/, seeded/, checks.json
(merge checks.json with a JSON-aware step by hand)."""
import subprocess, sys, os, shutil, tempfile
name, base = sys.argv[1], sys.argv[2]
apply = "--apply" in sys.argv
only = [a for a in sys.argv[3:] if not a.startswith("--")]
SRC, DST = f"/tmp/build/{name}/verif", "/verif"
SKIP = ("MANIFEST.json", "evidence/", "replays/", "seeded/", "checks.json", ".build/", "lean/.lake/", "lean/lake-manifest")
def sh(*a, **k): return subprocess.run(a, capture_output=True, **k)
for dp, dn, fns in os.walk(SRC):
    dn[:] = [d for d in dn if d not in (".git", ".build", ".lake", "replays", "evidence")]
    for fn in fns:
        rel = os.path.relpath(os.path.join(dp, fn), SRC)
        if any(rel.startswith(s) for s in SKIP) or (only and rel not in only):
            continue
        theirs = open(os.path.join(SRC, rel), "rb").read()
        mine_p = os.path.join(DST, rel)
        b = sh("git", "-C", DST, "show", f"{base}:{rel}")
        if not os.path.exists(mine_p):
            if b.returncode == 0:
                print("DELETED-IN-MINE", rel); continue
            print("NEW", rel)
            if apply:
                os.makedirs(os.path.dirname(mine_p), exist_ok=True); shutil.copy2(os.path.join(SRC, rel), mine_p)
            continue
        mine = open(mine_p, "rb").read()
        if mine == theirs:
            continue
        if b.returncode != 0:
            print("BOTH-NEW-DIFFER", rel); continue
        if b.stdout == theirs:
            continue            # builder did not touch it
        if b.stdout == mine:
            print("TAKE-THEIRS", rel)
            if apply: shutil.copy2(os.path.join(SRC, rel), mine_p)
            continue
        with tempfile.TemporaryDirectory() as t:
            for n, c in (("mine", mine), ("base", b.stdout), ("theirs", theirs)):
                open(os.path.join(t, n), "wb").write(c)
            r = sh("git", "merge-file", "-p", os.path.join(t, "mine"), os.path.join(t, "base"), os.path.join(t, "theirs"))
            print("MERGE" + ("-CONFLICT(%d)" % r.returncode if r.returncode else ""), rel)
            if apply:
                open(mine_p, "wb").write(r.stdout)
