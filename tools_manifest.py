#!/usr/bin/env python3
"""Regenerates MANIFEST.json from the table below (run after adding a check)."""
import json, os
ROOT = os.path.dirname(os.path.abspath(__file__))
props = [json.loads(l) for l in open(os.path.join(ROOT, "properties.jsonl"))]

TB = ("Trusted: Lean 4.33 kernel (axioms ⊆ propext, Classical.choice, Quot.sound; audited on every run); the hand-written model is tied to the "
      "code only by the differential run, whose power is bounded by the generators (histogram in the evidence); Go runtime, sync.Mutex. ")

CHECKS = {
 "C01": dict(engine="pmap+down",
   text="Lean 4 proof that the interval table of packetmap.Map refines the renumbering specification out(u) = u − |{withheld d < u}| mod 2^16 "
        "(forwarded number, withheld never forwarded, duplicates keep their number, uniqueness/order/gap-freeness; no index panic), for every "
        "in-window history with drop runs ≤ 8193 (tight, counterexample proved); the model is run against the real packetmap API and the real "
        "rtpDownTrack.Write on every check, and the specification is re-evaluated as an oracle on the implementation's outputs",
   note=TB + "Histories stay inside the 8192-packet window (a jump starts a new epoch); drop runs ≤ 8193 (known finding drop-run-over-8193 beyond that).",
   technique="Lean 4 refinement proof (interval table → renumbering spec) + differential check against packetmap and rtpDownTrack.Write",
   ref="DESIGN.md section 5 C01, Appendix B"),
 "C03": dict(engine="down+pmap",
   text="Lean 4 proof that Reverse inverts the forward mapping (Reverse n = s ⇒ s was not withheld, is forwarded as n with the same picture-id shift; "
        "Reverse right after Map returns the packet), plus differential run of gotNACK on a real rtpDownTrack/packetcache where every resent packet is "
        "compared with the recorded first transmission",
   note=TB + "The marker conjunct is false after a spatial-layer switch (known finding nack-marker-after-spatial-switch); cache soundness is C05.",
   technique="Lean 4 proof (Reverse∘Map soundness) + differential check of gotNACK with first-transmission oracle",
   ref="DESIGN.md section 5 C03"),
 "C02": dict(engine="codecs+down+pmap",
   text="Lean 4 proofs about the model of codecs.RewritePacket for every byte list, codec string and argument: length preserved, never panics, only bytes 1 "
        "(bit 7, only set), 2, 3 and the VP8 picture-id bytes change, the new id is old+delta modulo the 7-/15-bit space and both of pion's parsers (modelled) accept "
        "the output with exactly that id; differential run of the model against the real PacketFlags/RewritePacket/pion parsers on type-directed and malformed "
        "packets, and of the real rtpDownTrack.Write on layered VP8/VP9 streams with a picture-id consecutiveness oracle (incl. a >65536-withheld-packet history)",
   note=TB + "pion's rtp/VP8/VP9 parsers are re-implemented in Lean and differentially tested, not proved equal to pion. Write-level composition (marker rule, picture ids "
        "consecutive over in-order loss-free whole-frame histories, end to end through write) is Props/C02Write.lean.",
   technique="Lean 4 proof (byte-frame theorems on RewritePacket, parser round trip) + differential check with picture-id oracle",
   ref="DESIGN.md section 5 C02"),
 "C04": dict(engine="down+codecs",
   text="Lean 4 proofs over the model of the down track's layer state machine (packed layer word, Write's bookkeeping and switch rules, adjustLayer, updateRate, "
        "limitSid): invariant (selection ≤ max seen, limitSid ⇒ wanted 0) in every reachable state, spatial switch only at keyframe start or follow-new-top, temporal "
        "fall only at frame start / rise only at keyframe, up-sync point ≤ wanted, or follow-new-top, feedback never moves the current layer, in-order packet above "
        "the selection is withheld, low-quality steering from the next keyframe on, loss-rate ceiling within bounds; the model runs against the real rtpDownTrack "
        "through a shim on every check and every layer transition is re-judged by an oracle from the packet's flags",
   note=TB + "Time is an input (pinned estimator rate, explicit ceilings); op-atomic model: the unsynchronised load-modify-store of the layer word (DESIGN P3) is not covered.",
   technique="Lean 4 invariant/transition proofs on the layer state machine + differential check with transition-legality oracle",
   ref="DESIGN.md section 5 C04"),
 "C06": dict(engine="cache+upe2e",
   text="Lean 4 proofs over the model of the loss bitmap, the RFC 3550 style counters, ToBitmap, the read loop's NACK decision and the report arithmetic: bitmap "
        "representation invariant over every set/get history, every seqno named by a NACK lies in [first, next), was not received in the epoch, is at least 3 packets "
        "behind the one just stored and is never named twice; received ≤ expected per interval and in total; fraction ≤ 255; extended seqno monotone unless the stream "
        "jumps back by more than 256; ToBitmap lossless; an isolated loss in an in-order stream is NACKed exactly once.  The model runs against the real "
        "packetcache API and against the real readLoop/nackWriter over in-process PeerConnections (NACKs observed at the publisher) on every check",
   note=TB + "uint32 counters and the 16-bit cycle counter do not wrap; seqno-level claims need the epoch to span less than one 16-bit circle (counterexamples proved). "
        "Known finding buffered-nack-evicted (nackWriter re-requests packets that were received but evicted from the cache).",
   technique="Lean 4 invariant proofs (bitmap, counters) + differential check incl. end-to-end readLoop over in-process WebRTC",
   ref="DESIGN.md section 5 C06"),
 "C08": dict(engine="auth+api",
   text="Lean 4 proofs over the executable model of the password login (acceptance iff valid username and the governing entry's password matches, named entry "
        "shadows wildcard, empty type / null password never matches, every refusal kind, granted list = role expansion with the record/token rules proved for the real "
        "role table, raw lists unchanged, refusals leave the member list alone, obsolete-field upgrade, username rule, makePassword/Match round trip under explicit "
        "assumptions on the hash primitives), tied to the Go code by a differential run on generated descriptions, credentials, joins and moderation histories with "
        "the real bcrypt/pbkdf2 and the real galenectl makePassword",
   note=TB + "Hash functions are parameters: injectivity of pbkdf2/bcrypt is assumed on a stated password domain (NUL-free, ≤ 64 resp. 72 bytes for the real libraries); "
        "aliasing of permission slices is outside the (immutable) model and is detected by the oracle on the real code (moderation interleaved with logins).",
   technique="Lean 4 proof (decision logic of password login and permission expansion) + differential check with aliasing-sensitive oracle",
   ref="DESIGN.md section 5 C08"),
 "C09": dict(engine="token",
   text="Lean 4 characterisation theorems (scope of Stateful.match and matchGroup on whole path components for all strings; validity window incl. boundary instants; "
        "key selection/kty-alg table/signature/expiry for parseJWT with cryptography as a parameter; audience host+group; username rules of GetPermission; global "
        "administrator) over a model tied to the Go code by a differential run on every check (exhaustive over {a,b,/} names and the key-set × header × signer table)",
   note=TB + "golang-jwt/crypto/net/url as instantiated in the harness (verify is an abstract parameter of the model); the clock is read by the code itself, the run "
        "stays 2 s away from window boundaries and the theorems cover the boundaries.",
   technique="Lean 4 proof (scope/window/key-selection characterisations) + model/implementation differential check",
   ref="DESIGN.md section 5 C09"),
 "C10": dict(engine="group",
   text="Lean 4 theorems over every interleaving of the critical sections of group.go (admission soundness for every state, operator/system exemption, refused ⇒ not "
        "inserted and nothing announced, pairwise distinct member ids and the capacity bound along arbitrary step lists, fresh autolock group locked, autolock after the "
        "last operator left for the machine in which DelClient's removal and autoLockKick are one critical section — which the code now is, after the fix; the proved "
        "counterexample schedule for the split machine is kept), tied to the real AddClient/DelClient/SetLocked/Add by a differential run with mock clients including "
        "the forced two-thread schedule; the harness probes on the real code which variant (delAtomic, initLate) it is running against",
   note=TB + "Sequential at critical-section granularity plus forced schedules; mock clients. Token credentials, password hashing and username validation are outside "
        "(C08/C09/C19). Client discipline assumed: a member object does not start a second join; unlock only while an operator is a member.",
   technique="Lean 4 invariant proofs over interleavings of critical sections + differential check with forced schedules",
   ref="DESIGN.md section 5 C10"),
 "C13": dict(engine="unbounded+locks+group+whip",
   text="(a) Lean 4 proofs over all interleavings of any number of producers (Put split into locked append and signal) and one consumer of unbounded.Channel: no lost "
        "wakeup, exactly-once in lock order, per-producer order, everything delivered at quiescence, and the CONSUMER side tied to the source: every use site of an "
        "unbounded.Channel outside its package is regenerated by the extractor (Generated/ChanUse.lean: put / receive-then-Get pair / new / other, fail closed) and the "
        "side conditions `chanUseOK` (no `other`), `chanOneConsumer` (one receive-then-Get site per channel) and `chanImplOK` (Ch has capacity 1 and is only sent to "
        "without blocking) are decided in the kernel on every run, with the bridge theorems model_consumer_is_recvGet / get_enabled_iff / recv_enabled_iff / "
        "drain_reaches_stuck_state; an offending site is reported by the locks engine with its position, and the real clientLoop is stressed over a websocket "
        "(loopstress: stall detection on the observed queue); (b) generic theorem acyclic_order_no_deadlock + bridge from an edge "
        "list, side condition `acyclic Generated.lockEdges` re-decided in the kernel on lock-order facts regenerated from the source (go/ast + go/types extractor) on "
        "every run; (c) generic theorem guarded_no_race + certificate check on regenerated access/call facts (Group, groups, Channel, Cache, Map, WhipClient fields "
        "with their mutexes).  On the current tree both side conditions hold; cycles or unguarded accesses are reported as oracle events with the witness, with "
        "deterministic deadlock replays (whipdl, shutdowndl) and a -race stress in the thorough tier whose reports must lie within the predicted functions",
   note=TB + "The fact extractor (claims to list every acquire/call/guarded access; fails closed to `unknown`; cross-validated by the -race stress); type-level lock naming; "
        "sync.Mutex/channel semantics; fairness assumed for 'eventually seen'. Channel use sites are recognised lexically (receive and Get adjacent in one function; a "
        "helper that Gets, or `.Ch` hoisted into a local, is `other` and fails the build: fail closed); one goroutine per consumer site and per channel value is trusted; "
        "readLoop polls its queue once per RTP packet (recorded as wait=poll, outside the model).",
   technique="Lean 4 proofs (channel protocol; generic lock-order and guard theorems) + regenerated static facts (lock order, guarded accesses, channel use sites) decided in the kernel + forced schedules and -race stress + real client loop stress with a liveness oracle",
   ref="DESIGN.md section 5 C13, Appendix C"),
"C11": dict(engine="sig+whip",
   text="Lean 4 theorems over an executable model of rtpconn/webclient.go's message handler (handleClientMessage, handleAction, the join/leave path, token requests) "
        "for every connection state, environment and message: C11_guard (every effect that acts on the group, another member, a token or the media plane is emitted only "
        "when the sender is a member holding the permission the handler names), C11_publish_guard, C11_token_delegation / C11_token_reach_* (a minted or edited token "
        "never carries more than its issuer holds, and only tokens of the issuer's own group are reached), C11_nonmember_refused (a connection that is in no group gets "
        "nothing but errors), revocation on an aliasing heap model of Go slices (C11_revocation_*: a revoked permission is gone from the member and from nobody else); "
        "WORLD level (C11World, by induction over every schedule of ANY client messages, action-loop iterations and drops from the initial worlds): C11_world_nonmember_holds_none "
        "(a connection whose group field is nil holds no permission and is in no member list), C11_world_nonmember_refused, C11_world_perms_unshared (no two owners share a "
        "permission array, so in-place edits reach nobody else), C11_world_perms_frame/_stable/_join_grants (permissions change only to [], at the connection's own join to what "
        "getPermission grants, or when its own action loop handles a change), C11_world_change_applied, C11_world_revocation_closes_streams; the full revocation statement was FALSE "
        "(C11_world_revocation_false_duplicate: a list holding a permission twice) — found by the proof, replayed on the real code and repaired (fix 391656f); "
        "the pre-fix behaviours (ghost member after a redirect join, edittoken across groups, permission list shared with the stored token) are kept as proved "
        "counterexamples about the pre-fix definitions; the model is tied to the real handler by a differential run of generated multi-client sessions against the real "
        "webClient objects in-process, with an independent trace oracle that recomputes every member's permissions from the group description; WHIP clause: theorems over a "
        "branch-for-branch model of webserver/whip.go + rtpconn/whipclient.go + the groupHandler dispatch, for all states/requests/entry points (C11_whip_ingest_needs_present, "
        "_same_token, _refused_leaves_no_member, _other_sessions_untouched, _change_needs_token) and by induction over arbitrary histories of requests and environment events "
        "(C11_whip_history: every session object was created by a request whose credentials granted 'present' at that moment and still carries its bearer token), tied to the real "
        "handlers in-process (httptest, real pion offers, real token store) with an independent oracle",
   note=TB + "The websocket transport, JSON decoding and pion are replaced by in-process message injection (shim); group descriptions are generated from a fixed family; the "
        "guard theorem is about the model's handlers, tied by the differential run rather than by a regenerated guard table; the world invariants assume the repairs "
        "P10/P18/P19/tokClone (in currentFixes; each has a proved counterexample run without it). WHIP: ids/obfuscation idealised (fresh counter, bijection); "
        "stateful tokens only; request body abstracted to what the handlers and pion make of it (validated by the correspondence); sequential requests only; a session created "
        "without a bearer token is not protected by one (stated: Ex.anonymous_session_is_unprotected).",
   technique="Lean 4 proof + model/implementation differential check + independent trace oracle",
   ref="DESIGN.md section 5 C11"),
 "C14": dict(engine="sig+group",
   text="Lean 4: C14_world_converges_partial on the CONCRETE executable world model (the one the differential run ties to webclient.go/group.go): an invariant WInv holds along "
        "every schedule of client messages (every join/leave with every outcome, chat, lock, kick, clearchat, …), action-loop iterations of any client and connection drops, "
        "the world never crashes, and in every quiescent world every web member's list — the protocol.js fold of the `user` messages written to it since it joined — equals the "
        "group's membership with current username, permissions and data (no ghost, no missing entry, no stale attribute); C14_world_setdata_sequential (a data change whose "
        "broadcast is not detached preserves the invariant); C14_converges_partial on the abstract membership machine; C14_no_cross_group; proved counterexamples "
        "C14_world_converges_false_overtake (P17 on the world model itself), "
        "C14_converges_false_overtake (two change announcements released from detached goroutines can overtake each other: known finding P17) and "
        "C14_converges_false_ghost (the pre-fix redirect join).  The real code is tied by the differential run and by an oracle that, at every quiescent point of a "
        "generated session, compares each real client's accumulated user list with the real group's membership; under real concurrency `convstress` (group engine) races one "
        "leave against four joins per round on the real AddClient/DelClient and requires every member's folded list to equal the membership whenever nothing is in flight",
   note=TB + "`_partial`: the step language of the world theorem leaves out the messages that change permissions or a user's data (announced from a detached goroutine: the full "
        "statement is false for them, known finding P17, proved counterexample) and offer/record/maketoken/edittoken (unrelated to the lists; `record` because the model's "
        "fresh-id counter is not kept distinct from client-chosen ids). WInv assumes the repairs P12/P18 (in currentFixes). Delivery is modelled as a FIFO per member (unbounded "
        "channel, C13); `drop` in the theorem is a stated copy of the engine's op.",
   technique="Lean 4 proof + model/implementation differential check + independent trace oracle",
   ref="DESIGN.md section 5 C14"),
 "C15": dict(engine="sig+group",
   text="Lean 4 theorems over the same handler model: C15_spoof_rejected / C15_authentic (every chat or user message the handler forwards carries the sender's own id "
        "and authenticated username, for every message), C15_addressing / C15_broadcast_recipients (a direct message reaches exactly the named member of the sender's "
        "group, a broadcast exactly the members of that group, minus the sender when noecho), C15_history_bound / C15_history_last (the history never exceeds "
        "maxChatHistory and always keeps the newest entries, for every append sequence), C15_replay_suffix, C15_history_age_partial (with server-assigned monotone "
        "time stamps nothing older than the limit is replayed; without monotonicity a proved counterexample is kept), C15_history_clear; the real handler, "
        "AddToChatHistory/GetChatHistory and the join replay are driven by generated sessions (spoofed ids, foreign destinations, >50 messages, clearchat) and an "
        "oracle checks authenticity, addressing and the bound on the real outputs; the copy-on-read of the history is exercised by `histsnap` in the group engine",
   note=TB + "Time is abstract (ages); the monotonicity hypothesis of the age theorem is the server clock. Transport replaced by in-process injection.",
   technique="Lean 4 proof + model/implementation differential check + independent trace oracle",
   ref="DESIGN.md section 5 C15"),
 "C12": dict(engine="codecs+down+fuzzmisc+api+sig+whip",
   text="Media part proved in Lean 4: the transcriptions of PacketFlags, RewritePacket, Keyframe (VP8, VP9, AV1 OBU walk, H.264 single/STAP/MTAP/FU), "
        "KeyframeDimensions and of pion's RTP/VP8/VP9 parsers never evaluate an out-of-range index and never change a packet's length, for every byte list and codec "
        "string; HTTP part: C12_api_no_crash for the model of the admin API (every request gets a response; the pre-fix nil dereference is kept as a proved "
        "counterexample about the pre-fix definition); signalling part: C12_run_no_crash for the model of the websocket message handler and action loop (every message "
        "and every queued action of every reachable world yields effects, never a crash; the pre-fix crashes P10/P12/P18/offer-without-group are kept as proved counterexamples "
        "about the pre-fix definitions); WHIP handlers: C12_whip_no_crash; trickle-ICE fragments: C12_sdp_unmarshal_no_panic for the model of sdpfrag.Unmarshal in which every Go slice "
        "expression keeps its bounds check as an explicit panic outcome (every byte string ends in ok or err; the only refusal is an a=mid line outside a media section; scanner lines < 64 KiB; "
        "candidates never outnumber input lines), the whole parsed structure compared with the real parser on every check; the real functions/handlers are run under recover() on type-directed and malformed inputs on every check and "
        "any panic is reported with the input",
   note=TB + "JSON decoding, websocket framing, pion's SDP/RTCP parsers and sdpfrag.PatchSDP/FromSDP (which work on pion's SDP types) are exercised only "
        "by the harness (exploration, not proof).",
   technique="Lean 4 totality proofs (no panic, length preserved) + differential/fuzz run under recover()",
   ref="DESIGN.md section 5 C12"),
 "C16": dict(engine="store+sig+api",
   text="Lean 4 proofs over an executable model of token/stateful.go for every history of update/delete/get/list/expire with arbitrary tags, injected write/open "
        "failures, external edits/removals of the file and restarts: (1) C16_refines: the live view equals what a fresh process loads, for every history; (2) "
        "compare-and-swap: success only with the tag of the version replaced, at most one success per tag, creation requires absence; (3) revocation by delete/sweep is "
        "final across any later history and restart; (4) generic theorem safeReplace_atomic (every crash prefix of every syscall list of the decidable safe shape leaves "
        "old or new) with the side condition decided on syscall lists regenerated by strace from the real code on every run; the model is tied to the real code by a "
        "differential run on every check, with a fresh-state reload after every op, and kill-at-every-syscall crash injection in the thorough tier; the signalling "
        "commands maketoken/edittoken are run through the real message handler with an injected failure of the file rewrite (sig engine), the oracle requiring that a "
        "request answered with an error left the live table unchanged",
   note=TB + "File versions abstract and fresh (the harness makes successive versions differ in size); atomicity of a single write(2)/rename(2)/unlink(2) w.r.t. a process "
        "crash; strace's rendering of syscalls; no fsync (C16_no_fsync), so power-loss durability is outside the model; all five entry points hold the same mutex for the "
        "only instance in production.",
   technique="Lean 4 invariant/refinement proofs + differential check + strace-regenerated syscall facts + crash injection",
   ref="DESIGN.md section 5 C16"),
 "C17": dict(engine="api",
   text="Lean 4 proofs over a branch-for-branch model of webserver/api.go + group/description.go for every state, path string, method, credential and body: non-preflight "
        "requests are answered 401 (or the plain 404 of a non-existent path) with no effect unless the credentials are a server admin, an admin of the governing group "
        "definition, an in-scope admin token/JWT, or (password branches only) the user's own password (C17_authz/C17_refused via isAdmin_sound + route_shape); state "
        "changes only with 201/204; no response body carries a user entry, password, hash or key (C17_no_secrets); Update*/Set*/Delete* leave everything they do not "
        "address alone (C17_preserve_*); regenerated source fact: every call into group./token./stats. in api.go is dominated by checkAdmin (C17_auth_dominates). Tied "
        "to the code on every run by the complete table endpoint shape × method × credential class and random update sequences against the real handler, with an "
        "independent oracle on status, file hashes and a scan of every response for every secret the harness ever stored. Groups live in memory: "
        "GetDescription's cached-description branch is transcribed (getDescriptionLive/addLive) and proved equal to reading the file at every state reachable by "
        "requests, faulted requests, harness writes and group.Add (C17_live_authorisation; counterexample C17_stale_by_file_name for a freshness test by cached "
        "file name); op live = group.Add on the real package, 8 scenarios of a live subgroup gaining/losing its own definition x 9 requests x 11 credentials, "
        "and random live groups in the random part",
   note=TB + "Model abstractions listed in Model/Api.lean (symbolic passwords with the hash-roundtrip assumption, description = length + auto-subgroups + users/wildcard/keys, "
        "live groups have no clients; a cached description is keyed by (file, size, mtime) and every version gets a fresh mtime from the harness); httptest recorder; the harness's own reader of the on-disk JSON. Remarks (not findings): a user "
        "whose stored password is empty or of type wildcard can have it changed without credentials; DELETE of a group definition is not subject to writableGroups.",
   technique="Lean 4 proof (router/authorisation/sanitisation/update model) + regenerated source facts + differential check with independent oracle",
   ref="DESIGN.md section 5 C17"),
 "C18": dict(engine="paths+api",
   text="Lean 4 proofs: full specification of scanETag, etagMatch ⇔ the RFC 7232 reading and the 412/304/continue table for all strings (engine paths, exhaustive small "
        "alphabet); a conditional second phase (UpdateDescription/DeleteDescription/UpdateUser/DeleteUser) succeeds only if its tag is the current tag of the object it "
        "replaces, creation only if absent (C18_cas); under every interleaving of any number of two-phase writers with arbitrary first phases and an arbitrary scheduler at "
        "most one writer per (file, tag) wins (C18_exclusive_interleavings); 304 iff current at the HTTP level; regenerated source fact that api.go hands the phase-1 tag "
        "through checkPreconditions into phase 2; generic theorem safeReplace_atomic applied to the strace-captured system calls of rewriteDescriptionFile (shape by "
        "decide). Tied to the code by executing every interleaving of 2 (quick) / 3 (thorough) writers' phases on the real group package, HTTP-level conditional requests, "
        "a goroutine race through the real handler, and SIGKILL at every system call of a rewrite followed by a re-read. READ side: C18_read_consistent — under every "
        "interleaving of rename-replacements with a reader whose calls have the strace-captured shape (one open, no path-stat after it, fstat on that descriptor; "
        "side condition C18_read_shape regenerated by decide) tag source and content source are one version (counterexamples for a path-stat after the open); the "
        "captures are also trace ops, and op readrace runs the interleaving on the real GetDescription (reader stopped by an injected SIGSTOP with the file open, "
        "file replaced, reader continued). WRITE FAULTS: op freq runs the real handler under RLIMIT_FSIZE 0/1/100 (EFBIG, partial writes) against handleFault "
        "(500, nothing changed) with an independent oracle (no unparsable file, unacknowledged = unchanged, acknowledged = requested); quiet_keeps_target + "
        "regenerated C18_fault_shape: four faulted strace captures of rewriteDescriptionFile (FSIZE 0/100, ENOSPC on write, EIO on fsync) contain a failed "
        "write/fsync and no call that can change the definition file (no rename after the failure)",
   note=TB + "groups.mu's presence is exercised by the race op, not proved; strace; process-kill crash model (the temp file is fsynced, the directory is not: no power-loss "
        "model). Successive versions differ in size or mtime (the harness stamps every written file). Scope remark: .password and .keys are write-only resources without "
        "tags; a stale If-Match on them is ignored. Read side: writers replace only by rename/unlink (a descriptor stays bound to its version); the tag of what is "
        "read comes from a metadata call made once the file is open (data flow inside readDescription is not visible in a syscall list). Faults are RLIMIT_FSIZE "
        "and strace error injection; stray temp files are reported, not judged; faulted token-file writes are engine store's (C16).",
   technique="Lean 4 proof (etag grammar; CAS invariant over histories and a scheduler machine; generic SafeReplace theorem; reader/replacer interleaving model; quiet-run "
             "invariant) + strace/AST-regenerated facts + differential, interleaving, crash-injection, write-fault-injection, stop-injection and race runs",
   ref="DESIGN.md section 5 C18"),
 "C19": dict(engine="paths",
   text="Lean 4 proofs over models of path.Clean (complete characterisation: the byte loop equals component-level lexical resolution, for every string), "
        "validGroupName/validUsername (accept exactly the safe names), parseGroupName (components always safe; agrees with validGroupName), getDescriptionFile "
        "(every file name tried, for every input and callback behaviour, is Directory + safe components + .json), sanitise and the recording/delete-form name checks; "
        "the models run against the real functions exhaustively over a 7-symbol alphabet (incl. /, ., \\, NUL, a 2-byte rune) plus random longer strings, and "
        "end-to-end ops on a scratch tree with sentinel files outside the roots check that nothing outside is read, created, removed or served",
   note=TB + "os.Root confinement (symlinks etc.) is the standard library's and is trusted; Unix only (filepath.Separator = '/').",
   technique="Lean 4 proof (path.Clean characterisation, validator ⇔ safe-name spec, confinement of tried file names) + exhaustive small-alphabet differential check",
   ref="DESIGN.md section 5 C19"),
 "C20": dict(engine="rec+codecs+writer",
   text="Lean 4 theorems about galene's own glue in the recorder (gap/fetch logic over all delivery orders with gaps < 256 incl. duplicates and reordering: every seqno "
        "after the first that is delivered or available in the cache is pushed; exactly what is handed to the sample builder, byte-identical to what was sent; block-time "
        "monotonicity for a fixed origin; shared A/V origin: C20_adjustOrigin_same_instant / _sync_kept — adjustOrigin moves every track's origin by one common duration, up to one tick "
        "of its own clock, with the proved counterexample seeded_rate_breaks_sync for a wrong clock rate; rtptime round trips), tied to diskwriter by a differential run through the real "
        "Client.PushConn/diskTrack.Write/SetTimeOffset/Close with pion payloaders and a real packetcache (incl. paced real-time cases for the arrival-based origin and six H.264 "
        "keyframe layouts), and codecs.Keyframe by the codecs engine; the keyframe replay for a recorder attached in mid-stream (sendSequence): C20_replay_complete — every cached packet "
        "from the keyframe to the newest one inclusive is written, in order (a replay that stops short leaves a hole the recorder never fetches when a live packet overtakes it), tied by op sendseq of the writer engine; frame assembly (jech/samplebuilder, pion depacketizers) and the "
        "container (ebml-go) are third-party: that part of C20 (complete frames, no duplicates/reordering, nothing missing, well-formed file, flush on stop) is "
        "correspondence-only — exploration level, by file read-back with ebml-go",
   note=TB + "PARTIAL by design: proof for galene's glue, exploration for the library part. Builder pops and the wall clock are observed inputs of the (transducer) model; the "
        "4 s lastKf timer and the 500 ms request limit are neutralised by the harness. Known findings: sender-report-moves-origin, savedkf-overtaken, audio-before-new-file-origin (galene; old-sample-taken-for-wrap was repaired, fix 608cf45), four "
        "samplebuilder/pion defects keyed by history shape (cannot be repaired here: the dependency cannot be re-fetched).",
   technique="Lean 4 proofs (gap/fetch/timestamp glue) + model/implementation differential check + file read-back oracle",
   ref="DESIGN.md section 5 C20"),
 "C07": dict(engine="streams+down+whip",
   text="Lean 4 theorems about an executable model of the stream fan-out state machine (pushConn timers, action queues, pushDownConn/requestedTracks/replaceTracks/"
        "negotiate, delUpConn/leaveGroup), parametrised by the repairs f1/f3 (Fixes, currentFixes), for every state and every interleaving of client messages, OnTrack "
        "callbacks, timer expiries and single queued actions: selection rule, offer iff member-and-selected with exactly the selected tracks, isolation between groups "
        "(inductive invariant over all histories), every close has a permitted cause, publisher-side teardown reaches every member, and — unconditionally for the "
        "repaired code, replace and renegotiations included — teardown at quiescence (C07_teardown_quiescent); the model is tied to the code by end-to-end scenario runs "
        "against the real websocket handler with real pion publishers and subscribers on every check (message-level comparison per op between quiescent points)",
   note=TB + "Weaker tie than the core engines: scripted end-to-end scenarios (≈1.2 s each; 16 quick, hundreds thorough). One partial result with a proved counterexample "
        "(collision_mislabels) reproduced on the real server: C07_label_true_partial (true label only if stream ids do not collide between publishers) = known finding "
        "stream-id-collision-across-publishers. Abstracted: SDP/ICE/DTLS (negotiation never fails), admission, ICE restarts; the 200 ms push delay is a timer step.",
   technique="Lean 4 proofs on a hand-written model + end-to-end differential check + model-independent trace oracle",
   ref="DESIGN.md section 5 C07"),
 "C05": dict(engine="cache",
   text="Lean 4 refinement proof (ring buffer with three-way resize refines a bounded FIFO; Get/GetAt soundness; newest-window retrievability) for "
        "every capacity ≥ 1 and every op sequence, tied to packetcache.Cache by a differential run of the model against the real API on every check, "
        "plus a concurrent reader/writer stress whose results are checked byte-exactly",
   note=TB + "len(buf) in 1..1504, capacity ≥ 1; every Cache method holds cache.mu for its whole body (regenerated fact, Props/C05Locks).",
   technique="Lean 4 refinement proof + model/implementation differential check + concurrent stress",
   ref="DESIGN.md section 5 C05"),
}


def main():
    checks = []
    for pid, c in CHECKS.items():
        checks.append({
            "property_id": pid,
            "quick_cmd": f"./check {pid} --tier quick",
            "thorough_cmd": f"./check {pid} --tier thorough",
            "evidence_file": f"evidence/{pid}.json",
            "replay_cmd_template": f"./check {pid} --replay {{path}}",
            "engine": c["engine"],
            "level_claimed": {"category": c.get("category", "proof"), "text": c["text"], "design_ref": c["ref"]},
            "level_note": c["note"],
            "technique": c["technique"],
        })
    conf = json.load(open(os.path.join(ROOT, "checks.json")))
    engines = [{"name": e, "path": f"harness/cmd/{e}",
                "serves_properties": sorted({p for ops in v.get("ops", {}).values() for p in ops}),
                "kind_free_text": "differential: real galene code (in-process, via go build -overlay shims) vs Lean model + property oracle"}
               for e, v in conf["engines"].items()]
    man = {
        "version": 1,
        "setup_cmd": "./setup.sh",
        "hooks": {"guard": "verif",
                  "enable": "go build -tags verif -overlay .build/overlay.json (shims live in /verif/harness and are mapped into the /repo module by the overlay; no hook commits in /repo)",
                  "baseline_off_cmd": "cd /repo && GOFLAGS=-mod=mod GOPROXY=off go test -vet=off -count=1 ./...",
                  "source_commits": [], "add_only": True},
        "engines": engines,
        "checks": checks,
        "notes": "All checks: ./check <id> [--tier quick|thorough]; replays in replays/; known findings in known-findings.jsonl; seeded changes in seeded/.",
        "not_applicable": [{"property_id": p["id"], "reason": "check not integrated yet (work in progress; see DESIGN.md section 8)"}
                           for p in props if p["id"] not in CHECKS],
    }
    json.dump(man, open(os.path.join(ROOT, "MANIFEST.json"), "w"), indent=1)
    print("MANIFEST.json:", len(checks), "checks")


if __name__ == "__main__":
    main()
