#!/bin/bash
# usage: tools_seedtest.sh <outdir> <name> <props...>   e.g. tools_seedtest.sh /tmp/wt/out-C01/1 C01-1 C01 C03
# Confirms a seeded change in a scratch worktree of /repo HEAD (suite passes, demo fails with / passes without),
# then applies it to /repo, runs the given checks (--no-lean), and reverts /repo.
set -u
OUT=$1; shift
NAME=$1; shift
export GOFLAGS=-mod=mod GOPROXY=off
W=/tmp/wt/verify-$$
git -C /repo worktree add -q --detach $W HEAD || exit 2
cleanup() { git -C /repo worktree remove --force $W 2>/dev/null; git -C /repo checkout -- . ; }
trap cleanup EXIT
META=$OUT/meta.json
PLACE=$(python3 -c "import json;print(json.load(open('$META'))['demo_placement'])")
CMD=$(python3 -c "import json;print(json.load(open('$META'))['demo_cmd'])")
DEMO=$(ls $OUT | grep -v -E 'patch.diff|meta.json' | head -1)
echo "== demo $DEMO -> $PLACE ; cmd: $CMD"
cd $W
# 1. demo without the change
mkdir -p $(dirname $PLACE); cp $OUT/$DEMO $PLACE
( eval "$CMD" ) > /tmp/wt/demo-without.log 2>&1; R_WITHOUT=$?; echo "demo without change: exit $R_WITHOUT"
rm -f $PLACE
# 2. apply
if ! git apply --3way $OUT/patch.diff 2>/tmp/wt/apply.log && ! git apply $OUT/patch.diff 2>>/tmp/wt/apply.log; then echo "PATCH DOES NOT APPLY"; cat /tmp/wt/apply.log; exit 3; fi
go build ./... || { echo "BUILD FAILS"; exit 4; }
go test -vet=off -count=1 ./... > /tmp/wt/suite.log 2>&1; R_SUITE=$?; if [ $R_SUITE -ne 0 ]; then echo "suite failed once (timing-sensitive TestTime under load?), second run"; go test -vet=off -count=1 ./... > /tmp/wt/suite.log 2>&1; R_SUITE=$?; fi; echo "suite with change: exit $R_SUITE"; grep -v "^ok\|no test files" /tmp/wt/suite.log | head
cp $OUT/$DEMO $PLACE
( eval "$CMD" ) > /tmp/wt/demo-with.log 2>&1; R_WITH=$?; echo "demo with change: exit $R_WITH"
rm -f $PLACE
git diff HEAD > /tmp/wt/current.diff
# 3. run checks against /repo with the patch
cd /repo && git apply /tmp/wt/current.diff || { echo "cannot apply to /repo"; exit 5; }
cd /verif
RES=""
for p in "$@"; do
  ./check $p --no-lean > /tmp/wt/check-$p.log 2>&1; rc=$?; echo "check $p: exit $rc"; grep -E "^VIOLATION|^# " /tmp/wt/check-$p.log | cut -c1-300 | head -5
  V=$(grep -E "^VIOLATION" /tmp/wt/check-$p.log | head -1)
  RES="$RES$p:exit=$rc:$V;"
done
if [ $R_WITHOUT -eq 0 ] && [ $R_SUITE -eq 0 ] && [ $R_WITH -ne 0 ]; then
  D=/verif/seeded/$NAME; mkdir -p $D
  cp /tmp/wt/current.diff $D/patch.diff; cp $OUT/$DEMO $D/
  python3 - "$META" "$D" "$RES" "$*" <<'PY'
import json,sys
meta=json.load(open(sys.argv[1]))
meta['confirmed']={'base':'/repo HEAD at confirmation time (patch rebased where the fix commits touched the same lines)',
  'suite_passes_with_change':True,'demo_fails_with_change':True,'demo_passes_without_change':True,
  'ran':'tools_seedtest.sh: scratch worktree of /repo HEAD; go test -vet=off -count=1 ./...; demo_cmd with and without the patch; then git -C /repo apply; ./check <prop> --no-lean; git -C /repo checkout -- .'}
meta['checks_run']=sys.argv[4].split()
meta['check_results']=[x for x in sys.argv[3].split(';') if x]
json.dump(meta,open(sys.argv[2]+'/meta.json','w'),indent=1)
PY
  echo "stored in $D"
else
  echo "NOT CONFIRMED (without=$R_WITHOUT suite=$R_SUITE with=$R_WITH)"
fi
