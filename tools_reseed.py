#!/usr/bin/env python3
"""Re-run checks against stored seeded changes and record the outcome as `final_results` in their meta.json.
usage: tools_reseed.py <seed-name>[:prop,prop…] …      (props default to meta['checks_run'])
Applies seeded/<name>/patch.diff to /repo, runs ./check <prop> --no-lean, and ALWAYS reverts /repo."""
import json, subprocess, sys, os, re
ROOT = os.path.dirname(os.path.abspath(__file__))
def sh(*a, **k): return subprocess.run(a, capture_output=True, text=True, **k)
for arg in sys.argv[1:]:
    name, _, props = arg.partition(":")
    d = os.path.join(ROOT, "seeded", name)
    meta = json.load(open(os.path.join(d, "meta.json")))
    props = props.split(",") if props else meta.get("checks_run", [name[:3]])
    if sh("git", "-C", "/repo", "status", "--short").stdout.strip():
        sys.exit("/repo is not clean")
    r = sh("git", "-C", "/repo", "apply", os.path.join(d, "patch.diff"))
    if r.returncode != 0:
        print(name, "PATCH DOES NOT APPLY", r.stderr[:200]); continue
    res = []
    try:
        for p in props:
            c = sh(os.path.join(ROOT, "check"), p, "--no-lean", cwd=ROOT)
            v = [l for l in c.stdout.splitlines() if l.startswith("VIOLATION")]
            v.sort(key=lambda l: "no-failing-input-found" in l)
            res.append(f"{p}:exit={c.returncode}:{v[0] if v else ''}")
    finally:
        sh("git", "-C", "/repo", "checkout", "--", ".")
    meta["final_results"] = res
    meta["checks_run"] = props
    json.dump(meta, open(os.path.join(d, "meta.json"), "w"), indent=1)
    print(name, res)
