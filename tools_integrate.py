#!/usr/bin/env python3
"""Integration helper: copies files that are NEW in a builder copy (/tmp/build/<name>/verif) into /verif,
lists files that exist in both and differ (to be merged by hand), and merges checks.json entries
(engines/properties that do not exist yet).  usage: tools_integrate.py <name> [--apply]"""
import sys, os, filecmp, shutil, json
name = sys.argv[1]
apply = "--apply" in sys.argv
B = f"/tmp/build/{name}/verif"
V = "/verif"
skip_dirs = {".build", ".lake", "evidence", "replays", "__pycache__", ".git"}
new, differ = [], []
for dp, dns, fns in os.walk(B):
    dns[:] = [d for d in dns if d not in skip_dirs]
    for fn in fns:
        src = os.path.join(dp, fn)
        rel = os.path.relpath(src, B)
        dst = os.path.join(V, rel)
        if not os.path.exists(dst):
            new.append(rel)
        elif not filecmp.cmp(src, dst, shallow=False):
            differ.append(rel)
print("NEW files:")
for r in new:
    print("  ", r)
    if apply:
        os.makedirs(os.path.dirname(os.path.join(V, r)), exist_ok=True)
        shutil.copy2(os.path.join(B, r), os.path.join(V, r))
print("DIFFERING files (merge by hand):")
for r in differ:
    print("  ", r)
cb = json.load(open(os.path.join(B, "checks.json")))
c = json.load(open(os.path.join(V, "checks.json")))
for k in ("engines", "properties"):
    for key, val in cb[k].items():
        if key not in c[k]:
            print(f"checks.json: new {k} entry {key}")
            if apply:
                c[k][key] = val
        elif c[k][key] != val:
            print(f"checks.json: {k} entry {key} differs")
if apply:
    json.dump(c, open(os.path.join(V, "checks.json"), "w"), indent=1)
