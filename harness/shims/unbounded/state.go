//go:build verif

package unbounded

// VerifState exposes the two pieces of state the C13 model talks about: the
// length of the locked queue and whether the one-slot wakeup channel is full.
func VerifState[T any](ch *Channel[T]) (qlen int, slot int) {
	ch.mu.Lock()
	qlen = len(ch.queue)
	ch.mu.Unlock()
	return qlen, len(ch.Ch)
}
