//go:build verif

package token

// Verification shim (mapped into the package by `go build -overlay`; not part
// of /repo): reaches the two unexported scope predicates of C09.

func VerifTokMatch(tokGroup string, includeSubgroups bool, group string) bool {
	t := &Stateful{Group: tokGroup, IncludeSubgroups: includeSubgroups}
	return t.match(group)
}

func VerifTokMatchGroup(pth, group string, includeSubgroups bool) bool {
	return matchGroup(pth, group, includeSubgroups)
}
