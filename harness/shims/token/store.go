//go:build verif

package token

// Verification shim for engine `store` (C16; mapped into the package by
// `go build -overlay`, not part of /repo).  It gives the harness access to the
// unexported `state`: the live instance `tokens`, fresh instances on the same
// file ("a freshly started server"), and a non-perturbing look at what an
// instance honours right now.

import (
	"sort"
	"time"
)

// VerifStoreState is a second, independent `state` on some file.
type VerifStoreState struct{ s *state }

// VerifStoreLive wraps the package-level instance used by Get/List/Update/....
func VerifStoreLive() *VerifStoreState { return &VerifStoreState{s: &tokens} }

// VerifStoreFresh is what a freshly started server has: nothing in memory.
func VerifStoreFresh(filename string) *VerifStoreState {
	return &VerifStoreState{s: &state{filename: filename}}
}

// VerifStoreRestart forgets everything the live instance holds in memory
// (process restart); the file name is kept.
func VerifStoreRestart() {
	tokens.mu.Lock()
	defer tokens.mu.Unlock()
	tokens.fileSize = 0
	tokens.modTime = time.Time{}
	tokens.tokens = nil
}

// Peek returns everything the instance would honour if asked now (list of all
// tokens after the usual load()), together with the etag and the error of
// load(), and then puts the instance's fields back, so that looking does not
// change the history under test.  load() never mutates an existing map in
// place (it installs a new one), so restoring the three fields is exact.
func (v *VerifStoreState) Peek() ([]*Stateful, string, error) {
	s := v.s
	s.mu.Lock()
	defer s.mu.Unlock()
	tk, sz, mt := s.tokens, s.fileSize, s.modTime
	// (not through s.list: its signature is nobody's interface; load(), the map and etag() are the state itself)
	var a []*Stateful
	etag := ""
	_, err := s.load()
	if err == nil {
		a = make([]*Stateful, 0, len(s.tokens))
		for _, t := range s.tokens {
			a = append(a, t)
		}
		sort.Slice(a, func(i, j int) bool {
			if a[j].Expires == nil {
				return false
			}
			if a[i].Expires == nil {
				return true
			}
			return (*a[i].Expires).Before(*a[j].Expires)
		})
		etag = s.etag()
	}
	s.tokens, s.fileSize, s.modTime = tk, sz, mt
	return a, etag, err
}

// Update/Delete/Get/List/Expire on an arbitrary instance (the exported package
// functions only reach `tokens`).
func (v *VerifStoreState) Update(t *Stateful, etag string) (*Stateful, error) {
	return v.s.Update(t, etag)
}
func (v *VerifStoreState) Delete(id, etag string) error { return v.s.Delete(id, etag) }
func (v *VerifStoreState) Get(id string) (*Stateful, string, error) {
	return v.s.Get(id)
}
func (v *VerifStoreState) List(g string) ([]*Stateful, string, error) { return v.s.List(g) }
func (v *VerifStoreState) Expire() error                              { return v.s.Expire() }
