//go:build verif

package token

// Verification shim for the `sig` engine (mapped into package token by
// `go build -overlay`; not part of /repo): read-only access to the in-memory
// table of stateful tokens.

// VerifAll returns the in-memory stateful tokens (after the usual reload check).
func VerifAll() []*Stateful {
	tokens.mu.Lock()
	defer tokens.mu.Unlock()
	_, err := tokens.load()
	if err != nil {
		return nil
	}
	out := make([]*Stateful, 0, len(tokens.tokens))
	for _, t := range tokens.tokens {
		out = append(out, t)
	}
	return out
}
