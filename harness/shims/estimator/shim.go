//go:build verif

package estimator

import "github.com/jech/galene/rtptime"

// VerifSetRate pins the estimator's current estimate (the estimator must have
// been created with a very long interval so that no swap happens).
func (e *Estimator) VerifSetRate(rate, packetRate uint32) {
	e.mu.Lock()
	defer e.mu.Unlock()
	e.rate = rate
	e.packetRate = packetRate
	e.time = rtptime.Now(rtptime.JiffiesPerSec)
}
