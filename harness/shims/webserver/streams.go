//go:build verif

package webserver

// Verification shim (mapped into the package by `go build -overlay`; not part
// of /repo): exposes the unexported websocket handler so that the `streams`
// engine can mount galene's real /ws endpoint on a loopback httptest server.

import "net/http"

func VerifWSHandler(w http.ResponseWriter, r *http.Request) { wsHandler(w, r) }
