//go:build verif

package webserver

// Verification shim for engine `api` (mapped into the package by
// `go build -overlay`; not part of /repo): exposes the unexported router of
// the administrative API and lets the harness open a static root (what Serve
// does with StaticRoot) so that notFound() can run without a listening server.

import (
	"net/http"
	"os"
)

// VerifApiHandler is apiHandler, the function registered for "/galene-api/".
func VerifApiHandler(w http.ResponseWriter, r *http.Request) { apiHandler(w, r) }

// VerifApiSetStaticRoot opens dir as the static root.
func VerifApiSetStaticRoot(dir string) error {
	r, err := os.OpenRoot(dir)
	if err != nil {
		return err
	}
	if staticRoot != nil {
		staticRoot.Close()
	}
	staticRoot = r
	return nil
}
