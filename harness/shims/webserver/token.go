//go:build verif

package webserver

// Verification shim for the `token` engine (C09).

func VerifTokCheckGlobalAdminToken(tok string) (bool, error) {
	return checkGlobalAdminToken(tok)
}
