//go:build verif

package webserver

// Verification shim (mapped into the package by `go build -overlay`; not part
// of /repo): reaches parseGroupName, splitPath, the ETag functions and
// recordingsHandler.

import (
	"net/http"
	"os"
)

func VerifParseGroupName(prefix, p string) string { return parseGroupName(prefix, p) }

func VerifSplitPath(p string) (string, string, string) { return splitPath(p) }

func VerifScanETag(s string) (string, string) { return scanETag(s) }

func VerifEtagMatch(etag, header string) bool { return etagMatch(etag, header) }

func VerifCheckPreconditions(w http.ResponseWriter, r *http.Request, etag string) bool {
	return checkPreconditions(w, r, etag)
}

func VerifRecordingsHandler(w http.ResponseWriter, r *http.Request) { recordingsHandler(w, r) }

// VerifSetStaticRoot opens dir as the static root (what Serve does with StaticRoot).
func VerifSetStaticRoot(dir string) error {
	r, err := os.OpenRoot(dir)
	if err != nil {
		return err
	}
	staticRoot = r
	return nil
}

func VerifStaticHandler(w http.ResponseWriter, r *http.Request) {
	(&fileHandler{staticRoot}).ServeHTTP(w, r)
}
