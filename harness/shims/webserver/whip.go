//go:build verif

package webserver

// Verification shim for engine `whip` (mapped into the package by
// `go build -overlay`; not part of /repo): reaches the dispatcher that leads to
// the two WHIP handlers, the handlers themselves, and the small unexported
// helpers (parseBearerToken, canPresent, obfuscate/deobfuscate).

import (
	"net/http"
	"os"
)

// VerifWhipGroupHandler is groupHandler, the function registered for "/group/".
func VerifWhipGroupHandler(w http.ResponseWriter, r *http.Request) { groupHandler(w, r) }

// The two handlers called directly (any path: their own "this shouldn't happen" branches).
func VerifWhipEndpointHandler(w http.ResponseWriter, r *http.Request) { whipEndpointHandler(w, r) }
func VerifWhipResourceHandler(w http.ResponseWriter, r *http.Request) { whipResourceHandler(w, r) }

func VerifWhipParseBearerToken(auth string) string { return parseBearerToken(auth) }

func VerifWhipCanPresent(perms []string) bool { return canPresent(perms) }

func VerifWhipObfuscate(id string) (string, error) { return obfuscate(id) }

func VerifWhipDeobfuscate(id string) (string, error) { return deobfuscate(id) }

// VerifWhipSetStaticRoot opens dir as the static root (what Serve does with
// StaticRoot), so that notFound() can run without a listening server.
func VerifWhipSetStaticRoot(dir string) error {
	r, err := os.OpenRoot(dir)
	if err != nil {
		return err
	}
	if staticRoot != nil {
		staticRoot.Close()
	}
	staticRoot = r
	return nil
}
