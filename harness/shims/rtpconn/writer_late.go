//go:build verif

package rtpconn

import (
	"fmt"
	"sync"
	"time"

	"github.com/pion/rtp"
	"github.com/pion/webrtc/v4"
)

// VerifLate is a down track added in mid-stream; everything written to it is recorded
// (payload and timestamp) by a slow sink.
type VerifLate struct {
	mu    sync.Mutex
	down  *rtpDownTrack
	recs  []string
	delay time.Duration
}

type verifLateCtx struct {
	verifCtx
	l *VerifLate
}

func (c *verifLateCtx) WriteStream() webrtc.TrackLocalWriter { return c.l }

func (l *VerifLate) WriteRTP(h *rtp.Header, payload []byte) (int, error) {
	// copy first, then dawdle: a buffer shared with another goroutine may change meanwhile
	hx := fmt.Sprintf("%x", payload)
	if l.delay > 0 {
		time.Sleep(l.delay)
	}
	hx2 := fmt.Sprintf("%x", payload)
	l.mu.Lock()
	if hx != hx2 {
		l.recs = append(l.recs, fmt.Sprintf("changed-during-write %d", h.Timestamp))
	} else {
		l.recs = append(l.recs, fmt.Sprintf("%d %s", h.Timestamp, hx))
	}
	l.mu.Unlock()
	return len(payload), nil
}

func (l *VerifLate) Write(b []byte) (int, error) { return len(b), nil }

// Take returns what was written so far.
func (l *VerifLate) Take() []string {
	l.mu.Lock()
	defer l.mu.Unlock()
	r := l.recs
	l.recs = nil
	return r
}
