//go:build verif

package rtpconn

// Verification shim for the `auth` engine (C08): a real webClient without a
// websocket, joined to a real group through group.AddClient, moderated through
// the real handleAction(changePermissionsAction) and removed with the real
// leaveGroup.  Actions queued for the (absent) client loop are discarded.

import (
	"github.com/jech/galene/group"
	"github.com/jech/galene/unbounded"
)

type VerifAuthClient struct {
	c *webClient
}

func VerifAuthNewClient(id string) *VerifAuthClient {
	return &VerifAuthClient{c: &webClient{
		id:        id,
		actions:   unbounded.New[any](),
		requested: make(map[string][]string),
	}}
}

func (v *VerifAuthClient) drain() { v.c.actions.Get() }

// Join does what handleClientMessage does for {type:"join", kind:"join"},
// minus the websocket replies (and the 200 ms sleep on refusal).
func (v *VerifAuthClient) Join(groupname string, creds group.ClientCredentials) error {
	g, err := group.AddClient(groupname, v.c, creds)
	v.drain()
	if err != nil {
		return err
	}
	v.c.group = g
	return nil
}

func (v *VerifAuthClient) Leave() {
	leaveGroup(v.c)
	v.drain()
}

// Moderate applies a changePermissionsAction (op, unop, present, unpresent,
// shutup, unshutup) to this client, as the client loop does when another
// member's "useraction" reaches it.
func (v *VerifAuthClient) Moderate(kind string) error {
	err := handleAction(v.c, changePermissionsAction{kind: kind})
	v.drain()
	return err
}

func (v *VerifAuthClient) Permissions() []string { return v.c.permissions }
func (v *VerifAuthClient) Username() string      { return v.c.username }
func (v *VerifAuthClient) Client() group.Client  { return v.c }
