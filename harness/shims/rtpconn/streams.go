//go:build verif

package rtpconn

// Verification shim for the `streams` engine (C07).  It is used ONLY to
// synchronise the end-to-end harness with the server (has OnTrack fired? has
// the delayed push of a stream happened?); everything the check compares or
// judges is read from the clients' websockets.

import (
	"sync"

	"github.com/jech/galene/group"
)

var verifUps struct {
	mu  sync.Mutex
	ups map[string]*rtpUpConnection
}

func verifFindUp(g *group.Group, cid, id string) *rtpUpConnection {
	if g == nil {
		return nil
	}
	c, ok := g.GetClient(cid).(*webClient)
	if !ok || c == nil {
		return nil
	}
	return getUpConn(c, id)
}

// VerifRegisterUp remembers the up connection (group, client, id) under key,
// so that its `pushed` flag stays observable after the connection is closed.
func VerifRegisterUp(key string, g *group.Group, cid, id string) bool {
	up := verifFindUp(g, cid, id)
	if up == nil {
		return false
	}
	verifUps.mu.Lock()
	defer verifUps.mu.Unlock()
	if verifUps.ups == nil {
		verifUps.ups = make(map[string]*rtpUpConnection)
	}
	verifUps.ups[key] = up
	return true
}

func VerifForgetUps() {
	verifUps.mu.Lock()
	defer verifUps.mu.Unlock()
	verifUps.ups = nil
}

// VerifUpTracks returns the ids of the tracks that OnTrack has delivered so
// far on a registered up connection, in arrival order.
func VerifUpTracks(key string) []string {
	verifUps.mu.Lock()
	up := verifUps.ups[key]
	verifUps.mu.Unlock()
	if up == nil {
		return nil
	}
	var ids []string
	for _, t := range up.getTracks() {
		ids = append(ids, t.track.ID())
	}
	return ids
}

// VerifPendingPushes counts the registered up connections whose delayed
// push (pushConn) has not happened yet.
func VerifPendingPushes() int {
	verifUps.mu.Lock()
	defer verifUps.mu.Unlock()
	n := 0
	for _, up := range verifUps.ups {
		up.mu.Lock()
		if !up.pushed {
			n++
		}
		up.mu.Unlock()
	}
	return n
}
