//go:build verif

package rtpconn

// Verification shim for engine `whip`: read-only views of a WhipClient's
// unexported state.

// VerifWhipHasConn reports whether c.connection is set.
func VerifWhipHasConn(c *WhipClient) bool {
	c.mu.Lock()
	defer c.mu.Unlock()
	return c.connection != nil
}

// VerifWhipSignalling returns the signalling state of the session's
// PeerConnection ("" if there is no connection).
func VerifWhipSignalling(c *WhipClient) string {
	c.mu.Lock()
	conn := c.connection
	c.mu.Unlock()
	if conn == nil {
		return ""
	}
	return conn.pc.SignalingState().String()
}
