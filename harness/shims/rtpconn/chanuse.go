//go:build verif

package rtpconn

import (
	"github.com/jech/galene/group"
	"github.com/jech/galene/unbounded"
)

// VerifActionQueue observes a web client's action queue without disturbing it: the number of queued actions
// and whether the one-slot trigger channel is full (engine `group`, op `loopstress`: the C13 liveness oracle).
func VerifActionQueue(c group.Client) (queued int, trigger int, ok bool) {
	wc, isWeb := c.(*webClient)
	if !isWeb {
		return 0, 0, false
	}
	queued, trigger = unbounded.VerifState(wc.actions)
	return queued, trigger, true
}

// VerifChangePermissions queues the action an operator's "useraction" queues for the target client
// (setPermissions -> c.action(changePermissionsAction{kind})): handling it makes the client's loop queue a
// follow-up action for ITSELF (permissionsChangedAction), the one producer that runs on the consumer's goroutine.
func VerifChangePermissions(c group.Client, kind string) bool {
	wc, isWeb := c.(*webClient)
	if !isWeb {
		return false
	}
	wc.action(changePermissionsAction{kind})
	return true
}
