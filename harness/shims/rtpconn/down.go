//go:build verif

package rtpconn

// Verification shim (mapped into the package by `go build -overlay`; not part
// of /repo).  It builds a real rtpDownTrack on a real rtpUpTrack whose
// TrackRemote is fabricated (codec/kind set by reflection), binds the local
// track to a capturing TrackLocalContext, and exposes the unexported entry
// points: Write, gotNACK, adjustLayer, updateRate, replaceTracks' limit loop.

import (
	"fmt"
	"reflect"
	"strings"
	"time"
	"unsafe"

	"github.com/pion/interceptor"
	"github.com/pion/rtcp"
	"github.com/pion/rtp"
	"github.com/pion/webrtc/v4"

	"github.com/jech/galene/conn"
	"github.com/jech/galene/estimator"
	"github.com/jech/galene/packetcache"
	"github.com/jech/galene/rtptime"
	"github.com/jech/galene/unbounded"
)

type verifSink struct {
	out []string
}

func (s *verifSink) WriteRTP(h *rtp.Header, payload []byte) (int, error) {
	mk := "0"
	if h.Marker {
		mk = "1"
	}
	hx := "-"
	if len(payload) > 0 {
		hx = fmt.Sprintf("%x", payload)
	}
	s.out = append(s.out, fmt.Sprintf("sent %d %s %d %s", h.SequenceNumber, mk, h.Timestamp, hx))
	return len(payload), nil
}

func (s *verifSink) Write(b []byte) (int, error) { return len(b), nil }

type verifCtx struct {
	codec webrtc.RTPCodecParameters
	sink  *verifSink
}

func (c *verifCtx) CodecParameters() []webrtc.RTPCodecParameters { return []webrtc.RTPCodecParameters{c.codec} }
func (c *verifCtx) HeaderExtensions() []webrtc.RTPHeaderExtensionParameter { return nil }
func (c *verifCtx) SSRC() webrtc.SSRC                                      { return 0x11223344 }
func (c *verifCtx) SSRCRetransmission() webrtc.SSRC                        { return 0 }
func (c *verifCtx) SSRCForwardErrorCorrection() webrtc.SSRC                { return 0 }
func (c *verifCtx) WriteStream() webrtc.TrackLocalWriter                   { return c.sink }
func (c *verifCtx) ID() string                                             { return "verif" }
func (c *verifCtx) RTCPReader() interceptor.RTCPReader                     { return nil }

func verifSetField(obj any, name string, val any) {
	f := reflect.ValueOf(obj).Elem().FieldByName(name)
	reflect.NewAt(f.Type(), unsafe.Pointer(f.UnsafeAddr())).Elem().Set(reflect.ValueOf(val))
}

type VerifDown struct {
	Up   *rtpUpTrack
	Down *rtpDownTrack
	Conn *rtpDownConnection
	sink *verifSink
}

func VerifNewDown(mime string, cacheSize int) *VerifDown {
	kind := webrtc.RTPCodecTypeVideo
	if strings.HasPrefix(strings.ToLower(mime), "audio/") {
		kind = webrtc.RTPCodecTypeAudio
	}
	params := webrtc.RTPCodecParameters{
		RTPCodecCapability: webrtc.RTPCodecCapability{MimeType: mime, ClockRate: 90000},
		PayloadType:        96,
	}
	tr := &webrtc.TrackRemote{}
	verifSetField(tr, "kind", kind)
	verifSetField(tr, "codec", params)
	up := &rtpUpTrack{
		track:      tr,
		cache:      packetcache.New(cacheSize),
		rate:       estimator.New(1000 * time.Hour),
		actions:    unbounded.New[trackAction](),
		readerDone: make(chan struct{}),
	}
	local, err := webrtc.NewTrackLocalStaticRTP(params.RTPCodecCapability, "v", "s")
	if err != nil {
		panic(err)
	}
	sink := &verifSink{}
	_, err = local.Bind(&verifCtx{codec: params, sink: sink})
	if err != nil {
		panic(err)
	}
	dconn := &rtpDownConnection{id: "d"}
	down := &rtpDownTrack{
		track:          local,
		conn:           dconn,
		remote:         up,
		maxBitrate:     new(bitrate),
		maxREMBBitrate: new(bitrate),
		stats:          new(receiverStats),
		rate:           estimator.New(1000 * time.Hour),
		atomics:        &downTrackAtomics{},
	}
	dconn.tracks = []*rtpDownTrack{down}
	v := &VerifDown{Up: up, Down: down, Conn: dconn, sink: sink}
	v.SetMax(-1)
	v.SetRemb(-1)
	return v
}

func (v *VerifDown) drainKf() bool {
	kf := false
	select {
	case <-v.Up.actions.Ch:
	default:
	}
	for _, a := range v.Up.actions.Get() {
		if a.action == trackActionKeyframe {
			kf = true
		}
	}
	return kf
}

func (v *VerifDown) result(err error) string {
	kf := v.drainKf()
	var r string
	if err != nil {
		r = "err"
	} else if len(v.sink.out) == 0 {
		r = "none"
	} else {
		r = strings.Join(v.sink.out, " ; ")
	}
	v.sink.out = nil
	if kf {
		r += " kfreq"
	}
	return r
}

// Feed stores the packet in the publisher's cache as the read loop does (when
// it is long enough to have a seqno) and hands it to the down track.
func (v *VerifDown) Feed(buf []byte, store bool) string {
	if store && len(buf) >= 12 && len(buf) <= packetcache.BufSize {
		seqno := uint16(buf[2])<<8 | uint16(buf[3])
		ts := uint32(buf[4])<<24 | uint32(buf[5])<<16 | uint32(buf[6])<<8 | uint32(buf[7])
		v.Up.cache.Store(seqno, ts, false, buf[1]&0x80 != 0, buf)
	}
	_, err := v.Down.Write(buf)
	return v.result(err)
}

func (v *VerifDown) Nack(seqno uint16, bitmap uint16) string {
	gotNACK(v.Down, &rtcp.TransportLayerNack{Nacks: []rtcp.NackPair{{PacketID: seqno, LostPackets: rtcp.PacketBitmap(bitmap)}}})
	return v.result(nil)
}

func (v *VerifDown) Layer() string {
	l := v.Down.getLayerInfo()
	lim := 0
	if l.limitSid {
		lim = 1
	}
	return fmt.Sprintf("%d %d %d %d %d %d %d", l.sid, l.wantedSid, l.maxSid, l.tid, l.wantedTid, l.maxTid, lim)
}

func (v *VerifDown) SetRate(r uint32) { v.Down.rate.VerifSetRate(r, r/1000) }

// SetMax sets the loss-based ceiling as if just reported; -1 = timed out.
func (v *VerifDown) SetMax(x int64) {
	if x < 0 {
		v.Down.maxBitrate.Set(0, rtptime.Jiffies()+3600*rtptime.JiffiesPerSec)
	} else {
		v.Down.maxBitrate.Set(uint64(x), rtptime.Jiffies())
	}
}

func (v *VerifDown) SetRemb(x int64) {
	if x < 0 {
		v.Down.maxREMBBitrate.Set(0, rtptime.Jiffies()+3600*rtptime.JiffiesPerSec)
	} else {
		v.Down.maxREMBBitrate.Set(uint64(x), rtptime.Jiffies())
	}
}

func (v *VerifDown) Adjust() { v.Down.adjustLayer() }

// UpdateRate runs the real updateRate with the current time and returns the
// ceiling it stored.
func (v *VerifDown) UpdateRate(loss uint8) uint64 {
	now := rtptime.Jiffies()
	v.Down.updateRate(loss, now)
	return v.Down.maxBitrate.Get(now)
}

func (v *VerifDown) GetMax() (uint64, int, int) { return v.Down.GetMaxBitrate() }

// SetLimit runs the real replaceTracks with an unchanged track set, which
// executes only its deferred limitSid loop.
func (v *VerifDown) SetLimit(limit bool) string {
	changed, err := replaceTracks(v.Conn, []conn.UpTrack{v.Up}, limit)
	if err != nil {
		return "err"
	}
	if changed {
		return "changed"
	}
	return "ok"
}

// VerifRequestedLimit runs the real requestedTracks on `nvideo` video tracks
// and one audio track and returns (number of tracks selected, limitSid).
func VerifRequestedLimit(requested []string, nvideo int, naudio int) (int, bool, []int) {
	var tracks []conn.UpTrack
	mk := func(kind webrtc.RTPCodecType) *rtpUpTrack {
		tr := &webrtc.TrackRemote{}
		verifSetField(tr, "kind", kind)
		return &rtpUpTrack{track: tr}
	}
	for i := 0; i < naudio; i++ {
		tracks = append(tracks, mk(webrtc.RTPCodecTypeAudio))
	}
	for i := 0; i < nvideo; i++ {
		tracks = append(tracks, mk(webrtc.RTPCodecTypeVideo))
	}
	ts, limit := requestedTracks(nil, requested, tracks)
	var idx []int
	for _, t := range ts {
		for i, u := range tracks {
			if u == t {
				idx = append(idx, i)
			}
		}
	}
	return len(ts), limit, idx
}

// RaceStress runs Write (one goroutine, a VP9 stream that alternates spatial
// layers and sends keyframes) against adjustLayer (another goroutine, as the RTCP
// listener does) and checks what C04 says about whole operations: between the end
// of one Write and the start of the next, the current sid/tid may not change
// (feedback never moves the current layer).  Returns "ok" or a description.
func (v *VerifDown) RaceStress(ms int, mk func(seq int, key bool, sid int) []byte) string {
	stop := make(chan struct{})
	done := make(chan struct{})
	go func() {
		defer close(done)
		i := 0
		for {
			select {
			case <-stop:
				return
			default:
			}
			// alternate between "switch up" and "switch down" conditions
			if i%2 == 0 {
				v.Down.maxBitrate.Set(1<<30, rtptime.Jiffies())
			} else {
				v.Down.maxBitrate.Set(9600, rtptime.Jiffies())
			}
			v.Down.adjustLayer()
			i++
		}
	}()
	deadline := time.Now().Add(time.Duration(ms) * time.Millisecond)
	seq := 1
	res := "ok"
	var last layerInfo
	have := false
	for time.Now().Before(deadline) {
		key := seq%7 == 0
		for sid := 0; sid < 2; sid++ {
			if have {
				cur := v.Down.getLayerInfo()
				if cur.sid != last.sid || cur.tid != last.tid {
					res = fmt.Sprintf("bad:layer-moved-between-writes-sid-%d-to-%d-tid-%d-to-%d", last.sid, cur.sid, last.tid, cur.tid)
					goto out
				}
			}
			v.Down.Write(mk(seq, key, sid))
			last = v.Down.getLayerInfo()
			have = true
			seq++
		}
	}
out:
	close(stop)
	<-done
	v.sink.out = nil
	v.drainKf()
	return res
}
