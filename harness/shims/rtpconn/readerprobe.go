//go:build verif

package rtpconn

import (
	"encoding/json"
	"fmt"
	"net/http"
	"net/http/httptest"
	"strings"
	"time"

	"github.com/gorilla/websocket"
	"github.com/jech/galene/group"
)

// VerifReaderProbe sends the given JSON texts over a real websocket to the real clientReader and
// compares every message it hands on with an independent decode of that text alone: a message
// must not carry anything over from the messages before it (the `sig` engine calls
// handleClientMessage directly and would not see the reader).  Returns "ok" or what differs.
func VerifReaderProbe(raw []string) string {
	read := make(chan interface{}, len(raw)+1)
	done := make(chan struct{})
	up := websocket.Upgrader{}
	srv := httptest.NewServer(http.HandlerFunc(func(w http.ResponseWriter, r *http.Request) {
		conn, err := up.Upgrade(w, r, nil)
		if err != nil {
			return
		}
		clientReader(conn, read, done)
		conn.Close()
	}))
	defer srv.Close()
	defer close(done)
	conn, _, err := websocket.DefaultDialer.Dial("ws"+strings.TrimPrefix(srv.URL, "http"), nil)
	if err != nil {
		return "env:dial"
	}
	defer conn.Close()
	var got []clientMessage
	for _, x := range raw {
		if err := conn.WriteMessage(websocket.TextMessage, []byte(x)); err != nil {
			return "env:write"
		}
		select {
		case m := <-read:
			cm, ok := m.(clientMessage)
			if !ok {
				return fmt.Sprintf("env:reader-returned-%T", m)
			}
			// the reader may reuse what it hands out: take a deep copy now, as the client loop sees it now
			b, _ := json.Marshal(cm)
			var c clientMessage
			json.Unmarshal(b, &c)
			got = append(got, c)
		case <-time.After(3 * time.Second):
			return "env:timeout"
		}
	}
	for i, x := range raw {
		var want clientMessage
		if json.Unmarshal([]byte(x), &want) != nil {
			return "env:bad-json"
		}
		bw, _ := json.Marshal(want)
		bg, _ := json.Marshal(got[i])
		if string(bw) != string(bg) {
			return fmt.Sprintf("bad:message-%d:sent:%s:decoded-as:%s", i, strings.ReplaceAll(x, " ", ""), strings.ReplaceAll(string(bg), " ", ""))
		}
	}
	return "ok"
}

// VerifSlowMemberProbe broadcasts n messages to a member whose outgoing queue (capacity 4) is only
// drained after a pause: the real `broadcast` waits for room, so every message arrives, in order.
func VerifSlowMemberProbe(n int) string {
	c := &webClient{
		id:         "slow",
		writeCh:    make(chan interface{}, 4),
		writerDone: make(chan struct{}),
	}
	var got []string
	fin := make(chan struct{})
	go func() {
		defer close(fin)
		time.Sleep(30 * time.Millisecond)
		for len(got) < n {
			select {
			case x := <-c.writeCh:
				if b, ok := x.([]byte); ok {
					var m clientMessage
					json.Unmarshal(b, &m)
					got = append(got, m.Id)
				}
			case <-time.After(500 * time.Millisecond):
				return
			}
		}
	}()
	for i := 0; i < n; i++ {
		broadcast([]group.Client{c}, clientMessage{Type: "chat", Id: fmt.Sprint(i), Value: "x"})
	}
	<-fin
	if len(got) != n {
		return fmt.Sprintf("bad:received-%d-of-%d", len(got), n)
	}
	for i, id := range got {
		if id != fmt.Sprint(i) {
			return fmt.Sprintf("bad:message-%d-arrived-in-place-%d", i, len(got))
		}
	}
	return "ok"
}
