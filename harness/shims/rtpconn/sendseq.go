//go:build verif

package rtpconn

import (
	"errors"

	"github.com/jech/galene/packetcache"
)

// Verification shim for the `writer` engine: the real sendSequence (the keyframe replay for a
// receiver or recorder that joins in mid-stream) on a real packet cache holding packets with the
// given sequence numbers, writing to a track that records what it is given and fails at the
// failAt-th write (failAt < 0: never).

type verifSeqTrack struct {
	seqnos []uint16
	failAt int
}

func (t *verifSeqTrack) Write(buf []byte) (int, error) {
	if t.failAt >= 0 && len(t.seqnos) == t.failAt {
		return 0, errors.New("write failed")
	}
	if len(buf) < 4 {
		return 0, errors.New("short packet")
	}
	t.seqnos = append(t.seqnos, uint16(buf[2])<<8|uint16(buf[3]))
	return len(buf), nil
}
func (t *verifSeqTrack) SetTimeOffset(ntp uint64, rtp uint32) {}
func (t *verifSeqTrack) SetCname(string)                      {}
func (t *verifSeqTrack) GetMaxBitrate() (uint64, int, int)    { return 0, 0, 0 }

func VerifSendSequence(kf, last uint16, cached []uint16, failAt int) []uint16 {
	cache := packetcache.New(len(cached) + 1)
	for _, s := range cached {
		buf := []byte{0x80, 96, byte(s >> 8), byte(s), 0, 0, 0, 1, 0, 0, 0, 2, 0x10, byte(s)}
		cache.Store(s, 1, false, false, buf)
	}
	t := &verifSeqTrack{failAt: failAt}
	sendSequence(kf, last, t, cache)
	return t.seqnos
}
