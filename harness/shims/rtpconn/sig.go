//go:build verif

package rtpconn

// Verification shim for the `sig` engine (mapped into package rtpconn by
// `go build -overlay`; not part of /repo).  It runs real webClients without a
// websocket: the harness owns writeCh and the action queue, and calls the real
// handleClientMessage / handleAction / leaveGroup.  The only transcribed glue
// is VerifFinish (what clientLoop's and StartClient's deferred calls do when
// the loop returns an error).

import (
	"encoding/json"
	"net"
	"runtime"
	"sort"
	"strings"
	"sync"
	"time"

	"github.com/gorilla/websocket"
	"github.com/pion/webrtc/v4"

	"github.com/jech/galene/conn"
	"github.com/jech/galene/group"
	"github.com/jech/galene/unbounded"
)

// VerifMsg is the exported image of clientMessage (the fields a client can set).
type VerifMsg struct {
	Type, Kind, Id, Replace, Source, Dest string
	Username                              *string
	Password, Token, Group                string
	Value                                 interface{}
	NoEcho                                bool
	Data                                  map[string]interface{}
	SDP, Label                            string
	Request                               interface{}
	Candidate                             bool
}

// VerifOut is the exported image of what was written to a client.
type VerifOut struct {
	Close     bool // a closeMessage
	CloseData []byte

	Type, Kind, Id, Replace, Source, Dest, Error, Group, Time string
	Username                                                  *string
	Privileged, NoEcho                                        bool
	Permissions                                               []string
	HasStatus, Locked                                         bool
	ClientCount                                               int
	Data                                                      map[string]interface{}
	Value                                                     interface{}
	Raw                                                       bool // came through broadcast() as JSON bytes
}

// VerifAct describes a queued action.
type VerifAct struct {
	T        string // user conn req perm permchanged joined kick other
	A, B, C  string
	User     *string
	Perms    []string
	Data     map[string]interface{}
	HasUp    bool
	GroupPtr *group.Group
}

type VerifClient struct {
	c       *webClient
	pending []any
	Dead    bool
}

func VerifNewClient(id string) *VerifClient {
	c := &webClient{
		addr:       &net.TCPAddr{IP: net.IPv4(192, 0, 2, 7), Port: 4000},
		id:         id,
		actions:    unbounded.New[any](),
		done:       make(chan struct{}),
		writeCh:    make(chan interface{}, 1<<14),
		writerDone: make(chan struct{}),
	}
	return &VerifClient{c: c}
}

func (v *VerifClient) Client() group.Client { return v.c }

func (v *VerifClient) Handle(m *VerifMsg) error {
	cm := clientMessage{
		Type: m.Type, Kind: m.Kind, Id: m.Id, Replace: m.Replace, Source: m.Source, Dest: m.Dest,
		Username: m.Username, Password: m.Password, Token: m.Token, Group: m.Group,
		Value: m.Value, NoEcho: m.NoEcho, Data: m.Data, SDP: m.SDP, Label: m.Label, Request: m.Request,
	}
	if m.Candidate {
		cm.Candidate = &webrtc.ICECandidateInit{Candidate: "candidate:1 1 udp 1 192.0.2.9 9 typ host"}
	}
	return handleClientMessage(v.c, cm)
}

func verifDescribe(a any) VerifAct {
	switch a := a.(type) {
	case pushClientAction:
		u := a.username
		return VerifAct{T: "user", A: a.kind, B: a.id, C: a.group, User: &u,
			Perms: append([]string(nil), a.permissions...), Data: a.data}
	case pushConnAction:
		return VerifAct{T: "conn", A: a.id, B: a.replace, HasUp: a.conn != nil, GroupPtr: a.group}
	case requestConnsAction:
		t := ""
		if a.target != nil {
			t = a.target.Id()
		}
		return VerifAct{T: "req", A: t, B: a.id, GroupPtr: a.group}
	case changePermissionsAction:
		return VerifAct{T: "perm", A: a.kind}
	case permissionsChangedAction:
		return VerifAct{T: "permchanged"}
	case joinedAction:
		return VerifAct{T: "joined", A: a.group, B: a.kind}
	case kickAction:
		return VerifAct{T: "kick", A: a.id, B: a.message, User: a.username}
	}
	return VerifAct{T: "other"}
}

// Collect moves newly queued actions to the harness-side FIFO and describes
// them.  AddClient pushes `add` events for the existing members in map
// iteration order; every order is a possible execution, the harness picks the
// one sorted by id (the run of adds that follows the joiner's own add).
func (v *VerifClient) Collect(key func(string) string) []VerifAct {
	batch := v.c.actions.Get()
	select {
	case <-v.c.actions.Ch:
	default:
	}
	// autoLockKick kicks from a detached goroutine whose timing is free: take
	// the schedule in which those kicks arrive after everything else queued
	// in this step.
	var first, kicks []any
	for _, a := range batch {
		if k, ok := a.(kickAction); ok && k.id == "" && k.username == nil &&
			k.message == "there are no operators in this group" {
			kicks = append(kicks, a)
		} else {
			first = append(first, a)
		}
	}
	batch = append(first, kicks...)
	i := 0
	for i < len(batch) {
		a, ok := batch[i].(pushClientAction)
		if ok && a.kind == "add" && a.id == v.c.id {
			j := i + 1
			for j < len(batch) {
				b, ok := batch[j].(pushClientAction)
				if !ok || b.kind != "add" || b.id == v.c.id {
					break
				}
				j++
			}
			run := batch[i+1 : j]
			sort.SliceStable(run, func(x, y int) bool {
				return key(run[x].(pushClientAction).id) < key(run[y].(pushClientAction).id)
			})
			i = j
		} else {
			i++
		}
	}
	out := make([]VerifAct, len(batch))
	for k, a := range batch {
		out[k] = verifDescribe(a)
	}
	v.pending = append(v.pending, batch...)
	return out
}

func (v *VerifClient) Pending() int { return len(v.pending) }

// Step handles the oldest queued action with the real handleAction.
func (v *VerifClient) Step() error {
	a := v.pending[0]
	v.pending = v.pending[1:]
	return handleAction(v.c, a)
}

// VerifFinish is what happens when clientLoop returns err: its deferred
// leaveGroup, then StartClient's deferred close sequence.
func (v *VerifClient) Finish(err error) {
	v.Dead = true
	leaveGroup(v.c)
	m, e := errorToWSCloseMessage(v.c.id, err)
	if m != nil {
		v.c.write(*m)
	}
	v.c.close(e)
	close(v.c.done)
}

func VerifCloseError() error {
	return &websocket.CloseError{Code: websocket.CloseGoingAway}
}

func verifOut(m clientMessage, raw bool) VerifOut {
	o := VerifOut{Type: m.Type, Kind: m.Kind, Id: m.Id, Replace: m.Replace, Source: m.Source, Dest: m.Dest,
		Error: m.Error, Group: m.Group, Time: m.Time, Username: m.Username, Privileged: m.Privileged,
		NoEcho: m.NoEcho, Permissions: m.Permissions, Data: m.Data, Value: m.Value, Raw: raw}
	if m.Status != nil {
		o.HasStatus = true
		o.Locked = m.Status.Locked
		if m.Status.ClientCount != nil {
			o.ClientCount = *m.Status.ClientCount
		} else {
			o.ClientCount = -1
		}
	}
	return o
}

// Writes drains what was written to the client.
func (v *VerifClient) Writes() []VerifOut {
	var out []VerifOut
	for {
		select {
		case x := <-v.c.writeCh:
			switch x := x.(type) {
			case clientMessage:
				out = append(out, verifOut(x, false))
			case []byte:
				var m clientMessage
				err := json.Unmarshal(x, &m)
				if err != nil {
					out = append(out, VerifOut{Type: "unparseable"})
				} else {
					out = append(out, verifOut(m, true))
				}
			case closeMessage:
				out = append(out, VerifOut{Close: true, CloseData: x.data})
			default:
				out = append(out, VerifOut{Type: "unknown-write"})
			}
		default:
			return out
		}
	}
}

type VerifState struct {
	Group    string
	HasGroup bool
	Username string
	Perms    []string
	Data     map[string]interface{}
	Up       []string
}

func (v *VerifClient) State() VerifState {
	c := v.c
	s := VerifState{Username: c.username, Perms: append([]string(nil), c.permissions...), Data: c.Data()}
	if c.group != nil {
		s.HasGroup = true
		s.Group = c.group.Name()
	}
	c.mu.Lock()
	for id, u := range c.up {
		s.Up = append(s.Up, id+"~"+u.getReplace(false))
	}
	c.mu.Unlock()
	sort.Strings(s.Up)
	return s
}

func (v *VerifClient) HasGroup() bool { return v.c.group != nil }

func (v *VerifClient) HasUp(id string) bool { return getUpConn(v.c, id) != nil }

func (v *VerifClient) NumUp() int {
	v.c.mu.Lock()
	defer v.c.mu.Unlock()
	return len(v.c.up)
}

var verifSigAPI *webrtc.API

// AddUp installs an up connection with a fresh, never negotiated
// PeerConnection (no tracks, no goroutines), as gotOffer would after a
// successful addUpConn.
func (v *VerifClient) AddUp(id string) error {
	if verifSigAPI == nil {
		api, err := group.APIFromNames(nil)
		if err != nil {
			return err
		}
		verifSigAPI = api
	}
	pc, err := verifSigAPI.NewPeerConnection(webrtc.Configuration{})
	if err != nil {
		return err
	}
	c := v.c
	c.mu.Lock()
	defer c.mu.Unlock()
	if c.up == nil {
		c.up = make(map[string]*rtpUpConnection)
	}
	c.up[id] = &rtpUpConnection{id: id, client: c, pc: pc}
	return nil
}

// VerifErr classifies an error returned by the handlers.
func VerifErr(err error) (class, text string) {
	switch e := err.(type) {
	case group.ProtocolError:
		return "proto", string(e)
	case group.UserError:
		return "user", string(e)
	case group.KickError:
		return "kick", e.Error()
	case *websocket.CloseError:
		return "wsclose", ""
	}
	return "other", err.Error()
}

// ---------------------------------------------------------------------------
// A member that is not a webClient.  PushClient can be made to block, which
// parks the detached goroutines of permissionsChangedAction / setdata.

type VerifMock struct {
	id string
	g  *group.Group

	mu      sync.Mutex
	block   bool
	waiters []chan struct{}
	kinds   []string // what each parked call announces
	Events  int
}

// (PushClient has a parameter called `group`)
var verifMuHeld = group.VerifMuHeld

func VerifNewMock(id string) *VerifMock { return &VerifMock{id: id} }

func (m *VerifMock) SetGroup(g *group.Group)        { m.g = g }
func (m *VerifMock) Group() *group.Group            { return m.g }
func (m *VerifMock) Addr() net.Addr                 { return nil }
func (m *VerifMock) Id() string                     { return m.id }
func (m *VerifMock) Username() string               { return "MOCK" }
func (m *VerifMock) Init(string, []string)          {}
func (m *VerifMock) Permissions() []string          { return []string{"system"} }
func (m *VerifMock) Data() map[string]interface{}   { return nil }
func (m *VerifMock) Joined(group, kind string) error { return nil }
func (m *VerifMock) Kick(id string, user *string, message string) error {
	return nil
}
func (m *VerifMock) PushConn(g *group.Group, id string, conn conn.Up, tracks []conn.UpTrack, replace string) error {
	return nil
}
func (m *VerifMock) RequestConns(target group.Client, g *group.Group, id string) error {
	return nil
}

func (m *VerifMock) PushClient(group, kind, id, username string, perms []string, data map[string]interface{}) error {
	m.mu.Lock()
	m.Events++
	// A blocking mock parks the announcements that come from detached goroutines.  Changes always do
	// (finding P17).  A join is announced by group.AddClient while it holds the group's mutex, which is
	// what orders it with respect to other joins and leaves: those calls are never parked.  An `add`
	// that arrives with the mutex free has been moved out of the critical section, and parking it lets
	// the harness run another member's join or leave in between.  (A `delete` is announced by
	// DelClient after it has released the mutex, but from the leaving client's own thread: never parked.)
	if !m.block || kind == "delete" || (kind != "change" && (m.g == nil || verifMuHeld(m.g))) {
		m.mu.Unlock()
		return nil
	}
	ch := make(chan struct{})
	m.waiters = append(m.waiters, ch)
	m.kinds = append(m.kinds, kind)
	m.mu.Unlock()
	<-ch
	return nil
}

func (m *VerifMock) SetBlock(b bool) {
	m.mu.Lock()
	m.block = b
	m.mu.Unlock()
}

func (m *VerifMock) Blocking() bool {
	m.mu.Lock()
	defer m.mu.Unlock()
	return m.block
}

func (m *VerifMock) Blocked() int {
	m.mu.Lock()
	defer m.mu.Unlock()
	return len(m.waiters)
}

// Release lets the k-th parked call continue.
func (m *VerifMock) Release(k int) bool {
	_, ok := m.ReleaseKind(k)
	return ok
}

// ReleaseKind lets the k-th parked call continue and says what it announces (add, change).
func (m *VerifMock) ReleaseKind(k int) (string, bool) {
	m.mu.Lock()
	defer m.mu.Unlock()
	if k < 0 || k >= len(m.waiters) {
		return "", false
	}
	close(m.waiters[k])
	kind := m.kinds[k]
	m.waiters = append(m.waiters[:k], m.waiters[k+1:]...)
	m.kinds = append(m.kinds[:k], m.kinds[k+1:]...)
	return kind, true
}

// VerifDetached counts the goroutines started by `go func` statements inside
// the signalling handlers and group.autoLockKick that are still alive.
func VerifDetached() int {
	buf := make([]byte, 1<<16)
	for {
		n := runtime.Stack(buf, true)
		if n < len(buf) {
			buf = buf[:n]
			break
		}
		buf = make([]byte, 2*len(buf))
	}
	n := 0
	for _, g := range strings.Split(string(buf), "\n\n") {
		if strings.Contains(g, "created by github.com/jech/galene/rtpconn.handleAction") ||
			strings.Contains(g, "created by github.com/jech/galene/rtpconn.handleClientMessage") ||
			strings.Contains(g, "created by github.com/jech/galene/group.autoLockKick") ||
			strings.Contains(g, "created by github.com/jech/galene/group.") ||
			strings.Contains(g, "created by github.com/jech/galene/rtpconn.") {
			n++
		}
	}
	return n
}

// VerifSettle waits until every detached goroutine has finished or is parked
// in a mock's PushClient (`parked` = total number of parked calls).
func VerifSettle(parked func() int) bool {
	deadline := time.Now().Add(3 * time.Second)
	for i := 0; ; i++ {
		if VerifDetached() == parked() {
			return true
		}
		if time.Now().After(deadline) {
			return false
		}
		if i < 100 {
			runtime.Gosched()
		} else {
			time.Sleep(50 * time.Microsecond)
		}
	}
}

// KillWriter makes the client look like one whose connection has just failed: its writer goroutine is gone
// (writerDone closed, nobody reads writeCh) while it is still a member of its group.
func (v *VerifClient) KillWriter() {
	select {
	case <-v.c.writerDone:
	default:
		close(v.c.writerDone)
	}
	v.c.writeCh = make(chan interface{})
}
