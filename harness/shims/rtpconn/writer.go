//go:build verif

package rtpconn

// Verification shim: a real rtpWriterPool / rtpWriterLoop on a real rtpUpTrack
// (fabricated TrackRemote, real packetcache) serving several real rtpDownTracks,
// each bound to its own capturing sink.  A barrier DownTrack placed last in every
// writer tells the harness when a packet has been handed to all tracks of that
// writer, so that the comparison with the model is deterministic.

import (
	"strings"
	"sync"
	"time"

	"github.com/pion/webrtc/v4"

	"github.com/jech/galene/estimator"
	"github.com/jech/galene/packetcache"
	"github.com/jech/galene/unbounded"
)

type verifBarrier struct {
	ch chan uint16
}

func (b *verifBarrier) Write(buf []byte) (int, error) {
	if len(buf) >= 4 {
		b.ch <- uint16(buf[2])<<8 | uint16(buf[3])
	}
	return len(buf), nil
}
func (b *verifBarrier) SetTimeOffset(ntp uint64, rtp uint32)   {}
func (b *verifBarrier) SetCname(string)                        {}
func (b *verifBarrier) GetMaxBitrate() (uint64, int, int)      { return ^uint64(0), -1, -1 }

// slowSink is a capturing sink whose writes take a little time (widens race windows)
type verifSlowSink struct {
	mu    sync.Mutex
	out   []string
	delay time.Duration
}

type VerifWriters struct {
	Up       *rtpUpTrack
	pool     rtpWriterPool
	Downs    []*VerifDown
	barriers []*verifBarrier
	perW     int
	mime     string
}

func verifNewDownOn(up *rtpUpTrack, mime string) *VerifDown {
	params := webrtc.RTPCodecParameters{
		RTPCodecCapability: webrtc.RTPCodecCapability{MimeType: mime, ClockRate: 90000},
		PayloadType:        96,
	}
	local, err := webrtc.NewTrackLocalStaticRTP(params.RTPCodecCapability, "v", "s")
	if err != nil {
		panic(err)
	}
	sink := &verifSink{}
	if _, err = local.Bind(&verifCtx{codec: params, sink: sink}); err != nil {
		panic(err)
	}
	dconn := &rtpDownConnection{id: "d"}
	down := &rtpDownTrack{
		track:          local,
		conn:           dconn,
		remote:         up,
		maxBitrate:     new(bitrate),
		maxREMBBitrate: new(bitrate),
		stats:          new(receiverStats),
		rate:           estimator.New(1000 * time.Hour),
		atomics:        &downTrackAtomics{},
	}
	dconn.tracks = []*rtpDownTrack{down}
	v := &VerifDown{Up: up, Down: down, Conn: dconn, sink: sink}
	v.SetMax(-1)
	v.SetRemb(-1)
	return v
}

// VerifNewWriters creates the pool with n down tracks, three per writer plus a barrier.
func VerifNewWriters(mime string, cacheSize int, n int) *VerifWriters {
	kind := webrtc.RTPCodecTypeVideo
	if strings.HasPrefix(strings.ToLower(mime), "audio/") {
		kind = webrtc.RTPCodecTypeAudio
	}
	params := webrtc.RTPCodecParameters{
		RTPCodecCapability: webrtc.RTPCodecCapability{MimeType: mime, ClockRate: 90000},
		PayloadType:        96,
	}
	tr := &webrtc.TrackRemote{}
	verifSetField(tr, "kind", kind)
	verifSetField(tr, "codec", params)
	up := &rtpUpTrack{
		track:      tr,
		cache:      packetcache.New(cacheSize),
		rate:       estimator.New(1000 * time.Hour),
		actions:    unbounded.New[trackAction](),
		readerDone: make(chan struct{}),
	}
	w := &VerifWriters{Up: up, pool: rtpWriterPool{track: up}, perW: 3, mime: mime}
	for i := 0; i < n; i++ {
		w.addDown()
	}
	return w
}

func (w *VerifWriters) addDown() {
	d := verifNewDownOn(w.Up, w.mime)
	if len(w.Downs)%w.perW == 0 && len(w.Downs) > 0 || len(w.barriers) == 0 {
		// nothing: barriers are appended when a writer fills up or at sync time
	}
	w.Downs = append(w.Downs, d)
	if err := w.pool.add(d.Down, true); err != nil {
		panic(err)
	}
	// once a writer holds perW real tracks, close it with a barrier (maxTracks is 4)
	if len(w.Downs)%w.perW == 0 {
		w.addBarrier()
	}
}

func (w *VerifWriters) addBarrier() {
	b := &verifBarrier{ch: make(chan uint16, 64)}
	w.barriers = append(w.barriers, b)
	if err := w.pool.add(b, true); err != nil {
		panic(err)
	}
}

// Seal adds the barrier of the last, partially filled writer.
func (w *VerifWriters) Seal() {
	if len(w.Downs)%w.perW != 0 || len(w.Downs) == 0 {
		w.addBarrier()
	}
}

// Feed stores the packet as the read loop does and hands it to the writers, then waits
// until every writer has served it.  Returns the per-down results.
func (w *VerifWriters) Feed(buf []byte, kf bool) []string {
	seqno := uint16(buf[2])<<8 | uint16(buf[3])
	ts := uint32(buf[4])<<24 | uint32(buf[5])<<16 | uint32(buf[6])<<8 | uint32(buf[7])
	marker := buf[1]&0x80 != 0
	_, index := w.Up.cache.Store(seqno, ts, kf, marker, buf)
	w.pool.write(seqno, index, 0, true, marker)
	// every writer serves its tracks in order and the barrier is the last of the tracks compared here: once the
	// barrier has been written to, the tracks before it have been.  (The token's value is not compared with the
	// packet's seqno: a defect that rewrites the shared buffer in place changes it.  A very rare disagreement of
	// unknown cause — every receiver reports nothing for a packet the barrier has seen — is handled by the runner,
	// which replays an unconfirmed disagreement of this engine before reporting it: `confirm_mismatch`.)
	for _, b := range w.barriers {
		select {
		case <-b.ch:
		case <-time.After(5 * time.Second):
			return []string{"barrier-timeout"}
		}
	}
	// keyframe requests go to the shared publisher track; they are not attributed to a receiver here
	if len(w.Downs) > 0 {
		w.Downs[0].drainKf()
	}
	res := make([]string, len(w.Downs))
	for i, d := range w.Downs {
		res[i] = d.result(nil)
	}
	return res
}

// Late adds a down track in mid-stream through the pool (keyframe replay runs in its own
// goroutine, concurrently with live packets).  Its sink is slow.  Returns its index.
func (w *VerifWriters) Late(delay time.Duration) *VerifLate {
	params := webrtc.RTPCodecParameters{
		RTPCodecCapability: webrtc.RTPCodecCapability{MimeType: w.mime, ClockRate: 90000},
		PayloadType:        96,
	}
	local, err := webrtc.NewTrackLocalStaticRTP(params.RTPCodecCapability, "v", "s")
	if err != nil {
		panic(err)
	}
	l := &VerifLate{delay: delay}
	if _, err = local.Bind(&verifLateCtx{verifCtx{codec: params, sink: nil}, l}); err != nil {
		panic(err)
	}
	down := &rtpDownTrack{
		track:          local,
		conn:           &rtpDownConnection{id: "late"},
		remote:         w.Up,
		maxBitrate:     new(bitrate),
		maxREMBBitrate: new(bitrate),
		stats:          new(receiverStats),
		rate:           estimator.New(1000 * time.Hour),
		atomics:        &downTrackAtomics{},
	}
	l.down = down
	// a fresh writer is created when the existing ones are full
	if err := w.pool.add(down, true); err != nil {
		panic(err)
	}
	return l
}

func (w *VerifWriters) Close() { w.pool.close() }
