//go:build verif

package rtpconn

// VerifWhipLocked reports whether c.mu is currently held by somebody (used by
// the deterministic replay of the Group.mu <-> WhipClient.mu inversion, engine
// `group`, op `whipdl`: the replay releases the joiner only once Close() owns c.mu).
func VerifWhipLocked(c *WhipClient) bool {
	if c.mu.TryLock() {
		c.mu.Unlock()
		return false
	}
	return true
}
