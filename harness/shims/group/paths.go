//go:build verif

package group

// Verification shim (mapped into the package by `go build -overlay`; not part
// of /repo): reaches the unexported name validators and getDescriptionFile.

import "os"

func VerifValidGroupName(name string) bool { return validGroupName(name) }


// VerifDescFiles runs getDescriptionFile with Directory = dir and a `get`
// callback that records the file names it is given and answers
// os.ErrNotExist except on call number hit (0-based), where it succeeds.
func VerifDescFiles(dir, name string, allowSubgroups bool, hit int) (tried []string, file string, isSubgroup bool, found bool) {
	saved := Directory
	Directory = dir
	defer func() { Directory = saved }()
	_, file, isSubgroup, err := getDescriptionFile(name, allowSubgroups,
		func(fn string) (struct{}, error) {
			k := len(tried)
			tried = append(tried, fn)
			if k == hit {
				return struct{}{}, nil
			}
			return struct{}{}, os.ErrNotExist
		})
	return tried, file, isSubgroup, err == nil
}
