//go:build verif

package group

// Verification shim for the `token` engine (C09).  GetPermission reads the
// canonical host through GetConfiguration(), which caches data/config.json by
// (mtime, size).  With no config.json in DataDirectory, GetConfiguration
// returns the cached *Configuration as long as it is Zero() (no mtime/size),
// so the harness installs the host here instead of racing file timestamps.
// The real GetConfiguration still runs on every call.

func VerifTokSetCanonicalHost(host string) {
	configuration.mu.Lock()
	defer configuration.mu.Unlock()
	configuration.configuration = &Configuration{CanonicalHost: host}
}

func VerifTokValidUsername(name string) bool { return validUsername(name) }
