//go:build verif

package group

// Verification shim for the `auth` engine (C08).  Mapped into the package by
// `go build -overlay`; /repo is not modified.

// VerifValidUsername exposes validUsername.
func VerifValidUsername(s string) bool { return validUsername(s) }

// VerifRoles returns the real role table (the package-level map itself).
func VerifRoles() map[string][]string { return permissionsMap }

func verifCopyRoles(m map[string][]string) map[string][]string {
	out := make(map[string][]string, len(m))
	for k, v := range m {
		out[k] = append(make([]string, 0, len(v)), v...)
	}
	return out
}

// snapshot of the role table taken at package initialisation, before any
// client could have edited a role's slice in place
var verifRolesSnapshot = verifCopyRoles(permissionsMap)

// VerifRestoreRoles puts fresh copies of the initial role lists back into the
// package-level table, so that every case starts from the state of a freshly
// started server.
func VerifRestoreRoles() {
	for k := range permissionsMap {
		if _, ok := verifRolesSnapshot[k]; !ok {
			delete(permissionsMap, k)
		}
	}
	for k, v := range verifRolesSnapshot {
		permissionsMap[k] = append(make([]string, 0, len(v)), v...)
	}
}
