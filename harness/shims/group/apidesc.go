//go:build verif

package group

import (
	"encoding/json"
	"os"
	"strings"
)

// Verification shim for engine `api`: reaches rewriteDescriptionFile (the
// temp-file/fsync/rename sequence whose system calls are captured with strace)
// and readDescription (what a restarted server reads back).

func VerifApiRewriteDescriptionFile(filename string, desc *Description) error {
	return rewriteDescriptionFile(filename, desc)
}

func VerifApiReadDescription(name string) (*Description, error) {
	return readDescription(name, false)
}

// VerifApiForgetGroups empties the in-memory group table (start of a case of
// engine `api`: op `live` makes groups live with group.Add).
func VerifApiForgetGroups() {
	groups.mu.Lock()
	groups.groups = nil
	groups.mu.Unlock()
}

// VerifApiDescTag is the entity tag that GetSanitisedDescription would serve
// for a description (also for a subgroup's, which it refuses to serve).
func VerifApiDescTag(d *Description) string {
	return makeETag(d.fileSize, d.modTime)
}

// VerifApiCacheCheck compares, for a group that is live in memory and whose definition file has not
// changed since it was cached (same size and modification time), the users, wildcard user and keys
// of the cached description with those in the file.  Returns "" when there is nothing to compare or
// they agree, else what differs.  (A read through the API must not alter what logins are checked against.)
func VerifApiCacheCheck(name string) string {
	g := Get(name)
	if g == nil {
		return ""
	}
	g.mu.Lock()
	d := g.description
	g.mu.Unlock()
	if d == nil || d.FileName == "" {
		return ""
	}
	fi, err := os.Stat(d.FileName)
	if err != nil || fi.Size() != d.fileSize || !fi.ModTime().Equal(d.modTime) {
		return ""
	}
	// read the file the way the code does (legacy formats are upgraded on the way in)
	fp, err := readDescription(name, true)
	if err != nil || fp.FileName != d.FileName || fp.fileSize != d.fileSize || !fp.modTime.Equal(d.modTime) {
		return ""
	}
	f := *fp
	var out []string
	cmp := func(what string, x, y any) {
		bx, _ := json.Marshal(x)
		by, _ := json.Marshal(y)
		if string(bx) != string(by) {
			out = append(out, what)
		}
	}
	groups.mu.Lock() // readers of the cached description hold no lock; the API's writers hold this one
	cmp("users", d.Users, f.Users)
	cmp("wildcard-user", d.WildcardUser, f.WildcardUser)
	cmp("keys", d.AuthKeys, f.AuthKeys)
	groups.mu.Unlock()
	return strings.Join(out, "+")
}
