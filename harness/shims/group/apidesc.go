//go:build verif

package group

// Verification shim for engine `api`: reaches rewriteDescriptionFile (the
// temp-file/fsync/rename sequence whose system calls are captured with strace)
// and readDescription (what a restarted server reads back).

func VerifApiRewriteDescriptionFile(filename string, desc *Description) error {
	return rewriteDescriptionFile(filename, desc)
}

func VerifApiReadDescription(name string) (*Description, error) {
	return readDescription(name, false)
}

// VerifApiForgetGroups empties the in-memory group table (start of a case of
// engine `api`: op `live` makes groups live with group.Add).
func VerifApiForgetGroups() {
	groups.mu.Lock()
	groups.groups = nil
	groups.mu.Unlock()
}

// VerifApiDescTag is the entity tag that GetSanitisedDescription would serve
// for a description (also for a subgroup's, which it refuses to serve).
func VerifApiDescTag(d *Description) string {
	return makeETag(d.fileSize, d.modTime)
}
