//go:build verif

package group

// Verification shim for engine `api`: reaches rewriteDescriptionFile (the
// temp-file/fsync/rename sequence whose system calls are captured with strace)
// and readDescription (what a restarted server reads back).

func VerifApiRewriteDescriptionFile(filename string, desc *Description) error {
	return rewriteDescriptionFile(filename, desc)
}

func VerifApiReadDescription(name string) (*Description, error) {
	return readDescription(name, false)
}
