//go:build verif

package group

// Verification shim for the `sig` engine (mapped into package group by
// `go build -overlay`; not part of /repo).  It only resets package state
// between cases and reads unexported fields; it never changes behaviour.

// the literal of description.go, used to restore the (shared, mutable) role
// table between cases: the slices handed out by Permissions.Permissions alias
// these arrays and webclient.go edits them in place.
var verifRoleTable = map[string][]string{
	"op":      {"op", "present", "message", "caption", "token"},
	"present": {"present", "message"},
	"message": {"message"},
	"observe": {},
	"caption": {"caption"},
	"admin":   {"admin"},
}

// VerifReset forgets every group and restores the role table.
func VerifReset() {
	groups.mu.Lock()
	groups.groups = nil
	groups.mu.Unlock()
	for k, v := range verifRoleTable {
		w := make([]string, len(v))
		copy(w, v)
		permissionsMap[k] = w
	}
	configuration.mu.Lock()
	configuration.configuration = nil
	configuration.mu.Unlock()
}

// VerifRole returns the current contents of a role's shared array.
func VerifRole(name string) []string {
	return append([]string(nil), permissionsMap[name]...)
}

// VerifHistory returns the stored chat history without discarding anything.
func VerifHistory(g *Group) []ChatHistoryEntry {
	g.mu.Lock()
	defer g.mu.Unlock()
	h := make([]ChatHistoryEntry, len(g.history))
	copy(h, g.history)
	return h
}

// VerifLoaded reports whether a group is in the in-memory table.
func VerifLoaded(name string) *Group {
	return Get(name)
}

// VerifMuHeld reports whether somebody holds the group's mutex right now (the `sig` engine's mock member
// uses it to tell an announcement made under the lock from one made by a detached goroutine).
func VerifMuHeld(g *Group) bool {
	if g.mu.TryLock() {
		g.mu.Unlock()
		return false
	}
	return true
}
