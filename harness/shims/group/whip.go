//go:build verif

package group

// Verification shim for engine `whip`.

// VerifWhipDropGroup removes a group from memory whatever its client table
// holds (harness clean-up between cases: a broken build may leave members
// behind that DelClient can no longer remove).
func VerifWhipDropGroup(name string) {
	groups.mu.Lock()
	defer groups.mu.Unlock()
	delete(groups.groups, name)
}
