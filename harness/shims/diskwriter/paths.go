//go:build verif

package diskwriter

// Verification shim (mapped into the package by `go build -overlay`; not part
// of /repo): reaches sanitise and openDiskFile.

import (
	"os"

	"github.com/jech/galene/group"
)

func VerifSanitise(s string) string { return sanitise(s) }

func VerifOpenDiskFile(root *os.Root, username, extension string) (*os.File, error) {
	return openDiskFile(root, username, extension)
}

// VerifNewAndOpen does what a recording does with names: diskwriter.New(g)
// (MkdirAll + OpenRoot of the group's directory) and then openDiskFile on that
// root for the given username.
func VerifNewAndOpen(g *group.Group, username, extension string) (newErr, openErr error) {
	c, err := New(g)
	if err != nil {
		return err, nil
	}
	defer c.Close()
	f, err := openDiskFile(c.root, username, extension)
	if err != nil {
		return nil, err
	}
	f.Close()
	return nil, nil
}
