//go:build verif

package diskwriter

// Verification shim for engine `rec` (C20).  Mapped into package diskwriter by
// `go build -overlay`; /repo is not modified.
//
// It builds a real diskwriter.Client / diskConn / diskTrack through the real
// Client.PushConn on a mock conn.Up / conn.UpTrack whose GetPacket is backed
// by a real packetcache.Cache, and makes the environment of diskTrack.Write
// observable without changing it:
//
//   - the sample builder of every track is replaced by an identical one
//     (same maxLate, same depacketizer type, same clock rate: read from the
//     builder that newDiskConn created, by reflection) whose depacketizer is
//     wrapped by a pass-through spy and which has a packet release handler:
//     together they tell which packets each Pop consumed (Unmarshal followed
//     by release) — the samples, with their timestamps, that writeBuffered
//     gets from the third-party builder;
//   - mkvcore.BlockWriteCloser is an interface: the writers installed by
//     initWriter are wrapped (pass-through) at the first hook point after
//     they appear (the mock track's Codec() is called by writeBuffered just
//     before every Write), so every block handed to the container library is
//     seen with its keyframe flag and timestamp;
//   - GetPacket / RequestKeyframe / Codec are the mock's methods.
//
// Time: requestKeyframe's 500 ms rate limit is neutralised by zeroing
// kfRequested before each op (so at most the first request of an op reaches
// the mock); setOrigin's `now` is the wall clock on the Write path (the model
// treats the elapsed time as an input read from the observed origin) and an
// explicit virtual time in the unit-level ops so/sto/ao.

import (
	"errors"
	"fmt"
	"os"
	"path/filepath"
	"reflect"
	"runtime"
	"strings"
	"time"

	"github.com/at-wat/ebml-go/mkvcore"
	"github.com/pion/rtp"
	"github.com/pion/webrtc/v4"

	"github.com/jech/samplebuilder"

	"github.com/jech/galene/conn"
	"github.com/jech/galene/group"
	"github.com/jech/galene/packetcache"
)

// VerifBase is the origin of the virtual clock of the unit-level ops.
var VerifBase = time.Date(2001, 9, 9, 1, 46, 40, 0, time.UTC)

// VerifNTPEpochNs: ns between the NTP epoch and VerifBase.
func VerifNTPEpochNs() int64 { return int64(VerifBase.Sub(ntpEpochForVerif)) }

var ntpEpochForVerif = time.Date(1900, 1, 1, 0, 0, 0, 0, time.UTC)

type VerifUp struct{ id string }

func (u *VerifUp) AddLocal(conn.Down) error { return nil }
func (u *VerifUp) DelLocal(conn.Down) bool  { return true }
func (u *VerifUp) Id() string               { return u.id }
func (u *VerifUp) Label() string            { return "" }
func (u *VerifUp) User() (string, string)   { return "uid", "pub/lisher" }

type VerifUpTrack struct {
	rec    *VerifRec
	idx    int
	codec  webrtc.RTPCodecCapability
	kind   webrtc.RTPCodecType
	Cache  *packetcache.Cache
	locals int
}

func (t *VerifUpTrack) AddLocal(conn.DownTrack) error { t.locals++; return nil }
func (t *VerifUpTrack) DelLocal(conn.DownTrack) bool  { t.locals--; return true }
func (t *VerifUpTrack) Kind() webrtc.RTPCodecType     { return t.kind }
func (t *VerifUpTrack) Label() string                 { return "" }
func (t *VerifUpTrack) Codec() webrtc.RTPCodecCapability {
	if t.rec != nil {
		t.rec.onCodec()
	}
	return t.codec
}
func (t *VerifUpTrack) GetPacket(seqno uint16, result []byte, nack bool) uint16 {
	n := t.Cache.Get(seqno, result)
	if t.rec != nil {
		t.rec.hook()
		t.rec.ev(fmt.Sprintf("g%d:%d", seqno, n))
	}
	return n
}
func (t *VerifUpTrack) RequestKeyframe() error {
	if t.rec != nil {
		t.rec.hook()
		t.rec.ev("k")
	}
	return nil
}

type verifPopped struct {
	outLen int
	err    bool
	head   bool
}

type verifSpy struct {
	inner rtp.Depacketizer
	rec   *VerifRec
	trk   int
	last  *verifPopped
}

func (s *verifSpy) IsPartitionHead(p []byte) bool { return s.inner.IsPartitionHead(p) }
func (s *verifSpy) IsPartitionTail(m bool, p []byte) bool {
	return s.inner.IsPartitionTail(m, p)
}
func (s *verifSpy) Unmarshal(p []byte) ([]byte, error) {
	out, err := s.inner.Unmarshal(p)
	s.last = &verifPopped{outLen: len(out), err: err != nil, head: s.inner.IsPartitionHead(p)}
	return out, err
}

// release is the builder's packet release handler: a release that directly
// follows an Unmarshal is a packet consumed by Pop, any other is a drop.
func (s *verifSpy) release(p *rtp.Packet) {
	u := s.last
	s.last = nil
	if u == nil {
		return
	}
	s.rec.popped(s, p, u)
}

// the sample currently being popped (packets seen so far)
type verifGroup struct {
	trk     int
	ts      uint32
	lastSeq uint16
	n       int
	length  int
	tail    bool
}

type verifWriter struct {
	inner mkvcore.BlockWriteCloser
	rec   *VerifRec
	trk   int
}

func (w *verifWriter) Write(kf bool, tm int64, b []byte) (int, error) {
	w.rec.flush()
	k := 0
	if kf {
		k = 1
	}
	w.rec.ev(fmt.Sprintf("W%d:%d:%d:%s:%d", w.trk, k, tm, w.rec.Hash(b), len(w.rec.Files)-1))
	w.rec.Blocks = append(w.rec.Blocks, VerifBlock{File: len(w.rec.Files) - 1, Track: w.trk, Keyframe: kf, Tm: tm,
		Data: append([]byte(nil), b...)})
	return w.inner.Write(kf, tm, b)
}

func (w *verifWriter) Close() error {
	w.rec.flush()
	return w.inner.Close()
}

type VerifBlock struct {
	File     int
	Track    int
	Keyframe bool
	Tm       int64
	Data     []byte
}

type VerifRec struct {
	Client *Client
	Group  *group.Group
	Up     *VerifUp
	Tracks []*VerifUpTrack
	Dir    string
	Hash   func([]byte) string

	dconn  *diskConn
	evs    []string
	fc     []string
	cur    *verifGroup
	lastFn bool // previous Codec() call came from writeRTP
	Panicked bool // an op panicked: the recorder's state (and its mutex) cannot be trusted any more
	initPending bool // initWriter has been seen running since the last reconciliation
	orgOK  []bool
	Files  []string
	Blocks []VerifBlock
}

func (r *VerifRec) ev(s string) { r.evs = append(r.evs, s) }

// flush emits the pending sample
func (r *VerifRec) flush() {
	if r.cur != nil {
		r.ev(fmt.Sprintf("S%d:%d:%d", r.cur.trk, r.cur.ts, r.cur.n))
		r.cur = nil
	}
}

func (r *VerifRec) popped(s *verifSpy, p *rtp.Packet, u *verifPopped) {
	r.wrap()
	g := r.cur
	if g != nil && (g.trk != s.trk || g.ts != p.Timestamp || g.lastSeq+1 != p.SequenceNumber || g.tail || u.head) {
		r.flush()
		g = nil
	}
	if g == nil {
		g = &verifGroup{trk: s.trk, ts: p.Timestamp}
		r.cur = g
	}
	g.lastSeq = p.SequenceNumber
	g.n++
	g.length += u.outLen
	g.tail = s.inner.IsPartitionTail(p.Marker, p.Payload)
	if u.err {
		// Pop returns nil after a depacketizer error: the packets consumed so
		// far are lost and writeBuffered's loop ends
		r.cur = nil
		r.ev(fmt.Sprintf("E%d:%d:%d", g.trk, g.ts, g.n))
	}
}

// hook is called at every observable point: pending sample is complete,
// new writers are wrapped.
func (r *VerifRec) hook() {
	r.flush()
	r.wrap()
	r.snapshot(true)
}

// snapshot notices that setOrigin has made a track's origin valid
func (r *VerifRec) snapshot(emit bool) {
	c := r.dconn
	if c == nil {
		return
	}
	for len(r.orgOK) < len(c.tracks) {
		r.orgOK = append(r.orgOK, false)
	}
	for i, t := range c.tracks {
		v := valid(t.origin)
		if v && !r.orgOK[i] && emit {
			r.ev(fmt.Sprintf("O%d:%d:%d", i, value(t.origin), c.originRemote))
		}
		r.orgOK[i] = v
	}
}

func (r *VerifRec) onCodec() {
	r.hook()
	// who is asking?  the first Codec() call of each writeRTP invocation
	// marks the start of that invocation in the event list.
	pcs := make([]uintptr, 4)
	n := runtime.Callers(3, pcs)
	fromWriteRTP := false
	if n > 0 {
		fr, _ := runtime.CallersFrames(pcs[:n]).Next()
		fromWriteRTP = strings.HasSuffix(fr.Function, ".writeRTP")
	}
	if fromWriteRTP && !r.lastFn {
		r.ev("R")
	}
	r.lastFn = fromWriteRTP
	if n > 0 {
		fr, _ := runtime.CallersFrames(pcs[:n]).Next()
		if strings.HasSuffix(fr.Function, ".initWriter") {
			r.initPending = true
		}
	}
}

// reconcile finds files that initWriter created and that were closed again
// before any hook point was reached (a keyframe of new dimensions popped by
// the flush inside conn.close(): the file is created by the nested
// initWriter and its writers are closed by the enclosing close()).
func (r *VerifRec) reconcile() {
	if !r.initPending {
		return
	}
	c := r.dconn
	dir := filepath.Join(r.Dir, r.Group.Name())
	ents, err := os.ReadDir(dir)
	if err != nil {
		return
	}
	cur := ""
	if c.file != nil {
		cur = c.file.Name()
	}
	for _, en := range ents {
		name := filepath.Join(dir, en.Name())
		if name == cur || filepath.Base(cur) == en.Name() {
			continue
		}
		known := false
		for _, f := range r.Files {
			if filepath.Base(f) == en.Name() {
				known = true
			}
		}
		if !known {
			r.Files = append(r.Files, name)
			ext := strings.TrimPrefix(filepath.Ext(name), ".")
			r.fc = append(r.fc, fmt.Sprintf("I%s:%dx%d", ext, c.width, c.height))
		}
	}
	r.initPending = false
}

// wrap wraps writers installed by initWriter since the last call.
func (r *VerifRec) wrap() {
	c := r.dconn
	if c == nil {
		return
	}
	r.reconcile()
	fresh := false
	for i, t := range c.tracks {
		if t.writer == nil {
			continue
		}
		if _, ok := t.writer.(*verifWriter); !ok {
			t.writer = &verifWriter{inner: t.writer, rec: r, trk: i}
			fresh = true
		}
	}
	if fresh && c.file == nil {
		// writers of a file that conn.close() has already forgotten (created by
		// a nested initWriter): reconcile() has found the file in the directory
		fresh = false
	}
	if fresh {
		name := c.file.Name()
		r.Files = append(r.Files, name)
		ext := strings.TrimPrefix(filepath.Ext(name), ".")
		r.fc = append(r.fc, fmt.Sprintf("I%s:%dx%d", ext, c.width, c.height))
	}
}

func (r *VerifRec) begin() {
	r.evs = nil
	r.fc = nil
	r.cur = nil
	r.lastFn = false
	if r.dconn != nil {
		for _, t := range r.dconn.tracks {
			t.kfRequested = time.Time{}
		}
	}
}

func (r *VerifRec) end() string {
	r.hook()
	e := "-"
	if len(r.evs) > 0 {
		e = strings.Join(r.evs, ",")
	}
	f := "-"
	if len(r.fc) > 0 {
		f = strings.Join(r.fc, ",")
	}
	return "ev=" + e + " fc=" + f + " " + r.State()
}

func mu32(m maybeUint32) string {
	if !valid(m) {
		return "-"
	}
	return fmt.Sprint(value(m))
}

// State prints lastSeqno and origin of every track, the connection's local
// origin (z = unset, rt = a wall-clock value, else virtual ns) and remote
// origin, whether a file is open.
func (r *VerifRec) State() string {
	c := r.dconn
	if c == nil {
		return "st=closed"
	}
	var ls, os_ []string
	for _, t := range c.tracks {
		ls = append(ls, mu32(t.lastSeqno))
		os_ = append(os_, mu32(t.origin))
	}
	ol := "z"
	if !c.originLocal.Equal(time.Time{}) {
		d := c.originLocal.Sub(VerifBase)
		if d > -1000*time.Hour && d < 1000*time.Hour {
			ol = fmt.Sprint(int64(d))
		} else {
			ol = "rt"
		}
	}
	f := 0
	if c.file != nil {
		f = 1
	}
	var ws []string
	for _, t := range c.tracks {
		if t.writer != nil {
			ws = append(ws, "1")
		} else {
			ws = append(ws, "0")
		}
	}
	return fmt.Sprintf("st=%s;%s;%s;%d;%d;%s", strings.Join(ls, "/"), strings.Join(os_, "/"), ol, c.originRemote, f, strings.Join(ws, "/"))
}

type VerifTrackSpec struct {
	Mime      string
	ClockRate uint32
	Channels  uint16
	CacheSize int
}

// VerifNewRec creates the recorder through the real New/PushConn.
func VerifNewRec(g *group.Group, dir string, specs []VerifTrackSpec, hash func([]byte) string) (*VerifRec, error) {
	Directory = dir
	client, err := New(g)
	if err != nil {
		return nil, err
	}
	r := &VerifRec{Client: client, Group: g, Up: &VerifUp{id: "up1"}, Dir: dir, Hash: hash}
	var tracks []conn.UpTrack
	for i, s := range specs {
		kind := webrtc.RTPCodecTypeVideo
		if strings.HasPrefix(strings.ToLower(s.Mime), "audio/") {
			kind = webrtc.RTPCodecTypeAudio
		}
		t := &VerifUpTrack{idx: i, kind: kind,
			codec: webrtc.RTPCodecCapability{MimeType: s.Mime, ClockRate: s.ClockRate, Channels: s.Channels},
			Cache: packetcache.New(s.CacheSize)}
		r.Tracks = append(r.Tracks, t)
		tracks = append(tracks, t)
	}
	err = client.PushConn(g, r.Up.id, r.Up, tracks, "")
	if err != nil {
		client.Close()
		return nil, err
	}
	client.mu.Lock()
	r.dconn = client.down[r.Up.id]
	client.mu.Unlock()
	if r.dconn == nil {
		return nil, errors.New("no disk connection")
	}
	// diskConn.tracks is in the order audio, video; map mock tracks to it and
	// install the spies
	for i, t := range r.dconn.tracks {
		mt := t.remote.(*VerifUpTrack)
		mt.idx = i
		b := reflect.ValueOf(t.builder).Elem()
		maxLate := uint16(b.FieldByName("maxLate").Uint())
		rate := uint32(b.FieldByName("sampleRate").Uint())
		dt := b.FieldByName("depacketizer").Elem().Type()
		inner := reflect.New(dt.Elem()).Interface().(rtp.Depacketizer)
		spy := &verifSpy{inner: inner, rec: r, trk: i}
		t.builder = samplebuilder.New(maxLate, spy, rate, samplebuilder.WithPacketReleaseHandler(spy.release))
	}
	for _, t := range r.Tracks {
		t.rec = r
	}
	return r, nil
}

// NTracks is the number of tracks actually recorded.
func (r *VerifRec) NTracks() int { return len(r.dconn.tracks) }

// TrackOf maps a mock track to its index in the recording (-1: not recorded).
func (r *VerifRec) TrackOf(t *VerifUpTrack) int {
	for i, dt := range r.dconn.tracks {
		if dt.remote == conn.UpTrack(t) {
			return i
		}
	}
	return -1
}

// Write delivers a packet to the real diskTrack.Write.
func (r *VerifRec) Write(trk int, buf []byte) string {
	if r.dconn == nil || trk >= len(r.dconn.tracks) {
		return "notrack"
	}
	r.begin()
	defer r.notePanic()
	n, err := r.dconn.tracks[trk].Write(buf)
	e := ""
	if err != nil {
		e = "err"
	}
	return fmt.Sprintf("n=%d%s ", n, e) + r.end()
}

func (r *VerifRec) SetTimeOffset(trk int, ntp uint64, rtp uint32) string {
	if r.dconn == nil || trk >= len(r.dconn.tracks) {
		return "notrack"
	}
	r.begin()
	r.dconn.tracks[trk].SetTimeOffset(ntp, rtp)
	r.snapshot(false)
	r.evs = nil
	return r.end()
}

// Unit-level entry points with an explicit clock.
func (r *VerifRec) SetOrigin(trk int, ts uint32, nowNs int64) string {
	if r.dconn == nil || trk >= len(r.dconn.tracks) {
		return "notrack"
	}
	r.begin()
	t := r.dconn.tracks[trk]
	func() {
		t.conn.mu.Lock()
		defer t.conn.mu.Unlock()
		t.setOrigin(ts, VerifBase.Add(time.Duration(nowNs)), t.remote.(*VerifUpTrack).codec.ClockRate)
	}()
	r.snapshot(false)
	r.evs = nil
	return r.end()
}

func (r *VerifRec) AdjustOrigin(trk int, ts uint32) string {
	if r.dconn == nil || trk >= len(r.dconn.tracks) {
		return "notrack"
	}
	r.begin()
	t := r.dconn.tracks[trk]
	func() {
		t.conn.mu.Lock()
		defer t.conn.mu.Unlock()
		t.adjustOrigin(ts)
	}()
	r.snapshot(false)
	r.evs = nil // Codec() calls of adjustOrigin are not events
	return r.end()
}

// Close ends the recording: kind 0 = diskConn.Close (what replacing the
// connection does), 1 = Client.Close (recording stopped), 2 = PushConn with a
// nil connection (the publisher left).
func (r *VerifRec) Close(kind int) string {
	if r.dconn == nil {
		return "closed"
	}
	r.begin()
	defer r.notePanic()
	var err error
	switch kind {
	case 0:
		err = r.dconn.Close()
	case 1:
		err = r.Client.Close()
	default:
		err = r.Client.PushConn(r.Group, r.Up.id, nil, nil, "")
	}
	s := r.end()
	open := 0
	for _, t := range r.dconn.tracks {
		if t.writer != nil {
			open++
		}
	}
	locals := 0
	for _, t := range r.Tracks {
		locals += t.locals
	}
	if kind != 1 {
		r.Client.Close()
	}
	r.dconn = nil
	e := ""
	if err != nil {
		e = "err"
	}
	return fmt.Sprintf("%s open=%d locals=%d%s", s, open, locals, e)
}

// notePanic re-raises a panic of the code under test, saying whether it came
// from the third-party sample builder.
func (r *VerifRec) notePanic() {
	x := recover()
	if x == nil {
		return
	}
	r.Panicked = true
	buf := make([]byte, 1<<16)
	buf = buf[:runtime.Stack(buf, false)]
	where := "galene"
	st := string(buf)
	// innermost frame below the runtime's panic machinery
	if i := strings.Index(st, "panic("); i >= 0 {
		st = st[i:]
	}
	lines := strings.Split(st, "\n")
	for _, l := range lines[1:] {
		if strings.HasPrefix(l, "\t") || strings.HasPrefix(l, "runtime.") || strings.HasPrefix(l, "panic(") {
			continue
		}
		if strings.Contains(l, "jech/samplebuilder") {
			where = "samplebuilder"
		} else if strings.Contains(l, "at-wat/ebml-go") {
			where = "ebml-go"
		} else if strings.Contains(l, "pion/") {
			where = "pion"
		}
		break
	}
	panic(fmt.Sprintf("in:%s:%v", where, x))
}

// Abort releases everything without reporting (Reset of an unfinished case).
func (r *VerifRec) Abort() {
	if r.dconn != nil && !r.Panicked {
		r.Client.Close()
		r.dconn = nil
	}
	os.RemoveAll(r.Dir)
}
