// Engine `rec` (C20): synthetic opus/VP8/VP9/H264 frames, packetised with
// pion's payloaders, are "sent" (op p: stored in a real packetcache.Cache as the
// publisher's read loop does) and delivered (op w) to the real
// diskwriter.diskTrack.Write in arbitrary histories; sender reports (sr), the
// unit-level origin functions (so/ao) and the three ways of ending a recording
// (close) are further ops.  What the recorder asks of its environment
// (GetPacket, RequestKeyframe), what the third-party sample builder hands back
// (S events) and every block handed to the container library (W events) are
// observed through the shim (harness/shims/diskwriter/rec.go); at close the
// files are parsed back with ebml-go.
//
// Shared time origin (C20): the sync cases (caseCfg.sync) are audio+video
// histories in which diskTrack.adjustOrigin runs with a non-zero offset on the
// Write path (histogram keys adjustOrigin:nonzero:*); a few cases per run are
// delivered in real time (op at: the harness sleeps until the packet's send
// time and reports its own clock), because without sender reports for both
// tracks only the arrival times relate the audio clock to the video clock.
// H264 keyframes come in pion's layout and in five hand-built legal ones
// (h264Key).
package main

import (
	"encoding/binary"
	"fmt"
	"io"
	"log"
	"os"
	"path/filepath"
	"runtime/debug"
	"sort"
	"strings"
	"time"

	"github.com/at-wat/ebml-go"
	"github.com/at-wat/ebml-go/webm"
	"github.com/pion/rtp/codecs"

	"github.com/jech/galene/diskwriter"
	"github.com/jech/galene/group"
	"github.com/jech/galene/packetcache"
	"github.com/jech/galene/zzverif/common"
)

func hash2(b []byte) uint64 {
	h := uint64(11)
	for _, x := range b {
		h = (h*263 + uint64(x) + 7) % 998244353
	}
	return h
}

func hashStr(b []byte) string {
	return fmt.Sprintf("%d:%d:%d", len(b), common.HashBytes(b), hash2(b))
}

type eng struct {
	g     *group.Group
	root  string
	ncase int
	rec   *diskwriter.VerifRec
	sent  []map[int][]byte
	t0    time.Time // when the recorder of the case was created (op at)
}

func (e *eng) Reset() {
	if e.rec != nil {
		e.rec.Abort()
		e.rec = nil
	}
	e.sent = nil
}

func (e *eng) init() {
	if e.g != nil {
		return
	}
	g, err := group.Add("rec", &group.Description{})
	if err != nil {
		panic(err)
	}
	e.g = g
	e.root = scratchRoot()
	os.RemoveAll(e.root)
	if err := os.MkdirAll(e.root, 0700); err != nil {
		panic(err)
	}
}

// scratchRoot is where the recordings of this run are written (and removed):
// under the runner's build directory, else under /tmp/rec-scratch.
func scratchRoot() string {
	base := "/tmp/rec-scratch"
	if r := os.Getenv("VERIF_ROOT"); r != "" {
		base = filepath.Join(r, ".build", "rec-scratch")
	}
	return filepath.Join(base, fmt.Sprintf("run-%d", os.Getpid()))
}

func u64(s string) uint64 {
	var n uint64
	_, err := fmt.Sscan(s, &n)
	if err != nil {
		panic("bad number " + s)
	}
	return n
}

func i64(s string) int64 {
	var n int64
	_, err := fmt.Sscan(s, &n)
	if err != nil {
		panic("bad number " + s)
	}
	return n
}

func (e *eng) Exec(op []string) string {
	if os.Getenv("VERIF_DEBUG") != "" {
		defer func() {
			if r := recover(); r != nil {
				fmt.Fprintf(os.Stderr, "panic in %v: %v\n%s\n", op[:2], r, debug.Stack())
				panic(r)
			}
		}()
	}
	a := func(i int) int { return common.Atoi(op[i]) }
	switch op[0] {
	case "new":
		e.init()
		if e.rec != nil {
			e.rec.Abort()
			e.rec = nil
		}
		var specs []diskwriter.VerifTrackSpec
		for _, s := range op[1:] {
			f := strings.Split(s, ":")
			specs = append(specs, diskwriter.VerifTrackSpec{Mime: f[0], ClockRate: uint32(common.Atoi(f[1])),
				Channels: uint16(common.Atoi(f[2])), CacheSize: common.Atoi(f[3])})
		}
		e.ncase++
		dir := filepath.Join(e.root, fmt.Sprintf("c%d", e.ncase))
		rec, err := diskwriter.VerifNewRec(e.g, dir, specs, hashStr)
		if err != nil {
			os.RemoveAll(dir)
			return "err"
		}
		e.rec = rec
		e.t0 = time.Now()
		e.sent = make([]map[int][]byte, len(specs))
		for i := range e.sent {
			e.sent[i] = map[int][]byte{}
		}
		return fmt.Sprintf("ok %d", rec.NTracks())
	case "p":
		// p trk fid idx n kf w h pk pad pre off hex
		if e.rec == nil {
			return "norec"
		}
		trk := a(1)
		if trk >= len(e.sent) {
			return "notrack"
		}
		buf := common.Unhex(op[12])
		if len(buf) < 12 || len(buf) > packetcache.BufSize {
			return "badlen"
		}
		seq := int(binary.BigEndian.Uint16(buf[2:]))
		ts := binary.BigEndian.Uint32(buf[4:])
		e.rec.Tracks[trk].Cache.Store(uint16(seq), ts, a(5) != 0, buf[1]&0x80 != 0, buf)
		e.sent[trk][seq] = buf
		return "ok"
	case "w":
		if e.rec == nil {
			return "norec"
		}
		if e.rec.Panicked {
			return "dead"
		}
		trk := a(1)
		if trk >= len(e.sent) {
			return "notrack"
		}
		buf, ok := e.sent[trk][a(2)]
		if !ok {
			return "nopkt"
		}
		return e.rec.Write(trk, append([]byte(nil), buf...))
	case "wx":
		if e.rec == nil {
			return "norec"
		}
		return e.rec.Write(a(1), common.Unhex(op[2]))
	case "at":
		// at ms: real-time delivery.  Waits until ms milliseconds after the creation of the recorder and
		// reports the harness's own clock (us since then) on entry and on return: the ops between two
		// at ops happen between the return of the first and the entry of the second.
		if e.rec == nil {
			return "norec"
		}
		entry := time.Since(e.t0)
		if d := time.Duration(a(1))*time.Millisecond - entry; d > 0 {
			time.Sleep(d)
		}
		return fmt.Sprintf("ok %d %d", entry.Microseconds(), time.Since(e.t0).Microseconds())
	case "sr":
		if e.rec == nil {
			return "norec"
		}
		return e.rec.SetTimeOffset(a(1), u64(op[2]), uint32(u64(op[3])))
	case "so":
		if e.rec == nil {
			return "norec"
		}
		return e.rec.SetOrigin(a(1), uint32(u64(op[2])), i64(op[3]))
	case "ao":
		if e.rec == nil {
			return "norec"
		}
		return e.rec.AdjustOrigin(a(1), uint32(u64(op[2])))
	case "close":
		if e.rec == nil {
			return "norec"
		}
		if e.rec.Panicked {
			return "dead"
		}
		s := e.rec.Close(a(1))
		s += " " + e.files()
		os.RemoveAll(e.rec.Dir)
		e.rec = nil
		return s
	}
	panic("unknown op " + op[0])
}

// files parses every file of the recording back and prints it.
func (e *eng) files() string {
	dir := filepath.Join(e.rec.Dir, "rec")
	ents, _ := os.ReadDir(dir)
	onDisk := map[string]bool{}
	for _, en := range ents {
		onDisk[filepath.Join(dir, en.Name())] = true
	}
	names := append([]string(nil), e.rec.Files...)
	for _, n := range names {
		delete(onDisk, n)
	}
	// files the shim never saw being opened (should not exist)
	var extra []string
	for n := range onDisk {
		extra = append(extra, n)
	}
	sort.Strings(extra)
	names = append(names, extra...)
	out := []string{fmt.Sprintf("files=%d", len(names))}
	for _, n := range names {
		out = append(out, parseFile(n)...)
	}
	return strings.Join(out, " ")
}

func parseFile(name string) []string {
	ext := strings.TrimPrefix(filepath.Ext(name), ".")
	f, err := os.Open(name)
	if err != nil {
		return []string{"F:" + ext + ":openerr"}
	}
	defer f.Close()
	var doc struct {
		Header  webm.EBMLHeader `ebml:"EBML"`
		Segment webm.Segment    `ebml:"Segment"`
	}
	err = ebml.Unmarshal(f, &doc)
	if err != nil && err != io.EOF && err != io.ErrUnexpectedEOF {
		return []string{"F:" + ext + ":parseerr"}
	}
	if err != nil {
		return []string{"F:" + ext + ":truncated"}
	}
	out := []string{fmt.Sprintf("F:%s:%s:%d", ext, doc.Header.DocType, doc.Segment.Info.TimecodeScale)}
	for _, t := range doc.Segment.Tracks.TrackEntry {
		w, h, fr, ch := uint64(0), uint64(0), 0, uint64(0)
		if t.Video != nil {
			w, h = t.Video.PixelWidth, t.Video.PixelHeight
		}
		if t.Audio != nil {
			fr, ch = int(t.Audio.SamplingFrequency), t.Audio.Channels
		}
		out = append(out, fmt.Sprintf("T:%d:%d:%s:%dx%d:%d:%d", t.TrackNumber, t.TrackType,
			strings.ReplaceAll(t.CodecID, ":", "_"), w, h, fr, ch))
	}
	for _, c := range doc.Segment.Cluster {
		if len(c.BlockGroup) > 0 {
			out = append(out, "X:blockgroup")
		}
		for _, b := range c.SimpleBlock {
			k := 0
			if b.Keyframe {
				k = 1
			}
			var data []byte
			for _, d := range b.Data {
				data = append(data, d...)
			}
			x := ""
			if b.Lacing != ebml.LacingNo || b.Invisible || len(b.Data) != 1 {
				x = ":odd"
			}
			out = append(out, fmt.Sprintf("B:%d:%d:%d:%s%s", b.TrackNumber-1, int64(c.Timecode)+int64(b.Timecode), k, hashStr(data), x))
		}
	}
	return out
}

// ---------------------------------------------------------------------------
// synthetic sources

type frame struct {
	trk  int
	fid  int
	ts   uint32
	kf   bool
	w, h int
	data []byte // what the recorded sample must be
	capt int    // capture time, ms
	send int    // time at which the publisher sends it, ms
	pkts []*packet
}

type packet struct {
	f    *frame
	idx  int
	seq  int
	raw  []byte
	pre  []byte
	off  int
	pk   string
	pad  int
	send int
}

func (p *packet) op() string {
	f := p.f
	return fmt.Sprintf("p %d %d %d %d %s %d %d %s %d %s %d %s", f.trk, f.fid, p.idx, len(f.pkts), common.B2s(f.kf), f.w, f.h,
		p.pk, p.pad, common.Hex(p.pre), p.off, common.Hex(p.raw))
}

func (p *packet) contribution() []byte {
	end := len(p.raw) - p.pad
	c := append([]byte(nil), p.pre...)
	if p.off < end {
		c = append(c, p.raw[p.off:end]...)
	}
	return c
}

type source struct {
	r      *common.Rng
	trk    int
	codec  string // opus vp8 vp9 h264
	rate   int
	seq    int
	ts0    uint32
	fid    int
	mtu    int
	w, h   int
	vp8    *codecs.VP8Payloader
	vp9    *codecs.VP9Payloader
	h264   *codecs.H264Payloader
	padPct int
	big    bool
	tsOff  uint32 // added to every timestamp (timestamp torture)
	// forceLen > 0: length of the next frame (sync cases: frames of a chosen number of packets)
	forceLen int
	// layout of H264 keyframes: 0 = pion's payloader (STAP-A[SPS,PPS] + IDR, what browsers send),
	// 1..5 = the hand-built legal layouts of h264Key, -1 = a random one for every keyframe
	kfLayout int
	t        *common.Trace
}

func randBytes(r *common.Rng, n int, nonzero bool) []byte {
	b := make([]byte, n)
	for i := 0; i < n; i += 8 {
		x := r.U64()
		for j := 0; j < 8 && i+j < n; j++ {
			b[i+j] = byte(x >> (8 * j))
			if nonzero && b[i+j] == 0 {
				b[i+j] = 0x55
			}
		}
	}
	return b
}

func (s *source) frameLen() int {
	r := s.r
	if s.forceLen > 0 && s.codec != "opus" {
		return s.forceLen
	}
	if s.codec == "opus" {
		return common.Pick(r, 1, 3, 8, 20, 60, 120, 200)
	}
	switch r.Weighted(3, 5, 3, 1) {
	case 0:
		return r.Range(1, 12)
	case 1:
		return r.Range(12, s.mtu)
	case 2:
		return r.Range(s.mtu, 4*s.mtu)
	default:
		if s.big {
			return r.Range(4*s.mtu, 12*s.mtu)
		}
		return r.Range(s.mtu, 6*s.mtu)
	}
}

type bitw struct {
	b []byte
	n int
}

func (w *bitw) put(v uint64, bits int) {
	for i := bits - 1; i >= 0; i-- {
		if w.n%8 == 0 {
			w.b = append(w.b, 0)
		}
		if (v>>uint(i))&1 == 1 {
			w.b[w.n/8] |= 0x80 >> uint(w.n%8)
		}
		w.n++
	}
}

// next produces the next frame captured at time capt (ms).
func (s *source) next(capt int, key bool) *frame {
	r := s.r
	f := &frame{trk: s.trk, fid: s.fid, capt: capt, kf: key}
	s.fid++
	f.ts = s.ts0 + uint32(capt*(s.rate/1000)) + s.tsOff
	n := s.frameLen()
	var payloads [][]byte
	switch s.codec {
	case "opus":
		f.kf = false
		f.data = randBytes(r, n, false)
		payloads = (&codecs.OpusPayloader{}).Payload(uint16(s.mtu), f.data)
	case "vp8":
		if key && n < 10 && r.Intn(4) != 0 {
			n = r.Range(10, 40)
		}
		d := randBytes(r, n, false)
		if key {
			d[0] &^= 1
			if n >= 10 {
				d[3], d[4], d[5] = 0x9d, 0x01, 0x2a
				binary.LittleEndian.PutUint16(d[6:], uint16(s.w)|uint16(r.Intn(4))<<14)
				binary.LittleEndian.PutUint16(d[8:], uint16(s.h)|uint16(r.Intn(4))<<14)
				f.w, f.h = s.w, s.h
			}
		} else {
			d[0] |= 1
		}
		f.data = d
		payloads = s.vp8.Payload(uint16(s.mtu), d)
	case "vp9":
		var d []byte
		if key {
			bw := &bitw{}
			bw.put(2, 2)
			bw.put(0, 2) // profile 0
			bw.put(0, 1) // show_existing_frame
			bw.put(0, 1) // key frame
			bw.put(1, 1)
			bw.put(0, 1)
			bw.put(0x498342, 24)
			bw.put(1, 3) // colour space
			bw.put(0, 1)
			bw.put(uint64(s.w-1), 16)
			bw.put(uint64(s.h-1), 16)
			bw.put(0, 4)
			d = append(bw.b, randBytes(r, n, false)...)
			if !s.vp9.FlexibleMode {
				f.w, f.h = s.w, s.h
			}
		} else {
			d = randBytes(r, n, false)
			d[0] = 0x86
		}
		f.data = d
		payloads = s.vp9.Payload(uint16(s.mtu), d)
	case "h264":
		var nalus [][]byte
		mk := func(tp byte, n int) []byte {
			b := randBytes(r, n+1, true)
			b[0] = 0x60 | tp
			return b
		}
		lay := 0
		if key {
			lay = s.kfLayout
			if lay < 0 {
				lay = r.Weighted(3, 2, 2, 2, 1, 2)
			}
			if s.t != nil {
				s.t.Count(fmt.Sprintf("h264kf:layout%d", lay))
			}
			sps, pps, idr := mk(7, r.Range(4, 20)), mk(8, r.Range(2, 8)), mk(5, n)
			nalus, payloads = h264Key(lay, s.mtu, sps, pps, idr, mk(9, 1))
		} else {
			switch r.Weighted(6, 2, 2) {
			case 0:
				nalus = append(nalus, mk(1, n))
			case 1:
				nalus = append(nalus, mk(1, n), mk(1, s.frameLen()))
			default:
				nalus = append(nalus, mk(6, r.Range(2, 10)), mk(1, n))
			}
		}
		for _, nl := range nalus {
			f.data = append(f.data, 0, 0, 0, 1)
			f.data = append(f.data, nl...)
		}
		if payloads == nil {
			payloads = s.h264.Payload(uint16(s.mtu), f.data)
		}
	}
	if len(payloads) == 0 {
		panic("payloader produced nothing")
	}
	var all []byte
	for i, pl := range payloads {
		p := &packet{f: f, idx: i, pk: "z"}
		s.seq = (s.seq + 1) & 0xFFFF
		p.seq = s.seq
		hdr := make([]byte, 12)
		hdr[0] = 0x80
		hdr[1] = 96
		if s.codec == "opus" {
			hdr[1] = 111
		} else if i == len(payloads)-1 {
			hdr[1] |= 0x80
		}
		binary.BigEndian.PutUint16(hdr[2:], uint16(p.seq))
		binary.BigEndian.PutUint32(hdr[4:], f.ts)
		binary.BigEndian.PutUint32(hdr[8:], 0xCAFE0000+uint32(s.trk))
		p.raw = append(hdr, pl...)
		switch s.codec {
		case "opus":
			p.off = 12
		case "vp8":
			d := 1
			if pl[0]&0x80 != 0 {
				d = 2
				x := pl[1]
				if x&0x80 != 0 {
					if pl[2]&0x80 != 0 {
						d += 2
					} else {
						d++
					}
				}
				if x&0x40 != 0 {
					d++
				}
				if x&0x30 != 0 {
					d++
				}
			}
			p.off = 12 + d
		case "vp9":
			d := 3
			if pl[0]&0x02 != 0 {
				d = 11
			}
			p.off = 12 + d
		case "h264":
			tp := pl[0] & 0x1f
			switch {
			case tp == 24:
				p.pk = "s"
				p.off = len(p.raw)
				i := 1
				for i+2 <= len(pl) {
					l := int(binary.BigEndian.Uint16(pl[i:]))
					i += 2
					p.pre = append(p.pre, 0, 0, 0, 1)
					p.pre = append(p.pre, pl[i:i+l]...)
					i += l
				}
			case tp == 28:
				p.off = 14
				if pl[1]&0x80 != 0 {
					p.pre = []byte{0, 0, 0, 1, pl[0]&0xE0 | pl[1]&0x1f}
				}
			default:
				p.off = 12
				p.pre = []byte{0, 0, 0, 1}
			}
		}
		if s.padPct > 0 && r.Intn(100) < s.padPct && len(p.raw) < 1400 {
			p.pad = r.Range(1, 40)
			p.raw[0] |= 0x20
			padding := make([]byte, p.pad)
			padding[p.pad-1] = byte(p.pad)
			p.raw = append(p.raw, padding...)
		}
		all = append(all, p.contribution()...)
		f.pkts = append(f.pkts, p)
	}
	if string(all) != string(f.data) {
		panic(fmt.Sprintf("harness: contributions of %s frame do not add up (%d vs %d bytes)", s.codec, len(all), len(f.data)))
	}
	return f
}

// h264Key lays a keyframe access unit (SPS, PPS, IDR) out in RTP payloads.  Layout 0 leaves the
// packetisation to pion's payloader (one STAP-A with SPS and PPS, then the IDR slice: what
// browsers send); the others are legal (RFC 6184) but less usual:
//
//	1  STAP-A[SPS] | PPS | IDR            the SPS is the only NAL unit of its aggregate
//	2  STAP-A[AUD,SPS] | PPS | IDR        the SPS is the last NAL unit of its aggregate
//	3  STAP-A[PPS,SPS] | IDR              idem
//	4  STAP-A[SPS,PPS,IDR]                everything in one aggregate (small IDR; else as 5)
//	5  SPS | PPS | IDR                    single NAL unit packets
//
// where a NAL unit that does not fit the MTU is sent as FU-A fragments.  It returns the NAL units
// of the recorded frame, in order, and the payloads (nil: use the payloader).
func h264Key(lay, mtu int, sps, pps, idr, aud []byte) (nalus [][]byte, payloads [][]byte) {
	stapA := func(ns ...[]byte) []byte {
		b := []byte{0x78}
		for _, n := range ns {
			b = append(b, byte(len(n)>>8), byte(len(n)))
			b = append(b, n...)
		}
		return b
	}
	single := func(n []byte) [][]byte {
		if len(n) <= mtu || len(n) < 2 {
			return [][]byte{n}
		}
		var out [][]byte
		max := mtu - 2
		body := n[1:]
		for i := 0; i < len(body); i += max {
			end := i + max
			if end > len(body) {
				end = len(body)
			}
			fu := n[0] & 0x1f
			if i == 0 {
				fu |= 0x80
			}
			if end == len(body) {
				fu |= 0x40
			}
			out = append(out, append([]byte{n[0]&0xe0 | 28, fu}, body[i:end]...))
		}
		return out
	}
	if lay == 4 && 1+2+len(sps)+2+len(pps)+2+len(idr) > mtu {
		lay = 5
	}
	switch lay {
	case 1:
		nalus = [][]byte{sps, pps, idr}
		payloads = append([][]byte{stapA(sps)}, append(single(pps), single(idr)...)...)
	case 2:
		nalus = [][]byte{aud, sps, pps, idr}
		payloads = append([][]byte{stapA(aud, sps)}, append(single(pps), single(idr)...)...)
	case 3:
		nalus = [][]byte{pps, sps, idr}
		payloads = append([][]byte{stapA(pps, sps)}, single(idr)...)
	case 4:
		nalus = [][]byte{sps, pps, idr}
		payloads = [][]byte{stapA(sps, pps, idr)}
	case 5:
		nalus = [][]byte{sps, pps, idr}
		payloads = append(single(sps), append(single(pps), single(idr)...)...)
	default:
		nalus = [][]byte{sps, pps, idr}
	}
	return nalus, payloads
}

func ntpOf(ntp0 uint64, ms int) uint64 {
	sec := uint64(ms / 1000)
	frac := (uint64(ms%1000) << 32) / 1000
	return ntp0 + sec<<32 + frac
}

type caseCfg struct {
	audio   bool
	video   string // "" vp8 vp9 h264
	nframes int
	// delivery profile, percentages
	pSkip, pLost, pDelay, pDup, pLate int
	maxDelay                          int
	burst                             int // probability (per mille) of a burst
	burstMax                          int
	cacheA, cacheV                    int
	srMode                            int // 0 none, 1 before start, 2 random, 3 late only, 4 audio only, 5/6 audio/video only, before start, 7 audio before start, video at srMidAt
	srMidAt                           int
	vlat                              int // video pipeline latency, ms
	alat                              int // audio pipeline latency, ms
	// sync cases (audio and video; adjustOrigin runs with a non-zero offset on the Write path):
	// 1 outage: the first keyframe loses packets the cache cannot supply and 512 or more seqnos are lost after it;
	// 2 stall: the first keyframe loses one packet, the sample builder waits until its ring is full;
	// 3 srmid: the first sender report of the video track arrives between the first and the last packet of
	//   the first keyframe, the audio track (larger latency) has had its report
	sync int
	// the packets are delivered in real time (op at before every delivery): without sender reports for
	// both tracks only the arrival times relate the audio clock to the video clock
	paced    bool
	longTail bool
	dimChange                         bool
	preKey                            int // non-key video frames before the first keyframe
	closeKind                         int
	padPct                            int
	tsWild                            bool // timestamps jump around (before the origin, by 2^31)
}

func specString(c *caseCfg) string {
	var s []string
	if c.audio {
		s = append(s, fmt.Sprintf("audio/opus:48000:2:%d", c.cacheA))
	}
	switch c.video {
	case "vp8":
		s = append(s, fmt.Sprintf("video/VP8:90000:0:%d", c.cacheV))
	case "vp9":
		s = append(s, fmt.Sprintf("video/VP9:90000:0:%d", c.cacheV))
	case "h264":
		s = append(s, fmt.Sprintf("video/H264:90000:0:%d", c.cacheV))
	}
	return strings.Join(s, " ")
}

var startSeqs = []int{0, 1, 100, 255, 256, 511, 512, 32767, 32768, 57343, 57344, 65000, 65279, 65280, 65534, 65535}

func pickTs0(r *common.Rng) uint32 {
	switch r.Weighted(3, 2, 2, 1) {
	case 0:
		return uint32(r.U64())
	case 1:
		return 0xFFFFFFFF - uint32(r.Intn(200000)) // wraps during the case
	case 2:
		return uint32(r.Intn(100000))
	default:
		return 0x7FFFFFFF - uint32(r.Intn(200000))
	}
}

func streamCase(t *common.Trace, e common.Engine, r *common.Rng, c *caseCfg, label string) {
	t.Count("kind:" + label)
	t.Comment("kind " + label)
	// the origins of the tracks as the recorder reports them (st=…;origins;…): when a file is created by a
	// Write (fc=I…) and origins that were valid before have other values after it, adjustOrigin has run
	// with a non-zero offset
	prevOrg := ""
	do := func(op string) string {
		res := common.Do(t, e, op)
		i := strings.Index(res, " st=")
		if i < 0 {
			return res
		}
		f := strings.Split(strings.Fields(res[i+4:])[0], ";")
		if len(f) < 2 {
			return res
		}
		if (strings.HasPrefix(op, "w ") || strings.HasPrefix(op, "close ")) && strings.Contains(res, " fc=I") && prevOrg != "" {
			where := strings.Fields(op)[0]
			a, b := strings.Split(prevOrg, "/"), strings.Split(f[1], "/")
			moved := 0
			for k := range a {
				if k < len(b) && a[k] != "-" && b[k] != "-" && a[k] != b[k] {
					moved++
				}
			}
			if moved > 0 && moved == len(a) {
				t.Count(fmt.Sprintf("adjustOrigin:nonzero:%s:all-%d-tracks", where, moved))
			} else if moved > 0 {
				t.Count(fmt.Sprintf("adjustOrigin:nonzero:%s:one-of-two", where))
			}
		}
		prevOrg = f[1]
		return res
	}
	do("new " + specString(c))
	var srcs []*source
	mtu := common.Pick(r, 40, 60, 100, 100, 200, 400, 1200)
	if c.sync == 1 || c.sync == 2 {
		mtu = common.Pick(r, 40, 60, 100)
	}
	if c.audio {
		s := &source{r: r, trk: 0, codec: "opus", rate: 48000, mtu: 1200, padPct: c.padPct}
		srcs = append(srcs, s)
	}
	if c.video != "" {
		s := &source{r: r, trk: len(srcs), codec: c.video, rate: 90000, mtu: mtu, padPct: c.padPct,
			w: common.Pick(r, 16, 320, 640, 1280), h: common.Pick(r, 16, 240, 480, 720), big: r.Intn(5) == 0}
		s.vp8 = &codecs.VP8Payloader{EnablePictureID: r.Bool()}
		s.vp9 = &codecs.VP9Payloader{FlexibleMode: r.Intn(3) == 0, InitialPictureIDFn: func() uint16 { return uint16(r.Intn(0x8000)) }}
		s.h264 = &codecs.H264Payloader{}
		s.kfLayout = common.Pick(r, 0, 0, -1, -1, 1, 2, 3)
		s.t = t
		srcs = append(srcs, s)
	}
	for _, s := range srcs {
		if r.Intn(3) == 0 {
			s.seq = common.Pick(r, startSeqs...) - 1 - r.Intn(3)
			s.seq &= 0xFFFF
		} else {
			s.seq = r.Intn(65536)
		}
		s.ts0 = pickTs0(r)
		t.Count("codec:" + s.codec)
	}
	ntp0 := uint64(3968000000+r.Intn(1000000)) << 32
	if r.Intn(10) == 0 {
		ntp0 = uint64(r.Intn(100)) << 32
	}
	// frames, by capture time
	var frames []*frame
	var vframes []*frame
	forced := map[*packet]int{}
	if c.sync != 0 {
		vframes = syncFrames(t, r, c, srcs[len(srcs)-1], forced)
	}
	for _, s := range srcs {
		if c.sync != 0 && s.codec != "opus" {
			frames = append(frames, vframes...)
			continue
		}
		step, jit := 20, 0
		if s.codec != "opus" {
			step, jit = 33, 8
		}
		n := c.nframes
		if s.codec == "opus" {
			n = c.nframes * 33 / 20
		}
		capt := r.Intn(40)
		capt0 := capt
		sinceKey := 0
		for i := 0; i < n; i++ {
			key := false
			if s.codec != "opus" {
				key = i == c.preKey || (i > c.preKey && (r.Intn(25) == 0 || sinceKey > 60))
				if key {
					if sinceKey > 0 && c.dimChange && r.Intn(2) == 0 {
						s.w = common.Pick(r, 16, 320, 640, 1280)
						s.h = common.Pick(r, 16, 240, 480, 720)
						t.Count("dimchange")
					}
					sinceKey = 0
				}
				sinceKey++
			}
			if c.tsWild && i > 0 && r.Intn(6) == 0 {
				// jump: back to d ticks before the first timestamp (the origin, when the first frame is
				// written): just before it, around the old (2^16) and the new (2^30) limit between "late"
				// and "gone around 2^31", half way round
				d := common.Pick(r, 1, 100, 65535, 65536, 100000, 1<<30-1, 1<<30, 1<<30+1, 1<<31-1, 1<<31, 1<<31+5, 3<<30)
				back := uint32((capt-capt0)*(s.rate/1000)) + uint32(d)
				if r.Intn(3) == 0 {
					s.tsOff = 0
				} else {
					s.tsOff = -back
				}
				t.Count("tsjump")
			}
			f := s.next(capt, key)
			f.send = capt
			if s.codec != "opus" {
				f.send += c.vlat
			} else {
				f.send += c.alat
			}
			frames = append(frames, f)
			capt += step
			if jit > 0 {
				capt += r.Intn(jit)
			}
			if s.codec == "opus" && r.Intn(60) == 0 {
				capt += 20 * r.Range(1, 20) // DTX: a pause in the audio
			}
		}
	}
	sort.SliceStable(frames, func(i, j int) bool { return frames[i].send < frames[j].send })
	var pkts []*packet
	for _, f := range frames {
		for _, p := range f.pkts {
			if p.send == 0 {
				p.send = f.send
			}
		}
		pkts = append(pkts, f.pkts...)
	}
	// the packets of a large frame may be paced (sync cases): other packets are sent in between
	sort.SliceStable(pkts, func(i, j int) bool { return pkts[i].send < pkts[j].send })
	// sender reports
	type srev struct {
		at  int
		trk int
	}
	var srs []srev
	endT := 0
	if len(frames) > 0 {
		endT = frames[len(frames)-1].send
	}
	for _, s := range srcs {
		switch c.srMode {
		case 1:
			srs = append(srs, srev{-1, s.trk})
		case 2:
			for k := 0; k < 1+r.Intn(4); k++ {
				srs = append(srs, srev{r.Intn(endT + 1), s.trk})
			}
		case 3:
			srs = append(srs, srev{endT/3 + r.Intn(endT/2+1), s.trk})
		case 4:
			if s.trk == 0 {
				srs = append(srs, srev{r.Intn(endT + 1), s.trk})
			}
		case 5, 6:
			if (s.codec == "opus") == (c.srMode == 5) {
				srs = append(srs, srev{-1, s.trk})
			}
		case 7:
			if s.codec == "opus" {
				srs = append(srs, srev{-1, s.trk})
			} else {
				srs = append(srs, srev{c.srMidAt, s.trk})
			}
		}
	}
	sort.SliceStable(srs, func(i, j int) bool { return srs[i].at < srs[j].at })
	now := 0
	pace := func() {
		if c.paced {
			do(fmt.Sprintf("at %d", now))
		}
	}
	doSR := func(upTo int) {
		for len(srs) > 0 && srs[0].at <= upTo {
			x := srs[0]
			srs = srs[1:]
			pace()
			s := srcs[x.trk]
			capt := x.at
			if capt < 0 {
				capt = 0
			}
			if c.sync != 0 {
				capt += 1000 // never the NTP time 0, which the recorder takes for "no report yet"
			}
			do(fmt.Sprintf("sr %d %d %d", x.trk, ntpOf(ntp0, capt), s.ts0+uint32(capt*(s.rate/1000))))
			t.Count("sr")
		}
	}
	doSR(-1)
	// delivery
	type pending struct {
		at int
		p  *packet
		up bool // the packet reaches the server late, too
	}
	var pend []pending
	flushPend := func(i int, all bool) {
		for k := 0; k < len(pend); {
			if all || pend[k].at <= i {
				x := pend[k]
				pend = append(pend[:k], pend[k+1:]...)
				if x.up {
					do(x.p.op())
				}
				pace()
				do(fmt.Sprintf("w %d %d", x.p.f.trk, x.p.seq))
			} else {
				k++
			}
		}
	}
	burstLeft, burstKind := 0, 0
	for i, p := range pkts {
		now = p.send
		doSR(p.send)
		flushPend(i, false)
		if burstLeft == 0 && c.burst > 0 && r.Intn(1000) < c.burst {
			burstLeft = r.Range(2, c.burstMax)
			burstKind = r.Intn(2)
			t.Count("burst")
			if burstLeft >= 256 {
				t.Count("burst>=256")
			}
		}
		fate := 0
		if ff, ok := forced[p]; ok {
			fate = ff
		} else if burstLeft > 0 {
			burstLeft--
			fate = 1 + burstKind
		} else {
			x := r.Intn(100)
			switch {
			case x < c.pSkip:
				fate = 1
			case x < c.pSkip+c.pLost:
				fate = 2
			case x < c.pSkip+c.pLost+c.pDelay:
				fate = 3
			case x < c.pSkip+c.pLost+c.pDelay+c.pLate:
				fate = 4
			case x < c.pSkip+c.pLost+c.pDelay+c.pLate+c.pDup:
				fate = 5
			}
		}
		if fate == 0 || fate == 5 {
			pace()
		}
		switch fate {
		case 0:
			do(p.op())
			do(fmt.Sprintf("w %d %d", p.f.trk, p.seq))
		case 1: // reaches the server, not the recorder: to be recovered from the cache
			do(p.op())
			t.Count("fate:skip")
		case 2: // lost before the server
			t.Count("fate:lost")
		case 3: // reaches the recorder late
			do(p.op())
			pend = append(pend, pending{i + r.Range(1, c.maxDelay), p, false})
			t.Count("fate:delay")
		case 4: // reaches the server (and the recorder) late
			pend = append(pend, pending{i + r.Range(1, c.maxDelay), p, true})
			t.Count("fate:late")
		case 5:
			do(p.op())
			do(fmt.Sprintf("w %d %d", p.f.trk, p.seq))
			if r.Bool() {
				do(fmt.Sprintf("w %d %d", p.f.trk, p.seq))
			} else {
				pend = append(pend, pending{i + r.Range(1, c.maxDelay), p, false})
			}
			t.Count("fate:dup")
		}
	}
	flushPend(0, true)
	doSR(1 << 30)
	pace()
	do(fmt.Sprintf("close %d", c.closeKind))
}

// fit produces a non-key frame of exactly `want` packets (nil if it does not find one).
func (s *source) fit(capt, want int) *frame {
	seq, fid, v8, v9, h := s.seq, s.fid, *s.vp8, *s.vp9, *s.h264
	l := want * (s.mtu - 12)
	if l < 1 {
		l = 1
	}
	defer func() { s.forceLen = 0 }()
	for try := 0; try < 400; try++ {
		s.forceLen = l
		f := s.next(capt, false)
		if len(f.pkts) == want {
			return f
		}
		s.seq, s.fid, *s.vp8, *s.vp9, *s.h264 = seq, fid, v8, v9, h
		if len(f.pkts) < want {
			l += (s.mtu + 1) / 2
		} else if l > 1 {
			l--
		}
	}
	return nil
}

// syncFrames produces the video frames of a sync case (see caseCfg.sync) and the forced fates of
// their packets.
func syncFrames(t *common.Trace, r *common.Rng, c *caseCfg, s *source, forced map[*packet]int) []*frame {
	var frames []*frame
	capt := r.Intn(40)
	if c.sync == 3 {
		capt += c.alat + 40 // the audio is flowing when the first keyframe arrives
	}
	push := func(f *frame) *frame {
		f.send = f.capt + c.vlat
		frames = append(frames, f)
		capt += 33 + r.Intn(8)
		return f
	}
	add := func(key bool, flen int) *frame {
		s.forceLen = flen
		f := s.next(capt, key)
		s.forceLen = 0
		return push(f)
	}
	// n packets in non-key frames of about per packets
	fill := func(n, per int, lost bool) {
		for n > 0 {
			f := add(false, per*(s.mtu-12))
			if lost {
				for _, p := range f.pkts {
					forced[p] = 2
				}
			}
			n -= len(f.pkts)
		}
	}
	for i := 0; i < c.preKey; i++ {
		add(false, 0)
	}
	k1 := add(true, r.Range(2, 4)*s.mtu)
	n1 := len(k1.pkts)
	switch c.sync {
	case 1:
		if r.Bool() {
			for _, p := range k1.pkts[1:] {
				forced[p] = 2
			}
		} else {
			forced[k1.pkts[r.Range(1, n1-1)]] = 2
		}
		// an outage of 512 seqnos or more that lasts about offset ms: frames of many packets, never sent
		lost := common.Pick(r, 512, 513, 520, 600, 1000)
		offset := common.Pick(r, 100, 250, 500, 900, 1300, 1300, 2200)
		fill(lost, lost/(offset/37+1)+1, true)
	case 2:
		forced[k1.pkts[r.Range(1, n1-1)]] = 2
		// every other packet is delivered: the sample builder waits for the missing packet until its
		// ring (2*256+1 slots, the first packet of the keyframe in slot 0) is full; the last frame before
		// the next keyframe ends in the last slot
		per := common.Pick(r, 10, 15, 15, 20)
		for cum := n1; cum < 513; {
			k := per
			if 513-cum <= per+3 {
				k = 513 - cum
			}
			f := s.fit(capt, k)
			if f == nil {
				f = add(false, per*s.mtu)
				t.Count("sync:unaligned")
			} else {
				push(f)
			}
			cum += len(f.pkts)
		}
	case 3:
		// the keyframe is paced: 15 ms between packets
		for i, p := range k1.pkts {
			p.send = k1.send + 15*i
		}
		c.srMidAt = k1.send + 16 + r.Intn(14)
	}
	add(true, 0)
	if c.sync == 1 && (c.longTail || r.Intn(10) < 7) {
		// after a loss the sample builder holds every frame back until 256 newer packets have arrived
		fill(256+r.Intn(20), common.Pick(r, 8, 12, 16), false)
	}
	for i := r.Range(6, 20); i > 0; i-- {
		add(r.Intn(25) == 0, 0)
	}
	c.nframes = (capt + 40) / 33
	return frames
}

func baseCfg(r *common.Rng) *caseCfg {
	c := &caseCfg{}
	switch r.Weighted(2, 3, 5) {
	case 0:
		c.audio = true
	case 1:
		c.video = common.Pick(r, "vp8", "vp8", "vp9", "h264")
	default:
		c.audio = true
		c.video = common.Pick(r, "vp8", "vp8", "vp9", "h264")
	}
	c.nframes = r.Range(3, 60)
	c.cacheA = common.Pick(r, 8, 32, 64, 256)
	c.cacheV = common.Pick(r, 16, 64, 512, 2048)
	c.srMode = r.Intn(5)
	c.vlat = common.Pick(r, 0, 0, 30, 150)
	c.dimChange = r.Intn(3) == 0
	if r.Intn(4) == 0 {
		c.preKey = r.Range(1, 4)
	}
	c.closeKind = r.Intn(3)
	c.maxDelay = common.Pick(r, 2, 5, 20)
	c.burstMax = 8
	if r.Intn(8) == 0 {
		c.padPct = 20
	}
	return c
}

func originCase(t *common.Trace, e common.Engine, r *common.Rng) {
	t.Count("kind:origin")
	do := func(op string) string { return common.Do(t, e, op) }
	two := r.Intn(4) != 0
	if two {
		do("new audio/opus:48000:2:8 video/VP8:90000:0:8")
	} else if r.Bool() {
		do("new audio/opus:48000:2:8")
	} else {
		do("new video/VP8:90000:0:8")
	}
	ntr := 1
	if two {
		ntr = 2
	}
	ntp0 := uint64(3968000000+r.Intn(1000000)) << 32
	if r.Intn(6) == 0 {
		ntp0 = uint64(r.Intn(5)) << 32
	}
	now := int64(r.Intn(1000)) * 1000000
	ts := []uint32{pickTs0(r), pickTs0(r)}
	for i := 0; i < r.Range(2, 14); i++ {
		trk := r.Intn(ntr)
		adv := int64(r.Intn(3000)) * int64(common.Pick(r, 1, 1000, 1000000, 999983))
		now += adv
		x := ts[trk] + uint32(r.Intn(400000)) - uint32(r.Intn(3)*100000)
		if r.Intn(12) == 0 {
			x = uint32(r.U64())
		}
		switch r.Weighted(4, 4, 2) {
		case 0:
			do(fmt.Sprintf("so %d %d %d", trk, x, now))
		case 1:
			n := ntp0 + uint64(r.Intn(100000))<<22 + uint64(r.U64()&0x3FFFFF)
			if r.Intn(15) == 0 {
				n = 0
			}
			do(fmt.Sprintf("sr %d %d %d", trk, n, x))
		default:
			do(fmt.Sprintf("ao %d %d", trk, x))
		}
	}
	do("close 0")
}

func gen(t *common.Trace, e common.Engine, r *common.Rng, thorough bool) {
	// common.NewRng(seed) of consecutive seeds are the same splitmix64 stream
	// shifted by one draw: derive an unrelated stream
	r = common.NewRng(r.U64() ^ (common.Seed() * 0xD1B54A32D192ED03))
	ncases := 600
	if thorough {
		ncases = 5000
	}
	for i := 0; i < ncases; i++ {
		t.Case(fmt.Sprint(i))
		e.Reset()
		c := baseCfg(r)
		if i%250 == 3 {
			// real-time delivery (one to three seconds per case): audio and video, mostly without sender
			// reports for both tracks
			c.audio, c.paced, c.longTail, c.dimChange = true, true, true, false
			c.video = common.Pick(r, "vp8", "vp8", "vp9")
			c.sync = common.Pick(r, 0, 1, 1, 2)
			c.srMode = common.Pick(r, 0, 0, 0, 0, 5, 5, 6, 6, 1)
			c.alat = common.Pick(r, 0, 0, 60)
			c.nframes = r.Range(15, 30)
			c.cacheA, c.cacheV = 256, 2048
			if r.Intn(3) == 0 {
				c.pDelay, c.maxDelay = 5, 5
			}
			streamCase(t, e, r, c, fmt.Sprintf("paced-sync%d", c.sync))
			t.Flush()
			e.Reset()
			continue
		}
		switch r.Weighted(3, 4, 4, 3, 2, 2, 1, 2) {
		case 0: // every packet delivered in order
			streamCase(t, e, r, c, "inorder")
		case 1: // loss between server and recorder only: everything is recoverable
			c.pSkip = common.Pick(r, 5, 15, 30)
			c.burst = 30
			c.cacheA, c.cacheV = 256, 2048
			streamCase(t, e, r, c, "recoverable")
		case 2: // reordering and duplicates
			c.pDelay = common.Pick(r, 5, 20)
			c.pLate = common.Pick(r, 0, 5, 10)
			c.pDup = common.Pick(r, 0, 5, 20)
			streamCase(t, e, r, c, "reorder")
		case 3: // everything
			c.pSkip, c.pLost, c.pDelay, c.pLate, c.pDup = 8, 4, 8, 4, 4
			c.burst = 20
			streamCase(t, e, r, c, "chaos")
		case 4: // long bursts: gaps of 256 and more, small caches
			c.pSkip = 3
			c.burst = 15
			c.burstMax = 600
			c.nframes = r.Range(40, 120)
			streamCase(t, e, r, c, "longgap")
		case 5:
			originCase(t, e, r)
		case 7: // audio and video, adjustOrigin with a non-zero offset on the Write path
			// (not H264: the first packet of an H264 keyframe is a sample of its own for the sample builder,
			// the file is always created at the first keyframe packet)
			c.audio = true
			c.video = common.Pick(r, "vp8", "vp8", "vp9")
			c.sync = r.Weighted(4, 2, 4) + 1
			c.srMode = common.Pick(r, 1, 1, 1, 1, 1, 1, 0, 5, 6, 3, 3)
			c.cacheA, c.cacheV = 256, 2048
			if c.sync == 3 {
				c.srMode = 7
				c.alat = c.vlat + common.Pick(r, 40, 100, 300)
			}
			if r.Intn(5) == 0 {
				c.pSkip = 5
			}
			streamCase(t, e, r, c, fmt.Sprintf("sync%d", c.sync))
		default: // timestamps before the origin and half way round the 32-bit space, in order
			c.tsWild = true
			c.srMode = common.Pick(r, 0, 0, 1)
			c.dimChange = false
			streamCase(t, e, r, c, "tswild")
		}
		t.Flush()
		e.Reset()
	}
}

func main() {
	log.SetOutput(io.Discard)
	defer os.RemoveAll(scratchRoot())
	common.Main(&eng{}, gen)
}
