package main

// Real concurrency (C18): `race <writers> <rounds>` lets <writers> goroutines
// race through the real HTTP handler.  In every round all of them first GET
// the group definition (phase 1: they all hold the same entity tag), wait at a
// barrier, and then PUT with `If-Match: <that tag>` a description whose length
// is unique to (round, writer), so that successive versions differ in size
// even within one mtime tick.  Exactly one PUT per round may be acknowledged;
// the stored users, wildcard user and keys must survive every round, and the
// final description must be the one the last winner wrote.  This is what ties
// "second phases are serialised by groups.mu" to the real code: the
// deterministic interleaving ops call the two phases from one goroutine and
// would not notice a missing lock.  Runs in its own directories so that the
// case's fixture (and the trace) stay deterministic.

import (
	"bytes"
	"fmt"
	"net/http"
	"net/http/httptest"
	"os"
	"path/filepath"
	"strings"
	"sync"

	"github.com/jech/galene/group"
	"github.com/jech/galene/webserver"
)

const raceGroup = "c5;a0;u=usrAna:p.a:admin,usrBob:k.b:present;w=p.w:message;k=K1"

func raceRun(e *eng, writers, rounds int) string {
	dir, err := scratchDir("race")
	if err != nil {
		return "err:" + esc(err.Error())
	}
	defer os.RemoveAll(dir)
	gdir, ddir := filepath.Join(dir, "groups"), filepath.Join(dir, "data")
	os.MkdirAll(gdir, 0700)
	os.MkdirAll(ddir, 0700)
	fx := &eng{secrets: map[string]bool{}, markers: map[string]bool{}, ids: map[string]bool{}}
	os.WriteFile(filepath.Join(ddir, "config.json"), fx.confJSON(true, "root:p.r:admin"), 0600)
	os.WriteFile(filepath.Join(gdir, "grpR.json"), fx.groupJSON(raceGroup), 0600)
	group.Directory, group.DataDirectory = gdir, ddir
	defer func() { group.Directory, group.DataDirectory = e.groups, e.data }()

	do := func(method, path, im string, body []byte) *http.Response {
		r := httptest.NewRequest(method, "http://galene.example"+api+"/.groups/grpR"+path, bytes.NewReader(body))
		r.SetBasicAuth("root", plaintext("r"))
		if body != nil {
			r.Header.Set("Content-Type", "application/json")
		}
		if im != "" {
			r.Header.Set("If-Match", im)
		}
		rec := httptest.NewRecorder()
		func() {
			defer func() { recover() }()
			webserver.VerifApiHandler(rec, r)
		}()
		return rec.Result()
	}
	descLen, permLen := 5, 0 // what the file should hold: description length, length of usrAna's permission list (0: "admin")
	for round := 0; round < rounds; round++ {
		// even rounds race on the description, odd rounds on the user usrAna of the same file; every
		// written value is larger than any before, so the file size grows with every version
		path := ""
		if round%2 == 1 {
			path = "/.users/usrAna"
		}
		tags := make([]string, writers)
		status := make([]int, writers)
		var wg, barrier sync.WaitGroup
		barrier.Add(writers)
		for w := 0; w < writers; w++ {
			wg.Add(1)
			go func(w int) {
				defer wg.Done()
				tags[w] = do("GET", path, "", nil).Header.Get("Etag")
				barrier.Done()
				barrier.Wait()
				n := 10 + round*writers + w
				body := fx.bodyBytes(fmt.Sprintf("desc:%d:0", n))
				if path != "" {
					body = fx.bodyBytes("user:[" + strings.Repeat("message+", n-1) + "message]")
				}
				status[w] = do("PUT", path, tags[w], body).StatusCode
			}(w)
		}
		wg.Wait()
		wins, winner := 0, -1
		for w := 0; w < writers; w++ {
			if tags[w] == "" || tags[w] != tags[0] {
				return fmt.Sprintf("bad:round-%d-first-phases-disagree", round)
			}
			if status[w]/100 == 2 {
				wins++
				winner = w
			}
		}
		if wins != 1 {
			return fmt.Sprintf("bad:%d-writers-holding-the-same-tag-were-acknowledged", wins)
		}
		if path == "" {
			descLen = 10 + round*writers + winner
		} else {
			permLen = 10 + round*writers + winner
		}
		perm := "admin"
		if permLen > 0 {
			perm = "[" + strings.Repeat("message+", permLen-1) + "message]"
		}
		want := fmt.Sprintf("c%d;a0;u=usrAna:p.a:%s,usrBob:k.b:present;w=p.w:message;k=K1", descLen, perm)
		if got := fx.canonGroupFile(filepath.Join(gdir, "grpR.json")); got != want {
			if len(got) > 200 {
				got = got[:200]
			}
			return "bad:after-round-" + fmt.Sprint(round) + "-the-file-holds-" + got
		}
	}
	return "ok"
}
