package main

// Real concurrency (C18): `race <writers> <rounds>` lets <writers> goroutines
// race through the real HTTP handler.  In every round all of them first GET
// the group definition (phase 1: they all hold the same entity tag), wait at a
// barrier, and then PUT with `If-Match: <that tag>` a description whose length
// is unique to (round, writer), so that successive versions differ in size
// even within one mtime tick.  Exactly one PUT per round may be acknowledged;
// the stored users, wildcard user and keys must survive every round, and the
// final description must be the one the last winner wrote.  This is what ties
// "second phases are serialised by groups.mu" to the real code: the
// deterministic interleaving ops call the two phases from one goroutine and
// would not notice a missing lock.  Runs in its own directories so that the
// case's fixture (and the trace) stay deterministic.

import (
	"bytes"
	"encoding/json"
	"fmt"
	"net/http"
	"net/http/httptest"
	"os"
	"path/filepath"
	"strings"
	"sync"
	"sync/atomic"

	"github.com/jech/galene/group"
	"github.com/jech/galene/token"
	"github.com/jech/galene/webserver"
)

const raceGroup = "c5;a0;u=usrAna:p.a:admin,usrBob:k.b:present;w=p.w:message;k=K1"

func raceRun(e *eng, writers, rounds int) string {
	dir, err := scratchDir("race")
	if err != nil {
		return "err:" + esc(err.Error())
	}
	defer os.RemoveAll(dir)
	gdir, ddir := filepath.Join(dir, "groups"), filepath.Join(dir, "data")
	os.MkdirAll(gdir, 0700)
	os.MkdirAll(ddir, 0700)
	fx := &eng{secrets: map[string]bool{}, markers: map[string]bool{}, ids: map[string]bool{}}
	os.WriteFile(filepath.Join(ddir, "config.json"), fx.confJSON(true, "root:p.r:admin"), 0600)
	os.WriteFile(filepath.Join(gdir, "grpR.json"), fx.groupJSON(raceGroup), 0600)
	group.Directory, group.DataDirectory = gdir, ddir
	token.SetStatefulFilename(filepath.Join(ddir, "var", "tokens.jsonl"))
	defer func() {
		group.Directory, group.DataDirectory = e.groups, e.data
		token.SetStatefulFilename(filepath.Join(e.data, "var", "tokens.jsonl"))
	}()

	do := func(method, path, im string, body []byte) *http.Response {
		r := httptest.NewRequest(method, "http://galene.example"+api+"/.groups/grpR"+path, bytes.NewReader(body))
		r.SetBasicAuth("root", plaintext("r"))
		if body != nil {
			r.Header.Set("Content-Type", "application/json")
		}
		if im != "" {
			r.Header.Set("If-Match", im)
		}
		rec := httptest.NewRecorder()
		func() {
			defer func() { recover() }()
			webserver.VerifApiHandler(rec, r)
		}()
		return rec.Result()
	}
	// a stateful token of the group, raced on in every third round (the tag covers the whole token file)
	if st := do("PUT", "/.tokens/tokR", "", fx.bodyBytes("tok:present:usrTok:ok")).StatusCode; st/100 != 2 {
		return fmt.Sprintf("env:token-fixture-%d", st)
	}
	descLen, permLen := 5, 0 // what the file should hold: description length, length of usrAna's permission list (0: "admin")
	for round := 0; round < rounds; round++ {
		// even rounds race on the description, odd rounds on the user usrAna of the same file; every
		// written value is larger than any before, so the file size grows with every version
		path := ""
		if round%3 == 1 {
			path = "/.users/usrAna"
		} else if round%3 == 2 {
			path = "/.tokens/tokR"
		}
		tags := make([]string, writers)
		status := make([]int, writers)
		var wg, barrier sync.WaitGroup
		barrier.Add(writers)
		for w := 0; w < writers; w++ {
			wg.Add(1)
			go func(w int) {
				defer wg.Done()
				tags[w] = do("GET", path, "", nil).Header.Get("Etag")
				barrier.Done()
				barrier.Wait()
				n := 10 + round*writers + w
				body := fx.bodyBytes(fmt.Sprintf("desc:%d:0", n))
				if path == "/.users/usrAna" {
					body = fx.bodyBytes("user:[" + strings.Repeat("message+", n-1) + "message]")
				} else if path != "" {
					// every version of the token file has a size of its own (the username grows)
					body = fx.bodyBytes("tok:present:usr" + strings.Repeat("T", n) + ":ok")
				}
				status[w] = do("PUT", path, tags[w], body).StatusCode
			}(w)
		}
		wg.Wait()
		wins, winner := 0, -1
		for w := 0; w < writers; w++ {
			if tags[w] == "" || tags[w] != tags[0] {
				return fmt.Sprintf("bad:round-%d-first-phases-disagree", round)
			}
			if status[w]/100 == 2 {
				wins++
				winner = w
			}
		}
		if wins != 1 {
			what := "definition"
			if path == "/.tokens/tokR" {
				what = "token"
			}
			return fmt.Sprintf("bad:%s:%d-writers-holding-the-same-tag-were-acknowledged", what, wins)
		}
		if path == "" {
			descLen = 10 + round*writers + winner
		} else if path == "/.users/usrAna" {
			permLen = 10 + round*writers + winner
		}
		perm := "admin"
		if permLen > 0 {
			perm = "[" + strings.Repeat("message+", permLen-1) + "message]"
		}
		want := fmt.Sprintf("c%d;a0;u=usrAna:p.a:%s,usrBob:k.b:present;w=p.w:message;k=K1", descLen, perm)
		if got := fx.canonGroupFile(filepath.Join(gdir, "grpR.json")); got != want {
			if len(got) > 200 {
				got = got[:200]
			}
			return "bad:after-round-" + fmt.Sprint(round) + "-the-file-holds-" + got
		}
	}
	return "ok"
}

// `race2 <rounds>`: unconditional writers (passwords, keys) against conditional ones on the SAME file
// (C17: an update never alters what it does not address; C18: no acknowledged update is silently lost,
// for interleavings of concurrent PUTs on groups, users, passwords and keys).  Per round, concurrently:
// P sets usrBob's password (PUT .password, no precondition), K replaces the key set (PUT .keys), A and D
// update usrAna's permissions resp. the description with GET + If-Match, retrying on 412 until they
// are acknowledged.  After the round every acknowledged value must be in the file.
func race2Run(e *eng, rounds int) string {
	dir, err := scratchDir("race2")
	if err != nil {
		return "err:" + esc(err.Error())
	}
	defer os.RemoveAll(dir)
	gdir, ddir := filepath.Join(dir, "groups"), filepath.Join(dir, "data")
	os.MkdirAll(gdir, 0700)
	os.MkdirAll(ddir, 0700)
	fx := &eng{secrets: map[string]bool{}, markers: map[string]bool{}, ids: map[string]bool{}}
	os.WriteFile(filepath.Join(ddir, "config.json"), fx.confJSON(true, "root:p.r:admin"), 0600)
	os.WriteFile(filepath.Join(gdir, "grpR.json"), fx.groupJSON(raceGroup), 0600)
	group.Directory, group.DataDirectory = gdir, ddir
	defer func() { group.Directory, group.DataDirectory = e.groups, e.data }()

	do := func(method, path, im string, ctype string, body []byte) *http.Response {
		r := httptest.NewRequest(method, "http://galene.example"+api+"/.groups/grpR"+path, bytes.NewReader(body))
		r.SetBasicAuth("root", plaintext("r"))
		if body != nil {
			r.Header.Set("Content-Type", ctype)
		}
		if im != "" {
			r.Header.Set("If-Match", im)
		}
		rec := httptest.NewRecorder()
		func() {
			defer func() { recover() }()
			webserver.VerifApiHandler(rec, r)
		}()
		return rec.Result()
	}
	condFail := ""
	cond := func(path string, body []byte) bool {
		for try := 0; try < 200; try++ {
			tag := do("GET", path, "", "", nil).Header.Get("Etag")
			if tag == "" {
				return false
			}
			st := do("PUT", path, tag, "application/json", body).StatusCode
			if st/100 == 2 {
				return true
			}
			// 412: the tag was stale at the handler's first phase; 500: the file changed between its two phases
			// (ErrTagMismatch from the locked second phase): either way not acknowledged, try again
			if st != http.StatusPreconditionFailed && st != http.StatusInternalServerError {
				condFail = fmt.Sprintf("%s-answered-%d", path, st)
				return false
			}
		}
		return false
	}
	type rawDesc struct {
		Description string `json:"description"`
		Users       map[string]struct {
			Password    json.RawMessage `json:"password"`
			Permissions json.RawMessage `json:"permissions"`
		} `json:"users"`
		AuthKeys []map[string]any `json:"authKeys"`
	}
	seen := map[string]int{}
	for round := 0; round < rounds; round++ {
		n := 400 + round // large values: reading and rewriting the file takes long enough for the others to get in between
		pw := fmt.Sprintf("r2pw%d", round)
		perm := "[" + strings.Repeat("message+", n-1) + "message]"
		var okP, okK, okA, okD bool
		var wg sync.WaitGroup
		start := make(chan struct{})
		run := func(f func()) {
			wg.Add(1)
			go func() {
				defer wg.Done()
				<-start
				f()
			}()
		}
		run(func() {
			b, _ := json.Marshal(map[string]any{"type": "plain", "key": pw})
			okP = do("PUT", "/.users/usrBob/.password", "", "application/json", b).StatusCode/100 == 2
		})
		nkeys := 1 + round%3
		run(func() {
			var names []string
			for i := 0; i < nkeys; i++ {
				names = append(names, "K1")
			}
			okK = do("PUT", "/.keys", "", "application/jwk-set+json", fx.bodyBytes("keys:"+strings.Join(names, ","))).StatusCode/100 == 2
		})
		run(func() { okA = cond("/.users/usrAna", fx.bodyBytes("user:"+perm)) })
		run(func() { okD = cond("", fx.bodyBytes(fmt.Sprintf("desc:%d:0", n))) })
		// readers: a tag identifies one version, so the same tag must always come with the same content
		var stop atomic.Bool
		var rwg sync.WaitGroup
		var torn string
		var tmu sync.Mutex
		for k := 0; k < 2; k++ {
			rwg.Add(1)
			go func() {
				defer rwg.Done()
				<-start
				for !stop.Load() {
					resp := do("GET", "", "", "", nil)
					tag := resp.Header.Get("Etag")
					var v struct {
						Description string `json:"description"`
					}
					if resp.StatusCode != 200 || tag == "" || json.NewDecoder(resp.Body).Decode(&v) != nil {
						continue
					}
					tmu.Lock()
					if l, ok := seen[tag]; ok && l != len(v.Description) {
						torn = fmt.Sprintf("tag-served-with-two-contents(description-lengths-%d-and-%d)", l, len(v.Description))
					}
					seen[tag] = len(v.Description)
					tmu.Unlock()
				}
			}()
		}
		close(start)
		wg.Wait()
		stop.Store(true)
		rwg.Wait()
		if torn != "" {
			return fmt.Sprintf("bad:round-%d-%s", round, torn)
		}
		if !okP || !okK || !okA || !okD {
			return fmt.Sprintf("env:round-%d-not-all-acknowledged-%v-%v-%v-%v-%s", round, okP, okK, okA, okD, condFail)
		}
		b, err := os.ReadFile(filepath.Join(gdir, "grpR.json"))
		if err != nil {
			return "bad:file-unreadable-after-round-" + fmt.Sprint(round)
		}
		var d rawDesc
		if json.Unmarshal(b, &d) != nil {
			return "bad:file-not-json-after-round-" + fmt.Sprint(round)
		}
		var lost []string
		var gotPw struct {
			Type string `json:"type"`
			Key  string `json:"key"`
		}
		if json.Unmarshal(d.Users["usrBob"].Password, &gotPw) != nil {
			// a plain password is stored as a bare string
			json.Unmarshal(d.Users["usrBob"].Password, &gotPw.Key)
		}
		if gotPw.Key != pw {
			lost = append(lost, "password-of-usrBob(stored:"+esc(string(d.Users["usrBob"].Password))+")")
		}
		var gotPerm []string
		json.Unmarshal(d.Users["usrAna"].Permissions, &gotPerm)
		if len(gotPerm) != n {
			lost = append(lost, fmt.Sprintf("permissions-of-usrAna(%d-not-%d)", len(gotPerm), n))
		}
		if len(d.Description) != n {
			lost = append(lost, fmt.Sprintf("description(%d-not-%d)", len(d.Description), n))
		}
		if len(d.AuthKeys) != nkeys {
			lost = append(lost, fmt.Sprintf("keys(%d-not-%d)", len(d.AuthKeys), nkeys))
		}
		if len(d.Users["usrAna"].Password) == 0 {
			lost = append(lost, "stored-password-of-usrAna")
		}
		if len(lost) > 0 {
			return fmt.Sprintf("bad:round-%d-acknowledged-updates-lost:%s", round, strings.Join(lost, ","))
		}
	}
	return "ok"
}
