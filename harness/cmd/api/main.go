// Engine `api`: drives the real administrative API router (webserver.apiHandler,
// through a shim) with httptest against temporary data/groups directories, and
// the two phases of a conditional update at the `group` package level
// (GetDescriptionTag/GetUserTag, then UpdateDescription/UpdateUser/Delete*), for
// C17 (authorisation, no secrets, preservation), the HTTP part of C12 (every
// request gets a response) and the exclusivity/atomicity part of C18.
//
// Everything on the wire is symbolic so that traces are deterministic and
// replayable: passwords, keys, tokens and entity tags are named by symbols
// (see symbols.go); after every op the harness compares a content+mtime
// snapshot of the directories with the previous one, prints the canonical
// content of every file that changed, and stamps each changed file with a
// fresh, strictly increasing modification time (version k gets
// 2001-01-01 + k seconds), so that the entity tag `"size-mtime"` of version k
// is known as `t<k>` and successive versions never share a tag (C18's
// quantifier: "successive versions differing in size or modification time").
package main

import (
	"bytes"
	"crypto/sha256"
	"encoding/hex"
	"encoding/json"
	"errors"
	"fmt"
	"io"
	"log"
	"net/http"
	"net/http/httptest"
	"os"
	"path/filepath"
	"runtime"
	"sort"
	"strings"
	"time"

	"github.com/jech/galene/group"
	"github.com/jech/galene/token"
	"github.com/jech/galene/webserver"
	"github.com/jech/galene/zzverif/common"
)

const baseTime = 978307200 // 2001-01-01T00:00:00Z

type sig struct {
	sha   string
	size  int64
	mtime int64
}

type eng struct {
	root, data, groups, static string
	liveNames                  []string // groups made live by op `live` in this case

	k     int            // version counter
	tags  map[int]string // version -> entity tag
	tagOf map[string]int // entity tag -> version
	slots map[string]string
	snap  map[string]sig

	rndReal  map[string]string // alias -> real random token name
	rndAlias map[string]string
	nrnd     int

	secrets  map[string]bool // strings that must never appear in a response
	markers  map[string]bool // group data markers
	ids      map[string]bool // password ids seen (candidates when reading hashes back)
	lastText string
}

func tmpBase() string {
	if d := os.Getenv("VERIF_TMP"); d != "" {
		return d
	}
	if d := os.Getenv("VERIF_ROOT"); d != "" {
		p := filepath.Join(d, ".build", "tmp")
		if os.MkdirAll(p, 0700) == nil {
			return p
		}
	}
	return ""
}

func (e *eng) cleanup() {
	if e.root != "" {
		os.RemoveAll(e.root)
	}
}

func (e *eng) Reset() {
	if e.root == "" {
		d, err := os.MkdirTemp(tmpBase(), "api-")
		if err != nil {
			panic(err)
		}
		e.root = d
		e.data = filepath.Join(d, "data")
		e.groups = filepath.Join(d, "groups")
		e.static = filepath.Join(d, "static")
		os.MkdirAll(e.static, 0700)
		if err := webserver.VerifApiSetStaticRoot(e.static); err != nil {
			panic(err)
		}
		log.SetOutput(io.Discard)
	}
	os.RemoveAll(e.data)
	os.RemoveAll(e.groups)
	os.MkdirAll(filepath.Join(e.data, "var"), 0700)
	os.MkdirAll(e.groups, 0700)
	group.Directory = e.groups
	group.DataDirectory = e.data
	token.SetStatefulFilename(filepath.Join(e.data, "var", "tokens.jsonl"))
	group.VerifApiForgetGroups() // no group is live at the start of a case (op `live`)
	e.liveNames = nil
	e.k = 0
	e.tags = map[int]string{}
	e.tagOf = map[string]int{}
	e.slots = map[string]string{}
	e.rndReal = map[string]string{}
	e.rndAlias = map[string]string{}
	e.nrnd = 0
	e.secrets = map[string]bool{}
	e.markers = map[string]bool{}
	e.ids = map[string]bool{}
	e.lastText = ""
	e.snap = e.snapshot()
}

// ---------------------------------------------------------------------------
// snapshots

func (e *eng) snapshot() map[string]sig {
	m := map[string]sig{}
	for _, top := range []string{"data", "groups"} {
		filepath.Walk(filepath.Join(e.root, top), func(p string, fi os.FileInfo, err error) error {
			if err != nil || fi.IsDir() {
				return nil
			}
			b, err := os.ReadFile(p)
			if err != nil {
				return nil
			}
			h := sha256.Sum256(b)
			rel, _ := filepath.Rel(e.root, p)
			m[rel] = sig{hex.EncodeToString(h[:8]), fi.Size(), fi.ModTime().UnixNano()}
			return nil
		})
	}
	return m
}

func (e *eng) fileLabel(rel string) string {
	switch {
	case rel == "data/config.json":
		return "conf"
	case rel == "data/var/tokens.jsonl":
		return "tokens"
	case strings.HasPrefix(rel, "groups/") && strings.HasSuffix(rel, ".json"):
		return "g:" + strings.TrimSuffix(strings.TrimPrefix(rel, "groups/"), ".json")
	}
	return "f:" + esc(rel)
}

// changes compares the directories with the last snapshot, stamps every
// changed file with a fresh mtime and returns the `chg=` token.
func (e *eng) changes() string {
	now := e.snapshot()
	var names []string
	for rel, s := range now {
		if o, ok := e.snap[rel]; !ok || o != s {
			names = append(names, rel)
		}
	}
	for rel := range e.snap {
		if _, ok := now[rel]; !ok {
			names = append(names, rel)
		}
	}
	if len(names) == 0 {
		return "chg=-"
	}
	sort.Strings(names)
	var out []string
	for _, rel := range names {
		s, ok := now[rel]
		label := e.fileLabel(rel)
		if !ok {
			out = append(out, label+"=gone")
			continue
		}
		e.k++
		t := time.Unix(baseTime+int64(e.k), 0)
		full := filepath.Join(e.root, rel)
		os.Chtimes(full, t, t)
		etag := fmt.Sprintf("\"%d-%d\"", s.size, t.UnixNano())
		e.tags[e.k] = etag
		e.tagOf[etag] = e.k
		s.mtime = t.UnixNano()
		now[rel] = s
		var canon string
		switch {
		case label == "conf":
			canon = e.canonConf(full)
		case label == "tokens":
			canon = e.canonTokens(full)
		case strings.HasPrefix(label, "g:"):
			canon = e.canonGroupFile(full)
		default:
			canon = "junk"
		}
		out = append(out, fmt.Sprintf("%s@%d=%s", label, e.k, canon))
	}
	e.snap = now
	return "chg=" + strings.Join(out, "|")
}

// ---------------------------------------------------------------------------
// ops

func (e *eng) Exec(op []string) string {
	switch op[0] {
	case "wipe":
		os.RemoveAll(e.data)
		os.RemoveAll(e.groups)
		os.MkdirAll(filepath.Join(e.data, "var"), 0700)
		os.MkdirAll(e.groups, 0700)
		e.snap = e.snapshot()
		return "ok"
	case "conf": // conf <writable> <users>
		e.writeFile("data/config.json", e.confJSON(op[1] == "1", op[2]))
		return e.changes()
	case "group": // group <name> <canonical>
		e.markers[op[1]] = true
		e.writeFile("groups/"+op[1]+".json", e.groupJSON(op[2]))
		return e.changes()
	case "token": // token <name> <group|-> <sub> <user|-> <perms> <when>
		e.markers[op[1]] = true
		line := e.tokenJSON(op[1], op[2], op[3] == "1", op[4], op[5], op[6])
		f, err := os.OpenFile(filepath.Join(e.data, "var", "tokens.jsonl"), os.O_CREATE|os.O_WRONLY|os.O_APPEND, 0600)
		if err != nil {
			panic(err)
		}
		f.Write(append(line, '\n'))
		f.Close()
		return e.changes()
	case "req":
		return e.doReq(op, "none")
	case "freq": // freq <fault> <method> ... : `req` while writes to regular files fail (faults.go)
		return e.doReq(op[1:], op[1])
	case "live": // live <name>: group.Add(name, nil), the group is in memory from now on
		_, err := group.Add(op[1], nil)
		if err == nil {
			e.liveNames = append(e.liveNames, op[1])
		}
		return errKind(err)
	case "readcalls": // readcalls <scenario>: the calls of one GetDescription that touch the definition file
		return readCallsOp(op[1])
	case "readrace": // readrace <scenario>: the definition file is replaced while a stopped reader has it open
		return readRaceOp(op[1])
	case "faultcalls": // faultcalls <scenario>: the calls of one rewriteDescriptionFile whose write/fsync fails
		return faultCallsOp(op[1])
	case "gtag": // gtag <slot> <group>
		tag, err := group.GetDescriptionTag(op[2])
		return e.tagResult(op[1], tag, err)
	case "utag": // utag <slot> <group> <user|~|*>
		u, wild := userArg(op[3])
		tag, err := group.GetUserTag(op[2], u, wild)
		return e.tagResult(op[1], tag, err)
	case "gupd": // gupd <slot|-> <group> <len> <autosub>
		d := group.Description{Description: strings.Repeat("x", common.Atoi(op[3])), AutoSubgroups: op[4] == "1"}
		err := group.UpdateDescription(op[2], e.slotTag(op[1]), &d)
		return errKind(err) + " " + e.changes()
	case "gdel": // gdel <slot> <group>
		err := group.DeleteDescription(op[2], e.slotTag(op[1]))
		return errKind(err) + " " + e.changes()
	case "uupd": // uupd <slot|-> <group> <user> <perm>
		u, wild := userArg(op[3])
		var ud group.UserDescription
		if err := json.Unmarshal(userJSON(op[4]), &ud); err != nil {
			panic(err)
		}
		err := group.UpdateUser(op[2], u, wild, e.slotTag(op[1]), &ud)
		return errKind(err) + " " + e.changes()
	case "udel": // udel <slot> <group> <user>
		u, wild := userArg(op[3])
		err := group.DeleteUser(op[2], u, wild, e.slotTag(op[1]))
		return errKind(err) + " " + e.changes()
	case "setpw": // setpw <group> <user> <pwsym>
		u, wild := userArg(op[2])
		var pw group.Password
		if op[3] != "-" {
			if err := json.Unmarshal(e.pwJSON(op[3]), &pw); err != nil {
				panic(err)
			}
		}
		err := group.SetUserPassword(op[1], u, wild, pw)
		return errKind(err) + " " + e.changes()
	case "setkeys": // setkeys <group> <keys|->
		var keys []map[string]any
		if op[2] != "-" {
			for _, k := range strings.Split(op[2], ",") {
				keys = append(keys, e.keyMap(k))
			}
		}
		err := group.SetKeys(op[1], keys)
		return errKind(err) + " " + e.changes()
	case "race": // race <writers> <rounds>: real goroutines through the real handler
		return raceRun(e, common.Atoi(op[1]), common.Atoi(op[2]))
	case "race2": // race2 <rounds>: unconditional (password, keys) against conditional writers on one file
		return race2Run(e, common.Atoi(op[1]))
	case "crashrun": // crashrun <syscall> <n> : kill a helper at the n-th <syscall> of a rewrite, then re-read
		return crashRun(e, op[1], common.Atoi(op[2]))
	}
	panic("unknown op " + op[0])
}

func userArg(s string) (string, bool) {
	switch s {
	case "~":
		return "", false
	case "*":
		return "", true
	}
	return s, false
}

func (e *eng) slotTag(slot string) string {
	if slot == "-" {
		return ""
	}
	return e.slots[slot]
}

func (e *eng) tagName(tag string) string {
	if tag == "" {
		return "none"
	}
	if k, ok := e.tagOf[tag]; ok {
		return fmt.Sprintf("t%d", k)
	}
	return "?"
}

func (e *eng) tagResult(slot, tag string, err error) string {
	if err != nil {
		if errors.Is(err, os.ErrNotExist) {
			e.slots[slot] = ""
			return "none"
		}
		e.slots[slot] = "\"error\""
		return "err"
	}
	e.slots[slot] = tag
	return e.tagName(tag)
}

func errKind(err error) string {
	var na *group.NotAuthorisedError
	switch {
	case err == nil:
		return "ok"
	case errors.Is(err, group.ErrTagMismatch):
		return "mismatch"
	case errors.Is(err, os.ErrNotExist):
		return "notexist"
	case errors.As(err, &na):
		return "notauth"
	}
	return "err"
}

func (e *eng) writeFile(rel string, content []byte) {
	full := filepath.Join(e.root, rel)
	os.MkdirAll(filepath.Dir(full), 0700)
	if err := os.WriteFile(full, content, 0600); err != nil {
		panic(err)
	}
}

// ---------------------------------------------------------------------------
// HTTP requests
//
// req <method> <path> <cred> <ctype> <if-match> <if-none-match> <body>
//   => <status|crash> e=<tag> b=<body> sec=<0|1> data=<0|1> chg=<...>
// freq <fault> <method> ... (the same request while writes fail, see faults.go)
//   => <status|crash> e=<tag> b=<body> sec=<0|1> data=<0|1> strays=<n> chg=<...>

func (e *eng) hdr(sym string) string {
	if sym == "-" {
		return ""
	}
	var items []string
	for _, it := range strings.Split(sym, ",") {
		switch {
		case it == "*":
			items = append(items, "*")
		case it == "bogus":
			items = append(items, "\"bogus\"")
		case strings.HasPrefix(it, "t"):
			if tag, ok := e.tags[common.Atoi(it[1:])]; ok {
				items = append(items, tag)
			} else {
				items = append(items, "\"unknown-"+it+"\"")
			}
		default:
			panic("bad header item " + it)
		}
	}
	return strings.Join(items, ", ")
}

func (e *eng) realName(s string) string {
	if strings.HasPrefix(s, "@") {
		if r, ok := e.rndReal[s[1:]]; ok {
			return r
		}
		return "unknown-" + s[1:]
	}
	return s
}

func (e *eng) doReq(op []string, fault string) string {
	method, pth, cred, ctype, im, inm, body := op[1], op[2], op[3], op[4], op[5], op[6], op[7]
	// substitute aliases of server-generated token names in the path
	segs := strings.Split(pth, "/")
	for i, s := range segs {
		segs[i] = e.realName(s)
	}
	pth = strings.Join(segs, "/")
	r := httptest.NewRequest(method, "http://galene.example"+pth, bytes.NewReader(e.bodyBytes(body)))
	switch ctype {
	case "-":
	case "json":
		r.Header.Set("Content-Type", "application/json")
	case "text":
		r.Header.Set("Content-Type", "text/plain; charset=utf-8")
	case "jwk":
		r.Header.Set("Content-Type", "application/jwk-set+json")
	case "other":
		r.Header.Set("Content-Type", "application/x-www-form-urlencoded")
	default:
		panic("bad ctype")
	}
	c := strings.Split(cred, ":")
	switch c[0] {
	case "none":
	case "basic":
		u := c[1]
		if u == "~" {
			u = ""
		}
		r.SetBasicAuth(u, plaintext(c[2]))
	case "bearer":
		r.Header.Set("Authorization", "Bearer "+e.realName(c[1]))
	case "jwt": // jwt:<keysym>:<audgroup>:<perm>:<sub>
		r.Header.Set("Authorization", "Bearer "+mintJWT(c[1], c[2], c[3], c[4]))
	default:
		panic("bad cred")
	}
	if h := e.hdr(im); h != "" {
		r.Header.Set("If-Match", h)
	}
	if h := e.hdr(inm); h != "" {
		r.Header.Set("If-None-Match", h)
	}
	rec := httptest.NewRecorder()
	crashed := false
	func() {
		defer func() {
			if x := recover(); x != nil {
				crashed = true
			}
		}()
		withFault(fault, func() { webserver.VerifApiHandler(rec, r) })
	}()
	res := rec.Result()
	raw, _ := io.ReadAll(res.Body)
	status := fmt.Sprint(res.StatusCode)
	if crashed {
		status = "crash"
	}
	// a server-generated token name (POST .tokens/) gets an alias
	if loc := res.Header.Get("Location"); loc != "" && !crashed {
		if _, ok := e.rndAlias[loc]; !ok {
			e.nrnd++
			a := fmt.Sprintf("rnd%d", e.nrnd)
			e.rndAlias[loc] = a
			e.rndReal[a] = loc
		}
	}
	etag := "-"
	if t := res.Header.Get("Etag"); t != "" {
		etag = e.tagName(t)
	}
	// secrets / group data anywhere in the response
	var all strings.Builder
	all.Write(raw)
	for k, vs := range res.Header {
		for _, v := range vs {
			all.WriteString("\n" + k + ": " + v)
		}
	}
	whole := all.String()
	sec, data := false, false
	for s := range e.secrets {
		if s != "" && strings.Contains(whole, s) {
			sec = true
		}
	}
	for s := range e.markers {
		if s != "" && strings.Contains(whole, s) {
			data = true
		}
	}
	for s := range e.rndAlias {
		if strings.Contains(whole, s) {
			data = true
		}
	}
	ct := res.Header.Get("Content-Type")
	if strings.HasPrefix(ct, "application/json") && len(bytes.TrimSpace(raw)) > 0 {
		data = true
	}
	if res.Header.Get("Etag") != "" || res.Header.Get("Location") != "" {
		data = true
	}
	if strings.Contains(whole, "xxx") {
		data = true
	}
	b := e.canonBody(res, raw)
	// a request must not alter the in-memory definition of a live group whose file it did not change
	// (that copy is what logins are checked against)
	cache := ""
	for _, n := range e.liveNames {
		if w := group.VerifApiCacheCheck(n); w != "" {
			cache += " cache=" + esc(n) + ":" + w
		}
	}
	if cache != "" {
		return fmt.Sprintf("%s e=%s b=%s sec=%s data=%s %s%s", status, etag, b, common.B2s(sec), common.B2s(data), e.changes(), cache)
	}
	if fault != "none" {
		strays := e.sweepTemps()
		return fmt.Sprintf("%s e=%s b=%s sec=%s data=%s strays=%d %s", status, etag, b, common.B2s(sec), common.B2s(data), strays, e.changes())
	}
	return fmt.Sprintf("%s e=%s b=%s sec=%s data=%s %s", status, etag, b, common.B2s(sec), common.B2s(data), e.changes())
}

func (e *eng) canonBody(res *http.Response, raw []byte) string {
	s := string(raw)
	switch {
	case len(raw) == 0:
		return "empty"
	case s == "Haha!\n":
		return "haha"
	case s == "<p>Not found</p>\n":
		return "nf"
	}
	if strings.HasPrefix(res.Header.Get("Content-Type"), "application/json") {
		var v any
		if err := json.Unmarshal(raw, &v); err != nil {
			return "badjson:" + esc(s)
		}
		v = e.canonJSON("", v)
		out, _ := json.Marshal(v)
		return "json:" + esc(string(out))
	}
	return "txt:" + esc(strings.TrimSpace(s))
}

// canonJSON abbreviates runs of 'x', replaces server-generated token names by
// their aliases and absolute times by past/future, and sorts string arrays
// whose order the server does not define (user and token lists).
func (e *eng) canonJSON(key string, v any) any {
	switch x := v.(type) {
	case string:
		if key == "expires" || key == "not-before" || key == "issuedAt" {
			t, err := time.Parse(time.RFC3339, x)
			if err == nil {
				if t.After(time.Now()) {
					return "future"
				}
				return "past"
			}
		}
		if a, ok := e.rndAlias[x]; ok {
			return "@" + a
		}
		if len(x) > 0 && strings.Trim(x, "x") == "" {
			return fmt.Sprintf("x*%d", len(x))
		}
		return x
	case []any:
		allStr := true
		for i := range x {
			x[i] = e.canonJSON("", x[i])
			if _, ok := x[i].(string); !ok {
				allStr = false
			}
		}
		if allStr && key == "" {
			sort.Slice(x, func(i, j int) bool { return x[i].(string) < x[j].(string) })
		}
		return x
	case map[string]any:
		for k := range x {
			x[k] = e.canonJSON(k, x[k])
		}
		return x
	case nil:
		if key == "permissions" {
			// a token added in this process keeps a nil slice in memory where the file has []
			return []any{}
		}
	}
	return v
}

func esc(s string) string {
	if s == "" {
		return "%"
	}
	var b strings.Builder
	for i := 0; i < len(s); i++ {
		c := s[i]
		if c <= 0x20 || c >= 0x7f || c == '%' {
			fmt.Fprintf(&b, "%%%02X", c)
		} else {
			b.WriteByte(c)
		}
	}
	return b.String()
}

func main() {
	if len(os.Args) >= 2 {
		switch os.Args[1] {
		case "rewrite-helper": // rewrite-helper <dir> <old-len> <new-len>
			runtime.LockOSThread()
			rewriteHelper(os.Args[2:])
			return
		case "syscalls-lean": // syscalls-lean <out.lean>
			if err := syscallsLean(os.Args[2]); err != nil {
				fmt.Fprintln(os.Stderr, "syscalls-lean:", err)
				os.Exit(1)
			}
			return
		case "read-helper": // read-helper <dir> <scenario>
			runtime.LockOSThread()
			readHelper(os.Args[2:])
			return
		case "fault-helper": // fault-helper <dir> <scenario>
			runtime.LockOSThread()
			faultHelper(os.Args[2:])
			return
		case "syscalls-read-lean", "syscalls-fault-lean": // <out.lean>
			f := syscallsReadLean
			if os.Args[1] == "syscalls-fault-lean" {
				f = syscallsFaultLean
			}
			if err := f(os.Args[2]); err != nil {
				fmt.Fprintln(os.Stderr, os.Args[1]+":", err)
				os.Exit(1)
			}
			return
		}
	}
	e := &eng{}
	defer e.cleanup()
	common.Main(e, gen)
}
