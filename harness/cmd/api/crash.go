package main

// Atomic replacement of a group definition file (C18): system-call capture of
// group.rewriteDescriptionFile with strace, and crash injection (SIGKILL at the
// entry of the i-th system call of the rewrite).
//
//   <bin> rewrite-helper <dir> <new-canonical>   (child) one rewrite of groups/grpC.json between two marker calls
//   <bin> syscalls-lean <out.lean>               capture -> lean/GaleneVerif/Generated/SyscallsDesc.lean
//   op  crashrun <syscall> <i>                   kill at the i-th <syscall> inside the rewrite, then re-read the file
//
// The helper locks its main goroutine to the process's main thread (init), so
// that strace without -f sees every file system call of the rewrite and the
// `when=N` counter of `inject` counts exactly those.

import (
	"bufio"
	"encoding/json"
	"fmt"
	"os"
	"os/exec"
	"path/filepath"
	"regexp"
	"runtime"
	"sort"
	"strconv"
	"strings"

	"github.com/jech/galene/group"
)

func init() {
	if len(os.Args) >= 2 && os.Args[1] == "rewrite-helper" {
		runtime.LockOSThread()
	}
}

const crashOld = "c40;a0;u=usrAna:p.a:admin,usrBob:k.b:present;w=p.w:message;k=K1"
const crashNew = "c3;a1;u=usrAna:p.a:admin,usrBob:k.b:present,usrNew:-:op;w=p.w:message;k=K1,E2"

func rewriteHelper(args []string) {
	dir, canon := args[0], args[1]
	group.Directory = filepath.Join(dir, "groups")
	group.DataDirectory = filepath.Join(dir, "data")
	e := &eng{secrets: map[string]bool{}, markers: map[string]bool{}, ids: map[string]bool{}}
	var d group.Description
	if err := json.Unmarshal(e.groupJSON(canon), &d); err != nil {
		fmt.Fprintln(os.Stderr, err)
		os.Exit(3)
	}
	os.Remove(filepath.Join(dir, "MARK-BEGIN"))
	err := group.VerifApiRewriteDescriptionFile(filepath.Join(group.Directory, "grpC.json"), &d)
	os.Remove(filepath.Join(dir, "MARK-END"))
	if err != nil {
		fmt.Fprintln(os.Stderr, err)
		os.Exit(4)
	}
}

func prepareCrashDir(dir string) error {
	os.RemoveAll(dir)
	if err := os.MkdirAll(filepath.Join(dir, "groups"), 0700); err != nil {
		return err
	}
	if err := os.MkdirAll(filepath.Join(dir, "data"), 0700); err != nil {
		return err
	}
	e := &eng{secrets: map[string]bool{}, markers: map[string]bool{}, ids: map[string]bool{}}
	if err := os.WriteFile(filepath.Join(dir, "data", "config.json"), e.confJSON(true, "-"), 0600); err != nil {
		return err
	}
	return os.WriteFile(filepath.Join(dir, "groups", "grpC.json"), e.groupJSON(crashOld), 0600)
}

type sysLine struct {
	name string
	args string
	ret  string
}

var sysRe = regexp.MustCompile(`^(\w+)\((.*)\)\s+= (.*)$`)

// straceRegion runs the helper under strace and returns all system calls of
// the main thread (for counting) and the index range of the rewrite.
func straceRegion(dir string) (all []sysLine, begin, end int, err error) {
	logf := filepath.Join(dir, "strace.log")
	cmd := exec.Command("strace", "-o", logf, "-s", "0", os.Args[0], "rewrite-helper", dir, crashNew)
	cmd.Env = append(os.Environ(), "GOMAXPROCS=1")
	out, err := cmd.CombinedOutput()
	if err != nil {
		return nil, 0, 0, fmt.Errorf("strace: %v: %s", err, out)
	}
	f, err := os.Open(logf)
	if err != nil {
		return nil, 0, 0, err
	}
	defer f.Close()
	begin, end = -1, -1
	sc := bufio.NewScanner(f)
	sc.Buffer(make([]byte, 1<<20), 1<<24)
	for sc.Scan() {
		m := sysRe.FindStringSubmatch(sc.Text())
		if m == nil {
			continue
		}
		l := sysLine{m[1], m[2], m[3]}
		if strings.HasPrefix(l.name, "unlink") && strings.Contains(l.args, "MARK-BEGIN") {
			begin = len(all) + 1
		}
		if strings.HasPrefix(l.name, "unlink") && strings.Contains(l.args, "MARK-END") && end < 0 {
			end = len(all)
		}
		all = append(all, l)
	}
	if begin < 0 || end < 0 {
		return nil, 0, 0, fmt.Errorf("markers not found in strace log (%d lines)", len(all))
	}
	return all, begin, end, nil
}

var tempRe = regexp.MustCompile(`^\d+\.temp$`)

type canonOp struct{ lean string }

// canonSyscalls turns the region into the op list of Lemmas/SafeReplace.lean.
// Calls that do not modify the file system (stat, read, fcntl, epoll, lseek,
// mmap, signal handling, scheduling) are dropped; anything not recognised that
// could modify it becomes `.other "<name>"`, which fails the SafeReplace shape.
func canonSyscalls(dir string, region []sysLine) ([]string, error) {
	temps := map[string]string{}
	fds := map[string]int{}
	nfd := 0
	rel := func(quoted string) string {
		p := strings.Trim(strings.TrimSpace(quoted), "\"")
		if r, err := filepath.Rel(dir, p); err == nil && !strings.HasPrefix(r, "..") {
			p = r
		}
		d, b := filepath.Split(p)
		if tempRe.MatchString(b) {
			if _, ok := temps[b]; !ok {
				temps[b] = fmt.Sprintf("T%d.temp", len(temps)+1)
			}
			b = temps[b]
		}
		return d + b
	}
	splitArgs := func(s string) []string {
		var out []string
		depth, inq, cur := 0, false, strings.Builder{}
		for i := 0; i < len(s); i++ {
			c := s[i]
			switch {
			case c == '"' && (i == 0 || s[i-1] != '\\'):
				inq = !inq
				cur.WriteByte(c)
			case !inq && (c == '{' || c == '[' || c == '('):
				depth++
				cur.WriteByte(c)
			case !inq && (c == '}' || c == ']' || c == ')'):
				depth--
				cur.WriteByte(c)
			case !inq && depth == 0 && c == ',':
				out = append(out, strings.TrimSpace(cur.String()))
				cur.Reset()
			default:
				cur.WriteByte(c)
			}
		}
		if cur.Len() > 0 {
			out = append(out, strings.TrimSpace(cur.String()))
		}
		return out
	}
	readonly := map[string]bool{"newfstatat": true, "fstat": true, "stat": true, "lstat": true, "statx": true, "read": true, "pread64": true,
		"fcntl": true, "epoll_ctl": true, "epoll_create1": true, "epoll_pwait": true, "lseek": true, "getdents64": true, "readlinkat": true,
		"access": true, "faccessat": true, "faccessat2": true, "mmap": true, "munmap": true, "madvise": true, "rt_sigprocmask": true,
		"rt_sigaction": true, "futex": true, "sched_yield": true, "nanosleep": true, "getpid": true, "gettid": true, "tgkill": true,
		"rt_sigreturn": true, "sigaltstack": true, "clone": true, "clone3": true, "getrandom": true, "eventfd2": true, "pipe2": true,
		"mprotect": true, "brk": true, "prlimit64": true, "sched_getaffinity": true, "uname": true, "getcwd": true, "ioctl": true}
	var ops []string
	for _, l := range region {
		a := splitArgs(l.args)
		failed := strings.HasPrefix(l.ret, "-1")
		switch l.name {
		case "mkdirat", "mkdir":
			p := a[len(a)-2]
			if failed && !strings.Contains(l.ret, "EEXIST") {
				return nil, fmt.Errorf("mkdir failed: %v", l)
			}
			ops = append(ops, fmt.Sprintf(".mkdir %q", rel(p)))
		case "openat", "open":
			off := 0
			if l.name == "openat" {
				off = 1
			}
			p, flags := a[off], a[off+1]
			if failed {
				if strings.Contains(flags, "O_CREAT") {
					return nil, fmt.Errorf("creating open failed: %v", l)
				}
				continue
			}
			fd := strings.Fields(l.ret)[0]
			fds[fd] = nfd
			switch {
			case strings.Contains(flags, "O_CREAT") && strings.Contains(flags, "O_EXCL"):
				ops = append(ops, fmt.Sprintf(".createExcl %q %d", rel(p), nfd))
			case strings.Contains(flags, "O_RDONLY") && !strings.Contains(flags, "O_TRUNC") && !strings.Contains(flags, "O_CREAT"):
				ops = append(ops, fmt.Sprintf(".openRead %q %d", rel(p), nfd))
			default:
				ops = append(ops, fmt.Sprintf(".openWrite %q %d", rel(p), nfd))
			}
			nfd++
		case "write", "pwrite64":
			fd, ok := fds[a[0]]
			if !ok {
				continue // not a file opened inside the region (stderr etc.)
			}
			n, err := strconv.Atoi(strings.Fields(l.ret)[0])
			if err != nil || failed {
				return nil, fmt.Errorf("write failed: %v", l)
			}
			ops = append(ops, fmt.Sprintf(".write %d %d", fd, n))
		case "fsync", "fdatasync":
			if fd, ok := fds[a[0]]; ok && !failed {
				ops = append(ops, fmt.Sprintf(".fsync %d", fd))
			}
		case "close":
			if fd, ok := fds[a[0]]; ok {
				ops = append(ops, fmt.Sprintf(".close %d", fd))
				delete(fds, a[0])
			}
		case "rename", "renameat", "renameat2":
			var from, to string
			if l.name == "rename" {
				from, to = a[0], a[1]
			} else {
				from, to = a[1], a[3]
			}
			if failed {
				return nil, fmt.Errorf("rename failed: %v", l)
			}
			ops = append(ops, fmt.Sprintf(".rename %q %q", rel(from), rel(to)))
		case "unlink", "unlinkat":
			p := a[0]
			if l.name == "unlinkat" {
				p = a[1]
			}
			if !failed {
				ops = append(ops, fmt.Sprintf(".unlink %q", rel(p)))
			}
		default:
			if !readonly[l.name] {
				ops = append(ops, fmt.Sprintf(".other %q", l.name))
			}
		}
	}
	return ops, nil
}

func scratchDir(sub string) (string, error) {
	base := tmpBase()
	d, err := os.MkdirTemp(base, "api-"+sub+"-")
	return d, err
}

func syscallsLean(out string) error {
	dir, err := scratchDir("sys")
	if err != nil {
		return err
	}
	defer os.RemoveAll(dir)
	if err := prepareCrashDir(dir); err != nil {
		return err
	}
	all, b, e, err := straceRegion(dir)
	if err != nil {
		return err
	}
	ops, err := canonSyscalls(dir, all[b:e])
	if err != nil {
		return err
	}
	var sb strings.Builder
	sb.WriteString("import GaleneVerif.Lemmas.SafeReplaceDesc\n")
	sb.WriteString("/-! GENERATED by `harness/cmd/api syscalls-lean` (extract/parts/syscalls_desc.sh) from an strace capture of one call of\n")
	sb.WriteString("`group.rewriteDescriptionFile` on the tree under $VERIF_REPO.  Do not edit.  Temp-file names and descriptor numbers are\n")
	sb.WriteString("canonicalised (T1.temp, 0, 1, …); calls that cannot modify the file system are omitted. -/\n")
	sb.WriteString("namespace Galene.Generated\nopen Galene.SafeReplaceDesc\n\n")
	sb.WriteString("def syscallsDescTarget : String := \"groups/grpC.json\"\n\n")
	sb.WriteString("def syscallsDesc : List Op :=\n  [ " + strings.Join(ops, ",\n    ") + " ]\n\n")
	sb.WriteString("end Galene.Generated\n")
	old, _ := os.ReadFile(out)
	if string(old) == sb.String() {
		return nil
	}
	return os.WriteFile(out, []byte(sb.String()), 0644)
}

// ---------------------------------------------------------------------------
// crash injection

type crashPoint struct {
	name string
	i    int // i-th call of that name inside the region (1-based)
	abs  int // N-th call of that name since process start
}

var crashPlanCache []crashPoint

func crashPlan() ([]crashPoint, error) {
	if crashPlanCache != nil {
		return crashPlanCache, nil
	}
	dir, err := scratchDir("plan")
	if err != nil {
		return nil, err
	}
	defer os.RemoveAll(dir)
	if err := prepareCrashDir(dir); err != nil {
		return nil, err
	}
	all, b, e, err := straceRegion(dir)
	if err != nil {
		return nil, err
	}
	before := map[string]int{}
	for _, l := range all[:b] {
		before[l.name]++
	}
	in := map[string]int{}
	var plan []crashPoint
	// the region plus the first call after it (a crash right after the rename)
	for _, l := range all[b : e+1] {
		in[l.name]++
		plan = append(plan, crashPoint{l.name, in[l.name], before[l.name] + in[l.name]})
	}
	crashPlanCache = plan
	return plan, nil
}

func crashRun(e *eng, name string, i int) string {
	plan, err := crashPlan()
	if err != nil {
		return "err:" + esc(err.Error())
	}
	abs := -1
	for _, p := range plan {
		if p.name == name && p.i == i {
			abs = p.abs
		}
	}
	if abs < 0 {
		return "nosuchpoint"
	}
	dir, err := scratchDir("crash")
	if err != nil {
		return "err:" + esc(err.Error())
	}
	defer os.RemoveAll(dir)
	if err := prepareCrashDir(dir); err != nil {
		return "err:" + esc(err.Error())
	}
	cmd := exec.Command("strace", "-o", "/dev/null", "-e", "trace="+name,
		"-e", fmt.Sprintf("inject=%s:signal=KILL:when=%d", name, abs),
		os.Args[0], "rewrite-helper", dir, crashNew)
	cmd.Env = append(os.Environ(), "GOMAXPROCS=1")
	runErr := cmd.Run()
	killed := "0"
	if runErr != nil {
		killed = "1"
	}
	// what is in the file now?
	state := "missing"
	full := filepath.Join(dir, "groups", "grpC.json")
	if b, err := os.ReadFile(full); err == nil {
		switch c := e.canonGroupBytes(b); c {
		case crashOld:
			state = "old"
		case crashNew:
			state = "new"
		default:
			state = "partial:" + c
		}
		// and what a restarted server reads
		group.Directory = filepath.Join(dir, "groups")
		_, rerr := group.VerifApiReadDescription("grpC")
		group.Directory = e.groups
		if rerr != nil {
			state += "+unreadable"
		}
	}
	ents, _ := os.ReadDir(filepath.Join(dir, "groups"))
	var others []string
	for _, en := range ents {
		if en.Name() != "grpC.json" {
			others = append(others, en.Name())
		}
	}
	sort.Strings(others)
	return fmt.Sprintf("%s killed=%s strays=%d", state, killed, len(others))
}
