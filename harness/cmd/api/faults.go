package main

// Three additions to engine `api` (C17, C18):
//
//  1. The READ path.  `readcalls <scenario>` captures, with strace, the file-system calls of one
//     group.GetDescription that touch the definition file (path-stat, open, fstat, read, close;
//     descriptors and paths canonicalised).  The entity tag and the running server's cache
//     validator are built from size and mtime: they identify the version whose content is served
//     only if they are taken by fstat from the descriptor the content is read from — a path-based
//     stat after the open can see a later version (Model/ReadVersion.lean, Props/C18Read.lean).
//     `syscalls-read-lean <out.lean>` writes the same lists as Generated/SyscallsDescRead.lean.
//
//  2. WRITE FAULTS.  `freq <fault> <method> ...` is `req` with the real handler running while
//     write(2) to regular files fails (RLIMIT_FSIZE 0 / 1 / 100: EFBIG, the last two after a PARTIAL
//     write; SIGXFSZ is ignored by the Go runtime).  `faultcalls <scenario>` captures the calls of
//     one rewriteDescriptionFile whose write or fsync fails (RLIMIT_FSIZE, or strace error
//     injection: ENOSPC on write, EIO on fsync); `syscalls-fault-lean <out.lean>` writes them as
//     Generated/SyscallsDescFault.lean.
//
//  3. LIVE GROUPS.  `live <name>` is group.Add(name, nil): later API requests for that name go
//     through the cached-description branch of group.GetDescription.
//
//   <bin> read-helper  <dir> <scenario>      (child) one GetDescription between two marker calls
//   <bin> fault-helper <dir> <scenario>      (child) one rewrite of groups/grpC.json between two marker calls

import (
	"bufio"
	"encoding/json"
	"fmt"
	"os"
	"os/exec"
	"path/filepath"
	"runtime"
	"strconv"
	"strings"
	"syscall"
	"time"

	"github.com/jech/galene/group"
	"github.com/jech/galene/zzverif/common"
)

func init() {
	if len(os.Args) >= 2 && (os.Args[1] == "read-helper" || os.Args[1] == "fault-helper") {
		runtime.LockOSThread()
	}
}

// the definition that is read (auto-subgroups: scenario `sub` reads it for grpC/room)
const rwFixture = "c40;a1;u=usrAna:p.a:admin,usrBob:k.b:present;w=p.w:message;k=K1"
const rwTarget = "groups/grpC.json"

var readScenarios = []string{"plain", "sub", "stale"}
var faultScenarios = []string{"fsize0", "fsize100", "write-enospc", "fsync-eio"}

func prepareRWDir(dir string) error {
	os.RemoveAll(dir)
	if err := os.MkdirAll(filepath.Join(dir, "groups"), 0700); err != nil {
		return err
	}
	if err := os.MkdirAll(filepath.Join(dir, "data"), 0700); err != nil {
		return err
	}
	e := &eng{secrets: map[string]bool{}, markers: map[string]bool{}, ids: map[string]bool{}}
	if err := os.WriteFile(filepath.Join(dir, "data", "config.json"), e.confJSON(true, "-"), 0600); err != nil {
		return err
	}
	return os.WriteFile(filepath.Join(dir, "groups", "grpC.json"), e.groupJSON(rwFixture), 0600)
}

// ---------------------------------------------------------------------------
// helpers (children)

// read-helper <dir> <scenario>
//
//	plain  GetDescription("grpC"), the group is not live
//	sub    GetDescription("grpC/room"): no file of its own, grpC.json (auto-subgroups) is read
//	stale  grpC is live and its file has been replaced since: descriptionUnchanged (a path-stat
//	       BEFORE the open, legitimately) finds the cache stale, then the file is read
func readHelper(args []string) {
	dir, scenario := args[0], args[1]
	group.Directory = filepath.Join(dir, "groups")
	group.DataDirectory = filepath.Join(dir, "data")
	name := "grpC"
	switch scenario {
	case "plain":
	case "sub":
		name = "grpC/room"
	case "stale":
		if _, err := group.Add("grpC", nil); err != nil {
			fmt.Fprintln(os.Stderr, err)
			os.Exit(3)
		}
		e := &eng{secrets: map[string]bool{}, markers: map[string]bool{}, ids: map[string]bool{}}
		full := filepath.Join(group.Directory, "grpC.json")
		tmp := full + ".new"
		if err := os.WriteFile(tmp, e.groupJSON(strings.Replace(rwFixture, "c40;", "c47;", 1)), 0600); err != nil {
			fmt.Fprintln(os.Stderr, err)
			os.Exit(3)
		}
		t := time.Unix(baseTime+77, 0)
		os.Chtimes(tmp, t, t)
		if err := os.Rename(tmp, full); err != nil {
			fmt.Fprintln(os.Stderr, err)
			os.Exit(3)
		}
	default:
		fmt.Fprintln(os.Stderr, "unknown scenario", scenario)
		os.Exit(3)
	}
	report := len(args) >= 3 && args[2] == "report"
	if report {
		// the tracer's parent waits for this file: whatever it sees open from now on belongs to the read
		os.WriteFile(filepath.Join(dir, "PID"), []byte(strconv.Itoa(os.Getpid())), 0600)
	}
	os.Remove(filepath.Join(dir, "MARK-BEGIN"))
	d, err := group.GetDescription(name)
	os.Remove(filepath.Join(dir, "MARK-END"))
	if err != nil || d == nil {
		fmt.Fprintln(os.Stderr, "GetDescription:", err)
		os.Exit(4)
	}
	if report {
		// which version's content, which version's tag
		fmt.Printf("users=%d tag=%s\n", len(d.Users), group.VerifApiDescTag(d))
	}
}

func setFsize(limit uint64) {
	var old syscall.Rlimit
	if err := syscall.Getrlimit(syscall.RLIMIT_FSIZE, &old); err != nil {
		panic(err)
	}
	if err := syscall.Setrlimit(syscall.RLIMIT_FSIZE, &syscall.Rlimit{Cur: limit, Max: old.Max}); err != nil {
		panic(err)
	}
}

// fault-helper <dir> <scenario>: one rewrite of groups/grpC.json.  fsize0 / fsize100 set RLIMIT_FSIZE
// themselves; for none / write-enospc / fsync-eio the fault (if any) is injected by the tracer.
// Exit status 0: the rewrite reported success; 4: it reported an error.
func faultHelper(args []string) {
	dir, scenario := args[0], args[1]
	group.Directory = filepath.Join(dir, "groups")
	group.DataDirectory = filepath.Join(dir, "data")
	e := &eng{secrets: map[string]bool{}, markers: map[string]bool{}, ids: map[string]bool{}}
	var d group.Description
	if err := json.Unmarshal(e.groupJSON(crashNew), &d); err != nil {
		fmt.Fprintln(os.Stderr, err)
		os.Exit(3)
	}
	switch scenario {
	case "fsize0":
		setFsize(0)
	case "fsize100":
		setFsize(100)
	}
	os.Remove(filepath.Join(dir, "MARK-BEGIN"))
	err := group.VerifApiRewriteDescriptionFile(filepath.Join(group.Directory, "grpC.json"), &d)
	os.Remove(filepath.Join(dir, "MARK-END"))
	if err != nil {
		os.Exit(4)
	}
}

// ---------------------------------------------------------------------------
// strace capture

// straceHelper runs `<self> <helper...>` under strace (main thread only: the helpers lock their
// main goroutine to it) and returns every system call, the index range between the two marker
// calls, and whether the helper exited with status 0.
func straceHelper(dir string, straceArgs []string, helper ...string) (all []sysLine, begin, end int, exitOK bool, err error) {
	logf := filepath.Join(dir, "strace.log")
	os.Remove(logf)
	args := append([]string{"-o", logf, "-s", "0"}, straceArgs...)
	args = append(args, os.Args[0])
	args = append(args, helper...)
	cmd := exec.Command("strace", args...)
	cmd.Env = append(os.Environ(), "GOMAXPROCS=1")
	out, runErr := cmd.CombinedOutput()
	exitOK = runErr == nil
	f, err := os.Open(logf)
	if err != nil {
		return nil, 0, 0, false, fmt.Errorf("strace: %v: %s", runErr, out)
	}
	defer f.Close()
	begin, end = -1, -1
	sc := bufio.NewScanner(f)
	sc.Buffer(make([]byte, 1<<20), 1<<24)
	for sc.Scan() {
		m := sysRe.FindStringSubmatch(sc.Text())
		if m == nil {
			continue
		}
		l := sysLine{m[1], m[2], m[3]}
		if strings.HasPrefix(l.name, "unlink") && strings.Contains(l.args, "MARK-BEGIN") {
			begin = len(all) + 1
		}
		if strings.HasPrefix(l.name, "unlink") && strings.Contains(l.args, "MARK-END") && end < 0 {
			end = len(all)
		}
		all = append(all, l)
	}
	if begin < 0 || end < 0 {
		return nil, 0, 0, false, fmt.Errorf("markers not found in strace log (%d lines): %v: %s", len(all), runErr, out)
	}
	return all, begin, end, exitOK, nil
}

func splitSysArgs(s string) []string {
	var out []string
	depth, inq, cur := 0, false, strings.Builder{}
	for i := 0; i < len(s); i++ {
		c := s[i]
		switch {
		case c == '"' && (i == 0 || s[i-1] != '\\'):
			inq = !inq
			cur.WriteByte(c)
		case !inq && (c == '{' || c == '[' || c == '('):
			depth++
			cur.WriteByte(c)
		case !inq && (c == '}' || c == ']' || c == ')'):
			depth--
			cur.WriteByte(c)
		case !inq && depth == 0 && c == ',':
			out = append(out, strings.TrimSpace(cur.String()))
			cur.Reset()
		default:
			cur.WriteByte(c)
		}
	}
	if cur.Len() > 0 {
		out = append(out, strings.TrimSpace(cur.String()))
	}
	return out
}

func relPath(dir, quoted string) string {
	p := strings.Trim(strings.TrimSpace(quoted), "\"")
	if r, err := filepath.Rel(dir, p); err == nil && !strings.HasPrefix(r, "..") {
		p = r
	}
	return p
}

func errnoOf(ret string) string {
	f := strings.Fields(ret)
	if len(f) >= 2 {
		return f[1]
	}
	return "E?"
}

// ---------------------------------------------------------------------------
// 1. the read path

// canonReadCalls keeps the calls of the region that touch `target` (relative to dir): successful
// path-based stats of it, successful opens of it, and fstat / read / close on a descriptor opened
// on it.  Every successful open in the region gets the next canonical descriptor number, so a
// number never names two files.  Consecutive reads of one descriptor are written once.
//
//	pstat:<path>  open:<path>:<fd>  fstat:<fd>  read:<fd>  close:<fd>
func canonReadCalls(dir, target string, region []sysLine) []string {
	fds := map[string]int{} // real descriptor -> canonical number, descriptors open on the target only
	nfd := 0
	var out []string
	emit := func(s string) {
		if strings.HasPrefix(s, "read:") && len(out) > 0 && out[len(out)-1] == s {
			return
		}
		out = append(out, s)
	}
	for _, l := range region {
		a := splitSysArgs(l.args)
		failed := strings.HasPrefix(l.ret, "-1") || strings.HasPrefix(l.ret, "?")
		switch l.name {
		case "openat", "open", "openat2":
			off := 0
			if l.name != "open" {
				off = 1
			}
			if failed || len(a) <= off {
				continue
			}
			real := strings.Fields(l.ret)[0]
			delete(fds, real)
			if relPath(dir, a[off]) == target {
				fds[real] = nfd
				emit(fmt.Sprintf("open:%s:%d", target, nfd))
			}
			nfd++
		case "stat", "lstat", "stat64", "lstat64":
			if !failed && len(a) > 0 && relPath(dir, a[0]) == target {
				emit("pstat:" + target)
			}
		case "newfstatat", "fstatat64", "statx":
			if failed || len(a) < 2 {
				continue
			}
			if p := strings.Trim(a[1], "\""); p == "" {
				// fstatat(fd, "", AT_EMPTY_PATH): the descriptor's own file
				if fd, ok := fds[a[0]]; ok {
					emit(fmt.Sprintf("fstat:%d", fd))
				}
			} else if relPath(dir, a[1]) == target {
				emit("pstat:" + target)
			}
		case "fstat", "fstat64":
			if fd, ok := fds[a[0]]; ok && !failed {
				emit(fmt.Sprintf("fstat:%d", fd))
			}
		case "read", "pread64", "readv", "preadv", "preadv2":
			if fd, ok := fds[a[0]]; ok && !failed {
				emit(fmt.Sprintf("read:%d", fd))
			}
		case "close":
			if fd, ok := fds[a[0]]; ok {
				emit(fmt.Sprintf("close:%d", fd))
				delete(fds, a[0])
			}
		}
	}
	return out
}

func captureRead(scenario string) ([]string, error) {
	dir, err := scratchDir("rd")
	if err != nil {
		return nil, err
	}
	defer os.RemoveAll(dir)
	if err := prepareRWDir(dir); err != nil {
		return nil, err
	}
	all, b, e, ok, err := straceHelper(dir, nil, "read-helper", dir, scenario)
	if err != nil {
		return nil, err
	}
	if !ok {
		return nil, fmt.Errorf("read-helper %s failed", scenario)
	}
	return canonReadCalls(dir, rwTarget, all[b:e]), nil
}

func known(list []string, s string) bool {
	for _, x := range list {
		if x == s {
			return true
		}
	}
	return false
}

func readCallsOp(scenario string) string {
	if !known(readScenarios, scenario) {
		return "err:unknown-scenario"
	}
	calls, err := captureRead(scenario)
	if err != nil {
		return "err:" + esc(err.Error())
	}
	if len(calls) == 0 {
		return "none"
	}
	return strings.Join(calls, " ")
}

func leanReadCall(tok string) string {
	f := strings.Split(tok, ":")
	switch f[0] {
	case "pstat":
		return fmt.Sprintf(".pathStat %q", f[1])
	case "open":
		return fmt.Sprintf(".openAt %q %s", f[1], f[2])
	case "fstat":
		return ".fstat " + f[1]
	case "read":
		return ".read " + f[1]
	case "close":
		return ".close " + f[1]
	}
	panic("bad read call " + tok)
}

func writeIfChanged(out, content string) error {
	old, _ := os.ReadFile(out)
	if string(old) == content {
		return nil
	}
	return os.WriteFile(out, []byte(content), 0644)
}

func syscallsReadLean(out string) error {
	var sb strings.Builder
	sb.WriteString("import GaleneVerif.Model.ReadVersion\n")
	sb.WriteString("/-! GENERATED by `harness/cmd/api syscalls-read-lean` (extract/gen-syscalls-desc-faults) from strace captures of one call of\n")
	sb.WriteString("`group.GetDescription` on the tree under $VERIF_REPO, per scenario (plain: group not live; sub: a subgroup served from its\n")
	sb.WriteString("parent's file; stale: live group whose file was replaced).  Do not edit.  Only the calls that touch the definition file are\n")
	sb.WriteString("kept; descriptor numbers are canonicalised; consecutive reads of one descriptor are written once. -/\n")
	sb.WriteString("namespace Galene.Generated\nopen Galene.ReadVersion\n\n")
	sb.WriteString(fmt.Sprintf("def syscallsDescReadTarget : String := %q\n\n", rwTarget))
	sb.WriteString("def syscallsDescRead : List (String × List Call) :=\n  [ ")
	for i, sc := range readScenarios {
		calls, err := captureRead(sc)
		if err != nil {
			return err
		}
		var ls []string
		for _, c := range calls {
			ls = append(ls, leanReadCall(c))
		}
		if i > 0 {
			sb.WriteString(",\n    ")
		}
		sb.WriteString(fmt.Sprintf("(%q, [ %s ])", sc, strings.Join(ls, ", ")))
	}
	sb.WriteString(" ]\n\nend Galene.Generated\n")
	return writeIfChanged(out, sb.String())
}

// readrace <scenario>: the interleaving of Props/C18Read.lean on the real code, deterministically.
// The reader (read-helper under strace) is stopped by an injected SIGSTOP at the entry of its
// first read(2) of the definition file, i.e. after the open; the file (version A, two users) is
// then replaced by rename with version B (three users, other size and mtime); the reader is
// continued and reports whose content and whose tag GetDescription returned.
//
//	=> content=<A|B|?> tag=<A|B|?>
func readRaceOp(scenario string) string {
	if !known(readScenarios, scenario) {
		return "err:unknown-scenario"
	}
	fail := func(err error) string { return "err:" + esc(err.Error()) }
	dir, err := scratchDir("rr")
	if err != nil {
		return fail(err)
	}
	defer os.RemoveAll(dir)
	if err := prepareRWDir(dir); err != nil {
		return fail(err)
	}
	// how many read(2) calls the helper makes before the region
	all, b, _, ok, err := straceHelper(dir, []string{"-e", "trace=read,unlinkat,unlink"}, "read-helper", dir, scenario, "report")
	if err != nil {
		return fail(err)
	}
	if !ok {
		return "err:read-helper-failed"
	}
	nread := 0
	for _, l := range all[:b] {
		if l.name == "read" {
			nread++
		}
	}
	if err := prepareRWDir(dir); err != nil {
		return fail(err)
	}
	os.Remove(filepath.Join(dir, "PID"))
	target := filepath.Join(dir, rwTarget)
	cmd := exec.Command("strace", "-o", "/dev/null", "-e", "trace=read", "-e", fmt.Sprintf("inject=read:signal=STOP:when=%d", nread+1),
		os.Args[0], "read-helper", dir, scenario, "report")
	cmd.Env = append(os.Environ(), "GOMAXPROCS=1")
	var out strings.Builder
	cmd.Stdout = &out
	if err := cmd.Start(); err != nil {
		return fail(err)
	}
	done := make(chan error, 1)
	go func() { done <- cmd.Wait() }()
	exited := false
	wait := func(cond func() bool) bool { // poll; false when the helper is gone or 10 s have passed
		for i := 0; i < 20000; i++ {
			if cond() {
				return true
			}
			select {
			case <-done:
				exited = true
				return false
			default:
			}
			time.Sleep(500 * time.Microsecond)
		}
		return false
	}
	pid := 0
	if !wait(func() bool {
		raw, err := os.ReadFile(filepath.Join(dir, "PID"))
		if err != nil || len(raw) == 0 {
			return false
		}
		pid, _ = strconv.Atoi(string(raw))
		return pid > 0
	}) {
		if !exited {
			cmd.Process.Kill()
		}
		return "err:no-pid"
	}
	// the helper has the definition file open: it is past the open and cannot get past the read
	if !wait(func() bool {
		ents, err := os.ReadDir(fmt.Sprintf("/proc/%d/fd", pid))
		if err != nil {
			return false
		}
		for _, en := range ents {
			if l, err := os.Readlink(fmt.Sprintf("/proc/%d/fd/%s", pid, en.Name())); err == nil && l == target {
				return true
			}
		}
		return false
	}) {
		if !exited {
			syscall.Kill(pid, syscall.SIGKILL)
			cmd.Process.Kill()
		}
		return "err:the-reader-was-not-stopped-with-the-file-open"
	}
	tagOf := func() string {
		fi, err := os.Stat(target)
		if err != nil {
			return "?"
		}
		return fmt.Sprintf("\"%d-%d\"", fi.Size(), fi.ModTime().UnixNano())
	}
	tagA := tagOf()
	fx := &eng{secrets: map[string]bool{}, markers: map[string]bool{}, ids: map[string]bool{}}
	tmp := target + ".new"
	if err := os.WriteFile(tmp, fx.groupJSON(crashNew), 0600); err != nil {
		return fail(err)
	}
	tB := time.Unix(baseTime+99, 0)
	os.Chtimes(tmp, tB, tB)
	if err := os.Rename(tmp, target); err != nil {
		return fail(err)
	}
	tagB := tagOf()
	// continue the reader (a SIGCONT that arrives before the stop is lost: repeat until it has finished)
	finished := false
	for i := 0; i < 20000 && !finished; i++ {
		syscall.Kill(pid, syscall.SIGCONT)
		select {
		case <-done:
			finished = true
		case <-time.After(time.Millisecond):
		}
	}
	if !finished {
		syscall.Kill(pid, syscall.SIGKILL)
		cmd.Process.Kill()
		return "err:the-reader-did-not-finish"
	}
	var users int
	var tag string
	if _, err := fmt.Sscanf(strings.TrimSpace(out.String()), "users=%d tag=%s", &users, &tag); err != nil {
		return "err:reader-output:" + esc(out.String())
	}
	content, tg := "?", "?"
	switch users {
	case 2:
		content = "A"
	case 3:
		content = "B"
	}
	switch tag {
	case tagA:
		tg = "A"
	case tagB:
		tg = "B"
	}
	return fmt.Sprintf("content=%s tag=%s", content, tg)
}

// ---------------------------------------------------------------------------
// 2a. the write path under a fault: system calls

// canonFaultCalls is canonSyscalls (crash.go) with the failed calls kept:
//
//	mkdir:<p> openRead:<p>:<fd> createExcl:<p>:<fd> openWrite:<p>:<fd> write:<fd>:<n> fsync:<fd> close:<fd>
//	rename:<a>:<b> unlink:<p> other:<name>          a call that succeeded
//	write!:<fd>:<n>:<errno> fsync!:<fd>:<errno> close!:<fd>:<errno> rename!:<a>:<b>:<errno> createExcl!:<p>:<errno>
//	                                                a call that failed (no effect)
func canonFaultCalls(dir string, region []sysLine) []string {
	temps := map[string]string{}
	fds := map[string]int{}
	nfd := 0
	rel := func(quoted string) string {
		p := relPath(dir, quoted)
		d, b := filepath.Split(p)
		if tempRe.MatchString(b) {
			if _, ok := temps[b]; !ok {
				temps[b] = fmt.Sprintf("T%d.temp", len(temps)+1)
			}
			b = temps[b]
		}
		return d + b
	}
	readonly := map[string]bool{"newfstatat": true, "fstat": true, "stat": true, "lstat": true, "statx": true, "read": true, "pread64": true,
		"fcntl": true, "epoll_ctl": true, "epoll_create1": true, "epoll_pwait": true, "lseek": true, "getdents64": true, "readlinkat": true,
		"access": true, "faccessat": true, "faccessat2": true, "mmap": true, "munmap": true, "madvise": true, "rt_sigprocmask": true,
		"rt_sigaction": true, "futex": true, "sched_yield": true, "nanosleep": true, "getpid": true, "gettid": true, "tgkill": true,
		"rt_sigreturn": true, "sigaltstack": true, "clone": true, "clone3": true, "getrandom": true, "eventfd2": true, "pipe2": true,
		"mprotect": true, "brk": true, "prlimit64": true, "sched_getaffinity": true, "uname": true, "getcwd": true, "ioctl": true}
	var ops []string
	for _, l := range region {
		a := splitSysArgs(l.args)
		failed := strings.HasPrefix(l.ret, "-1")
		switch l.name {
		case "mkdirat", "mkdir":
			if !failed || strings.Contains(l.ret, "EEXIST") {
				ops = append(ops, "mkdir:"+rel(a[len(a)-2]))
			}
		case "openat", "open":
			off := 0
			if l.name == "openat" {
				off = 1
			}
			p, flags := a[off], a[off+1]
			creating := strings.Contains(flags, "O_CREAT")
			if failed {
				if creating {
					ops = append(ops, fmt.Sprintf("createExcl!:%s:%s", rel(p), errnoOf(l.ret)))
				}
				continue
			}
			fd := strings.Fields(l.ret)[0]
			fds[fd] = nfd
			switch {
			case creating && strings.Contains(flags, "O_EXCL"):
				ops = append(ops, fmt.Sprintf("createExcl:%s:%d", rel(p), nfd))
			case strings.Contains(flags, "O_RDONLY") && !strings.Contains(flags, "O_TRUNC") && !creating:
				ops = append(ops, fmt.Sprintf("openRead:%s:%d", rel(p), nfd))
			default:
				ops = append(ops, fmt.Sprintf("openWrite:%s:%d", rel(p), nfd))
			}
			nfd++
		case "write", "pwrite64":
			fd, ok := fds[a[0]]
			if !ok {
				continue // not a file opened inside the region (stderr etc.)
			}
			if failed {
				want, _ := strconv.Atoi(a[len(a)-1])
				ops = append(ops, fmt.Sprintf("write!:%d:%d:%s", fd, want, errnoOf(l.ret)))
				continue
			}
			n, _ := strconv.Atoi(strings.Fields(l.ret)[0])
			ops = append(ops, fmt.Sprintf("write:%d:%d", fd, n))
		case "fsync", "fdatasync":
			if fd, ok := fds[a[0]]; ok {
				if failed {
					ops = append(ops, fmt.Sprintf("fsync!:%d:%s", fd, errnoOf(l.ret)))
				} else {
					ops = append(ops, fmt.Sprintf("fsync:%d", fd))
				}
			}
		case "close":
			if fd, ok := fds[a[0]]; ok {
				if failed {
					ops = append(ops, fmt.Sprintf("close!:%d:%s", fd, errnoOf(l.ret)))
				} else {
					ops = append(ops, fmt.Sprintf("close:%d", fd))
				}
				delete(fds, a[0])
			}
		case "rename", "renameat", "renameat2":
			var from, to string
			if l.name == "rename" {
				from, to = a[0], a[1]
			} else {
				from, to = a[1], a[3]
			}
			if failed {
				ops = append(ops, fmt.Sprintf("rename!:%s:%s:%s", rel(from), rel(to), errnoOf(l.ret)))
			} else {
				ops = append(ops, fmt.Sprintf("rename:%s:%s", rel(from), rel(to)))
			}
		case "unlink", "unlinkat":
			p := a[0]
			if l.name == "unlinkat" {
				p = a[1]
			}
			if !failed {
				ops = append(ops, "unlink:"+rel(p))
			}
		default:
			if !readonly[l.name] {
				ops = append(ops, "other:"+l.name)
			}
		}
	}
	return ops
}

// callsBefore counts the calls of each name that the fault helper makes before the rewrite (an
// undisturbed run), so that `inject=...:when=N+` hits the calls of the rewrite only.
var callsBeforeCache map[string]int

func callsBefore() (map[string]int, error) {
	if callsBeforeCache != nil {
		return callsBeforeCache, nil
	}
	dir, err := scratchDir("fplan")
	if err != nil {
		return nil, err
	}
	defer os.RemoveAll(dir)
	if err := prepareRWDir(dir); err != nil {
		return nil, err
	}
	all, b, _, ok, err := straceHelper(dir, nil, "fault-helper", dir, "none")
	if err != nil {
		return nil, err
	}
	if !ok {
		return nil, fmt.Errorf("fault-helper without a fault failed")
	}
	m := map[string]int{}
	for _, l := range all[:b] {
		m[l.name]++
	}
	callsBeforeCache = m
	return m, nil
}

// captureFault returns the canonical calls of one rewrite under the scenario's fault, whether
// the rewrite reported success, and the state of the definition file afterwards
// (old / new / partial:...).
func captureFault(scenario string) (calls []string, reportedOK bool, state string, err error) {
	var straceArgs []string
	switch scenario {
	case "fsize0", "fsize100":
	case "write-enospc", "fsync-eio":
		before, err := callsBefore()
		if err != nil {
			return nil, false, "", err
		}
		name, errno := "write", "ENOSPC"
		if scenario == "fsync-eio" {
			name, errno = "fsync", "EIO"
		}
		straceArgs = []string{"-e", fmt.Sprintf("inject=%s:error=%s:when=%d+", name, errno, before[name]+1)}
	default:
		return nil, false, "", fmt.Errorf("unknown scenario %s", scenario)
	}
	dir, err := scratchDir("flt")
	if err != nil {
		return nil, false, "", err
	}
	defer os.RemoveAll(dir)
	if err := prepareRWDir(dir); err != nil {
		return nil, false, "", err
	}
	all, b, e, ok, err := straceHelper(dir, straceArgs, "fault-helper", dir, scenario)
	if err != nil {
		return nil, false, "", err
	}
	fx := &eng{secrets: map[string]bool{}, markers: map[string]bool{}, ids: map[string]bool{}}
	state = "missing"
	if raw, err := os.ReadFile(filepath.Join(dir, "groups", "grpC.json")); err == nil {
		switch c := fx.canonGroupBytes(raw); c {
		case rwFixture:
			state = "old"
		case crashNew:
			state = "new"
		default:
			state = "partial:" + c
		}
	}
	return canonFaultCalls(dir, all[b:e]), ok, state, nil
}

// faultcalls <scenario> => <reported ok|failed> <state of the file> <calls...>
func faultCallsOp(scenario string) string {
	if !known(faultScenarios, scenario) {
		return "err:unknown-scenario"
	}
	calls, ok, state, err := captureFault(scenario)
	if err != nil {
		return "err:" + esc(err.Error())
	}
	rep := "failed"
	if ok {
		rep = "ok"
	}
	return rep + " " + state + " " + strings.Join(calls, " ")
}

func leanFaultCall(tok string) string {
	f := strings.Split(tok, ":")
	kind := f[0]
	failed := strings.HasSuffix(kind, "!")
	kind = strings.TrimSuffix(kind, "!")
	var op, errno string
	switch kind {
	case "mkdir":
		op = fmt.Sprintf(".mkdir %q", f[1])
	case "openRead", "createExcl", "openWrite":
		if failed {
			op, errno = fmt.Sprintf(".%s %q 0", kind, f[1]), f[2]
		} else {
			op = fmt.Sprintf(".%s %q %s", kind, f[1], f[2])
		}
	case "write":
		op = fmt.Sprintf(".write %s %s", f[1], f[2])
		if failed {
			errno = f[3]
		}
	case "fsync", "close":
		op = fmt.Sprintf(".%s %s", kind, f[1])
		if failed {
			errno = f[2]
		}
	case "rename":
		op = fmt.Sprintf(".rename %q %q", f[1], f[2])
		if failed {
			errno = f[3]
		}
	case "unlink":
		op = fmt.Sprintf(".unlink %q", f[1])
	case "other":
		op = fmt.Sprintf(".other %q", f[1])
	default:
		panic("bad fault call " + tok)
	}
	if failed {
		return fmt.Sprintf(".failed (%s) %q", op, errno)
	}
	return fmt.Sprintf(".ok (%s)", op)
}

func syscallsFaultLean(out string) error {
	var sb strings.Builder
	sb.WriteString("import GaleneVerif.Model.WriteFault\n")
	sb.WriteString("/-! GENERATED by `harness/cmd/api syscalls-fault-lean` (extract/gen-syscalls-desc-faults) from strace captures of one call of\n")
	sb.WriteString("`group.rewriteDescriptionFile` on the tree under $VERIF_REPO whose write or fsync FAILS: RLIMIT_FSIZE 0 and 100 (EFBIG, the\n")
	sb.WriteString("latter after a partial write), ENOSPC injected on write, EIO injected on fsync.  Do not edit.  Canonicalised as\n")
	sb.WriteString("Generated/SyscallsDesc.lean; failed calls are kept (`.failed`). -/\n")
	sb.WriteString("namespace Galene.Generated\nopen Galene.SafeReplaceDesc Galene.WriteFault\n\n")
	sb.WriteString(fmt.Sprintf("def syscallsDescFaultTarget : String := %q\n\n", rwTarget))
	sb.WriteString("def syscallsDescFault : List (String × List Call) :=\n  [ ")
	for i, sc := range faultScenarios {
		calls, _, _, err := captureFault(sc)
		if err != nil {
			return err
		}
		var ls []string
		for _, c := range calls {
			ls = append(ls, leanFaultCall(c))
		}
		if i > 0 {
			sb.WriteString(",\n    ")
		}
		sb.WriteString(fmt.Sprintf("(%q,\n      [ %s ])", sc, strings.Join(ls, ",\n        ")))
	}
	sb.WriteString(" ]\n\nend Galene.Generated\n")
	return writeIfChanged(out, sb.String())
}

// ---------------------------------------------------------------------------
// 2b. API requests under a write fault

// withFault runs fn while no regular file can grow beyond `limit` bytes: none | fs0 | fs1 | fs100.
func withFault(f string, fn func()) {
	var limit uint64
	switch f {
	case "none":
		fn()
		return
	case "fs0":
		limit = 0
	case "fs1":
		limit = 1
	case "fs100":
		limit = 100
	default:
		panic("bad fault " + f)
	}
	var old syscall.Rlimit
	if err := syscall.Getrlimit(syscall.RLIMIT_FSIZE, &old); err != nil {
		panic(err)
	}
	if err := syscall.Setrlimit(syscall.RLIMIT_FSIZE, &syscall.Rlimit{Cur: limit, Max: old.Max}); err != nil {
		panic(err)
	}
	defer func() {
		if err := syscall.Setrlimit(syscall.RLIMIT_FSIZE, &old); err != nil {
			panic(err)
		}
	}()
	fn()
}

// sweepTemps removes temporary files that a failed rewrite left in the groups directory and
// returns their number (reported as `strays=`; the property does not speak about them).
func (e *eng) sweepTemps() int {
	n := 0
	filepath.Walk(e.groups, func(p string, fi os.FileInfo, err error) error {
		if err == nil && !fi.IsDir() && tempRe.MatchString(filepath.Base(p)) {
			if os.Remove(p) == nil {
				n++
			}
		}
		return nil
	})
	return n
}

// ---------------------------------------------------------------------------
// generators (called from gen in gen.go)

// genShapes: the captured system-call shapes of the read path and of the faulted write path.
func genShapes(t *common.Trace, e common.Engine) {
	// one case per capture: the driver stops a case at its first oracle failure
	one := func(op, sc string) string {
		t.Case("shape-" + op + "-" + sc)
		e.Reset()
		return common.Do(t, e, op+" "+sc)
	}
	for _, sc := range readScenarios {
		res := one("readcalls", sc)
		t.Count("shapes:read:" + strings.SplitN(res, ":", 2)[0])
	}
	for _, sc := range readScenarios {
		res := one("readrace", sc)
		t.Count("shapes:readrace:" + strings.ReplaceAll(res, " ", ","))
	}
	for _, sc := range faultScenarios {
		res := one("faultcalls", sc)
		t.Count("shapes:fault:" + strings.Fields(res)[0])
	}
}

var faultFixtures = []struct{ name, canon, user, ownpw string }{
	// a definition that is certainly longer than 100 bytes (description of 120)
	{"grpA", "c120;a0;u=usrAna:p.a:admin,usrBob:b.b:present,~:p.e0:observe;w=p.w:message;k=K1,E2", "usrBob", "b"},
	// a short one: under the 100-byte limit the write may fit (the model accepts both outcomes)
	{"grpS", "c3;a0;u=usrSam:p.s:admin;w=-;k=-", "usrSam", "s"},
	// the legacy file format next to a users map
	{"grpL", "c110;a1;u=usrMod:p.m:admin,usrDup:k.dm:present;w=p.wm:message;k=K1;o=usrMod:p.mx,usrOp:b.o1;p=usrDup:p.d2,~:p.w1;t=~:p.w2", "usrDup", "dm"},
}

var faults = []string{"fs0", "fs1", "fs100"}

// faultRequests: every kind of request that (re)writes or removes a definition file, plus refused
// and reading ones; %[1]s = API root + group, %[2]s = a user of the group, %[3]s = that user's password id.
var faultRequests = []string{
	"PUT %[1]s basic:root:r json - - desc:130:1",
	"PUT %[1]s basic:root:r json - - desc:0:0",
	"PUT %[1]sNew basic:root:r json - * desc:125:0",
	"PUT %[1]s/deep/er basic:root:r json - * desc:140:0",
	"PUT %[1]s/.users/%[2]s basic:root:r json - - user:caption",
	"PUT %[1]s/.users/usrNew basic:root:r json - * user:present",
	"DELETE %[1]s/.users/%[2]s basic:root:r - - - -",
	"PUT %[1]s/.wildcard-user basic:root:r json - - user:observe",
	"DELETE %[1]s/.wildcard-user basic:root:r - - - -",
	"PUT %[1]s/.users/%[2]s/.password basic:root:r json - - pw:p.n1",
	"PUT %[1]s/.users/%[2]s/.password basic:%[2]s:%[3]s json - - pw:k.n2",
	"POST %[1]s/.users/%[2]s/.password basic:root:r text - - text:n3",
	"DELETE %[1]s/.users/%[2]s/.password basic:root:r - - - -",
	"PUT %[1]s/.keys basic:root:r jwk - - keys:K7,D8",
	"DELETE %[1]s/.keys basic:root:r - - - -",
	"DELETE %[1]s basic:root:r - - - -",
	"PUT %[1]s none json - - desc:131:0",
	"PUT %[1]s/.users/%[2]s basic:%[2]s:wrong json - - user:admin",
	"GET %[1]s basic:root:r - - - -",
	"GET %[1]s/.users/%[2]s basic:root:r - - - -",
}

// genFaults: API requests while writes to regular files fail.  Part 1: every fixture x fault x kind
// of request, each followed by the reads and by the same request without the fault; part 2: random
// sequences in which about half of the requests run under a fault.
func genFaults(t *common.Trace, e common.Engine, r *common.Rng, thorough bool) {
	for fi, fx := range faultFixtures {
		root := api + "/.groups/" + fx.name
		reads := func(do func(string, ...any) string) {
			do("req GET %s basic:root:r - - - -", root)
			do("req GET %s/.users/ basic:root:r - - - -", root)
			do("req GET %s/.users/%s basic:root:r - - - -", root, fx.user)
			do("req GET %s/.wildcard-user basic:root:r - - - -", root)
		}
		for _, fault := range faults {
			for ri, rq := range faultRequests {
				t.Case(fmt.Sprintf("fault-%d-%s-%d", fi, fault, ri))
				e.Reset()
				do := func(f string, args ...any) string { return common.Do(t, e, fmt.Sprintf(f, args...)) }
				do("conf 1 root:p.r:admin")
				do("group %s %s", fx.name, fx.canon)
				line := fmt.Sprintf(rq, root, fx.user, fx.ownpw)
				res := do("freq %s %s", fault, line)
				t.Count("fault:" + fault + ":" + strings.Fields(res)[0])
				reads(do)
				// the same request without the fault, and a second one under it on whatever is there now
				res = do("req %s", line)
				t.Count("fault:none:" + strings.Fields(res)[0])
				do("freq %s %s", fault, fmt.Sprintf(faultRequests[(ri+4)%len(faultRequests)], root, fx.user, fx.ownpw))
				reads(do)
			}
		}
	}
	ncases := 40
	if thorough {
		ncases = 600
	}
	for ci := 0; ci < ncases; ci++ {
		t.Case(fmt.Sprintf("faultrand-%d", ci))
		e.Reset()
		tr := &tracker{cur: map[string]int{}, stale: map[string][]int{}}
		do := func(f string, args ...any) string {
			res := common.Do(t, e, fmt.Sprintf(f, args...))
			tr.note(res)
			return res
		}
		do("conf %s root:p.r:admin", common.B2s(r.Intn(10) != 0))
		pwid := 0
		groups := []string{"grpA", "grpB"}[:r.Range(1, 2)]
		for _, g := range groups {
			var us []string
			for _, u := range userPool[:5] {
				if r.Intn(2) == 0 {
					pwid++
					us = append(us, fmt.Sprintf("%s:%s:%s", u, randPw(r, fmt.Sprintf("u%d", pwid)), randPerm(r)))
				}
			}
			ustr := "-"
			if len(us) > 0 {
				ustr = strings.Join(us, ",")
			}
			w := "-"
			if r.Intn(3) == 0 {
				w = "p.w:" + randPerm(r)
			}
			do("group %s c%d;a%d;u=%s;w=%s;k=%s", g, common.Pick(r, 0, 2, 30, 90, 120, 200), r.Intn(2), ustr, w, common.Pick(r, "-", "K1", "K1,E2"))
		}
		for i, n := 0, r.Range(12, 30); i < n; i++ {
			g := common.Pick(r, "grpA", "grpB", "grpA/sub", "grpC")
			if r.Intn(6) != 0 {
				g = groups[r.Intn(len(groups))]
			}
			u := common.Pick(r, userPool[:5]...)
			if us := e.(*eng).usersOf(g); len(us) > 0 && r.Intn(10) < 8 {
				u = us[r.Intn(len(us))]
			}
			if u == "~" {
				u = "usrAna"
			}
			root := api + "/.groups/" + g
			im, inm := "-", "-"
			if cur, ok := tr.cur["g:"+g]; ok {
				switch r.Intn(6) {
				case 0:
					im = fmt.Sprintf("t%d", cur)
				case 1:
					if s := tr.stale["g:"+g]; len(s) > 0 {
						im = fmt.Sprintf("t%d", s[r.Intn(len(s))])
					}
				case 2:
					inm = "*"
				}
			}
			var line string
			pwid++
			switch r.Weighted(20, 16, 8, 14, 6, 8, 6, 6, 16) {
			case 0:
				line = fmt.Sprintf("PUT %s basic:root:r json %s %s desc:%d:%d", root, im, inm, common.Pick(r, 0, 4, 60, 85, 100, 150), r.Intn(2))
			case 1:
				line = fmt.Sprintf("PUT %s/.users/%s basic:root:r json %s %s user:%s", root, u, im, inm, randPerm(r))
			case 2:
				line = fmt.Sprintf("DELETE %s/.users/%s basic:root:r - %s - -", root, u, im)
			case 3:
				line = fmt.Sprintf("PUT %s/.users/%s/.password basic:root:r json - - pw:%s", root, u, randPw(r, fmt.Sprintf("n%d", pwid)))
			case 4:
				line = fmt.Sprintf("POST %s/.users/%s/.password basic:root:r text - - text:n%d", root, u, pwid)
			case 5:
				line = fmt.Sprintf("PUT %s/.keys basic:root:r jwk - - %s", root, common.Pick(r, "keys:K1", "keys:K4,E2", "keysempty", "keys:K1,B5"))
			case 6:
				line = fmt.Sprintf("DELETE %s basic:root:r - %s - -", root, im)
			case 7:
				line = fmt.Sprintf("PUT %s/.wildcard-user basic:root:r json - - user:%s", root, randPerm(r))
			case 8:
				line = fmt.Sprintf("%s %s%s basic:root:r - - %s -", common.Pick(r, "GET", "HEAD"), root, common.Pick(r, "", "/.users/", "/.users/"+u), inm)
			}
			if r.Intn(8) == 0 {
				line = strings.Replace(line, "basic:root:r", common.Pick(r, "none", "basic:root:wrong", "basic:usrAna:u1"), 1)
			}
			var res string
			if r.Bool() {
				fault := common.Pick(r, faults...)
				res = do("freq %s %s", fault, line)
				t.Count("faultrand:" + fault + ":" + strings.Fields(res)[0])
			} else {
				res = do("req %s", line)
				t.Count("faultrand:none:" + strings.Fields(res)[0])
			}
		}
	}
}

// genLive: groups that are live in memory (group.Add), so that group.GetDescription — which the
// API uses for authentication and for every read — goes through its cached-description branch;
// in particular subgroups of an auto-subgroups parent that get, lose or never had a definition
// of their own while live.
func genLive(t *common.Trace, e common.Engine, r *common.Rng, thorough bool) {
	const par = "c5;a1;u=usrPad:p.pp:admin,usrPop:p.po:op;w=-;k=K1"
	child := api + "/.groups/par/child"
	type scenario struct {
		name  string
		setup []string
	}
	mkChild := []string{
		"req PUT " + child + " basic:root:r json - * desc:7:0",
		"req PUT " + child + "/.users/usrCad basic:root:r json - * user:admin",
		"req PUT " + child + "/.users/usrCad/.password basic:root:r json - - pw:p.cp",
		"req PUT " + child + "/.users/usrCarol basic:root:r json - * user:present",
		"req PUT " + child + "/.keys basic:root:r jwk - - keys:K3",
	}
	cat := func(ls ...[]string) []string {
		var out []string
		for _, l := range ls {
			out = append(out, l...)
		}
		return out
	}
	scenarios := []scenario{
		// the subgroup is live on its parent's definition, then gets one of its own
		{"sub-then-own", cat([]string{"group par " + par, "live par/child"}, mkChild)},
		// the same with the parent live too, and without anything live (reference)
		{"both-then-own", cat([]string{"group par " + par, "live par", "live par/child"}, mkChild)},
		{"nothing-live", cat([]string{"group par " + par}, mkChild)},
		// live on its own definition, which is then deleted: the parent's governs again
		{"own-then-sub", cat([]string{"group par " + par}, mkChild, []string{"live par/child", "req DELETE " + child + " basic:root:r - - - -"})},
		// made live only after it got its own definition; the parent is rewritten afterwards
		{"own-live", cat([]string{"group par " + par}, mkChild, []string{"live par/child", "live par", "req PUT " + api + "/.groups/par basic:root:r json - - desc:9:1"})},
		// live subgroup whose parent stops creating subgroups
		{"parent-closes", []string{"group par " + par, "live par/child", "live par", "req PUT " + api + "/.groups/par basic:root:r json - - desc:6:0"}},
		// a live group whose file is removed and created afresh with other users
		{"recreated", []string{"group par/child c4;a0;u=usrOld:p.old:admin;w=-;k=-", "group par " + par, "live par/child",
			"req DELETE " + child + " basic:root:r - - - -", "req PUT " + child + " basic:root:r json - * desc:8:0",
			"req PUT " + child + "/.users/usrCad basic:root:r json - * user:admin", "req PUT " + child + "/.users/usrCad/.password basic:root:r json - - pw:p.cp"}},
		// two levels: par/child (own file, auto-subgroups) governs the live par/child/room
		{"two-levels", []string{"group par " + par, "live par/child/room", "req PUT " + child + " basic:root:r json - * desc:7:1",
			"req PUT " + child + "/.users/usrCad basic:root:r json - * user:admin", "req PUT " + child + "/.users/usrCad/.password basic:root:r json - - pw:p.cp", "live par/child"}},
	}
	creds := []string{
		"basic:usrPad:pp",        // administrator of the parent
		"basic:usrCad:cp",        // administrator of the subgroup's own definition
		"basic:usrOld:old",       // administrator of a definition that no longer exists
		"basic:usrPop:po",        // ordinary user of the parent
		"basic:usrPad:cp",        // each other's passwords
		"basic:usrCad:pp",
		"none",
		"basic:root:r",
		"jwt:K1:par/child:admin:-", // signed with the parent's key
		"jwt:K3:par/child:admin:-", // signed with the subgroup's own key
		"jwt:K1:par:admin:-",
	}
	for _, sc := range scenarios {
		for _, g := range []string{"par/child", "par/child/room", "par"} {
			if g == "par/child/room" && sc.name != "two-levels" {
				continue
			}
			root := api + "/.groups/" + g
			requests := []string{
				"GET " + root + "/.users/ %s - - - -",
				"GET " + root + "/.users/usrCarol %s - - - -",
				"GET " + root + "/.users/usrPop %s - - - -",
				"GET " + root + "/.tokens/ %s - - - -",
				"GET " + root + " %s - - - -",
				"PUT " + root + "/.users/usrCarol/.password %s json - - pw:p.owned",
				"PUT " + root + "/.users/usrPad %s json - - user:admin",
				"PUT " + root + "/.keys %s jwk - - keys:K7",
				"DELETE " + root + "/.users/usrCad %s - - - -",
			}
			for qi, rq := range requests {
				t.Case(fmt.Sprintf("live-%s-%s-%d", sc.name, strings.ReplaceAll(g, "/", "."), qi))
				e.Reset()
				do := func(f string, args ...any) string { return common.Do(t, e, fmt.Sprintf(f, args...)) }
				setupLive := func() {
					do("conf 1 root:p.r:admin")
					for _, l := range sc.setup {
						do("%s", l)
					}
				}
				setupLive()
				for _, c := range creds {
					res := do("req "+rq, c)
					t.Count("live:" + strings.Fields(res)[0])
					if !strings.HasSuffix(res, "chg=-") {
						// an authorised update took effect: start again (live groups are forgotten by Reset only)
						t.Case(fmt.Sprintf("live-%s-%s-%d-after-%s", sc.name, strings.ReplaceAll(g, "/", "."), qi, strings.ReplaceAll(c, "/", ".")))
						e.Reset()
						setupLive()
					}
				}
			}
		}
	}
}
