package main

// Symbolic fixtures: the op lines name passwords, keys, users and tokens by
// short symbols; this file turns symbols into the JSON that galene stores or
// receives, and turns what is found on disk back into the same symbols.
//
//   password  -        no password field            w      {"type":"wildcard"}
//             p.<id>   plain, cleartext PW<id>zq9    b.<id> bcrypt of PW<id>zq9
//             k.<id>   pbkdf2/sha-256 of PW<id>zq9   e      plain, empty string
//             x        unknown password type (Match returns an error)
//   perm      -  |  op admin present message observe caption  |  [a+b+c] (raw array)
//   user      <name|~>:<password>:<perm>            (~ is the empty user name)
//   key       K<id> oct/HS256   E<id> EC public   D<id> EC with private "d"   B<id> malformed (no alg)
//   group     c<len>;a<0|1>;u=<user,...|->;w=<password>:<perm>|-;k=<key,...|->[;s1][;o=<legacy,...>][;p=<legacy,...>][;t=<legacy,...>]
//             the optional sections are the LEGACY file format that group.upgradeDescription folds into users at load
//             time: s1 = "allow-subgroups": true; o= / p= / t= are the arrays "op" / "presenter" / "other" in file order
//   legacy    <name|~>:<password|->   (~ : no username = a wildcard entry;  - : no password field = any password)
//   token     <name>:<group|->:<sub 0|1>:<user|->:<perm+perm|->:<ok|expired|noexp|future>

import (
	"crypto/elliptic"
	"crypto/sha256"
	"encoding/base64"
	"encoding/hex"
	"encoding/json"
	"fmt"
	"math/big"
	"os"
	"sort"
	"strings"
	"time"

	"github.com/golang-jwt/jwt/v5"
	"golang.org/x/crypto/bcrypt"
	"golang.org/x/crypto/pbkdf2"
)

func plaintext(id string) string {
	if id == "-" {
		return ""
	}
	return "PW" + id + "zq9"
}

var bcryptByID = map[string]string{} // id -> hash (per process; never printed)
var bcryptSeen = map[string]string{} // hash -> id

func bcryptOf(id string) string {
	if h, ok := bcryptByID[id]; ok {
		return h
	}
	h, err := bcrypt.GenerateFromPassword([]byte(plaintext(id)), bcrypt.MinCost)
	if err != nil {
		panic(err)
	}
	bcryptByID[id] = string(h)
	bcryptSeen[string(h)] = id
	return string(h)
}

func pbkdf2Of(id string) (key, salt string) {
	s := []byte("S" + id)
	k := pbkdf2.Key([]byte(plaintext(id)), s, 1, 32, sha256.New)
	return hex.EncodeToString(k), hex.EncodeToString(s)
}

func (e *eng) noteID(id string) {
	e.ids[id] = true
	e.secrets[plaintext(id)] = true
}

func (e *eng) pwJSON(sym string) []byte {
	var v any
	switch {
	case sym == "-":
		v = map[string]any{}
	case sym == "w":
		v = map[string]any{"type": "wildcard"}
	case sym == "e":
		v = ""
	case sym == "x":
		e.secrets["PWxzq9"] = true
		v = map[string]any{"type": "rot13", "key": "PWxzq9"}
	case strings.HasPrefix(sym, "p."):
		e.noteID(sym[2:])
		v = plaintext(sym[2:])
	case strings.HasPrefix(sym, "b."):
		e.noteID(sym[2:])
		h := bcryptOf(sym[2:])
		e.secrets[h] = true
		v = map[string]any{"type": "bcrypt", "key": h}
	case strings.HasPrefix(sym, "k."):
		e.noteID(sym[2:])
		k, s := pbkdf2Of(sym[2:])
		e.secrets[k] = true
		e.secrets[s] = true
		v = map[string]any{"type": "pbkdf2", "hash": "sha-256", "key": k, "salt": s, "iterations": 1}
	default:
		panic("bad password symbol " + sym)
	}
	b, _ := json.Marshal(v)
	return b
}

func permJSON(sym string) any {
	if strings.HasPrefix(sym, "[") {
		inner := strings.Trim(sym, "[]")
		if inner == "" {
			return []string{}
		}
		return strings.Split(inner, "+")
	}
	return sym
}

func userJSON(perm string) []byte { // a user description without password
	m := map[string]any{}
	if perm != "-" {
		m["permissions"] = permJSON(perm)
	}
	b, _ := json.Marshal(m)
	return b
}

func (e *eng) userMap(pw, perm string) map[string]any {
	m := map[string]any{}
	if pw != "-" {
		m["password"] = json.RawMessage(e.pwJSON(pw))
	}
	if perm != "-" {
		m["permissions"] = permJSON(perm)
	}
	return m
}

func b64(b []byte) string { return base64.RawURLEncoding.EncodeToString(b) }

func ecPoint(id string) (d, x, y []byte) {
	h := sha256.Sum256([]byte("ec" + id))
	c := elliptic.P256()
	k := new(big.Int).SetBytes(h[:])
	k.Mod(k, new(big.Int).Sub(c.Params().N, big.NewInt(1)))
	k.Add(k, big.NewInt(1))
	db := k.FillBytes(make([]byte, 32))
	X, Y := c.ScalarBaseMult(db)
	return db, X.FillBytes(make([]byte, 32)), Y.FillBytes(make([]byte, 32))
}

func octSecret(id string) []byte {
	h := sha256.Sum256([]byte("key" + id))
	return h[:]
}

func (e *eng) keyMap(sym string) map[string]any {
	id := sym[1:]
	switch sym[0] {
	case 'K':
		k := b64(octSecret(id))
		e.secrets[k] = true
		return map[string]any{"kty": "oct", "alg": "HS256", "kid": id, "k": k}
	case 'E', 'D':
		d, x, y := ecPoint(id)
		e.secrets[b64(x)] = true
		e.secrets[b64(y)] = true
		m := map[string]any{"kty": "EC", "alg": "ES256", "crv": "P-256", "kid": id, "x": b64(x), "y": b64(y)}
		if sym[0] == 'D' {
			e.secrets[b64(d)] = true
			m["d"] = b64(d)
		}
		return m
	case 'B':
		k := b64(octSecret(id))
		e.secrets[k] = true
		return map[string]any{"kty": "oct", "kid": id, "k": k}
	}
	panic("bad key symbol " + sym)
}

func section(canon, name string) string {
	for _, s := range strings.Split(canon, ";") {
		if strings.HasPrefix(s, name) {
			return s[len(name):]
		}
	}
	panic("missing section " + name + " in " + canon)
}

func optSection(canon, name string) (string, bool) {
	for _, s := range strings.Split(canon, ";") {
		if strings.HasPrefix(s, name) {
			return s[len(name):], true
		}
	}
	return "", false
}

var legacyFields = []struct{ sec, field string }{{"o=", "op"}, {"p=", "presenter"}, {"t=", "other"}}

func (e *eng) legacyList(entries string) []any {
	var out []any
	for _, u := range strings.Split(entries, ",") {
		f := strings.Split(u, ":")
		m := map[string]any{}
		if f[0] != "~" {
			m["username"] = f[0]
			e.markers[f[0]] = true
		}
		if f[1] != "-" {
			m["password"] = json.RawMessage(e.pwJSON(f[1]))
		}
		out = append(out, m)
	}
	return out
}

func (e *eng) descMap(canon string) map[string]any {
	m := map[string]any{}
	if _, ok := optSection(canon, "s1"); ok {
		m["allow-subgroups"] = true
	}
	for _, lf := range legacyFields {
		if l, ok := optSection(canon, lf.sec); ok {
			m[lf.field] = e.legacyList(l)
		}
	}
	n := 0
	fmt.Sscanf(section(canon, "c"), "%d", &n)
	if n > 0 {
		m["description"] = strings.Repeat("x", n)
	}
	if section(canon, "a") == "1" {
		m["auto-subgroups"] = true
	}
	if us := section(canon, "u="); us != "-" {
		users := map[string]any{}
		for _, u := range strings.Split(us, ",") {
			f := strings.Split(u, ":")
			name := f[0]
			if name == "~" {
				name = ""
			} else {
				e.markers[name] = true
			}
			users[name] = e.userMap(f[1], f[2])
		}
		m["users"] = users
	}
	if w := section(canon, "w="); w != "-" {
		f := strings.Split(w, ":")
		m["wildcard-user"] = e.userMap(f[0], f[1])
	}
	if ks := section(canon, "k="); ks != "-" {
		var keys []any
		for _, k := range strings.Split(ks, ",") {
			keys = append(keys, e.keyMap(k))
		}
		m["authKeys"] = keys
	}
	return m
}

func (e *eng) groupJSON(canon string) []byte {
	b, _ := json.Marshal(e.descMap(canon))
	return append(b, '\n')
}

func (e *eng) confJSON(writable bool, users string) []byte {
	m := map[string]any{}
	if writable {
		m["writableGroups"] = true
	}
	if users != "-" {
		us := map[string]any{}
		for _, u := range strings.Split(users, ",") {
			f := strings.Split(u, ":")
			us[f[0]] = e.userMap(f[1], f[2])
		}
		m["users"] = us
	}
	b, _ := json.Marshal(m)
	return append(b, '\n')
}

const futureTime = "2099-01-01T00:00:00Z"
const pastTime = "2001-02-03T04:05:06Z"

func tokenMap(group string, sub bool, user, perms, when string) map[string]any {
	m := map[string]any{}
	if group != "-" {
		m["group"] = group
	}
	if sub {
		m["includeSubgroups"] = true
	}
	if user != "-" {
		m["username"] = user
	}
	if perms != "-" {
		m["permissions"] = strings.Split(perms, "+")
	} else {
		m["permissions"] = []string{}
	}
	switch when {
	case "ok":
		m["expires"] = futureTime
	case "expired":
		m["expires"] = pastTime
	case "future":
		m["expires"] = futureTime
		m["not-before"] = "2098-01-01T00:00:00Z"
	case "noexp":
	default:
		panic("bad token validity " + when)
	}
	return m
}

func (e *eng) tokenJSON(name, group string, sub bool, user, perms, when string) []byte {
	m := tokenMap(group, sub, user, perms, when)
	m["token"] = name
	if _, ok := m["group"]; !ok {
		m["group"] = ""
	}
	b, _ := json.Marshal(m)
	return b
}

// ---------------------------------------------------------------------------
// reading files back (the harness's own parser of the on-disk format; nothing
// of galene is used here, so what the oracle sees is what a restarted server
// or an operator with `cat` would see)

type rawPassword struct {
	Type       string  `json:"type"`
	Hash       string  `json:"hash"`
	Key        *string `json:"key"`
	Salt       string  `json:"salt"`
	Iterations int     `json:"iterations"`
}

func (e *eng) pwSym(raw json.RawMessage) string {
	if len(raw) == 0 || string(raw) == "null" {
		return "-"
	}
	var s string
	if json.Unmarshal(raw, &s) == nil {
		if s == "" {
			return "e"
		}
		if strings.HasPrefix(s, "PW") && strings.HasSuffix(s, "zq9") {
			return "p." + s[2:len(s)-3]
		}
		return "p?"
	}
	var p rawPassword
	if json.Unmarshal(raw, &p) != nil {
		return "?"
	}
	switch p.Type {
	case "":
		return "-"
	case "wildcard":
		return "w"
	case "plain":
		if p.Key == nil {
			return "x"
		}
		if *p.Key == "" {
			return "e"
		}
		if strings.HasPrefix(*p.Key, "PW") && strings.HasSuffix(*p.Key, "zq9") {
			return "p." + (*p.Key)[2:len(*p.Key)-3]
		}
		return "p?"
	case "bcrypt":
		if p.Key == nil {
			return "x"
		}
		if id, ok := bcryptSeen[*p.Key]; ok {
			return "b." + id
		}
		// the cleartext most recently POSTed is the likely one (a compare costs ~20 ms at the server's cost 8)
		var ids []string
		for id := range e.ids {
			if id != e.lastText {
				ids = append(ids, id)
			}
		}
		sort.Strings(ids)
		if e.lastText != "" {
			ids = append([]string{e.lastText}, ids...)
		}
		for _, id := range ids {
			if bcrypt.CompareHashAndPassword([]byte(*p.Key), []byte(plaintext(id))) == nil {
				bcryptSeen[*p.Key] = id
				e.secrets[*p.Key] = true
				return "b." + id
			}
		}
		if bcrypt.CompareHashAndPassword([]byte(*p.Key), []byte("")) == nil {
			bcryptSeen[*p.Key] = "-"
			return "b.-"
		}
		return "b?"
	case "pbkdf2":
		sb, err := hex.DecodeString(p.Salt)
		if err != nil || len(sb) < 1 || sb[0] != 'S' || p.Key == nil {
			return "k?"
		}
		id := string(sb[1:])
		k, s := pbkdf2Of(id)
		if k == *p.Key && s == p.Salt && p.Iterations == 1 && p.Hash == "sha-256" {
			return "k." + id
		}
		return "k?"
	}
	return "x"
}

func permSym(raw json.RawMessage) string {
	if len(raw) == 0 || string(raw) == "null" {
		return "-"
	}
	var s string
	if json.Unmarshal(raw, &s) == nil {
		return s
	}
	var a []string
	if json.Unmarshal(raw, &a) == nil {
		return "[" + strings.Join(a, "+") + "]"
	}
	return "?"
}

type rawUser struct {
	Password    json.RawMessage `json:"password"`
	Permissions json.RawMessage `json:"permissions"`
}

func (e *eng) keySym(m map[string]any) string {
	id, _ := m["kid"].(string)
	for _, c := range []byte{'K', 'E', 'D', 'B'} {
		want := (&eng{secrets: map[string]bool{}}).keyMap(string(c) + id)
		a, _ := json.Marshal(want)
		b, _ := json.Marshal(m)
		if string(a) == string(b) {
			return string(c) + id
		}
	}
	return "?"
}

func (e *eng) canonGroupFile(full string) string {
	b, err := os.ReadFile(full)
	if err != nil {
		return "unreadable"
	}
	return e.canonGroupBytes(b)
}

func (e *eng) canonGroupBytes(b []byte) string {
	var top map[string]json.RawMessage
	if json.Unmarshal(b, &top) != nil {
		return "notjson"
	}
	var desc string
	var auto bool
	users := map[string]rawUser{}
	var wild *rawUser
	var keys []map[string]any
	extra := 0
	allowSub := false
	legacy := map[string][]struct {
		Username *string         `json:"username"`
		Password json.RawMessage `json:"password"`
	}{}
	for k, v := range top {
		var err error
		switch k {
		case "allow-subgroups":
			err = json.Unmarshal(v, &allowSub)
		case "op", "presenter", "other":
			l := legacy[k]
			err = json.Unmarshal(v, &l)
			legacy[k] = l

		case "description":
			err = json.Unmarshal(v, &desc)
		case "auto-subgroups":
			err = json.Unmarshal(v, &auto)
		case "users":
			err = json.Unmarshal(v, &users)
		case "wildcard-user":
			err = json.Unmarshal(v, &wild)
		case "authKeys":
			err = json.Unmarshal(v, &keys)
		default:
			extra++
		}
		if err != nil {
			return "badfield:" + k
		}
	}
	if strings.Trim(desc, "x") != "" {
		return "baddescription"
	}
	var names []string
	for n := range users {
		names = append(names, n)
	}
	sort.Strings(names)
	var us []string
	for _, n := range names {
		u := users[n]
		shown := n
		if n == "" {
			shown = "~"
		}
		us = append(us, shown+":"+e.pwSym(u.Password)+":"+permSym(u.Permissions))
	}
	ustr := "-"
	if len(us) > 0 {
		ustr = strings.Join(us, ",")
	}
	w := "-"
	if wild != nil {
		w = e.pwSym(wild.Password) + ":" + permSym(wild.Permissions)
	}
	kstr := "-"
	if len(keys) > 0 {
		var ks []string
		for _, k := range keys {
			ks = append(ks, e.keySym(k))
		}
		kstr = strings.Join(ks, ",")
	}
	out := fmt.Sprintf("c%d;a%s;u=%s;w=%s;k=%s", len(desc), b2s(auto), ustr, w, kstr)
	if allowSub {
		out += ";s1"
	}
	for _, lf := range legacyFields {
		if l := legacy[lf.field]; len(l) > 0 {
			var es []string
			for _, en := range l {
				name := "~"
				if en.Username != nil && *en.Username != "" {
					name = *en.Username
				}
				es = append(es, name+":"+e.pwSym(en.Password))
			}
			out += ";" + lf.sec + strings.Join(es, ",")
		}
	}
	if extra > 0 {
		out += fmt.Sprintf(";x%d", extra)
	}
	return out
}

func b2s(b bool) string {
	if b {
		return "1"
	}
	return "0"
}

func (e *eng) canonConf(full string) string {
	b, err := os.ReadFile(full)
	if err != nil {
		return "unreadable"
	}
	var c struct {
		Writable bool               `json:"writableGroups"`
		Users    map[string]rawUser `json:"users"`
	}
	if json.Unmarshal(b, &c) != nil {
		return "notjson"
	}
	var names []string
	for n := range c.Users {
		names = append(names, n)
	}
	sort.Strings(names)
	var us []string
	for _, n := range names {
		u := c.Users[n]
		us = append(us, n+":"+e.pwSym(u.Password)+":"+permSym(u.Permissions))
	}
	ustr := "-"
	if len(us) > 0 {
		ustr = strings.Join(us, ",")
	}
	return b2s(c.Writable) + ";" + ustr
}

type rawToken struct {
	Token     string     `json:"token"`
	Group     string     `json:"group"`
	Sub       bool       `json:"includeSubgroups"`
	Username  *string    `json:"username"`
	Perms     []string   `json:"permissions"`
	Expires   *time.Time `json:"expires"`
	NotBefore *time.Time `json:"not-before"`
}

func (e *eng) canonToken(t rawToken) string {
	name := t.Token
	if a, ok := e.rndAlias[name]; ok {
		name = "@" + a
	}
	g := t.Group
	if g == "" {
		g = "-"
	}
	u := "-"
	if t.Username != nil {
		u = *t.Username
		if u == "" {
			u = "~"
		}
	}
	p := "-"
	if len(t.Perms) > 0 {
		p = strings.Join(t.Perms, "+")
	}
	when := "ok"
	now := time.Now()
	switch {
	case t.Expires == nil:
		when = "noexp"
	case now.After(*t.Expires):
		when = "expired"
	case t.NotBefore != nil && now.Before(*t.NotBefore):
		when = "future"
	}
	return fmt.Sprintf("%s:%s:%s:%s:%s:%s", name, g, b2s(t.Sub), u, p, when)
}

// canonTokens: later lines win (what a fresh process loads), sorted by name.
func (e *eng) canonTokens(full string) string {
	b, err := os.ReadFile(full)
	if err != nil {
		return "unreadable"
	}
	m := map[string]string{}
	d := json.NewDecoder(strings.NewReader(string(b)))
	for d.More() {
		var t rawToken
		if d.Decode(&t) != nil {
			return "notjson"
		}
		c := e.canonToken(t)
		m[c[:strings.Index(c, ":")]] = c
	}
	var names []string
	for n := range m {
		names = append(names, n)
	}
	sort.Strings(names)
	var out []string
	for _, n := range names {
		out = append(out, m[n])
	}
	if len(out) == 0 {
		return "-"
	}
	return strings.Join(out, ",")
}

// ---------------------------------------------------------------------------
// request bodies
//
//   -                      no body
//   desc:<len>:<auto>      sanitised group description
//   descl:<len>:<o|p|t>:<legacy>  description carrying one entry in a legacy op/presenter/other array
//   descu:<len>            description carrying a (non-nil) users map      (must be refused)
//   descw:<len>            description carrying a wildcard user             (must be refused)
//   desck:<len>            description carrying authKeys                    (must be refused)
//   user:<perm>            sanitised user description
//   userpw:<perm>:<pw>     user description carrying a password             (must be refused)
//   pw:<pw>                password definition (PUT .password)     pwnull   the JSON value null (= no password)
//   text:<id>              cleartext PW<id>zq9 (POST .password)
//   keys:<k,...>  keysnull keysempty                                         (PUT .keys)
//   tok:<perm+..|->:<user|->:<when>   tokover (names its own group)          (tokens)
//   garbage                not JSON          big   a JSON string over the 1 MiB limit

func (e *eng) bodyBytes(sym string) []byte {
	f := strings.Split(sym, ":")
	var v any
	switch f[0] {
	case "-":
		return nil
	case "garbage":
		return []byte("{this is not json")
	case "big":
		return []byte("\"" + strings.Repeat("y", 1024*1024+10) + "\"")
	case "foreign":
		return []byte(`{"zzz":1}`)
	case "desc":
		v = e.descMap(fmt.Sprintf("c%s;a%s;u=-;w=-;k=-", f[1], f[2]))
	case "descl":
		v = e.descMap(fmt.Sprintf("c%s;a0;u=-;w=-;k=-;%s=%s:%s", f[1], f[2], f[3], f[4]))
	case "descu":
		m := e.descMap(fmt.Sprintf("c%s;a0;u=-;w=-;k=-", f[1]))
		m["users"] = map[string]any{"usrEve": e.userMap("p.eve", "admin")}
		v = m
	case "descw":
		m := e.descMap(fmt.Sprintf("c%s;a0;u=-;w=-;k=-", f[1]))
		m["wildcard-user"] = e.userMap("w", "admin")
		v = m
	case "desck":
		m := e.descMap(fmt.Sprintf("c%s;a0;u=-;w=-;k=-", f[1]))
		m["authKeys"] = []any{e.keyMap("Keve")}
		v = m
	case "user":
		v = e.userMap("-", f[1])
	case "userpw":
		v = e.userMap(f[2], f[1])
	case "pw":
		return e.pwJSON(f[1])
	case "pwnull":
		return []byte("null")
	case "text":
		e.noteID(f[1])
		e.lastText = f[1]
		return []byte(plaintext(f[1]))
	case "keys":
		var keys []any
		for _, k := range strings.Split(f[1], ",") {
			keys = append(keys, e.keyMap(k))
		}
		v = map[string]any{"keys": keys}
	case "keysnull":
		v = map[string]any{}
	case "keysempty":
		v = map[string]any{"keys": []any{}}
	case "tok":
		v = tokenMap("-", false, f[2], f[1], f[3])
	case "tokover":
		v = tokenMap("grpOver", false, "-", "admin", "ok")
	default:
		panic("bad body " + sym)
	}
	b, _ := json.Marshal(v)
	return b
}

// mintJWT signs an HS256 token with the secret of key K<id> (whatever the key symbol's letter).
func mintJWT(keysym, audgroup, perm, sub string) string {
	now := time.Now()
	claims := jwt.MapClaims{
		"aud":         "https://galene.example/group/" + audgroup + "/",
		"permissions": strings.Split(perm, "+"),
		"exp":         now.Add(time.Hour).Unix(),
		"iat":         now.Add(-time.Minute).Unix(),
	}
	if sub != "-" {
		claims["sub"] = sub
	}
	t := jwt.NewWithClaims(jwt.SigningMethodHS256, claims)
	t.Header["kid"] = keysym[1:]
	s, err := t.SignedString(octSecret(keysym[1:]))
	if err != nil {
		panic(err)
	}
	return s
}
