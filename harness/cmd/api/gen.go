package main

import (
	"fmt"
	"os"
	"regexp"
	"strings"

	"github.com/jech/galene/zzverif/common"
)

// ---------------------------------------------------------------------------
// Part A: the complete table endpoint shape x method x credential class on a
// fixed, rich fixture.

var fixtureA = []string{
	"conf 1 root:p.r:admin,viewer:p.v:op,badcfg:x:admin",
	"group grpA c5;a1;u=~:p.e0:observe,usrAna:p.a:admin,usrAlice:p.l:op,usrBob:b.b:present,usrKim:k.k:op,usrWild:w:message,usrEmp:e:op;w=p.w:message;k=K1,E2",
	"group grpB c7;a0;u=usrBea:p.h:admin,usrAlice:p.m:op;w=-;k=K3",
	"group grpA/sub2 c3;a0;u=usrSam:p.s:admin;w=-;k=-",
	// a definition in the LEGACY format next to a modern users map: usrDup is listed under op and presenter (the
	// presenter entry is dropped), usrMod is in the users map and under op (the op entry is dropped), two entries
	// without username (the second is dropped), an entry without password (any password), allow-subgroups
	"group grpL c4;a0;u=usrMod:p.lm:admin;w=-;k=K5;s1;o=usrOp:p.o,usrDup:b.d1,usrMod:p.lx;p=usrDup:p.d2,~:p.w1,usrPre:-;t=~:k.w2,usrOth:k.ot",
	"token tokA grpA 0 tadm admin ok",
	"token tokB grpB 0 tadm admin ok",
	"token tokAop grpA 0 tusr op ok",
	"token tokAexp grpA 0 tadm admin expired",
	"token tokAfut grpA 0 tadm admin future",
	"token tokAnoe grpA 0 tadm admin noexp",
	"token tokAnou grpA 0 - admin ok",
	"token tokG - 1 gadm admin ok",
	"token tokGns - 0 gadm admin ok",
	"token tokAsub grpA 1 tadm admin+op ok",
}

// credential classes (relative to group grpA and user usrAlice)
var credsA = []string{
	"none",
	"basic:root:wrong",    // server administrator, wrong password
	"basic:root:r",        // server administrator
	"basic:viewer:v",      // user of the configuration file without the admin permission
	"basic:badcfg:r",      // configuration entry with a malformed password
	"basic:usrAna:a",      // administrator of grpA
	"basic:usrAna:wrong",  // ... wrong password
	"basic:usrAlice:l",    // ordinary user of grpA (own password)
	"basic:usrAlice:m",    // usrAlice's password in grpB
	"basic:usrAlice:-",    // empty password
	"basic:usrBob:b",      // another ordinary user (bcrypt)
	"basic:usrKim:k",      // another ordinary user (pbkdf2)
	"basic:usrBea:h",      // administrator of another group
	"basic:usrSam:s",      // administrator of the subgroup grpA/sub2 only
	"basic:zed:l",         // unknown name presenting usrAlice's password
	"basic:zed:w",         // matches grpA's wildcard user (permission message)
	"basic:~:e0",          // the user with the empty name
	"bearer:tokA",         // admin token for grpA
	"bearer:tokAsub",      // admin token for grpA and its subgroups
	"bearer:tokB",         // admin token for another group
	"bearer:tokAop",       // token for grpA without admin
	"bearer:tokAexp",      // expired
	"bearer:tokAfut",      // not yet valid
	"bearer:tokAnoe",      // no expiry (never valid)
	"bearer:tokAnou",      // admin token for grpA without user name
	"bearer:tokG",         // server-wide admin token
	"bearer:tokGns",       // token for the root group only
	"bearer:nonesuch",     // unknown token
	"jwt:K1:grpA:admin:-", // signed with grpA's key, for grpA
	"jwt:K1:grpB:admin:-", // signed with grpA's key, for grpB
	"jwt:K3:grpA:admin:-", // signed with grpB's key, for grpA
	"jwt:K1:grpA:op:-",    // no admin permission
	"jwt:K9:grpA:admin:-", // unknown key
	"basic:usrOp:o",       // user of grpL defined by a legacy op entry
	"basic:usrDup:d1",     // legacy user, the entry that counts (bcrypt)
	"basic:usrDup:d2",     // ... the password of the duplicate entry that is dropped
	"basic:usrMod:lm",     // administrator of grpL (users map; its legacy duplicate has password lx)
	"basic:usrMod:lx",     // ... the password of the dropped legacy duplicate
	"basic:zed:w1",        // matches grpL's legacy wildcard entry (permission present)
}

const api = "/galene-api/v0"

var pathsA = []string{
	"/galene-api", "/galene-api/", "/galene-api/v1/.groups/", api, api + "/", api + "/.bogus",
	api + "/.stats", api + "/.stats/x",
	api + "/.groups", api + "/.groups/",
	api + "/.groups/grpA", api + "/.groups/grpA/", api + "/.groups/grpB", api + "/.groups/grpZ",
	api + "/.groups/grpA/sub", api + "/.groups/grpA/sub2", api + "/.groups/grpB/sub",
	api + "/.groups/grpA/.users", api + "/.groups/grpA/.users/",
	api + "/.groups/grpA/.users/usrAlice", api + "/.groups/grpA/.users/usrNew",
	api + "/.groups/grpA/.users/usrAlice/.password", api + "/.groups/grpA/.users/usrBob/.password",
	api + "/.groups/grpA/.users/usrWild/.password", api + "/.groups/grpA/.users/usrEmp/.password",
	api + "/.groups/grpA/.users/usrNew/.password",
	api + "/.groups/grpA/.users/usrAlice/.password/x", api + "/.groups/grpA/.users/usrAlice/.bogus",
	api + "/.groups/grpA/.users/usrAlice/x",
	api + "/.groups/grpA/.empty-user", api + "/.groups/grpA/.empty-user/.password", api + "/.groups/grpA/.empty-user/x",
	api + "/.groups/grpA/.wildcard-user", api + "/.groups/grpA/.wildcard-user/.password", api + "/.groups/grpB/.wildcard-user",
	api + "/.groups/grpA/.keys", api + "/.groups/grpA/.keys/x",
	api + "/.groups/grpA/.tokens", api + "/.groups/grpA/.tokens/", api + "/.groups/grpA/.tokens/tokA",
	api + "/.groups/grpA/.tokens/tokB", api + "/.groups/grpA/.tokens/nonesuch",
	api + "/.groups/grpA/.bogus",
	api + "/.groups/grpA/sub/.users/usrAlice", api + "/.groups/grpA/sub/.users/usrAlice/.password",
	api + "/.groups/grpA/sub2/.users/usrSam",
	api + "/.groups/grpZ/.users/usrAlice", api + "/.groups/grpZ/.tokens/",
	api + "/.groups/.users/usrAlice", api + "/.groups/.tokens/", api + "/.groups/.keys",
	api + "/.groups/grpL", api + "/.groups/grpL/.users/", api + "/.groups/grpL/.users/usrDup", api + "/.groups/grpL/.users/usrMod",
	api + "/.groups/grpL/.users/usrDup/.password", api + "/.groups/grpL/.users/usrMod/.password", api + "/.groups/grpL/.users/usrPre/.password",
	api + "/.groups/grpL/.wildcard-user", api + "/.groups/grpL/.wildcard-user/.password", api + "/.groups/grpL/.keys",
	api + "/.groups/grpL/sub", api + "/.groups/grpL/sub/.users/usrOp",
	// degenerate shapes: a dot-component where a name is expected, empty components, repeated kinds
	// (not: a dot-name for a token (`.tokens/.x` is a legal token name) or an empty group name (`.groups//` creates the
	// definition of the group "" inside the groups directory): the oracle's reading of what such a path addresses would
	// have to copy the code's)
	api + "/.groups/grpA/.users/.password", api + "/.groups/grpA/.users/.password/", api + "/.groups/grpA/.users/.bogus",
	api + "/.groups/grpA/.users/.users/usrAlice", api + "/.groups/grpA/.users//usrAlice", api + "/.groups/grpA/.users/./usrAlice",
	api + "/.groups/grpA/.users/..", api + "/.groups/grpA/.users/.password/x",
	api + "/.groups/grpA/.keys/.x", api + "/.groups/grpA/.keys/",
	api + "/.groups/grpA/.empty-user/.bogus", api + "/.groups/grpA/.wildcard-user/.password/x", api + "/.groups/grpA/.wildcard-user/",
	api + "/.groups/grpA//", api + "/.groups/.", api + "/.groups/..",
	api + "/.groups/grpA/.", api + "/.stats/", api + "/.stats/.x", api + "/./.groups/", api + "/.groups/.groups/grpA",
}

var methods = []string{"GET", "HEAD", "PUT", "POST", "DELETE", "OPTIONS", "PATCH"}

// defaultBody returns content type and body that make the request meaningful
// for the endpoint, so that authorised requests really take effect.
func defaultBody(path, method string, n int) (string, string) {
	switch {
	case method != "PUT" && method != "POST":
		return "-", "-"
	case strings.HasSuffix(path, "/.password"):
		if method == "POST" {
			return "text", "text:n1"
		}
		return "json", "pw:p.n2"
	case strings.HasSuffix(path, "/.keys"):
		return "jwk", "keys:K7,D8"
	case strings.Contains(path, "/.tokens"):
		return "json", "tok:op:usrTok:ok"
	case strings.Contains(path, "/.users/") || strings.HasSuffix(path, "-user"):
		return "json", "user:present"
	}
	return "json", fmt.Sprintf("desc:%d:1", 10+n%7)
}

func setup(do func(string, ...any) string, fixture []string) {
	for _, l := range fixture {
		do("%s", l)
	}
}

func genTable(t *common.Trace, e common.Engine, r *common.Rng, thorough bool) {
	for pi, p := range pathsA {
		for _, m := range methods {
			t.Case(fmt.Sprintf("table-%d-%s", pi, m))
			e.Reset()
			do := func(f string, args ...any) string { return common.Do(t, e, fmt.Sprintf(f, args...)) }
			setup(do, fixtureA)
			for ci, c := range credsA {
				ct, body := defaultBody(p, m, ci)
				res := do("req %s %s %s %s - - %s", m, p, c, ct, body)
				status := strings.Fields(res)[0]
				t.Count("table:status:" + status)
				if status == "crash" {
					// the driver stops a case at its first oracle failure: continue the table in a fresh case
					t.Case(fmt.Sprintf("table-%d-%s-after-%d", pi, m, ci))
					e.Reset()
					setup(do, fixtureA)
				} else if !strings.HasSuffix(res, "chg=-") {
					t.Count("table:effect")
					do("wipe")
					setup(do, fixtureA)
				}
			}
		}
	}
}

// ---------------------------------------------------------------------------
// Part B: random fixtures and random update sequences (C17 preservation, the
// model's update functions, C18 at the HTTP level).

var chgRe = regexp.MustCompile(`(g:[^@=|]+|tokens)@(\d+)=`)

type tracker struct {
	cur   map[string]int   // file label -> current version
	stale map[string][]int // file label -> earlier versions
}

func (tr *tracker) note(res string) {
	i := strings.Index(res, "chg=")
	if i < 0 {
		return
	}
	for _, m := range chgRe.FindAllStringSubmatch(res[i:], -1) {
		if v, ok := tr.cur[m[1]]; ok {
			tr.stale[m[1]] = append(tr.stale[m[1]], v)
		}
		tr.cur[m[1]] = common.Atoi(m[2])
	}
	for _, m := range regexp.MustCompile(`(g:[^@=|]+|tokens)=gone`).FindAllStringSubmatch(res[i:], -1) {
		if v, ok := tr.cur[m[1]]; ok {
			tr.stale[m[1]] = append(tr.stale[m[1]], v)
			delete(tr.cur, m[1])
		}
	}
}

func randPw(r *common.Rng, id string) string {
	switch r.Weighted(40, 10, 10, 8, 8, 4, 4) {
	case 0:
		return "p." + id
	case 1:
		return "b." + id
	case 2:
		return "k." + id
	case 3:
		return "-"
	case 4:
		return "w"
	case 5:
		return "e"
	}
	return "x"
}

func randPerm(r *common.Rng) string {
	return common.Pick(r, "op", "admin", "present", "message", "observe", "caption", "-", "[admin+op]", "[present]", "[]", "admin")
}

var userPool = []string{"usrAna", "usrBob", "usrCyd", "usrDan", "usrEve", "~"}
var groupPool = []string{"grpA", "grpB", "grpA/sub", "grpC"}

func genRandom(t *common.Trace, e common.Engine, r *common.Rng, thorough bool) {
	ncases := 120
	if thorough {
		ncases = 1500
	}
	for ci := 0; ci < ncases; ci++ {
		t.Case(fmt.Sprintf("rand-%d", ci))
		e.Reset()
		tr := &tracker{cur: map[string]int{}, stale: map[string][]int{}}
		do := func(f string, args ...any) string {
			res := common.Do(t, e, fmt.Sprintf(f, args...))
			tr.note(res)
			return res
		}
		writable := r.Intn(12) != 0
		do("conf %s root:p.r:admin,viewer:p.v:op", common.B2s(writable))
		// who is who: pwOf[group][user] = id of the cleartext (for credentials)
		pwid := 0
		var known []string // user:pwid pairs handed out (credentials that may well be right)
		mkUser := func(name string) string {
			pwid++
			known = append(known, fmt.Sprintf("%s:u%d", name, pwid))
			return fmt.Sprintf("%s:%s:%s", name, randPw(r, fmt.Sprintf("u%d", pwid)), randPerm(r))
		}
		existing := []string{}
		for _, g := range groupPool[:r.Range(1, 4)] {
			var us []string
			for _, u := range userPool {
				if r.Intn(2) == 0 {
					us = append(us, mkUser(u))
				}
			}
			ustr := "-"
			if len(us) > 0 {
				ustr = strings.Join(us, ",")
			}
			w := "-"
			if r.Intn(3) == 0 {
				pwid++
				w = fmt.Sprintf("%s:%s", randPw(r, fmt.Sprintf("u%d", pwid)), randPerm(r))
			}
			k := "-"
			if r.Intn(2) == 0 {
				k = common.Pick(r, "K1", "K1,E2", "D3", "E2,K4,K1")
			}
			legacy := ""
			if r.Intn(3) == 0 {
				// the legacy file format: names from the same pool (so duplicates of users-map entries and across
				// arrays are common), entries without username, with plain/hashed/no password
				t.Count("rand:legacy-fixture")
				if r.Intn(4) == 0 {
					legacy += ";s1"
				}
				for _, sec := range []string{"o=", "p=", "t="} {
					if r.Intn(3) == 0 {
						continue
					}
					var es []string
					for n := r.Range(1, 4); n > 0; n-- {
						name := common.Pick(r, userPool...)
						if r.Intn(4) == 0 {
							name = "~"
						}
						pwid++
						pw := randPw(r, fmt.Sprintf("u%d", pwid))
						if pw == "x" || pw == "e" {
							pw = "-"
						}
						if name != "~" {
							known = append(known, fmt.Sprintf("%s:u%d", name, pwid))
						}
						es = append(es, name+":"+pw)
					}
					legacy += ";" + sec + strings.Join(es, ",")
				}
			}
			do("group %s c%d;a%d;u=%s;w=%s;k=%s%s", g, r.Range(0, 30), r.Intn(2), ustr, w, k, legacy)
			existing = append(existing, g)
		}
		ntok := r.Intn(4)
		for i := 0; i < ntok; i++ {
			do("token tok%d %s %d %s %s %s", i, common.Pick(r, "grpA", "grpB", "-"), r.Intn(2),
				common.Pick(r, "tadm", "-"), common.Pick(r, "admin", "op", "admin+op"), common.Pick(r, "ok", "ok", "ok", "expired", "noexp"))
		}
		// some groups (and subgroups, which exist only below an auto-subgroups parent) are live in memory:
		// the API then authenticates and reads through the cached-description branch of group.GetDescription
		liveOne := func() {
			g := common.Pick(r, groupPool...)
			if r.Intn(3) == 0 {
				g = common.Pick(r, "grpA/room", "grpB/sub", "grpA/sub/deep")
			}
			res := do("live %s", g)
			t.Count("rand:live:" + res)
		}
		for n := r.Weighted(40, 30, 20, 10); n > 0; n-- {
			liveOne()
		}
		nreq := r.Range(20, 60)
		nrnd := 0
		for i := 0; i < nreq; i++ {
			if r.Intn(15) == 0 {
				liveOne()
			}
			g := common.Pick(r, groupPool...)
			if r.Intn(4) != 0 {
				g = existing[r.Intn(len(existing))]
			}
			if r.Intn(12) == 0 {
				g = common.Pick(r, "grpZ", "grpA/", "grpB/deep/er")
			}
			u := common.Pick(r, userPool...)
			if us := e.(*eng).usersOf(strings.Trim(g, "/")); len(us) > 0 && r.Intn(10) < 6 {
				u = us[r.Intn(len(us))]
			}
			if r.Intn(10) == 0 {
				u = "usrNew"
			}
			upath := "/.users/" + u
			who := u
			if u == "~" {
				upath = "/.empty-user"
			}
			if r.Intn(6) == 0 {
				upath = "/.wildcard-user"
				who = "*"
			}
			label := "g:" + strings.Trim(g, "/")
			hdrFor := func(lbl string) string {
				var items []string
				n := r.Weighted(55, 35, 10)
				for j := 0; j < n+0; j++ {
					switch r.Weighted(45, 25, 12, 10, 8) {
					case 0:
						if v, ok := tr.cur[lbl]; ok {
							items = append(items, fmt.Sprintf("t%d", v))
						} else {
							items = append(items, "bogus")
						}
					case 1:
						if s := tr.stale[lbl]; len(s) > 0 {
							items = append(items, fmt.Sprintf("t%d", s[r.Intn(len(s))]))
						} else {
							items = append(items, fmt.Sprintf("t%d", r.Range(1, 9)))
						}
					case 2:
						items = append(items, "*")
					case 3:
						items = append(items, "bogus")
					case 4:
						items = append(items, fmt.Sprintf("t%d", r.Range(1, 40)))
					}
				}
				if len(items) == 0 {
					return "-"
				}
				return strings.Join(items, ",")
			}
			im, inm := "-", "-"
			switch r.Weighted(40, 30, 20, 10) {
			case 1:
				im = hdrFor(label)
			case 2:
				inm = hdrFor(label)
			case 3:
				im, inm = hdrFor(label), hdrFor(label)
			}
			cred := "basic:root:r"
			switch r.Weighted(55, 5, 5, 20, 8, 7) {
			case 1:
				cred = "none"
			case 2:
				cred = "basic:viewer:v"
			case 3:
				cred = fmt.Sprintf("basic:%s:u%d", common.Pick(r, userPool...), r.Range(1, pwid+1))
				if len(known) > 0 && r.Intn(4) != 0 {
					cred = "basic:" + known[r.Intn(len(known))]
				}
			case 4:
				cred = fmt.Sprintf("bearer:tok%d", r.Intn(4))
			case 5:
				cred = fmt.Sprintf("jwt:%s:%s:admin:-", common.Pick(r, "K1", "K4", "K9"), common.Pick(r, "grpA", "grpB"))
			}
			var method, path, ctype, body string
			kind := r.Weighted(22, 22, 16, 10, 10, 8, 6, 6)
			switch kind {
			case 0: // group definition
				path = api + "/.groups/" + g
				method = common.Pick(r, "GET", "HEAD", "PUT", "PUT", "PUT", "DELETE")
				ctype, body = "json", fmt.Sprintf("desc:%d:%d", r.Range(0, 40), r.Intn(2))
				switch r.Intn(14) {
				case 0:
					body = fmt.Sprintf("descu:%d", r.Range(0, 9))
				case 1:
					body = fmt.Sprintf("descw:%d", r.Range(0, 9))
				case 2:
					body = fmt.Sprintf("desck:%d", r.Range(0, 9))
				case 3:
					body = "foreign"
				}
			case 1: // user definition
				path = api + "/.groups/" + g + upath
				method = common.Pick(r, "GET", "HEAD", "PUT", "PUT", "PUT", "DELETE")
				ctype, body = "json", "user:"+randPerm(r)
				switch r.Intn(14) {
				case 0:
					body = "userpw:op:p.zz"
				case 1:
					body = "user:bogus"
				case 2:
					body = "foreign"
				case 3:
					body = "userpw:op:w"
				}
			case 2: // password
				path = api + "/.groups/" + g + upath + "/.password"
				method = common.Pick(r, "PUT", "POST", "DELETE", "PUT", "PUT", "GET", "DELETE", "PUT")
				pwid++
				if method == "POST" {
					ctype, body = "text", fmt.Sprintf("text:u%d", pwid)
				} else {
					ctype, body = "json", "pw:"+randPw(r, fmt.Sprintf("u%d", pwid))
					switch r.Intn(12) {
					case 0:
						body = "foreign"
					case 1:
						body = "pwnull"
					}
				}
				label = "pw"
				_ = who
			case 3: // keys
				path = api + "/.groups/" + g + "/.keys"
				method = common.Pick(r, "PUT", "PUT", "DELETE", "GET")
				ctype, body = "jwk", common.Pick(r, "keys:K1", "keys:K4,E2", "keys:D3", "keys:K1,B5", "keysnull", "keysempty", "keys:E2,K1,K4", "foreign")
			case 4: // lists
				path = common.Pick(r, api+"/.groups/", api+"/.groups/"+g+"/.users/", api+"/.stats", api+"/.groups/"+g+"/.tokens/")
				method = common.Pick(r, "GET", "GET", "HEAD", "POST")
				ctype, body = "-", "-"
				if strings.HasSuffix(path, "/.tokens/") && method == "POST" {
					ctype, body = "json", fmt.Sprintf("tok:%s:%s:%s", common.Pick(r, "admin", "op", "-", "admin+op"), common.Pick(r, "tadm", "-"), common.Pick(r, "ok", "expired", "noexp", "future"))
					if r.Intn(8) == 0 {
						body = "tokover"
					}
				}
			case 5: // a token (never an unknown one with PUT: that is the known crash, covered by the table)
				name := fmt.Sprintf("tok%d", r.Intn(4))
				if nrnd > 0 && r.Bool() {
					name = fmt.Sprintf("@rnd%d", r.Range(1, nrnd))
				}
				path = api + "/.groups/" + g + "/.tokens/" + name
				method = common.Pick(r, "GET", "HEAD", "DELETE", "GET")
				ctype, body = "-", "-"
				if tok, ok := e.(*eng).tokenExists(name); ok && r.Bool() {
					_ = tok
					method = "PUT"
					ctype, body = "json", fmt.Sprintf("tok:%s:%s:%s", common.Pick(r, "admin", "op", "-"), common.Pick(r, "tadm", "-"), common.Pick(r, "ok", "expired"))
				}
				if r.Intn(3) == 0 {
					im = hdrFor("tokens")
				}
			case 6: // wrong methods / OPTIONS / malformed bodies on a real endpoint
				path = api + "/.groups/" + g + common.Pick(r, "", upath, upath+"/.password", "/.keys", "/.users/")
				method = common.Pick(r, "OPTIONS", "PATCH", "POST", "PUT", "PUT")
				ctype = common.Pick(r, "-", "json", "text", "jwk", "other")
				body = common.Pick(r, "-", "garbage", "foreign")
				if thorough && r.Intn(40) == 0 {
					body = "big"
				}
				if strings.HasSuffix(path, "/.password") && method == "POST" && ctype == "text" {
					body = "-" // anything else would be hashed as a password
				}
			case 7: // paths that do not exist
				path = api + "/.groups/" + g + common.Pick(r, "/.bogus", "/.users", "/.keys/x", upath+"/.bogus", "/.tokens", "/.empty-user/x")
				method = common.Pick(r, methods...)
				ctype, body = "json", "desc:3:0"
			}
			if method == "GET" || method == "HEAD" || method == "DELETE" || method == "OPTIONS" || method == "PATCH" {
				if kind != 6 {
					ctype, body = "-", "-"
				}
			}
			res := do("req %s %s %s %s %s %s %s", method, path, cred, ctype, im, inm, body)
			f := strings.Fields(res)
			t.Count(fmt.Sprintf("rand:kind%d:%s", kind, f[0]))
			if strings.Contains(res, "@rnd") {
				if n := e.(*eng).nrnd; n > nrnd {
					nrnd = n
				}
			}
			if kind == 2 && cred == "none" && strings.HasPrefix(f[0], "2") {
				t.Count("remark:password-set-without-any-credentials(stored-password-empty-or-wildcard)")
			}
			if (kind == 2 || kind == 3) && im != "-" && strings.HasPrefix(f[0], "2") && (method == "PUT" || method == "POST" || method == "DELETE") {
				cur, ok := tr.cur["g:"+strings.Trim(g, "/")]
				if !ok || !strings.Contains(","+im+",", fmt.Sprintf(",t%d,", cur)) && !strings.Contains(im, "*") {
					t.Count("remark:if-match-ignored-on-password-or-keys")
				}
			}
		}
		_ = existing
	}
}

// usersOf lists the users in the definition file of a group (generator aid).
func (e *eng) usersOf(g string) []string {
	c := e.canonGroupFile(e.groups + "/" + g + ".json")
	if !strings.Contains(c, ";u=") {
		return nil
	}
	us := section(c, "u=")
	if us == "-" {
		return nil
	}
	var out []string
	for _, u := range strings.Split(us, ",") {
		out = append(out, u[:strings.Index(u, ":")])
	}
	return out
}

func (e *eng) tokenExists(name string) (string, bool) {
	canon := e.canonTokens(e.data + "/var/tokens.jsonl")
	for _, t := range strings.Split(canon, ",") {
		if strings.HasPrefix(t, name+":") {
			return t, true
		}
	}
	return "", false
}

// ---------------------------------------------------------------------------
// Part B2: definitions in the legacy file format (obsolete op/presenter/other arrays that
// group.upgradeDescription folds into users at load time), the awkward shapes systematically:
// every read, then every kind of update, each followed by the reads again ("what does a later GET
// return after the file was rewritten?").

var legacyFixtures = []string{
	// pure legacy file: duplicate across op/presenter, two entries without username, plain/bcrypt/pbkdf2/no password
	"c6;a0;u=-;w=-;k=-;o=usrOp:p.o1,usrDup:b.d1;p=usrDup:p.d2,~:p.w1,usrPre:-;t=~:k.w2,usrOth:k.ot",
	// legacy arrays next to a users map and a wildcard-user field: every legacy duplicate loses
	"c6;a1;u=usrMod:p.m:admin,usrDup:k.dm:present;w=p.wm:message;k=K1;o=usrMod:p.mx,usrOp:b.o1;p=usrDup:p.d2,~:p.w1;t=~:p.w2",
	// the same name twice in one array, and in all three; allow-subgroups
	"c2;a0;u=-;w=-;k=E2;s1;o=usrDup:p.d1,usrDup:p.d2;p=usrDup:b.d3;t=usrDup:k.d4,usrOth:-",
	// only `other`; a user with the empty name in the users map next to a legacy entry without username
	"c0;a0;u=~:p.e0:op;w=-;k=-;t=~:p.w1,usrOth:p.ot",
	// only entries without username
	"c9;a0;u=usrMod:p.m:admin;w=-;k=D3;o=~:-;p=~:p.w1",
}

func genLegacy(t *common.Trace, e common.Engine, r *common.Rng, thorough bool) {
	reads := func(do func(string, ...any) string) {
		do("req GET %s/.groups/grpL basic:root:r - - - -", api)
		do("req GET %s/.groups/grpL/.users/ basic:root:r - - - -", api)
		for _, u := range []string{"usrOp", "usrDup", "usrMod", "usrPre", "usrOth"} {
			do("req GET %s/.groups/grpL/.users/%s basic:root:r - - - -", api, u)
		}
		do("req GET %s/.groups/grpL/.empty-user basic:root:r - - - -", api)
		do("req GET %s/.groups/grpL/.wildcard-user basic:root:r - - - -", api)
	}
	updates := []string{
		"PUT %s/.groups/grpL basic:root:r json - - desc:11:0",
		"PUT %s/.groups/grpL/.users/usrDup basic:root:r json - - user:caption",
		"PUT %s/.groups/grpL/.users/usrNew basic:root:r json - - user:present",
		"DELETE %s/.groups/grpL/.users/usrDup basic:root:r - - - -",
		"DELETE %s/.groups/grpL/.wildcard-user basic:root:r - - - -",
		"PUT %s/.groups/grpL/.wildcard-user basic:root:r json - - user:observe",
		"PUT %s/.groups/grpL/.users/usrDup/.password basic:root:r json - - pw:p.n1",
		"PUT %s/.groups/grpL/.users/usrDup/.password basic:usrDup:d1 json - - pw:k.n2",
		"PUT %s/.groups/grpL/.users/usrDup/.password basic:usrDup:d2 json - - pw:p.n3",
		"POST %s/.groups/grpL/.users/usrOth/.password basic:root:r text - - text:n4",
		"DELETE %s/.groups/grpL/.wildcard-user/.password basic:root:r - - - -",
		"PUT %s/.groups/grpL/.keys basic:root:r jwk - - keys:K7",
		"DELETE %s/.groups/grpL/.keys basic:root:r - - - -",
		"DELETE %s/.groups/grpL basic:root:r - - - -",
	}
	for fi, fx := range legacyFixtures {
		for ui, u := range updates {
			t.Case(fmt.Sprintf("legacy-%d-%d", fi, ui))
			e.Reset()
			do := func(f string, args ...any) string { return common.Do(t, e, fmt.Sprintf(f, args...)) }
			do("conf 1 root:p.r:admin")
			do("group grpL %s", fx)
			reads(do)
			res := do("req "+u, api)
			t.Count("legacy:update:" + strings.Fields(res)[0])
			reads(do)
			// and a second update of another kind on the rewritten file
			do("req "+updates[(ui+5)%len(updates)], api)
			reads(do)
		}
		// the group-level second phases on a legacy file
		t.Case(fmt.Sprintf("legacy-%d-phase2", fi))
		e.Reset()
		do := func(f string, args ...any) string { return common.Do(t, e, fmt.Sprintf(f, args...)) }
		do("conf 1 root:p.r:admin")
		do("group grpL %s", fx)
		do("utag s1 grpL usrDup")
		do("gtag s2 grpL")
		do("uupd s1 grpL usrDup message")
		do("gupd s2 grpL 13 0")
		do("gtag s2 grpL")
		do("setkeys grpL K7")
		do("gupd s2 grpL 14 0")
		reads(do)
	}
	// request bodies that carry legacy arrays themselves (each in its own short case)
	for i, b := range []string{"descl:7:o:usrX:p.xx", "descl:7:p:~:-", "descl:7:t:usrDup:p.yy", "descl:3:o:usrMod:p.zz"} {
		for fi, fx := range []string{legacyFixtures[0], legacyFixtures[1], "c5;a0;u=usrMod:p.m:admin;w=-;k=-"} {
			t.Case(fmt.Sprintf("legacybody-%d-%d", i, fi))
			e.Reset()
			do := func(f string, args ...any) string { return common.Do(t, e, fmt.Sprintf(f, args...)) }
			do("conf 1 root:p.r:admin")
			do("group grpL %s", fx)
			res := do("req PUT %s/.groups/grpL basic:usrMod:m json - - %s", api, b)
			t.Count("legacy:body:" + strings.Fields(res)[0])
			reads(do)
		}
		t.Case(fmt.Sprintf("legacybody-%d-new", i))
		e.Reset()
		do := func(f string, args ...any) string { return common.Do(t, e, fmt.Sprintf(f, args...)) }
		do("conf 1 root:p.r:admin")
		do("req PUT %s/.groups/grpN basic:root:r json - * %s", api, b)
		do("req GET %s/.groups/grpN/.users/ basic:root:r - - - -", api)
	}
}

// ---------------------------------------------------------------------------
// Part C: every interleaving of two or three conditional writers, the two
// phases driven separately on the real group package.

type writer struct {
	name  string
	steps func(slot string, n int) []string
}

var writers = []writer{
	{"gupd", func(s string, n int) []string {
		return []string{"gtag " + s + " grpA", fmt.Sprintf("gupd %s grpA %d 0", s, 10+n)}
	}},
	{"gdel", func(s string, n int) []string { return []string{"gtag " + s + " grpA", "gdel " + s + " grpA"} }},
	{"gnew", func(s string, n int) []string {
		return []string{"gtag " + s + " grpN", fmt.Sprintf("gupd %s grpN %d 1", s, 20+n)}
	}},
	{"uupd", func(s string, n int) []string {
		return []string{"utag " + s + " grpA usrAna", "uupd " + s + " grpA usrAna " + []string{"op", "present", "message"}[n%3]}
	}},
	{"udel", func(s string, n int) []string {
		return []string{"utag " + s + " grpA usrAna", "udel " + s + " grpA usrAna"}
	}},
	{"unew", func(s string, n int) []string {
		return []string{"utag " + s + " grpA usrNew", "uupd " + s + " grpA usrNew " + []string{"op", "present", "message"}[n%3]}
	}},
	{"wupd", func(s string, n int) []string {
		return []string{"utag " + s + " grpA *", "uupd " + s + " grpA * " + []string{"observe", "present", "message"}[n%3]}
	}},
	// unconditional writers (no tag is served for passwords and keys): one step
	{"setpw", func(s string, n int) []string { return []string{fmt.Sprintf("setpw grpA usrAna p.n%d", n)} }},
	{"setkeys", func(s string, n int) []string { return []string{fmt.Sprintf("setkeys grpA K%d", n+5)} }},
}

var fixtureC = []string{
	"conf 1 root:p.r:admin",
	"group grpA c5;a0;u=usrAna:p.a:admin,usrBob:b.b:present;w=p.w:message;k=K1",
	"group grpB c7;a0;u=usrBea:p.h:admin;w=-;k=K3",
}

// interleavings of sequences (each kept in order)
func interleavings(seqs [][]string) [][]string {
	total := 0
	for _, s := range seqs {
		total += len(s)
	}
	var out [][]string
	var rec func(pos []int, acc []string)
	rec = func(pos []int, acc []string) {
		if len(acc) == total {
			out = append(out, append([]string(nil), acc...))
			return
		}
		for i := range seqs {
			if pos[i] < len(seqs[i]) {
				pos[i]++
				rec(pos, append(acc, seqs[i][pos[i]-1]))
				pos[i]--
			}
		}
	}
	rec(make([]int, len(seqs)), nil)
	return out
}

func genInterleavings(t *common.Trace, e common.Engine, r *common.Rng, thorough bool) {
	run := func(id string, sched []string) {
		t.Case(id)
		e.Reset()
		do := func(f string, args ...any) string { return common.Do(t, e, fmt.Sprintf(f, args...)) }
		setup(do, fixtureC)
		wins := 0
		for _, op := range sched {
			res := do("%s", op)
			if strings.HasPrefix(res, "ok ") {
				wins++
			}
			if strings.HasPrefix(res, "mismatch") {
				t.Count("interleave:loser")
			}
		}
		t.Count(fmt.Sprintf("interleave:writes-succeeded:%d", wins))
	}
	// all pairs, all interleavings
	for i, a := range writers {
		for j, b := range writers {
			for k, sched := range interleavings([][]string{a.steps("s1", 1), b.steps("s2", 2)}) {
				run(fmt.Sprintf("il2-%s-%s-%d", a.name, b.name, k), sched)
				_ = i
				_ = j
			}
		}
	}
	// triples: all in the thorough tier, a random sample otherwise
	n := 0
	for _, a := range writers {
		for _, b := range writers {
			for _, c := range writers {
				if !thorough && r.Intn(12) != 0 {
					continue
				}
				scheds := interleavings([][]string{a.steps("s1", 1), b.steps("s2", 2), c.steps("s3", 3)})
				for k, sched := range scheds {
					if !thorough && r.Intn(6) != 0 {
						continue
					}
					run(fmt.Sprintf("il3-%s-%s-%s-%d", a.name, b.name, c.name, k), sched)
					n++
				}
			}
		}
	}
}

// ---------------------------------------------------------------------------
// Part D: a crash at every system call of a rewrite.

func genCrash(t *common.Trace, e common.Engine) {
	t.Case("crash")
	e.Reset()
	plan, err := crashPlan()
	if err != nil {
		// fail closed: the engine reports a bad op
		common.Do(t, e, "crashrun unavailable 0")
		return
	}
	seen := map[string]int{}
	for _, p := range plan {
		seen[p.name]++
		if p.name == "futex" || p.name == "rt_sigprocmask" || p.name == "nanosleep" || p.name == "sched_yield" {
			continue // scheduler noise: their count differs from run to run
		}
		res := common.Do(t, e, fmt.Sprintf("crashrun %s %d", p.name, p.i))
		t.Count("crash:" + strings.Fields(res)[0])
	}
}

func gen(t *common.Trace, e common.Engine, r *common.Rng, thorough bool) {
	// common.Rng streams of neighbouring seeds are shifted copies of each other; re-seed from an output
	r = common.NewRng(r.U64())
	parts := os.Getenv("VERIF_API_PARTS") // debugging aid: comma-separated subset of table,rand,legacy,il,crash,race,shapes,fault,live
	want := func(p string) bool { return parts == "" || strings.Contains(","+parts+",", ","+p+",") }
	if want("table") {
		genTable(t, e, r, thorough)
	}
	if want("rand") {
		genRandom(t, e, r, thorough)
	}
	if want("legacy") {
		genLegacy(t, e, r, thorough)
	}
	if want("il") {
		genInterleavings(t, e, r, thorough)
	}
	if want("crash") {
		genCrash(t, e)
	}
	if want("shapes") {
		genShapes(t, e)
	}
	if want("fault") {
		genFaults(t, e, r, thorough)
	}
	if want("live") {
		genLive(t, e, r, thorough)
	}
	if want("race") {
		t.Case("race")
		e.Reset()
		rounds := 120
		if thorough {
			rounds = 600
		}
		for _, w := range []int{2, 3, 8} {
			res := common.Do(t, e, fmt.Sprintf("race %d %d", w, rounds))
			t.Count("race:" + strings.SplitN(res, ":", 2)[0])
		}
		res := common.Do(t, e, fmt.Sprintf("race2 %d", rounds*3))
		t.Count("race2:" + strings.SplitN(res, ":", 2)[0])
	}
}
