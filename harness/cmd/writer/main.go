// Engine `writer`: the real rtpWriterPool / rtpWriterLoop / sendSequence serving several
// real rtpDownTracks from one publisher cache (C01, C02, C05): every receiver must get
// its own correctly renumbered copy of the publisher's packet, whatever the others get.
package main

import (
	"fmt"
	"io"
	"log"
	"strings"
	"time"

	"github.com/pion/rtp"

	"github.com/jech/galene/codecs"
	"github.com/jech/galene/rtpconn"
	"github.com/jech/galene/zzverif/common"
)

type eng struct {
	w     *rtpconn.VerifWriters
	codec string
	lates []*rtpconn.VerifLate
}

func (e *eng) Reset() {
	if e.w != nil {
		e.w.Close()
	}
	e.w = nil
	e.lates = nil
}

func (e *eng) Exec(op []string) string {
	a := func(i int) int { return common.Atoi(op[i]) }
	switch op[0] {
	case "neww":
		e.codec = op[1]
		e.w = rtpconn.VerifNewWriters(op[1], a(2), a(3))
		e.w.Seal()
		return ""
	case "wsetmax":
		e.w.Downs[a(1)].SetMax(int64(a(2)))
		return ""
	case "wsetrate":
		e.w.Downs[a(1)].SetRate(uint32(a(2)))
		return ""
	case "wadjust":
		e.w.Downs[a(1)].Adjust()
		return e.w.Downs[a(1)].Layer()
	case "wfeed":
		buf := common.Unhex(op[1])
		var p rtp.Packet
		kf := false
		if p.Unmarshal(buf) == nil {
			kf, _ = codecs.Keyframe(e.codec, &p)
		}
		res := e.w.Feed(buf, kf)
		for i := range res {
			if i < len(e.w.Downs) {
				res[i] += " | " + e.w.Downs[i].Layer()
			}
		}
		return strings.Join(res, " || ")
	case "wnack":
		return e.w.Downs[a(1)].Nack(uint16(a(2)), 0) + " | " + e.w.Downs[a(1)].Layer()
	case "sendseq":
		// sendseq kf last failAt first count holes(comma separated or -): the real sendSequence on a real cache
		holes := map[uint16]bool{}
		if op[6] != "-" {
			for _, h := range strings.Split(op[6], ",") {
				holes[uint16(common.Atoi(h))] = true
			}
		}
		var cached []uint16
		for i := 0; i < a(5); i++ {
			sq := uint16(a(4) + i)
			if !holes[sq] {
				cached = append(cached, sq)
			}
		}
		out := rtpconn.VerifSendSequence(uint16(a(1)), uint16(a(2)), cached, a(3))
		res := []string{fmt.Sprint(len(out))}
		for _, sq := range out {
			res = append(res, fmt.Sprint(sq))
		}
		return strings.Join(res, " ")
	case "late":
		e.lates = append(e.lates, e.w.Late(time.Duration(a(1))*time.Microsecond))
		return "ok"
	case "latecheck":
		time.Sleep(time.Duration(a(1)) * time.Millisecond)
		var recs []string
		for _, l := range e.lates {
			for _, r := range l.Take() {
				recs = append(recs, strings.ReplaceAll(r, " ", ":"))
			}
		}
		if len(recs) == 0 {
			return "0"
		}
		return fmt.Sprintf("%d %s", len(recs), strings.Join(recs, " "))
	}
	panic("unknown op " + op[0])
}

// genSendSeq: the keyframe replay on caches with and without holes, across the 16-bit wrap, with kf after
// last, with a failing write.
func genSendSeq(t *common.Trace, e common.Engine, r *common.Rng, thorough bool) {
	t.Case("sendseq")
	e.Reset()
	n := 300
	if thorough {
		n = 6000
	}
	for i := 0; i < n; i++ {
		first := common.Pick(r, r.Intn(65536), 65536-r.Range(1, 40), r.Intn(100))
		count := r.Range(1, 60)
		kf := (first + r.Intn(count)) % 65536
		last := (first + count - 1) % 65536
		switch r.Intn(10) {
		case 0:
			last = (first + r.Intn(count)) % 65536 // possibly before kf
		case 1:
			kf = (first + 65536 - r.Range(1, 3)) % 65536 // keyframe already evicted
		case 2:
			last = (last + r.Range(1, 3)) % 65536 // newest not (yet) in the cache
		}
		holes := "-"
		if r.Intn(4) == 0 {
			var hs []string
			for k := r.Range(1, 3); k > 0; k-- {
				hs = append(hs, fmt.Sprint((first+r.Intn(count))%65536))
			}
			holes = strings.Join(hs, ",")
		}
		failAt := -1
		if r.Intn(6) == 0 {
			failAt = r.Intn(count + 1)
		}
		res := common.Do(t, e, fmt.Sprintf("sendseq %d %d %d %d %d %s", kf, last, failAt, first, count, holes))
		t.Count("sendseq:n=" + map[bool]string{true: "0", false: "some"}[strings.HasPrefix(res, "0")])
	}
}

func gen(t *common.Trace, e common.Engine, r *common.Rng, thorough bool) {
	genSendSeq(t, e, r, thorough)
	ncases := 40
	nframes := 120
	if thorough {
		ncases = 800
		nframes = 300
	}
	for ci := 0; ci < ncases; ci++ {
		t.Case(fmt.Sprint(ci))
		e.Reset()
		do := func(f string, args ...any) string { return common.Do(t, e, fmt.Sprintf(f, args...)) }
		codec := common.Pick(r, "video/vp8", "video/vp8", "video/vp9")
		n := r.Range(1, 6)
		do("neww %s %d %d", codec, common.Pick(r, 64, 128), n)
		// put the receivers on different layers: some are throttled, in varying positions
		for i := 0; i < n; i++ {
			if r.Intn(2) == 0 {
				do("wsetmax %d 9600", i)
				do("wsetrate %d 2000000", i)
			} else {
				do("wsetmax %d 1073741824", i)
				do("wsetrate %d 1000", i)
			}
		}
		src := common.NewSource(r, codec)
		sentSeqs := make([][]int, n)
		frames := r.Range(nframes/3, nframes)
		lateAt := map[int]bool{}
		for k := r.Intn(4); k > 0; k-- {
			lateAt[r.Range(3, frames)] = true
		}
		for fi := 0; fi < frames; fi++ {
			for _, p := range src.NextFrame(fi == 0) {
				res := do("wfeed %s", p)
				for i, part := range strings.Split(res, " || ") {
					f := strings.Fields(part)
					if len(f) > 1 && f[0] == "sent" && i < len(sentSeqs) {
						sentSeqs[i] = append(sentSeqs[i], common.Atoi(f[1]))
					}
				}
			}
			if fi < 10 {
				for i := 0; i < n; i++ {
					do("wadjust %d", i)
				}
			}
			if r.Intn(6) == 0 {
				// a receiver NACKs a number it was recently sent (or a neighbour)
				i := r.Intn(n)
				if outs := sentSeqs[i]; len(outs) > 0 {
					o := outs[len(outs)-1-r.Intn(min(len(outs), 30))]
					do("wnack %d %d", i, (o+common.Pick(r, 0, 0, 0, 1, -1))&0xFFFF)
				}
			}
			if lateAt[fi] {
				t.Count("late-join")
				do("late %d", common.Pick(r, 0, 20, 100, 300))
			}
			if r.Intn(25) == 0 {
				do("latecheck 2")
			}
		}
		do("latecheck 40")
	}
	e.Reset()
}

func main() {
	log.SetOutput(io.Discard)
	common.Main(&eng{}, gen)
}
