// Engine `cache`: drives the real packetcache.Cache public API (C05, C06).
package main

import (
	"fmt"
	"strings"
	"sync"
	"sync/atomic"
	"time"

	"github.com/jech/galene/packetcache"
	"github.com/jech/galene/zzverif/common"
)

type eng struct {
	c   *packetcache.Cache
	buf []byte
}

func (e *eng) Reset() { e.c = nil; e.buf = make([]byte, packetcache.BufSize) }

func (e *eng) Exec(op []string) string {
	a := func(i int) int { return common.Atoi(op[i]) }
	switch op[0] {
	case "new":
		e.c = packetcache.New(a(1))
		return ""
	case "store":
		first, idx := e.c.Store(uint16(a(1)), uint32(a(2)), a(3) != 0, a(4) != 0,
			common.Payload(a(6), a(5)))
		return fmt.Sprintf("%d %d", first, idx)
	case "get":
		for i := range e.buf {
			e.buf[i] = 0xEE
		}
		n := e.c.Get(uint16(a(1)), e.buf)
		if n == 0 {
			return "0 0"
		}
		return fmt.Sprintf("%d %d", n, common.HashBytes(e.buf[:n]))
	case "getat":
		for i := range e.buf {
			e.buf[i] = 0xEE
		}
		n := e.c.GetAt(uint16(a(1)), uint16(a(2)), e.buf)
		if n == 0 {
			return "0 0"
		}
		return fmt.Sprintf("%d %d", n, common.HashBytes(e.buf[:n]))
	case "resize":
		e.c.Resize(a(1))
		return ""
	case "resizecond":
		return common.B2s(e.c.ResizeCond(a(1)))
	case "last":
		s, ok := e.c.Last()
		return fmt.Sprintf("%d %s", s, common.B2s(ok))
	case "keyframe":
		s, ok := e.c.Keyframe()
		return fmt.Sprintf("%d %s", s, common.B2s(ok))
	case "bitmapget":
		f, first, bm := e.c.BitmapGet(uint16(a(1)))
		return fmt.Sprintf("%s %d %d", common.B2s(f), first, bm)
	case "stats":
		s := e.c.GetStats(a(1) != 0)
		return fmt.Sprintf("%d %d %d %d %d", s.Received, s.TotalReceived,
			s.Expected, s.TotalExpected, s.ESeqno)
	case "expect":
		e.c.Expect(a(1))
		return ""
	case "stress":
		return stress(a(1), a(2), a(3))
	case "tobitmap":
		xs := make([]uint16, 0, len(op)-1)
		for i := 1; i < len(op); i++ {
			xs = append(xs, uint16(a(i)))
		}
		first, bm, rem := packetcache.ToBitmap(xs)
		var sb strings.Builder
		fmt.Fprintf(&sb, "%d %d", first, bm)
		for _, r := range rem {
			fmt.Fprintf(&sb, " %d", r)
		}
		return sb.String()
	}
	panic("unknown op " + op[0])
}

// stressPacket builds a self-describing packet for store counter c: the first
// 4 bytes are c, the rest a pattern derived from c, the length depends on c.
func stressPacket(c uint32) []byte {
	n := 8 + int(c%1400)
	b := make([]byte, n)
	b[0], b[1], b[2], b[3] = byte(c>>24), byte(c>>16), byte(c>>8), byte(c)
	for i := 4; i < n; i++ {
		b[i] = byte(uint32(i)*7 + c*13)
	}
	return b
}

func checkStress(seqno uint16, got []byte) string {
	if len(got) < 8 {
		return fmt.Sprintf("bad:short(%d)", len(got))
	}
	c := uint32(got[0])<<24 | uint32(got[1])<<16 | uint32(got[2])<<8 | uint32(got[3])
	if uint16(c) != seqno {
		return fmt.Sprintf("bad:seqno-%d-holds-packet-of-%d", seqno, uint16(c))
	}
	want := stressPacket(c)
	if len(want) != len(got) {
		return fmt.Sprintf("bad:length-%d-want-%d", len(got), len(want))
	}
	for i := range want {
		if want[i] != got[i] {
			return fmt.Sprintf("bad:byte-%d-differs", i)
		}
	}
	return ""
}

// stress: one writer (Store, occasional Resize) and several readers (Get, GetAt
// on the most recent seqno/index) on a small cache; every returned packet must
// be byte-exactly a packet stored under that seqno (C05, concurrent readers).
func stress(capacity, readers, ms int) string {
	c := packetcache.New(capacity)
	var latest atomic.Uint64 // seqno<<16 | index
	var stop atomic.Bool
	var bad atomic.Value
	var wg sync.WaitGroup
	for r := 0; r < readers; r++ {
		wg.Add(1)
		go func(r int) {
			defer wg.Done()
			buf := make([]byte, packetcache.BufSize)
			for !stop.Load() {
				l := latest.Load()
				seqno, idx := uint16(l>>16), uint16(l)
				var n uint16
				if r%2 == 0 {
					n = c.GetAt(seqno, idx, buf)
				} else {
					n = c.Get(seqno, buf)
				}
				if n > 0 {
					if msg := checkStress(seqno, buf[:n]); msg != "" {
						bad.CompareAndSwap(nil, msg)
						return
					}
				}
			}
		}(r)
	}
	deadline := time.Now().Add(time.Duration(ms) * time.Millisecond)
	ctr := uint32(1)
	for time.Now().Before(deadline) && bad.Load() == nil {
		for k := 0; k < 200; k++ {
			_, idx := c.Store(uint16(ctr), ctr, false, ctr%3 == 0, stressPacket(ctr))
			latest.Store(uint64(uint16(ctr))<<16 | uint64(idx))
			ctr++
		}
		if ctr%5000 < 200 {
			c.Resize(capacity + int(ctr%3))
		}
	}
	stop.Store(true)
	wg.Wait()
	if m := bad.Load(); m != nil {
		return m.(string)
	}
	return "ok"
}

var caps = []int{1, 2, 3, 4, 7, 16, 31, 32, 33, 128, 1024, 65535}
var sizes = []int{1, 2, 12, 100, 1200, 1503, 1504}

func gen(t *common.Trace, e common.Engine, r *common.Rng, thorough bool) {
	ncases := 300
	nops := 400
	if thorough {
		ncases = 2500
		nops = 1500
	}
	// concurrent readers against one writer (C05)
	t.Case("stress")
	e.Reset()
	for _, capacity := range []int{2, 3, 16} {
		ms := 60
		if thorough {
			ms = 1500
		}
		common.Do(t, e, fmt.Sprintf("stress %d %d %d", capacity, 6, ms))
	}
	for ci := 0; ci < ncases; ci++ {
		t.Case(fmt.Sprint(ci))
		e.Reset()
		do := func(f string, args ...any) string { return common.Do(t, e, fmt.Sprintf(f, args...)) }
		capacity := common.Pick(r, caps...)
		if r.Intn(3) == 0 {
			capacity = r.Range(1, 300)
		}
		if capacity > 4096 && r.Intn(4) != 0 {
			capacity = r.Range(1, 64)
		}
		do("new %d", capacity)
		// stream profile
		seq := r.Intn(65536)
		switch r.Intn(4) {
		case 0:
			seq = common.Pick(r, 0, 1, 0x7FFF, 0x8000, 0xFF00, 0xFFF0, 0xFFFF)
		}
		smallAlphabet := r.Intn(5) == 0 // forces duplicate seqnos in the ring
		rate := common.Pick(r, 0, 60, 100, 150, 400, 1200, 5000)
		type rec struct{ seq, idx int }
		var recent []rec
		seedCtr := ci * 100000
		ts := r.Intn(1 << 32)
		steps := r.Range(nops/4, nops)
		for i := 0; i < steps; i++ {
			k := r.Weighted(60, 10, 8, 3, 3, 2, 2, 4, 3, 2, 3)
			switch k {
			case 0: // store, with a stream shape
				var s int
				shape := r.Weighted(60, 12, 8, 6, 4, 2, 2, 1)
				switch shape {
				case 0: // in order
					seq = (seq + 1) & 0xFFFF
					s = seq
				case 1: // loss burst
					seq = (seq + 1 + r.Range(1, common.Pick(r, 1, 2, 3, 8, 40))) & 0xFFFF
					s = seq
				case 2: // late / reordered
					s = (seq - r.Range(1, common.Pick(r, 3, 20, 40, 256, 300))) & 0xFFFF
				case 3: // duplicate of a recent one
					if len(recent) > 0 {
						s = recent[r.Intn(len(recent))].seq
					} else {
						s = seq
					}
				case 4: // forward jump
					seq = (seq + r.Range(33, common.Pick(r, 64, 257, 5000, 32767))) & 0xFFFF
					s = seq
				case 5: // backward jump beyond 256
					seq = (seq - r.Range(257, 40000)) & 0xFFFF
					s = seq
				case 6: // to the wrap
					seq = common.Pick(r, 0xFFFE, 0xFFFF, 0, 0x7FFF, 0x8000)
					s = seq
				case 7:
					s = r.Intn(65536)
				}
				if smallAlphabet {
					s = s & 7
				}
				t.Count(fmt.Sprintf("storeshape:%d", shape))
				n := common.Pick(r, sizes...)
				if r.Intn(2) == 0 {
					n = r.Range(1, packetcache.BufSize)
				}
				seedCtr++
				ts = (ts + r.Intn(4000)) & 0xFFFFFFFF
				res := do("store %d %d %s %s %d %d", s, ts, common.B2s(r.Intn(20) == 0),
					common.B2s(r.Intn(8) == 0), n, seedCtr)
				var first, idx int
				fmt.Sscanf(res, "%d %d", &first, &idx)
				recent = append(recent, rec{s, idx})
				if len(recent) > 600 {
					recent = recent[300:]
				}
				// the read loop's NACK decision (rtpreader.go:101-129)
				delta := (s - first) & 0xFFFF
				if delta&0x8000 != 0 {
					delta = 0
				}
				packets := rate / 50
				if packets > 24 {
					packets = 24
				}
				if packets < 2 {
					packets = 2
				}
				unnacked := 4
				if unnacked > packets {
					unnacked = packets
				}
				if delta > packets {
					t.Count("readloop-bitmapget")
					do("bitmapget %d", (s-unnacked)&0xFFFF)
				}
			case 1: // get
				var s int
				if len(recent) > 0 && r.Intn(5) != 0 {
					s = recent[len(recent)-1-r.Intn(min(len(recent), common.Pick(r, 2, 8, 64, 600)))].seq
				} else {
					s = r.Intn(65536)
				}
				if r.Intn(10) == 0 {
					s = (s + common.Pick(r, 1, -1, 0x8000)) & 0xFFFF
				}
				res := do("get %d", s)
				if res == "0 0" {
					t.Count("get:miss")
				} else {
					t.Count("get:hit")
				}
			case 2: // getat
				if len(recent) == 0 {
					continue
				}
				rc := recent[len(recent)-1-r.Intn(min(len(recent), common.Pick(r, 2, 8, 64, 600)))]
				s, idx := rc.seq, rc.idx
				switch r.Intn(8) {
				case 0:
					idx = r.Intn(70000) & 0xFFFF
				case 1:
					s = (s + 1) & 0xFFFF
				case 2:
					idx = (idx + 1) & 0xFFFF
				}
				res := do("getat %d %d", s, idx)
				if res == "0 0" {
					t.Count("getat:miss")
				} else {
					t.Count("getat:hit")
				}
			case 3: // resize
				c := common.Pick(r, caps...)
				if r.Intn(2) == 0 {
					c = r.Range(1, 300)
				}
				if c > 4096 && r.Intn(6) != 0 {
					c = r.Range(1, 64)
				}
				do("resize %d", c)
			case 4: // resizecond
				c := common.Pick(r, caps...)
				if r.Intn(2) == 0 {
					c = r.Range(1, 300)
				}
				if c > 4096 && r.Intn(6) != 0 {
					c = r.Range(1, 64)
				}
				t.Count("resizecond:" + do("resizecond %d", c))
			case 5:
				do("last")
			case 6:
				do("keyframe")
			case 7:
				do("stats %d", r.Intn(2))
			case 8: // arbitrary bitmapget
				do("bitmapget %d", (seq-r.Range(0, 40))&0xFFFF)
			case 9:
				do("expect %d", r.Range(-2, 50))
			case 10: // ToBitmap on a sorted list with gaps, possibly across the wrap
				n := r.Range(1, 24)
				s := r.Intn(65536)
				if r.Intn(3) == 0 {
					s = 0xFFF0 + r.Intn(16)
				}
				var sb strings.Builder
				sb.WriteString("tobitmap")
				for j := 0; j < n; j++ {
					fmt.Fprintf(&sb, " %d", s)
					s = (s + r.Range(1, common.Pick(r, 1, 3, 9, 30))) & 0xFFFF
				}
				do("%s", sb.String())
			}
		}
		// closing probe of C05: the newest packets must all be retrievable
		for j := 0; j < 20 && j < len(recent); j++ {
			do("get %d", recent[len(recent)-1-j].seq)
		}
		do("stats 1")
		do("stats 0")
	}
}

func main() { common.Main(&eng{}, gen) }
