// Engine `whip`: drives galene's real WHIP ingest handlers (webserver/whip.go:
// whipEndpointHandler, whipResourceHandler, reached through the real
// groupHandler/splitPath dispatch of webserver/webserver.go) and the real
// rtpconn.WhipClient in-process with net/http/httptest, against temporary
// groups/ and data/ directories and the real stateful token store, for the WHIP
// clause of C11 ("WHIP ingest is accepted only with credentials granting
// 'present', later requests on that session having to present the same bearer
// token") and the WHIP part of C12 (every request gets a response).
//
// Everything random on the wire is canonicalised so that traces are
// deterministic and replayable: session ids (newId + obfuscate) are named S1,
// S2, ... in order of creation, entity tags E1, E2, ... in order of first
// appearance; ops refer to them by these names.
//
// Strings in ops are escaped: every byte outside [A-Za-z0-9_.-] is %XX, the
// empty string is a lone `%`.
//
//	group <name> <max> <nb> <exp> <wild> <users>   => ok <state>   write groups/<name>.json (new version)
//	      nb, exp: none|past|future   wild: -|<pw>:<perm>   users: -|<name>:<pw>:<perm>;...
//	      pw: n (no password) e (plain "") x (plain "x") w (wildcard)   perm: role name | [a+b+c] raw list
//	badgroup <name>                                => ok <state>   write a description that does not parse
//	rmgroup <name>                                 => ok <state>   remove the description file
//	tok <name> <group> <sub> <user|%> <perms|%> <exp> <nb>  => ok|err <state>   token.Update(new stateful token)
//	tokexpire <name> | tokdel <name>               => ok|err <state>
//	lock <group> <0|1>                             => ok|nogroup <state>    group.Add + SetLocked
//	mock <Mn> <group> <Sn|->                       => ok|fail <state>       a non-WHIP member (system client) joins, under its
//	                                                                        own id (-) or under the id of session Sn (clients
//	                                                                        choose their ids: a web client may reuse one)
//	unmock <Mn>                                    => ok <state>
//	kick <Sn> | iceclose <Sn>                      => ok|nosession <state>  WhipClient.Kick / Close (what ICE failure calls)
//	req <via> <method> <path> <auth> <im> <inm> <ctype> <body>
//	      => <status> loc=<Sn|-|?> etag=<En|-> allow=<..> accept=<..> acam=<..> <state>
//	      via: g = groupHandler, e = whipEndpointHandler, r = whipResourceHandler (called directly)
//	      path: escaped; `@S1`/`@M1`/`@X1` inside it stand for the obfuscated id of session S1, of mock M1,
//	            of a well-formed id nobody has
//	      auth: the raw Authorization header (% = absent); im/inm: raw If-Match / If-None-Match with `"E1"` standing
//	            for the entity tag E1; ctype: raw Content-Type; body: a body kind (see bodies())
//	bearer <auth>                                  => <token>     webserver.parseBearerToken
//	deob <segment>                                 => ok|err      webserver.deobfuscate succeeds
//
// <state> = `st=<sessions>;<mocks> gr=<groups>`:
//	sessions  Sn/<group|->/<token>/<perms>/<En|->/<n|c<k>[!]>  for every WhipClient ever seen as a member, in creation order
//	          (group: the group whose client table holds it; `a!b` if c.Group() disagrees; n = no connection,
//	          c<k> = connection with remote ICE credentials number k, `!` = signalling state not stable)
//	mocks     Mn/<group|->
//	groups    names of the groups in memory, `*` appended when locked
package main

import (
	"bytes"
	"context"
	"crypto/sha256"
	"encoding/base64"
	"encoding/json"
	"fmt"
	"io"
	"log"
	"net"
	"net/http/httptest"
	"os"
	"path"
	"path/filepath"
	"regexp"
	"sort"
	"strings"
	"time"

	"github.com/pion/webrtc/v4"

	"github.com/jech/galene/conn"
	"github.com/jech/galene/group"
	"github.com/jech/galene/ice"
	"github.com/jech/galene/rtpconn"
	"github.com/jech/galene/token"
	"github.com/jech/galene/webserver"
	"github.com/jech/galene/zzverif/common"
)

// ---------------------------------------------------------------------------
// a non-WHIP member

type mock struct {
	id string
	g  *group.Group
	e  *eng
	// stream ids of WHIP sessions this member has been told are closed
	closed map[string]bool
}

func (m *mock) Group() *group.Group                  { return m.g }
func (m *mock) Addr() net.Addr                       { return nil }
func (m *mock) Id() string                           { return m.id }
func (m *mock) Username() string                     { return "mock" }
func (m *mock) Init(u string, p []string)            {}
func (m *mock) Permissions() []string                { return []string{"system"} }
func (m *mock) Data() map[string]interface{}         { return nil }
func (m *mock) Joined(g, kind string) error          { return nil }
func (m *mock) Kick(string, *string, string) error   { return nil }
func (m *mock) RequestConns(group.Client, *group.Group, string) error { return nil }
// A member that, the moment it is told a WHIP stream is gone, asks the publisher for its streams again (as a
// client whose request changes at that moment would): the closed stream must not be pushed to it any more.
func (m *mock) PushConn(g *group.Group, id string, up conn.Up, tracks []conn.UpTrack, replace string) error {
	if m.e == nil {
		return nil
	}
	if up == nil {
		if m.closed == nil {
			m.closed = map[string]bool{}
		}
		first := !m.closed[id]
		m.closed[id] = true
		if first {
			for _, s := range m.e.sessions {
				if s.c.Id() == id {
					s.c.RequestConns(m, g, "")
				}
			}
		}
		return nil
	}
	if m.closed[id] && m.e.ghost == "" {
		m.e.ghost = esc(m.id) + ":" + esc(id)
	}
	return nil
}
func (m *mock) PushClient(g, kind, id, username string, perms []string, data map[string]interface{}) error {
	return nil
}

// ---------------------------------------------------------------------------

type sess struct {
	name string
	c    *rtpconn.WhipClient
}

type eng struct {
	root, data, groups, static string

	ver      int
	sessions []*sess
	byPtr    map[*rtpconn.WhipClient]*sess
	mocks    map[string]*mock
	mockOrd  []string
	etagNo   map[string]int
	etags    []string
	ghost    string // member:stream pushed to a member after that member had been told the stream was closed
}

var (
	offerAudio, offerAV, offerNoMedia string
	offerUfrag, offerPwd             string
)

func tmpBase() string {
	if d := os.Getenv("VERIF_TMP"); d != "" {
		return d
	}
	if d := os.Getenv("VERIF_ROOT"); d != "" {
		p := filepath.Join(d, ".build", "tmp")
		if os.MkdirAll(p, 0700) == nil {
			return p
		}
	}
	return ""
}

func makeOffer(kinds string) string {
	api, err := group.APIFromNames(nil)
	if err != nil {
		panic(err)
	}
	pc, err := api.NewPeerConnection(webrtc.Configuration{})
	if err != nil {
		panic(err)
	}
	defer pc.Close()
	for i, k := range kinds {
		cap := webrtc.RTPCodecCapability{MimeType: webrtc.MimeTypeOpus, ClockRate: 48000, Channels: 2}
		if k == 'v' {
			cap = webrtc.RTPCodecCapability{MimeType: webrtc.MimeTypeVP8, ClockRate: 90000}
		}
		t, err := webrtc.NewTrackLocalStaticRTP(cap, fmt.Sprintf("t%d", i), "whip")
		if err != nil {
			panic(err)
		}
		_, err = pc.AddTransceiverFromTrack(t, webrtc.RTPTransceiverInit{Direction: webrtc.RTPTransceiverDirectionSendonly})
		if err != nil {
			panic(err)
		}
	}
	offer, err := pc.CreateOffer(nil)
	if err != nil {
		panic(err)
	}
	return offer.SDP
}

var ufragRe = regexp.MustCompile(`a=ice-ufrag:(\S+)`)
var pwdRe = regexp.MustCompile(`a=ice-pwd:(\S+)`)

func (e *eng) setup() {
	d, err := os.MkdirTemp(tmpBase(), "whip-")
	if err != nil {
		panic(err)
	}
	e.root = d
	e.data = filepath.Join(d, "data")
	e.groups = filepath.Join(d, "groups")
	e.static = filepath.Join(d, "static")
	os.MkdirAll(e.static, 0700)
	if err := webserver.VerifWhipSetStaticRoot(e.static); err != nil {
		panic(err)
	}
	if os.Getenv("VERIF_WHIP_LOG") == "" {
		log.SetOutput(io.Discard)
	}
	offerAudio = makeOffer("a")
	offerAV = makeOffer("av")
	// every offer carries the same ICE credentials
	if m, n := ufragRe.FindStringSubmatch(offerAudio), ufragRe.FindStringSubmatch(offerAV); m != nil && n != nil {
		offerAV = strings.ReplaceAll(offerAV, n[1], m[1])
	}
	if m, n := pwdRe.FindStringSubmatch(offerAudio), pwdRe.FindStringSubmatch(offerAV); m != nil && n != nil {
		offerAV = strings.ReplaceAll(offerAV, n[1], m[1])
	}
	// the session part of a real offer, without any media section
	if i := strings.Index(offerAudio, "m="); i >= 0 {
		offerNoMedia = offerAudio[:i]
	}
	if m := ufragRe.FindStringSubmatch(offerAudio); m != nil {
		offerUfrag = m[1]
	}
	if m := pwdRe.FindStringSubmatch(offerAudio); m != nil {
		offerPwd = m[1]
	}
	if offerUfrag == "" || offerPwd == "" {
		panic("no ufrag/pwd in the generated offer")
	}
}

func (e *eng) cleanup() {
	e.teardown()
	if e.root != "" {
		os.RemoveAll(e.root)
	}
}

func (e *eng) teardown() {
	for _, s := range e.sessions {
		s.c.Close()
	}
	for _, m := range e.mocks {
		if m.g != nil {
			group.DelClient(m)
			m.g = nil
		}
	}
	for _, n := range group.GetNames() {
		g := group.Get(n)
		if g == nil {
			continue
		}
		// whatever a broken build left behind
		for _, c := range g.GetClients(nil) {
			if w, ok := c.(*rtpconn.WhipClient); ok {
				w.Close()
			}
			group.DelClient(c)
		}
		if !group.Delete(n) {
			group.VerifWhipDropGroup(n)
		}
	}
}

func (e *eng) Reset() {
	if e.root == "" {
		e.setup()
	}
	e.teardown()
	os.RemoveAll(e.data)
	os.RemoveAll(e.groups)
	os.MkdirAll(filepath.Join(e.data, "var"), 0700)
	os.MkdirAll(e.groups, 0700)
	group.Directory = e.groups
	group.DataDirectory = e.data
	ice.ICEFilename = filepath.Join(e.data, "ice-servers.json")
	os.WriteFile(ice.ICEFilename, []byte("[]\n"), 0600)
	token.SetStatefulFilename(filepath.Join(e.data, "var", "tokens.jsonl"))
	e.sessions = nil
	e.byPtr = map[*rtpconn.WhipClient]*sess{}
	e.mocks = map[string]*mock{}
	e.ghost = ""
	e.mockOrd = nil
	e.etagNo = map[string]int{}
	e.etags = nil
}

// ---------------------------------------------------------------------------
// escaping

func isPlain(c byte) bool {
	return c >= '0' && c <= '9' || c >= 'a' && c <= 'z' || c >= 'A' && c <= 'Z' || c == '_' || c == '.' || c == '-'
}

func esc(s string) string {
	if s == "" {
		return "%"
	}
	var b strings.Builder
	for i := 0; i < len(s); i++ {
		c := s[i]
		if isPlain(c) {
			b.WriteByte(c)
		} else {
			fmt.Fprintf(&b, "%%%02X", c)
		}
	}
	return b.String()
}

func unesc(s string) string {
	if s == "%" {
		return ""
	}
	var b []byte
	for i := 0; i < len(s); i++ {
		if s[i] == '%' {
			var x int
			if i+2 >= len(s) {
				panic("bad escape in op: " + s)
			}
			if _, err := fmt.Sscanf(s[i+1:i+3], "%02X", &x); err != nil {
				panic("bad escape in op: " + s)
			}
			b = append(b, byte(x))
			i += 2
		} else {
			b = append(b, s[i])
		}
	}
	return string(b)
}

// ---------------------------------------------------------------------------
// descriptions and tokens

func pwJSON(pw string) (any, bool) {
	switch pw {
	case "n":
		return nil, false
	case "e":
		return "", true
	case "x":
		return "x", true
	case "w":
		return map[string]any{"type": "wildcard"}, true
	}
	panic("bad pw " + pw)
}

func permJSON(p string) any {
	if strings.HasPrefix(p, "[") && strings.HasSuffix(p, "]") {
		l := []string{}
		if in := p[1 : len(p)-1]; in != "" {
			for _, x := range strings.Split(in, "+") {
				l = append(l, unesc(x))
			}
		}
		return l
	}
	return p
}

func userJSON(pw, perm string) map[string]any {
	u := map[string]any{"permissions": permJSON(perm)}
	if v, ok := pwJSON(pw); ok {
		u["password"] = v
	}
	return u
}

func whenTime(w string) *time.Time {
	var t time.Time
	switch w {
	case "none":
		return nil
	case "past":
		t = time.Now().Add(-time.Hour)
	case "future":
		t = time.Now().Add(time.Hour)
	default:
		panic("bad time class " + w)
	}
	return &t
}

// writeGroupFile writes the description with a fresh, strictly increasing
// modification time and a size that differs from version to version.
func (e *eng) writeGroupFile(name string, content []byte) {
	e.ver++
	full := filepath.Join(e.groups, filepath.FromSlash(name)+".json")
	os.MkdirAll(filepath.Dir(full), 0700)
	if err := os.WriteFile(full, content, 0600); err != nil {
		panic(err)
	}
	t := time.Unix(978307200+int64(e.ver), 0)
	os.Chtimes(full, t, t)
}

func (e *eng) opGroup(op []string) string {
	name := unesc(op[1])
	d := map[string]any{"comment": strings.Repeat("v", e.ver+1)}
	if n := common.Atoi(op[2]); n != 0 {
		d["max-clients"] = n
	}
	if t := whenTime(op[3]); t != nil {
		d["not-before"] = t.Format(time.RFC3339)
	}
	if t := whenTime(op[4]); t != nil {
		d["expires"] = t.Format(time.RFC3339)
	}
	if op[5] != "-" {
		f := strings.Split(op[5], ":")
		d["wildcard-user"] = userJSON(f[0], f[1])
	}
	if op[6] != "-" {
		users := map[string]any{}
		for _, u := range strings.Split(op[6], ";") {
			f := strings.Split(u, ":")
			users[unesc(f[0])] = userJSON(f[1], f[2])
		}
		d["users"] = users
	}
	b, err := json.Marshal(d)
	if err != nil {
		panic(err)
	}
	e.writeGroupFile(name, b)
	return "ok"
}

func (e *eng) opTok(op []string) string {
	t := &token.Stateful{
		Token:            unesc(op[1]),
		Group:            unesc(op[2]),
		IncludeSubgroups: op[3] == "1",
		Permissions:      []string{},
		Expires:          whenTime(op[6]),
		NotBefore:        whenTime(op[7]),
	}
	if op[4] != "%" {
		u := unesc(op[4])
		t.Username = &u
	}
	if op[5] != "%" {
		for _, p := range strings.Split(op[5], "+") {
			t.Permissions = append(t.Permissions, unesc(p))
		}
	}
	if _, err := token.Update(t, ""); err != nil {
		return "err"
	}
	return "ok"
}

// ---------------------------------------------------------------------------
// state dump

func (e *eng) etagName(tag string) string {
	if tag == "" {
		return "-"
	}
	n, ok := e.etagNo[tag]
	if !ok {
		e.etags = append(e.etags, tag)
		n = len(e.etags)
		e.etagNo[tag] = n
	}
	return fmt.Sprintf("E%d", n)
}

func plus(l []string) string {
	if len(l) == 0 {
		return "%"
	}
	x := make([]string, len(l))
	for i, s := range l {
		x[i] = esc(s)
	}
	return strings.Join(x, "+")
}

func (e *eng) state() string {
	names := group.GetNames()
	sort.Strings(names)
	where := map[group.Client]string{}
	var fresh []*rtpconn.WhipClient
	var grs []string
	for _, n := range names {
		g := group.Get(n)
		if g == nil {
			continue
		}
		lk, _ := g.Locked()
		if lk {
			grs = append(grs, esc(n)+"*")
		} else {
			grs = append(grs, esc(n))
		}
		for _, c := range g.GetClients(nil) {
			where[c] = n
			if w, ok := c.(*rtpconn.WhipClient); ok && e.byPtr[w] == nil {
				fresh = append(fresh, w)
			}
		}
	}
	sort.Slice(fresh, func(i, j int) bool { return fresh[i].Id() < fresh[j].Id() })
	for _, w := range fresh {
		s := &sess{name: fmt.Sprintf("S%d", len(e.sessions)+1), c: w}
		e.sessions = append(e.sessions, s)
		e.byPtr[w] = s
	}
	var ss []string
	for _, s := range e.sessions {
		in, has := where[s.c]
		gname := "-"
		if has {
			gname = esc(in)
		}
		cg := "-"
		if g := s.c.Group(); g != nil {
			cg = esc(g.Name())
		}
		if cg != gname {
			gname = gname + "!" + cg
		}
		cf := "n"
		if rtpconn.VerifWhipHasConn(s.c) {
			// the remote ICE credentials in force (0 = the offer's), `!` = not in signalling state stable
			cf = "c?"
			// pion starts the ICE transport (which is what installs the remote credentials) from its
			// operations queue, asynchronously to SetLocalDescription: wait for it
			u, _, err := s.c.UFragPwd()
			for deadline := time.Now().Add(2 * time.Second); err == nil && u == "" && time.Now().Before(deadline); {
				time.Sleep(100 * time.Microsecond)
				u, _, err = s.c.UFragPwd()
			}
			if err == nil {
				for k, known := range ufrags() {
					if u == known {
						cf = fmt.Sprintf("c%d", k)
					}
				}
			}
			if rtpconn.VerifWhipSignalling(s.c) != "stable" {
				cf += "!"
			}
		}
		ss = append(ss, fmt.Sprintf("%s/%s/%s/%s/%s/%s", s.name, gname, esc(s.c.Token()), plus(s.c.Permissions()),
			e.etagName(s.c.ETag()), cf))
	}
	var ms []string
	for _, n := range e.mockOrd {
		m := e.mocks[n]
		in, has := where[m]
		if !has {
			in = "-"
		} else {
			in = esc(in)
		}
		ms = append(ms, n+"/"+in)
	}
	// members that are neither sessions nor mocks cannot exist; make them visible if they do
	for c, n := range where {
		if _, ok := c.(*rtpconn.WhipClient); ok {
			continue
		}
		if _, ok := c.(*mock); ok {
			continue
		}
		ms = append(ms, "alien/"+esc(n))
	}
	st := strings.Join(ss, ",")
	if st == "" {
		st = "-"
	}
	mst := strings.Join(ms, ",")
	if mst == "" {
		mst = "-"
	}
	gr := strings.Join(grs, ",")
	if gr == "" {
		gr = "-"
	}
	return "st=" + st + ";" + mst + " gr=" + gr
}

// ---------------------------------------------------------------------------
// requests

func idOfName(n string) string {
	h := sha256.Sum256([]byte("whip-id-" + n))
	return base64.RawURLEncoding.EncodeToString(h[:16])
}

var placeRe = regexp.MustCompile(`@([SMX])([0-9]+)`)
var etagRe = regexp.MustCompile(`"E([0-9]+)"`)

func (e *eng) substPath(p string) string {
	return placeRe.ReplaceAllStringFunc(p, func(m string) string {
		sub := placeRe.FindStringSubmatch(m)
		var id string
		switch sub[1] {
		case "S":
			n := common.Atoi(sub[2])
			if n >= 1 && n <= len(e.sessions) {
				id = e.sessions[n-1].c.Id()
			} else {
				id = idOfName("nosuch-" + m)
			}
		case "M": // the mock's own id (whatever id it is using at the moment)
			id = idOfName("M" + sub[2])
		case "X":
			id = idOfName("X" + sub[2])
		}
		o, err := webserver.VerifWhipObfuscate(id)
		if err != nil {
			panic(err)
		}
		return o
	})
}

func (e *eng) substEtags(h string) string {
	return etagRe.ReplaceAllStringFunc(h, func(m string) string {
		n := common.Atoi(etagRe.FindStringSubmatch(m)[1])
		if n >= 1 && n <= len(e.etags) {
			return e.etags[n-1]
		}
		return m
	})
}

const sdpLimit = 1024 * 1024

// the ICE credentials the bodies carry: index = the model's credential number
func ufrags() []string { return []string{offerUfrag, "zzzz9999", "yyyy8888"} }

func bodyBytes(kind string) []byte {
	cand := "a=candidate:1 1 UDP 2130706431 192.0.2.77 50000 typ host\r\n"
	same := "a=ice-ufrag:" + offerUfrag + "\r\na=ice-pwd:" + offerPwd + "\r\n"
	switch kind {
	case "empty":
		return nil
	case "offer":
		return []byte(offerAudio)
	case "offerav":
		return []byte(offerAV)
	case "offernomedia":
		return []byte(offerNoMedia)
	case "junk":
		return []byte("this is not a session description\r\n")
	case "halfsdp": // parses as SDP (newUpConn succeeds) but is no usable offer
		return []byte("v=0\r\no=- 1 1 IN IP4 0.0.0.0\r\ns=-\r\nt=0 0\r\nm=audio 9 UDP/TLS/RTP/SAVPF 111\r\nc=IN IP4 0.0.0.0\r\na=mid:0\r\n")
	case "big":
		return bytes.Repeat([]byte("v"), sdpLimit+1)
	case "fragsame":
		return []byte(same + "m=audio 9 UDP/TLS/RTP/SAVPF 0\r\na=mid:0\r\n" + cand)
	case "fragnocand":
		return []byte(same)
	case "fragbadcand":
		return []byte(same + "m=audio 9 UDP/TLS/RTP/SAVPF 0\r\na=mid:0\r\na=candidate:nonsense\r\n")
	case "fragrestart":
		return []byte("a=ice-ufrag:zzzz9999\r\na=ice-pwd:restartrestartrestart1234\r\nm=audio 9 UDP/TLS/RTP/SAVPF 0\r\na=mid:0\r\n" + cand)
	case "fragrestart2":
		return []byte("a=ice-ufrag:yyyy8888\r\na=ice-pwd:anotherrestartpassword5678\r\n" + cand)
	case "fragbad":
		return []byte("a=mid:0\r\n")
	case "fragjunk":
		return []byte("\x00\xff garbage\r\n=\r\n")
	}
	panic("bad body kind " + kind)
}

func (e *eng) opReq(op []string) string {
	via, method := op[1], op[2]
	pth := e.substPath(unesc(op[3]))
	auth, im, inm, ctype := unesc(op[4]), e.substEtags(unesc(op[5])), e.substEtags(unesc(op[6])), unesc(op[7])
	r := httptest.NewRequest(method, "http://galene.example/", bytes.NewReader(bodyBytes(op[8])))
	r.URL.Path = pth
	if auth != "" {
		r.Header.Set("Authorization", auth)
	}
	if im != "" {
		r.Header.Set("If-Match", im)
	}
	if inm != "" {
		r.Header.Set("If-None-Match", inm)
	}
	if ctype != "" {
		r.Header.Set("Content-Type", ctype)
	}
	ctx, cancel := context.WithTimeout(context.Background(), 10*time.Second)
	defer cancel()
	r = r.WithContext(ctx)
	rec := httptest.NewRecorder()
	switch via {
	case "g":
		webserver.VerifWhipGroupHandler(rec, r)
	case "e":
		webserver.VerifWhipEndpointHandler(rec, r)
	case "r":
		webserver.VerifWhipResourceHandler(rec, r)
	default:
		panic("bad via " + via)
	}
	res := rec.Result()
	io.Copy(io.Discard, res.Body)
	st := e.state() // names any new session
	loc := "-"
	if l := res.Header.Get("Location"); l != "" {
		loc = "?"
		for _, s := range e.sessions {
			o, err := webserver.VerifWhipObfuscate(s.c.Id())
			if err == nil && l == path.Join(pth, o) {
				loc = s.name
			}
		}
	}
	hdr := func(k string) string {
		v := res.Header.Get(k)
		if v == "" {
			return "-"
		}
		return esc(v)
	}
	return fmt.Sprintf("%d loc=%s etag=%s allow=%s accept=%s acam=%s %s", res.StatusCode, loc,
		e.etagName(res.Header.Get("ETag")), hdr("Allow"), hdr("Accept"), hdr("Access-Control-Allow-Methods"), st)
}

// ---------------------------------------------------------------------------

func (e *eng) session(name string) *sess {
	for _, s := range e.sessions {
		if s.name == name {
			return s
		}
	}
	return nil
}

func (e *eng) Exec(op []string) string {
	res := e.exec0(op)
	if e.ghost != "" && e.ghost != "reported" {
		res += " ghost=" + e.ghost
		e.ghost = "reported"
	}
	return res
}

func (e *eng) exec0(op []string) string {
	switch op[0] {
	case "bearer":
		return esc(webserver.VerifWhipParseBearerToken(unesc(op[1])))
	case "deob":
		if _, err := webserver.VerifWhipDeobfuscate(unesc(op[1])); err != nil {
			return "err"
		}
		return "ok"
	case "req":
		return e.opReq(op)
	}
	var res string
	switch op[0] {
	case "group":
		res = e.opGroup(op)
	case "badgroup":
		e.writeGroupFile(unesc(op[1]), []byte("{\"users\": 42"+strings.Repeat(" ", e.ver)))
		res = "ok"
	case "rmgroup":
		os.Remove(filepath.Join(e.groups, filepath.FromSlash(unesc(op[1]))+".json"))
		res = "ok"
	case "tok":
		res = e.opTok(op)
	case "tokexpire":
		old, etag, err := token.Get(unesc(op[1]))
		if err != nil {
			res = "err"
			break
		}
		n := old.Clone()
		n.Expires = whenTime("past")
		if _, err := token.Update(n, etag); err != nil {
			res = "err"
		} else {
			res = "ok"
		}
	case "tokdel":
		_, etag, err := token.Get(unesc(op[1]))
		if err == nil {
			err = token.Delete(unesc(op[1]), etag)
		}
		if err != nil {
			res = "err"
		} else {
			res = "ok"
		}
	case "lock":
		g, err := group.Add(unesc(op[1]), nil)
		if err != nil || g == nil {
			res = "nogroup"
			break
		}
		g.SetLocked(op[2] == "1", "")
		res = "ok"
	case "mock":
		if e.mocks[op[1]] != nil && e.mocks[op[1]].g != nil {
			res = "fail"
			break
		}
		id := idOfName(op[1])
		if op[3] != "-" {
			s := e.session(op[3])
			if s == nil {
				res = "fail"
				break
			}
			id = s.c.Id()
		}
		m := &mock{id: id, e: e}
		g, err := group.AddClient(unesc(op[2]), m, group.ClientCredentials{System: true})
		if err != nil {
			res = "fail"
			break
		}
		m.g = g
		if e.mocks[op[1]] == nil {
			e.mockOrd = append(e.mockOrd, op[1])
		}
		e.mocks[op[1]] = m
		res = "ok"
	case "unmock":
		if m := e.mocks[op[1]]; m != nil && m.g != nil {
			group.DelClient(m)
			m.g = nil
		}
		res = "ok"
	case "kick":
		s := e.session(op[1])
		if s == nil {
			res = "nosession"
			break
		}
		s.c.Kick("", nil, "bye")
		res = "ok"
	case "iceclose":
		s := e.session(op[1])
		if s == nil {
			res = "nosession"
			break
		}
		s.c.Close()
		res = "ok"
	default:
		panic("unknown op " + op[0])
	}
	return res + " " + e.state()
}

func main() {
	e := &eng{}
	defer e.cleanup()
	common.Main(e, gen)
}
