package main

// Generator of engine `whip`.  Three streams:
//   * directed scripts: one case per scenario the property names (same token / another valid token /
//     none / garbage / prefix and case variants; anonymous sessions; token deleted or expired after
//     creation; kicked and closed sessions; every way of not holding 'present'; refusals that must
//     leave nobody behind; entity-tag preconditions and ICE restarts; ids of mocks, of other groups'
//     sessions, malformed ids; descriptions removed or broken under a live session);
//   * random cases: 1-2 groups whose descriptions draw the `whip` and wildcard entries, limits and
//     opening times from palettes, 3-8 stateful tokens from a palette of permission sets, validity
//     classes and scopes, then 12-40 ops, mostly-valid requests on the sessions that exist plus
//     environment events (token deleted/expired, kick, ICE failure, lock, description rewritten);
//   * malformed stream: methods, paths, Authorization headers, preconditions, content types and
//     bodies drawn independently; and the pure functions parseBearerToken / deobfuscate on small
//     alphabets (exhaustively in the thorough tier).

import (
	"fmt"
	"strings"

	"github.com/jech/galene/zzverif/common"
)

// path token: escaped text with raw @-placeholders
func pathTok(parts ...string) string {
	var b strings.Builder
	for _, p := range parts {
		if strings.HasPrefix(p, "@") {
			b.WriteString(p)
		} else if p != "" {
			b.WriteString(esc(p))
		}
	}
	if b.Len() == 0 {
		return "%"
	}
	return b.String()
}

type gsess struct {
	name, group, token, etag string
	live                     bool
}

type gctx struct {
	t    *common.Trace
	e    common.Engine
	sess []gsess
}

// parse the `st=` token of a result to learn which sessions exist
func (g *gctx) learn(res string) {
	for _, f := range strings.Fields(res) {
		if !strings.HasPrefix(f, "st=") {
			continue
		}
		ss := strings.SplitN(f[3:], ";", 2)[0]
		g.sess = g.sess[:0]
		if ss == "-" {
			return
		}
		for _, e := range strings.Split(ss, ",") {
			p := strings.Split(e, "/")
			if len(p) != 6 {
				continue
			}
			grp := strings.SplitN(p[1], "!", 2)[0]
			gs := gsess{name: p[0], token: unesc(p[2]), etag: p[4], live: grp != "-"}
			if gs.live {
				gs.group = unesc(grp)
			}
			g.sess = append(g.sess, gs)
		}
	}
}

func (g *gctx) do(op string) string {
	res := common.Do(g.t, g.e, op)
	g.learn(res)
	return res
}

func (g *gctx) req(via, method, path, auth, im, inm, ctype, body string) string {
	res := g.do(fmt.Sprintf("req %s %s %s %s %s %s %s %s", via, method, path, esc(auth), esc(im), esc(inm), esc(ctype), body))
	st := strings.SplitN(res, " ", 2)[0]
	g.t.Count("status:" + method + ":" + st)
	return res
}

const (
	ctSDP  = "application/sdp"
	ctFrag = "application/trickle-ice-sdpfrag"
)

func endpoint(group string) string { return pathTok("/group/" + group + "/.whip") }
func resource(group, id string) string {
	return pathTok("/group/"+group+"/.whip/", id)
}

func (g *gctx) post(group, auth string) string {
	return g.req("g", "POST", endpoint(group), auth, "", "", ctSDP, "offer")
}
func (g *gctx) del(group, id, auth string) string {
	return g.req("g", "DELETE", resource(group, id), auth, "", "", "", "empty")
}
func (g *gctx) patch(group, id, auth, body string) string {
	return g.req("g", "PATCH", resource(group, id), auth, "", "", ctFrag, body)
}

// ---------------------------------------------------------------------------
// directed scripts

func directed(t *common.Trace, e common.Engine) {
	start := func(name string) *gctx {
		t.Case("d-" + name)
		e.Reset()
		return &gctx{t: t, e: e}
	}
	stdTokens := func(g *gctx) {
		g.do("tok tokP g1 0 % present+message future none")
		g.do("tok tokQ g1 0 % present future none")
		g.do("tok tokM g1 0 % message future none")
		g.do("tok tokOp g1 0 % op+present future none")
	}

	// later requests must carry the same bearer token
	g := start("same-token")
	g.do("group g1 0 none none - bob:x:op")
	stdTokens(g)
	g.post("g1", "Bearer tokP")
	for _, a := range []string{"Bearer tokQ", "Bearer tokOp", "Bearer tokM", "", "Bearer garbage", "Bearer tok", "Bearer tokPx",
		"Bearer TOKP", "Bearer tokp", "tokP", "Basic tokP", "Bearer  tokP", "Bearer tokP x", "Bearer", "Bearer ", "Bearer\ttokP"} {
		g.del("g1", "@S1", a)
		g.patch("g1", "@S1", a, "fragsame")
		g.patch("g1", "@S1", a, "fragrestart")
		g.req("g", "OPTIONS", resource("g1", "@S1"), a, "", "", "", "empty")
		g.req("g", "GET", resource("g1", "@S1"), a, "", "", "", "empty")
	}
	for _, a := range []string{"bearer tokP", " Bearer tokP\t", "Basic x, Bearer tokP", "Bearer tokP, Bearer tokQ", "BEARER tokP"} {
		g.patch("g1", "@S1", a, "fragsame")
	}
	g.patch("g1", "@S1", "Bearer tokQ, Bearer tokP", "fragsame")
	g.req("g", "OPTIONS", resource("g1", "@S1"), "Bearer tokP", "", "", "", "empty")
	g.req("g", "GET", resource("g1", "@S1"), "Bearer tokP", "", "", "", "empty")
	g.del("g1", "@S1", "Bearer tokP")
	g.del("g1", "@S1", "Bearer tokP")
	g.patch("g1", "@S1", "Bearer tokP", "fragsame")

	// a session created without a bearer token is not protected by one
	g = start("anonymous")
	g.do("group g1 0 none none - whip:e:present")
	stdTokens(g)
	g.post("g1", "")
	g.post("g1", "Basic d2hpcDo=")
	g.post("g1", "Bearer  tokP") // two blanks: no token is parsed, the anonymous login applies
	g.patch("g1", "@S1", "", "fragsame")
	g.patch("g1", "@S1", "Bearer whatever", "fragsame")
	g.del("g1", "@S1", "Bearer tokM")
	g.del("g1", "@S2", "")
	g.del("g1", "@S3", "Bearer tokP")
	// with a token, the token decides (the user entry `whip` makes the name a duplicate)
	g.post("g1", "Bearer tokP")
	g.post("g1", "Bearer tokM")

	// wildcard user, and what the `whip` entry needs
	for i, u := range []string{"w:present -", "e:present -", "x:present -", "n:present -", "w:message -", "w:op -", "w:[present] -", "w:[op] -", "w:[] -",
		"w:present whip:x:present", "w:present whip:n:present", "w:present whip:e:message", "w:message whip:w:present", "- whip:w:op", "- whip:e:[message+present]",
		"- whip:e:observe", "- bob:e:present", "- -"} {
		g = start(fmt.Sprintf("login-%d", i))
		g.do("group g1 0 none none " + u)
		g.post("g1", "")
		g.req("g", "OPTIONS", endpoint("g1"), "", "", "", "", "empty")
	}

	// every way of not holding 'present'
	g = start("no-present")
	g.do("group g1 0 none none - bob:x:op")
	g.do("group g2 0 none none - -")
	stdTokens(g)
	g.do("tok tokOnlyOp g1 0 % op future none")
	g.do("tok tokNone g1 0 % % future none")
	g.do("tok tokE g1 0 % present past none")
	g.do("tok tokX g1 0 % present none none")
	g.do("tok tokF g1 0 % present future future")
	g.do("tok tokB g1 0 % present future past")
	g.do("tok tokG2 g2 0 % present future none")
	g.do("tok tokAll % 1 % present future none")
	g.do("tok tokSubG g 1 % present future none")
	g.do("tok tokU g1 0 alice present future none")
	g.do("tok tokBadU g1 0 ..%2Fx present future none")
	g.do("tok tokWhip g1 0 whip present future none")
	g.do("tok tokP g1 0 % present future none") // exists already
	for _, tk := range []string{"tokM", "tokOnlyOp", "tokNone", "tokE", "tokX", "tokF", "tokG2", "tokSubG", "tokBadU", "nosuch", "a.b.c", ""} {
		g.post("g1", "Bearer "+tk)
	}
	for _, tk := range []string{"tokP", "tokQ", "tokOp", "tokB", "tokAll", "tokU", "tokWhip"} {
		g.post("g1", "Bearer "+tk)
	}
	g.post("g2", "Bearer tokG2")
	g.post("g2", "Bearer tokAll")
	g.post("g2", "Bearer tokP")

	// the creating token is deleted / expires: the session stays bound to the same string
	g = start("token-gone")
	g.do("group g1 0 none none - -")
	stdTokens(g)
	g.post("g1", "Bearer tokP")
	g.post("g1", "Bearer tokQ")
	g.do("tokdel tokP")
	g.do("tokexpire tokQ")
	g.post("g1", "Bearer tokP")
	g.post("g1", "Bearer tokQ")
	g.patch("g1", "@S1", "Bearer tokQ", "fragsame")
	g.patch("g1", "@S1", "Bearer tokOp", "fragsame")
	g.patch("g1", "@S1", "Bearer tokP", "fragsame")
	g.del("g1", "@S1", "Bearer tokP")
	g.del("g1", "@S2", "Bearer tokQ")
	g.do("tokdel tokP")
	g.do("tokexpire nosuch")

	// kicked / closed by ICE failure: the URL is dead
	g = start("closed")
	g.do("group g1 0 none none - -")
	stdTokens(g)
	g.post("g1", "Bearer tokP")
	g.post("g1", "Bearer tokP")
	g.post("g1", "Bearer tokQ")
	g.do("kick S1")
	g.do("iceclose S2")
	g.do("kick S1")
	g.do("kick S9")
	for _, s := range []string{"@S1", "@S2"} {
		g.patch("g1", s, "Bearer tokP", "fragsame")
		g.del("g1", s, "Bearer tokP")
		g.req("g", "OPTIONS", resource("g1", s), "Bearer tokP", "", "", "", "empty")
	}
	g.del("g1", "@S3", "Bearer tokQ")

	// refusals leave nobody behind: admission rules of AddClient, broken offers
	g = start("refused")
	g.do("group g1 2 none none - -")
	g.do("group g2 0 future none - -")
	g.do("group g3 0 none past - -")
	g.do("group g4 0 past future - -")
	stdTokens(g)
	g.do("tok tokAll % 1 % present future none")
	g.do("tok tokAllOp % 1 % op+present future none")
	g.do("mock M1 g1 -")
	g.post("g1", "Bearer tokP")
	g.post("g1", "Bearer tokQ") // full
	g.post("g1", "Bearer tokOp")
	g.do("unmock M1")
	g.post("g1", "Bearer tokQ") // still full: two sessions
	for _, gr := range []string{"g2", "g3", "g4"} {
		g.post(gr, "Bearer tokAll")
		g.post(gr, "Bearer tokAllOp")
	}
	g.do("lock g4 1")
	g.post("g4", "Bearer tokAll")
	g.post("g4", "Bearer tokAllOp")
	g.do("lock g4 0")
	g.post("g4", "Bearer tokAll")
	g.do("lock nosuch 1")
	for _, b := range []string{"junk", "empty", "halfsdp", "offernomedia", "fragsame", "big", "offerav"} {
		g.req("g", "POST", endpoint("g4"), "Bearer tokAll", "", "", ctSDP, b)
	}
	for _, ct := range []string{"", "text/plain", "APPLICATION/SDP", "application/sdp; charset=utf-8", "application/\xc5\xbfdp", "application/sdp "} {
		g.req("g", "POST", endpoint("g4"), "Bearer tokAll", "", "", ct, "offer")
	}
	for _, m := range []string{"GET", "HEAD", "PUT", "DELETE", "PATCH", "OPTIONS", "post"} {
		g.req("g", m, endpoint("g4"), "Bearer tokAll", "", "", ctSDP, "offer")
	}

	// preconditions and ICE restarts
	g = start("etags")
	g.do("group g1 0 none none - -")
	stdTokens(g)
	g.post("g1", "Bearer tokP") // E1
	a := "Bearer tokP"
	rp := resource("g1", "@S1")
	g.req("g", "PATCH", rp, a, `"E1"`, "", ctFrag, "fragsame")
	g.req("g", "PATCH", rp, a, `"E2"`, "", ctFrag, "fragsame")
	g.req("g", "PATCH", rp, a, `*`, "", ctFrag, "fragsame")
	g.req("g", "PATCH", rp, a, `W/"E1"`, "", ctFrag, "fragsame")
	g.req("g", "PATCH", rp, a, `"x", "E1"`, "", ctFrag, "fragsame")
	g.req("g", "PATCH", rp, a, "", `"E1"`, ctFrag, "fragsame")
	g.req("g", "PATCH", rp, a, "", `*`, ctFrag, "fragsame")
	g.req("g", "PATCH", rp, a, "", `"E7"`, ctFrag, "fragsame")
	g.req("g", "PATCH", rp, a, `"E1"`, "", ctFrag, "fragrestart") // E2
	g.req("g", "PATCH", rp, a, `"E1"`, "", ctFrag, "fragrestart")
	g.req("g", "PATCH", rp, a, `"E2"`, "", ctFrag, "fragrestart")
	g.req("g", "PATCH", rp, a, `"E2"`, "", ctFrag, "fragrestart2") // E3
	g.req("g", "PATCH", rp, a, "", "", ctFrag, "fragsame")         // E4
	g.req("g", "PATCH", rp, a, "", "", ctFrag, "fragjunk")         // stuck
	g.req("g", "PATCH", rp, a, "", "", ctFrag, "fragsame")
	g.req("g", "PATCH", rp, a, "", "", ctFrag, "fragrestart")
	g.req("g", "PATCH", rp, a, "", "", ctFrag, "empty")
	for _, b := range []string{"fragbad", "fragbadcand", "fragnocand", "big", "offer", "junk"} {
		g.req("g", "PATCH", rp, a, "", "", ctFrag, b)
	}
	for _, ct := range []string{"", ctSDP, "APPLICATION/TRICKLE-ICE-SDPFRAG", "application/tric\xe2\x84\xaale-ice-sdpfrag", ctFrag + ";x=y"} {
		g.req("g", "PATCH", rp, a, "", "", ct, "fragsame")
	}
	g.req("g", "DELETE", rp, a, `"E1"`, "", "", "empty")
	g.req("g", "DELETE", rp, a, "", `*`, "", "empty")
	g.req("g", "DELETE", rp, a, `"E4"`, `"E1"`, "", "empty")

	// ids: mocks, other groups' sessions, unknown and malformed ids
	g = start("ids")
	g.do("group g1 0 none none - whip:e:present")
	g.do("group g2 0 none none - whip:e:present")
	g.do("mock M1 g1 -")
	g.do("mock M1 g2 -")
	g.do("mock M2 nosuch -")
	g.post("g1", "")
	g.post("g2", "")
	for _, m := range []string{"DELETE", "PATCH", "OPTIONS"} {
		for _, p := range []string{resource("g1", "@M1"), resource("g2", "@S1"), resource("g1", "@S2"), resource("g1", "@X1"),
			resource("g1", "@S7"), resource("nosuch", "@S1"), resource("g1", "abc"), resource("g1", ""),
			resource("g1", "AAAAAAAAAAAAAAAAAAAAAA"), resource("g1", "AAAAAAAAAAAAAAAAAAAAAAA"), resource("g1", "AAAAAAAAAAAAAAAAAAAAA="),
			resource("g1", "AAAAAAAAAAA\nAAAAAAAAAAA"), pathTok("/group/g1/.whip/", "@S1", "/x"), pathTok("/group/g1/.whip//", "@S1"),
			pathTok("/group/g1/./.whip/", "@S1"), pathTok("/group/g1/../g1/.whip/", "@S1"), pathTok("/group//.whip/", "@S1"),
			pathTok("/group/.whip/", "@S1"), pathTok("/group/g1/.whipx/", "@S1"), pathTok("/group/g1/.whi"), pathTok("/group/g\\1/.whip/", "@S1")} {
			g.req("g", m, p, "", "", "", ctFrag, "fragsame")
		}
	}
	g.do("unmock M1")
	g.do("unmock M2")
	g.del("g1", "@S1", "")
	// the handlers called directly with paths the dispatcher would not give them
	for _, p := range []string{endpoint("g1"), resource("g2", "@S2"), pathTok("/group/g1/.status"), pathTok("/group/g1/"), pathTok("/x")} {
		g.req("e", "POST", p, "", "", "", ctSDP, "offer")
		g.req("r", "DELETE", p, "", "", "", "", "empty")
	}

	// a stale session URL whose id now names a non-WHIP member (web clients choose their own ids)
	g = start("stale-url")
	g.do("group g1 0 none none - whip:e:present")
	g.do("tok tokP g1 0 pub present future none")
	g.post("g1", "Bearer tokP")
	g.post("g1", "")
	g.do("mock M1 g1 S1") // duplicate id: refused
	g.del("g1", "@S1", "Bearer tokP")
	g.do("kick S2")
	g.do("mock M1 g1 S1")
	g.do("mock M2 g1 S2")
	g.do("mock M3 g1 S9")
	for _, m := range []string{"OPTIONS", "GET", "DELETE", "PATCH", "POST"} {
		g.req("g", m, resource("g1", "@S1"), "Bearer tokP", "", "", ctFrag, "fragsame")
		g.req("g", m, resource("g1", "@S2"), "", "", "", ctFrag, "fragsame")
		g.req("r", m, resource("g1", "@S1"), "", "", "", ctFrag, "fragsame")
	}
	g.do("kick S1")
	g.do("unmock M1")
	g.del("g1", "@S1", "Bearer tokP")
	g.do("unmock M2")
	g.post("g1", "Bearer tokP")

	// the description disappears or breaks under a live session
	g = start("description")
	g.do("group g1 0 none none - whip:e:present")
	g.post("g1", "")
	g.do("rmgroup g1")
	g.post("g1", "")
	g.req("g", "OPTIONS", endpoint("g1"), "", "", "", "", "empty")
	g.patch("g1", "@S1", "", "fragsame")
	g.do("badgroup g1")
	g.post("g1", "")
	g.do("group g1 0 none none - whip:e:message")
	g.post("g1", "")
	g.patch("g1", "@S1", "", "fragsame")
	g.del("g1", "@S1", "")
	g.do("rmgroup g1")
	g.post("g1", "")
	g.do("group g1 0 none none - whip:e:present")
	g.do("lock g1 1")
	g.do("rmgroup g1")
	g.post("g1", "") // the empty group leaves memory, and the lock with it
	g.do("group g1 0 none none - whip:e:present")
	g.post("g1", "")
}

// ---------------------------------------------------------------------------
// random cases

type tokSpec struct{ name, group, sub, user, perms, exp, nb string }

func tokenPalette(groups []string) []tokSpec {
	g1 := groups[0]
	g2 := "g2"
	if len(groups) > 1 {
		g2 = groups[1]
	}
	return []tokSpec{
		{"tokP", g1, "0", "%", "present+message", "future", "none"},
		{"tokQ", g1, "0", "%", "present", "future", "none"},
		{"tokPx", g1, "0", "%", "present", "future", "none"},
		{"TOKP", g1, "0", "%", "present", "future", "none"},
		{"tokOp", g1, "0", "%", "op+present+message", "future", "none"},
		{"tokOnlyOp", g1, "0", "%", "op", "future", "none"},
		{"tokM", g1, "0", "%", "message", "future", "none"},
		{"tokNone", g1, "0", "%", "%", "future", "none"},
		{"tokE", g1, "0", "%", "present", "past", "none"},
		{"tokX", g1, "0", "%", "present", "none", "none"},
		{"tokF", g1, "0", "%", "present", "future", "future"},
		{"tokB", g1, "0", "%", "present", "future", "past"},
		{"tokG2", g2, "0", "%", "present", "future", "none"},
		{"tokAll", "%", "1", "%", "present", "future", "none"},
		{"tokU", g1, "0", "alice", "present", "future", "none"},
		{"tokBadU", g1, "0", "a%2F..%2Fb", "present", "future", "none"},
	}
}

func authForms(r *common.Rng, tk string) string {
	switch r.Weighted(60, 4, 4, 3, 3, 3, 3, 3, 3, 3, 3, 2, 2, 2, 2) {
	case 0:
		return "Bearer " + tk
	case 1:
		return "bearer " + tk
	case 2:
		return "BeArEr " + tk
	case 3:
		return "Bearer  " + tk
	case 4:
		return "Bearer\t" + tk
	case 5:
		return " \tBearer " + tk + " \t"
	case 6:
		return "Basic eDp5, Bearer " + tk
	case 7:
		return "Bearer " + tk + ", Bearer other"
	case 8:
		return "Bearer other, Bearer " + tk
	case 9:
		return tk
	case 10:
		return "Bearer " + tk + " x"
	case 11:
		return "Token " + tk
	case 12:
		return "Bearer"
	case 13:
		return "Basic d2hpcDo="
	}
	return "Bearer " + tk + ","
}

// a credential for a request on a session whose creating token is tk
func wrongToken(r *common.Rng, tk string, pool []string) string {
	switch r.Weighted(30, 10, 10, 8, 8, 8, 8, 8, 5) {
	case 0:
		return "Bearer " + common.Pick(r, pool...)
	case 1:
		return ""
	case 2:
		return "Bearer garbage"
	case 3:
		if len(tk) > 1 {
			return "Bearer " + tk[:len(tk)-1]
		}
	case 4:
		return "Bearer " + tk + "x"
	case 5:
		return "Bearer " + strings.ToUpper(tk)
	case 6:
		return "Bearer " + strings.ToLower(tk)
	case 7:
		if len(tk) > 1 {
			return "Bearer " + tk[1:]
		}
	}
	return "Bearer " + tk + " "
}

func randomCase(t *common.Trace, e common.Engine, r *common.Rng, i int, thorough bool) {
	t.Case(fmt.Sprintf("r%d", i))
	e.Reset()
	g := &gctx{t: t, e: e}
	groups := []string{"g1"}
	if r.Intn(2) == 0 {
		groups = append(groups, common.Pick(r, "g2", "g2", "a b", "x.y"))
	}
	whips := []string{"", "", "", "", "", "", "", "", "", "", "", "", "", "", "", "", "", "", "", "", "", "", "", "", "", "", "", "", "", "", "", "", "", "whip:e:present", "whip:w:present", "whip:e:op", "whip:e:message", "whip:e:observe", "whip:x:present",
		"whip:n:present", "whip:e:[present]", "whip:e:[message]", "whip:e:[op]", "whip:e:[]"}
	others := []string{"", "", "bob:x:op", "alice:e:present", "bob:x:op;alice:e:present"}
	wilds := []string{"-", "-", "-", "-", "w:present", "e:present", "w:message", "x:present", "w:op", "n:present", "w:[present+message]"}
	writeGroup := func(name string) {
		var us []string
		if w := common.Pick(r, whips...); w != "" {
			us = append(us, w)
		}
		if o := common.Pick(r, others...); o != "" {
			us = append(us, o)
		}
		users := "-"
		if len(us) > 0 {
			users = strings.Join(us, ";")
		}
		max := []int{0, 0, 0, 0, 0, 1, 2, 3}[r.Intn(8)]
		nb := []string{"none", "past", "future"}[r.Weighted(13, 2, 1)]
		exp := []string{"none", "future", "past"}[r.Weighted(13, 2, 1)]
		g.do(fmt.Sprintf("group %s %d %s %s %s %s", esc(name), max, nb, exp, common.Pick(r, wilds...), users))
	}
	for _, n := range groups {
		writeGroup(n)
	}
	pal := tokenPalette(groups)
	var toks []string
	addTok := func(s tokSpec) {
		for _, have := range toks {
			if have == s.name && r.Intn(8) != 0 {
				return
			}
		}
		g.do(fmt.Sprintf("tok %s %s %s %s %s %s %s", s.name, esc(unesc(s.group)), s.sub, s.user, s.perms, s.exp, s.nb))
		toks = append(toks, s.name)
	}
	addTok(pal[0])
	addTok(pal[1])
	addTok(pal[4])
	good := []string{"tokP", "tokQ", "tokOp"}
	for k := r.Range(1, 6); k > 0; k-- {
		addTok(pal[r.Intn(len(pal))])
	}
	pool := append([]string{"nosuch", "a.b.c"}, toks...)
	// the token to delete or expire: the three good ones less often
	victim := func() string {
		v := common.Pick(r, pool...)
		if (v == "tokP" || v == "tokQ" || v == "tokOp") && r.Intn(3) != 0 {
			v = common.Pick(r, pool...)
		}
		return v
	}
	nmock := 0
	nops := r.Range(12, 40)
	for k := 0; k < nops; k++ {
		var live, dead []gsess
		for _, s := range g.sess {
			if s.live {
				live = append(live, s)
			} else {
				dead = append(dead, s)
			}
		}
		w := r.Weighted(26, 50, 3, 3, 4, 3, 3, 2, 1, 3)
		if len(g.sess) == 0 && w == 1 {
			w = 0
		}
		switch w {
		case 0: // POST
			grp := groups[0]
			if r.Intn(4) == 0 {
				grp = common.Pick(r, groups...)
			}
			if r.Intn(16) == 0 {
				grp = "nosuch"
			}
			auth := ""
			switch r.Weighted(55, 12, 33) {
			case 0:
				auth = authForms(r, common.Pick(r, good...))
			case 1:
				auth = ""
			case 2:
				auth = authForms(r, common.Pick(r, pool...))
			}
			ct := ctSDP
			if r.Intn(14) == 0 {
				ct = common.Pick(r, "", "text/plain", "Application/SDP", ctFrag)
			}
			body := "offer"
			if r.Intn(8) == 0 {
				body = common.Pick(r, "offerav", "junk", "empty", "halfsdp", "offernomedia", "big", "fragsame")
			}
			method := "POST"
			if r.Intn(14) == 0 {
				method = common.Pick(r, "OPTIONS", "GET", "PUT", "DELETE", "PATCH", "HEAD")
			}
			g.req("g", method, endpoint(grp), auth, "", "", ct, body)
		case 1: // a request on a session
			var s gsess
			idTok := ""
			switch {
			case len(live) > 0 && r.Intn(100) < 75:
				s = live[r.Intn(len(live))]
				idTok = "@" + s.name
			case len(dead) > 0 && r.Intn(100) < 60:
				s = dead[r.Intn(len(dead))]
				s.group = groups[0]
				idTok = "@" + s.name
			default:
				s = g.sess[r.Intn(len(g.sess))]
				if s.group == "" {
					s.group = groups[0]
				}
				idTok = common.Pick(r, "@X1", "@X2", "@S99", "@M1", "@M2", "abc", "", "AAAAAAAAAAAAAAAAAAAAAA", "AAAAAAAAAAAAAAAAAAAAAAAA")
			}
			grp := s.group
			if r.Intn(12) == 0 {
				grp = common.Pick(r, append([]string{"nosuch"}, groups...)...)
			}
			method := []string{"DELETE", "PATCH", "OPTIONS", "GET", "POST", "HEAD", "PUT", "delete"}[r.Weighted(25, 45, 10, 8, 5, 3, 2, 2)]
			auth := ""
			if s.token == "" {
				auth = common.Pick(r, "", "", "Bearer "+common.Pick(r, pool...))
			} else if r.Intn(100) < 62 {
				auth = authForms(r, s.token)
			} else {
				auth = wrongToken(r, s.token, pool)
			}
			cur := `"` + s.etag + `"`
			im := ""
			if r.Intn(100) < 30 {
				im = common.Pick(r, cur, cur, cur, `"E1"`, `"E2"`, `*`, `"bogus"`, `W/`+cur, `"x", `+cur, cur+` , "y"`, `garbage`)
			}
			inm := ""
			if r.Intn(100) < 12 {
				inm = common.Pick(r, cur, `*`, `"E1"`, `"bogus"`)
			}
			ct := ""
			body := "empty"
			if method == "PATCH" || r.Intn(10) == 0 {
				ct = ctFrag
				if r.Intn(12) == 0 {
					ct = common.Pick(r, "", ctSDP, "Application/Trickle-Ice-Sdpfrag", "text/plain")
				}
				body = []string{"fragsame", "fragnocand", "fragrestart", "fragrestart2", "fragbad", "fragjunk", "empty", "big", "offer", "fragbadcand"}[r.Weighted(35, 10, 18, 6, 6, 6, 4, 2, 4, 4)]
			}
			via := "g"
			if r.Intn(25) == 0 {
				via = "r"
			}
			g.req(via, method, resource(grp, idTok), auth, im, inm, ct, body)
		case 2:
			g.do("tokdel " + victim())
		case 3:
			g.do("tokexpire " + victim())
		case 4:
			addTok(pal[r.Intn(len(pal))])
			pool = append([]string{"nosuch", "a.b.c"}, toks...)
		case 5:
			if len(g.sess) > 0 {
				g.do(common.Pick(r, "kick", "iceclose") + " " + g.sess[r.Intn(len(g.sess))].name)
			} else {
				g.do("kick S1")
			}
		case 6:
			g.do(fmt.Sprintf("lock %s %d", esc(common.Pick(r, groups...)), r.Intn(2)))
		case 7:
			writeGroup(common.Pick(r, groups...))
		case 8:
			if r.Intn(2) == 0 {
				g.do("rmgroup " + esc(common.Pick(r, groups...)))
			} else {
				g.do("badgroup " + esc(common.Pick(r, groups...)))
			}
		case 9:
			if nmock > 0 && r.Intn(2) == 0 {
				g.do(fmt.Sprintf("unmock M%d", 1+r.Intn(nmock)))
			} else {
				if nmock < 2 {
					nmock++
				}
				as := "-"
				if len(g.sess) > 0 && r.Intn(3) == 0 {
					as = g.sess[r.Intn(len(g.sess))].name // usually a session that has ended; a live one is a duplicate id
				}
				g.do(fmt.Sprintf("mock M%d %s %s", 1+r.Intn(nmock), esc(common.Pick(r, groups...)), as))
			}
		}
	}
}

// ---------------------------------------------------------------------------
// malformed stream

func malformedCase(t *common.Trace, e common.Engine, r *common.Rng, i int) {
	t.Case(fmt.Sprintf("m%d", i))
	e.Reset()
	g := &gctx{t: t, e: e}
	g.do("group g1 0 none none w:present -")
	g.do("tok tokP g1 0 % present future none")
	g.post("g1", "Bearer tokP")
	g.post("g1", "")
	segs := []string{"group", "g1", "g2", ".whip", ".whip", ".whipx", ".status", ".", "..", "", "@S1", "@S2", "@X1", "@S1x", "x@S1", "@S", "@", "abc", "a\\b", "%", ".whip.x"}
	methods := []string{"GET", "POST", "DELETE", "PATCH", "OPTIONS", "HEAD", "PUT", "TRACE", "patch"}
	auths := []string{"", "Bearer tokP", "Bearer", "Bearer ,", ",", " , ,", "Bearer\x00tokP", "bearer tokP tokP", "\xff\xfe", "Bearer tokP,Bearer tokP",
		"B\xc5\xbfarer tokP", "Bearer=tokP", "Bearer tokP;", strings.Repeat("Bearer x,", 50)}
	conds := []string{"", "*", `"E1"`, `"E1`, `E1"`, `W/"E1"`, `,,,"E1"`, `"E1" "E2"`, `"E\x7f"`, "\x00", `"" , *`, `W/`, `"E1",*`}
	cts := []string{"", ctSDP, ctFrag, "application/sdp\x00", "application", "*/*", "application/SDP", "application/trickle-ice-\xc5\xbfdpfrag"}
	bodies := []string{"empty", "offer", "offerav", "junk", "halfsdp", "offernomedia", "big", "fragsame", "fragnocand", "fragbadcand", "fragrestart", "fragbad", "fragjunk"}
	for k := r.Range(10, 30); k > 0; k-- {
		n := r.Range(1, 6)
		var parts []string
		for j := 0; j < n; j++ {
			parts = append(parts, "/")
			s := common.Pick(r, segs...)
			if j == 0 && r.Intn(4) != 0 {
				s = "group"
			}
			if j == 1 && r.Intn(3) != 0 {
				s = "g1"
			}
			if j == 2 && r.Intn(3) != 0 {
				s = ".whip"
			}
			parts = append(parts, s)
		}
		if r.Intn(8) == 0 {
			parts = append(parts, "/")
		}
		p := pathTok(parts...)
		// paths that belong to other handlers are out of scope
		raw := unescPath(p)
		if !inScope(raw) {
			continue
		}
		via := common.Pick(r, "g", "g", "g", "g", "e", "r")
		g.req(via, common.Pick(r, methods...), p, common.Pick(r, auths...), common.Pick(r, conds...), common.Pick(r, conds...),
			common.Pick(r, cts...), common.Pick(r, bodies...))
	}
}

func unescPath(tok string) string { return unesc(tok) }

// inScope: the dispatcher sends the path to a WHIP handler or answers 404 itself
func inScope(p string) bool {
	i := strings.Index(p, "/.")
	if i < 0 {
		return false
	}
	kind := p[i+1:]
	rest := ""
	if j := strings.Index(kind, "/"); j >= 0 {
		kind, rest = kind[:j], kind[j:]
	}
	if (kind == ".status" || kind == ".status.json") && rest == "" {
		return false
	}
	return true
}

func pureStream(t *common.Trace, e common.Engine, r *common.Rng, thorough bool) {
	t.Case("pure")
	e.Reset()
	words := []string{"Bearer", "bearer", " ", "\t", ",", "x", "tok"}
	if thorough {
		// every sequence of up to 5 words
		var rec func(prefix string, depth int)
		rec = func(prefix string, depth int) {
			common.Do(t, e, "bearer "+esc(prefix))
			if depth == 0 {
				return
			}
			for _, w := range words {
				rec(prefix+w, depth-1)
			}
		}
		rec("", 5)
	} else {
		for k := 0; k < 400; k++ {
			var s string
			for j := r.Intn(7); j > 0; j-- {
				s += common.Pick(r, words...)
			}
			common.Do(t, e, "bearer "+esc(s))
		}
	}
	more := []string{"BEARER x", "bEaReR x", "Bearerſ x", "BKearer x", "bearerx y", "Bearer x\t", "\tBearer x", "Bearer\tx", "Bearer x y", "Bearer x,Bearer y",
		"Basic a, bearer b , bearer c", "Bearer é", "bearer ", " bearer", ",,,", "Bearer x\n", "Bearer\nx", "\xffBearer x"}
	for _, s := range more {
		common.Do(t, e, "bearer "+esc(s))
	}
	alpha := []string{"A", "z", "0", "-", "_", "=", "+", "/", "\n", "\r", " ", "@", "S", "1", "\xff"}
	nd := 300
	if thorough {
		nd = 6000
	}
	for k := 0; k < nd; k++ {
		n := []int{0, 1, 16, 20, 21, 22, 22, 22, 23, 24, 32}[r.Intn(11)]
		var s string
		for j := 0; j < n; j++ {
			if r.Intn(12) == 0 {
				s += common.Pick(r, alpha...)
			} else {
				s += common.Pick(r, "A", "z", "0", "-", "_")
			}
		}
		if strings.HasPrefix(s, "@") {
			continue // reserved for placeholders
		}
		common.Do(t, e, "deob "+esc(s))
	}
}

func gen(t *common.Trace, e common.Engine, r *common.Rng, thorough bool) {
	r = common.NewRng(r.U64())
	directed(t, e)
	n, m := 220, 40
	if thorough {
		n, m = 4000, 600
	}
	for i := 0; i < n; i++ {
		randomCase(t, e, r, i, thorough)
	}
	for i := 0; i < m; i++ {
		malformedCase(t, e, r, i)
	}
	pureStream(t, e, r, thorough)
}
